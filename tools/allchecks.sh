#!/bin/bash
# development helper: run every registered quick check (optionally against VERIF_REPO) and summarise
cd /verif
for p in $(python3 -c "import json; print(' '.join(c['property_id'] for c in json.load(open('MANIFEST.json'))['checks']))") "$@"; do
  out=$(python3 tools/check.py run $p --tier quick 2>&1); rc=$?
  echo "$p exit=$rc $(echo "$out" | grep -c '^VIOLATION') violations, $(echo "$out" | grep -c '^KNOWN-FINDING') known | $(echo "$out" | tail -1 | cut -c1-120)"
done
