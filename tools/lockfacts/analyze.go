package main

import (
	"fmt"
	"go/ast"
	"go/token"
	"go/types"
	"strings"

	"golang.org/x/tools/go/cfg"
)

// walker applies the transfer function of one CFG node to a state, optionally emitting rows.
type walker struct {
	w     *world
	fn    *Fn
	info  *types.Info
	st    state
	emit  bool
	rows  []row
	calls []callSite
	// deferred lock releases seen so far are applied at function exit
	deferRel []string   // facts "L:lock|M"
	sc       *scopeNode // non-nil in scoped (context-sensitive) mode
	curOp    string     // sync/atomic operation being applied to the selector under evaluation
}

func (w *world) analyze(fn *Fn, emit bool) {
	entry := state{must: fn.entryMust.clone(), may: fn.entryMay.clone()}
	if entry.must == nil {
		entry.must = set{}
	}
	fn.rows, fn.calls, fn.exitMust, fn.exitMay = w.runFn(fn, entry, emit, nil)
}

// runFn: flow-sensitive analysis of one function body from the given entry state.
// With sc != nil (scoped, context-sensitive mode) calls into functions of these packages are followed:
// the callee is analysed for exactly the lock state at the call and its exit state replaces the caller's.
func (w *world) runFn(fn *Fn, entry state, emit bool, sc *scopeNode) (rows []row, calls []callSite, exitMust, exitMay set) {
	g := fn.g
	in := make([]state, len(g.Blocks))
	out := make([]state, len(g.Blocks))
	preds := make([][]int32, len(g.Blocks))
	for _, b := range g.Blocks {
		for _, s := range b.Succs {
			preds[s.Index] = append(preds[s.Index], b.Index)
		}
	}
	run := func(b *cfg.Block, st state, emit bool) (*walker, state) {
		wk := &walker{w: w, fn: fn, info: fn.pkg.TypesInfo, st: st.clone(), emit: emit, sc: sc}
		for _, n := range b.Nodes {
			wk.node(n)
		}
		return wk, wk.st
	}
	// dataflow to fixpoint
	for iter := 0; iter < 200; iter++ {
		changed := false
		for _, b := range g.Blocks {
			if !b.Live {
				continue
			}
			var st state
			if b.Index == 0 {
				st = entry.clone()
			} else {
				st = state{must: nil, may: set{}}
				for _, p := range preds[b.Index] {
					if out[p].must == nil {
						continue
					}
					st.must = meet(st.must, out[p].must)
					st.may = union(st.may, out[p].may)
				}
				if st.must == nil {
					continue // not reached yet
				}
			}
			_, o := run(b, st, false)
			if in[b.Index].must == nil || !o.must.eq(out[b.Index].must) || !o.may.eq(out[b.Index].may) {
				changed = true
			}
			in[b.Index], out[b.Index] = st, o
		}
		if !changed {
			break
		}
	}
	// final pass: rows, call sites, exit state
	exitMay = set{}
	var allDefer []string
	for _, b := range g.Blocks {
		if !b.Live || in[b.Index].must == nil {
			continue
		}
		wk, o := run(b, in[b.Index], emit)
		rows = append(rows, wk.rows...)
		calls = append(calls, wk.calls...)
		allDefer = append(allDefer, wk.deferRel...)
		if len(b.Succs) == 0 {
			exitMust = meet(exitMust, o.must)
			exitMay = union(exitMay, o.may)
		}
	}
	// deferred releases run at every exit (a defer that was not reached on some path releases nothing there;
	// on this code base defers directly follow the acquisition, a mismatch shows up as an unbalanced function)
	for _, f := range allDefer {
		if exitMust != nil {
			delete(exitMust, f)
		}
		delete(exitMay, f)
		lock := f[2:strings.LastIndex(f, "|")]
		closeSections(exitMay, lock)
	}
	return
}

// closeSections: the lock is released: its section instances end (remembered as "P:" = a section of this
// lock opened at that site has been completed earlier in this execution).
func closeSections(may set, lock string) {
	for f := range may {
		if strings.HasPrefix(f, "S:"+lock+"|") {
			delete(may, f)
			id := strings.TrimSuffix(f[len("S:"+lock+"|"):], "+")
			may["P:"+lock+"|"+id] = true
		}
	}
}

// secFacts: the section-instance facts of a may set, as "lock|id" strings
func secList(may set) []string {
	var r []string
	for _, f := range may.sorted() {
		if strings.HasPrefix(f, "S:") {
			r = append(r, f[2:])
		}
	}
	return r
}

// ---------------------------------------------------------------------------
// scoped (context-sensitive) analysis: accesses as executed within a root function and its callees

type scopeNode struct {
	fn       *Fn
	key      string
	rows     []row
	children []*scopeNode
	exitMust set
	exitMay  set
	done     bool
}

func relFacts(s set) set {
	r := set{}
	for k := range s {
		if strings.HasPrefix(k, "X:") {
			r[k] = true
		}
	}
	return r
}

func lspFacts(s set) set {
	r := set{}
	for k := range s {
		if strings.HasPrefix(k, "L:") || strings.HasPrefix(k, "S:") || strings.HasPrefix(k, "P:") {
			r[k] = true
		}
	}
	return r
}

func (w *world) scoped(fn *Fn, entry state) *scopeNode {
	key := fn.key + "||" + strings.Join(entry.must.sorted(), ",") + "||" + strings.Join(entry.may.sorted(), ",")
	if n := w.scopeMemo[key]; n != nil {
		if !n.done {
			return nil // recursion: treated as having no effect on the lock state
		}
		return n
	}
	n := &scopeNode{fn: fn, key: key}
	w.scopeMemo[key] = n
	rows, _, em, ey := w.runFn(fn, entry, true, n)
	n.rows, n.exitMust, n.exitMay = rows, em, ey
	// children were appended during every dataflow iteration: keep each once
	seen := map[*scopeNode]bool{}
	var ch []*scopeNode
	for _, c := range n.children {
		if !seen[c] {
			seen[c] = true
			ch = append(ch, c)
		}
	}
	n.children = ch
	n.done = true
	return n
}

// enterCallee (scoped mode): analyse the callees for the lock state at the call and continue with their exit state.
func (k *walker) enterCallee(callees []*Fn) {
	entry := state{must: lockFacts(k.st.must), may: lspFacts(k.st.may)}
	var outMust, outMay, outRel set
	any := false
	for _, c := range callees {
		n := k.w.scoped(c, entry.clone())
		if n == nil {
			continue
		}
		if k.emit {
			k.sc.children = append(k.sc.children, n)
		}
		if n.exitMust == nil {
			continue // does not return
		}
		any = true
		outMust = meet(outMust, lockFacts(n.exitMust))
		outMay = union(outMay, lspFacts(n.exitMay))
		// "certainly acquired and released earlier" also holds after a helper that did so on every path
		// (a lock/check/unlock prologue extracted into a method), exactly as if the helper were inlined
		outRel = meet(outRel, relFacts(n.exitMust))
	}
	if !any {
		return
	}
	for f := range outRel {
		k.st.must[f] = true
	}
	for f := range k.st.must {
		if strings.HasPrefix(f, "L:") {
			delete(k.st.must, f)
		}
	}
	for f := range lspFacts(k.st.may) {
		delete(k.st.may, f)
	}
	for f := range outMust {
		k.st.must[f] = true
	}
	for f := range outMay {
		k.st.may[f] = true
	}
}

// ---------------------------------------------------------------------------

func (k *walker) heldLists() (must, may, rel []string) {
	for _, f := range k.st.must.sorted() {
		if strings.HasPrefix(f, "L:") {
			must = append(must, f[2:])
		} else if strings.HasPrefix(f, "X:") {
			rel = append(rel, f[2:])
		}
	}
	for _, f := range k.st.may.sorted() {
		if strings.HasPrefix(f, "L:") {
			may = append(may, f[2:])
		}
	}
	return
}

func (k *walker) base(kind string, p token.Pos) row {
	f, l, c := k.w.pos(p)
	r := row{kind: kind, file: f, line: l, col: c, fn: k.fn.key}
	r.must, r.may, r.rel = k.heldLists()
	r.sec = secList(k.st.may)
	return r
}

func (k *walker) unknown(p token.Pos, what string) {
	if !k.emit {
		return
	}
	r := k.base("unknown", p)
	r.what = what
	k.rows = append(k.rows, r)
}

func (k *walker) access(p token.Pos, fv *types.Var, akind string, atomic, fresh bool) {
	k.accessOp(p, fv, akind, atomic, fresh, "")
}

func (k *walker) accessOp(p token.Pos, fv *types.Var, akind string, atomic, fresh bool, op string) {
	owner := k.w.fieldOwner[fv]
	if !trackedStructs[owner] || isSyncLock(fv.Type()) {
		return
	}
	if !k.emit {
		return
	}
	r := k.base("access", p)
	r.typ, r.field, r.akind, r.atomic, r.fresh, r.op = owner, fv.Name(), akind, atomic, fresh, op
	k.rows = append(k.rows, r)
}

func (k *walker) block(p token.Pos, bkind, what, lock string) {
	if !k.emit {
		return
	}
	r := k.base("block", p)
	r.typ, r.what, r.lock = bkind, what, lock
	k.rows = append(k.rows, r)
}

func (k *walker) exprText(e ast.Expr) string {
	return types.ExprString(e)
}

// freshVar: the local variable an identifier denotes if it is currently certainly fresh.
func (k *walker) freshKey(id *ast.Ident) string {
	obj := k.info.Uses[id]
	if obj == nil {
		obj = k.info.Defs[id]
	}
	if v, ok := obj.(*types.Var); ok && !v.IsField() {
		key := fmt.Sprintf("F:%s@%d", v.Name(), v.Pos())
		if k.st.must[key] {
			return key
		}
	}
	return ""
}

func (k *walker) killFresh(id *ast.Ident) {
	if key := k.freshKey(id); key != "" {
		delete(k.st.must, key)
	}
}

func (k *walker) isFreshCompositeOfTracked(e ast.Expr) bool {
	e = ast.Unparen(e)
	if u, ok := e.(*ast.UnaryExpr); ok && u.Op == token.AND {
		e = ast.Unparen(u.X)
	}
	cl, ok := e.(*ast.CompositeLit)
	if !ok {
		return false
	}
	t := k.info.TypeOf(cl)
	if n, ok := t.(*types.Named); ok {
		return trackedStructs[n.Obj().Name()] && k.w.repoPkg[n.Obj().Pkg()]
	}
	return false
}

// ---------------------------------------------------------------------------
// statements

func (k *walker) node(n ast.Node) {
	switch s := n.(type) {
	case *ast.AssignStmt:
		for _, r := range s.Rhs {
			k.expr(r)
		}
		compound := s.Tok != token.ASSIGN && s.Tok != token.DEFINE
		for _, l := range s.Lhs {
			k.lhs(l, compound)
		}
		if len(s.Lhs) == len(s.Rhs) {
			for i := range s.Lhs {
				if id, ok := s.Lhs[i].(*ast.Ident); ok && id.Name != "_" && k.isFreshCompositeOfTracked(s.Rhs[i]) {
					obj := k.info.Defs[id]
					if obj == nil {
						obj = k.info.Uses[id]
					}
					if v, ok := obj.(*types.Var); ok {
						k.st.must[fmt.Sprintf("F:%s@%d", v.Name(), v.Pos())] = true
					}
				}
			}
		}
	case *ast.IncDecStmt:
		k.lhs(s.X, true)
	case *ast.ExprStmt:
		if k.w.commNB[s] {
			// receive in a select with default: does not block
			if u, ok := ast.Unparen(s.X).(*ast.UnaryExpr); ok && u.Op == token.ARROW {
				k.expr(u.X)
				return
			}
		}
		if k.w.commSel[s] {
			if u, ok := ast.Unparen(s.X).(*ast.UnaryExpr); ok && u.Op == token.ARROW {
				k.expr(u.X)
				k.block(u.Pos(), "select", k.exprText(u.X), "")
				return
			}
		}
		k.expr(s.X)
	case *ast.ReturnStmt:
		for _, r := range s.Results {
			k.expr(r)
		}
	case *ast.DeferStmt:
		k.deferStmt(s)
	case *ast.GoStmt:
		// receiver and arguments are evaluated here; the call runs on a new goroutine
		if sel, ok := ast.Unparen(s.Call.Fun).(*ast.SelectorExpr); ok {
			k.expr(sel.X)
		} else if lit, ok := ast.Unparen(s.Call.Fun).(*ast.FuncLit); ok {
			k.funcLit(lit)
		}
		for _, a := range s.Call.Args {
			k.expr(a)
		}
	case *ast.SendStmt:
		k.expr(s.Chan)
		k.expr(s.Value)
		if !k.w.commNB[s] {
			kind := "chan-send"
			if k.w.commSel[s] {
				kind = "select"
			}
			k.block(s.Pos(), kind, k.exprText(s.Chan), "")
		}
	case *ast.DeclStmt:
		if gd, ok := s.Decl.(*ast.GenDecl); ok {
			for _, sp := range gd.Specs {
				if vs, ok := sp.(*ast.ValueSpec); ok {
					for _, v := range vs.Values {
						k.expr(v)
					}
				}
			}
		}
	case *ast.ValueSpec:
		for _, v := range s.Values {
			k.expr(v)
		}
	case *ast.EmptyStmt, *ast.BranchStmt, *ast.LabeledStmt:
	case ast.Expr:
		k.expr(s)
	default:
		k.unknown(n.Pos(), fmt.Sprintf("unhandled CFG node %T", n))
	}
}

func (k *walker) deferStmt(s *ast.DeferStmt) {
	call := s.Call
	if op, lock, ok := k.lockOp(call); ok {
		if op == "Unlock" || op == "RUnlock" {
			mode := "W"
			if op == "RUnlock" {
				mode = "R"
			}
			// receiver chain is evaluated now
			if sel, ok := ast.Unparen(call.Fun).(*ast.SelectorExpr); ok {
				k.lockRecv(sel)
			}
			k.deferRel = append(k.deferRel, "L:"+lock+"|"+mode)
			return
		}
		k.unknown(s.Pos(), "deferred "+op+" of "+lock)
		return
	}
	if lit, ok := ast.Unparen(call.Fun).(*ast.FuncLit); ok {
		k.funcLit(lit)
		for _, a := range call.Args {
			k.expr(a)
		}
		if fn := k.w.byLit[lit]; fn != nil {
			if k.sc != nil {
				// runs at function exit: its accesses belong to the root's execution; lock state not modelled
				if n := k.w.scoped(fn, state{must: set{}, may: lspFacts(k.st.may)}); n != nil && k.emit {
					k.sc.children = append(k.sc.children, n)
				}
			} else {
				k.calls = append(k.calls, callSite{callee: fn, must: set{}, may: k.st.may.clone(), pos: s.Pos()})
			}
		}
		return
	}
	// any other deferred call: treated as executed here (arguments are), its lock set at exit is a subset of may-held here
	k.expr(call)
}

// ---------------------------------------------------------------------------
// expressions (evaluation order: operands left to right, then the operation)

func (k *walker) expr(e ast.Expr) {
	switch x := e.(type) {
	case nil:
	case *ast.Ident:
		k.killFresh(x)
	case *ast.BasicLit:
	case *ast.ParenExpr:
		k.expr(x.X)
	case *ast.SelectorExpr:
		k.selector(x, "read", false)
	case *ast.CallExpr:
		k.call(x)
	case *ast.UnaryExpr:
		if x.Op == token.AND {
			if sel, ok := ast.Unparen(x.X).(*ast.SelectorExpr); ok {
				if fv := fieldOf(k.info, sel); fv != nil && trackedStructs[k.w.fieldOwner[fv]] && !isSyncLock(fv.Type()) {
					k.selectorBase(sel)
					k.unknown(x.Pos(), "address of tracked field taken: "+k.w.fieldOwner[fv]+"."+fv.Name())
					return
				}
			}
			if _, ok := ast.Unparen(x.X).(*ast.CompositeLit); ok {
				k.expr(x.X)
				return
			}
		}
		k.expr(x.X)
		if x.Op == token.ARROW {
			k.block(x.Pos(), "chan-recv", k.exprText(x.X), "")
		}
	case *ast.BinaryExpr:
		k.expr(x.X)
		k.expr(x.Y)
	case *ast.StarExpr:
		k.expr(x.X)
		if n, ok := k.info.TypeOf(x).(*types.Named); ok && trackedStructs[n.Obj().Name()] && k.w.repoPkg[n.Obj().Pkg()] {
			k.unknown(x.Pos(), "whole-struct copy of tracked type "+n.Obj().Name())
		}
	case *ast.IndexExpr:
		k.expr(x.Index)
		k.container(x.X, "cread")
	case *ast.SliceExpr:
		k.expr(x.Low)
		k.expr(x.High)
		k.expr(x.Max)
		k.container(x.X, "cread")
	case *ast.TypeAssertExpr:
		k.expr(x.X)
	case *ast.KeyValueExpr:
		k.expr(x.Value)
	case *ast.CompositeLit:
		for _, el := range x.Elts {
			if kv, ok := el.(*ast.KeyValueExpr); ok {
				if _, isStruct := k.info.TypeOf(x).Underlying().(*types.Struct); !isStruct {
					k.expr(kv.Key)
				}
				k.expr(kv.Value)
			} else {
				k.expr(el)
			}
		}
	case *ast.FuncLit:
		k.funcLit(x)
	case *ast.ArrayType, *ast.MapType, *ast.ChanType, *ast.FuncType, *ast.InterfaceType, *ast.StructType, *ast.Ellipsis:
	default:
		k.unknown(e.Pos(), fmt.Sprintf("unhandled expression %T", e))
	}
	if k.w.rangeX[e] {
		// range over a channel blocks
		if _, ok := k.info.TypeOf(e).Underlying().(*types.Chan); ok {
			k.block(e.Pos(), "chan-recv", "range "+k.exprText(e), "")
		}
	}
}

// container: e is the operand of an index/slice/range/len/append: an access to the CONTENTS of a field.
func (k *walker) container(e ast.Expr, akind string) {
	if sel, ok := ast.Unparen(e).(*ast.SelectorExpr); ok {
		if fv := fieldOf(k.info, sel); fv != nil {
			switch fv.Type().Underlying().(type) {
			case *types.Map, *types.Slice, *types.Array:
				k.selector(sel, akind, false)
				return
			}
		}
	}
	k.expr(e)
}

// funcLit: creating a closure publishes every fresh variable it mentions.
func (k *walker) funcLit(lit *ast.FuncLit) {
	ast.Inspect(lit.Body, func(n ast.Node) bool {
		if id, ok := n.(*ast.Ident); ok {
			k.killFresh(id)
		}
		return true
	})
	if fn := k.w.byLit[lit]; fn != nil && !fn.isEntry && !fn.deferred {
		// reached through a function-valued field: handled at the call
		return
	}
	if fn := k.w.byLit[lit]; fn != nil && fn.isEntry && fn.ctxs[cxClosure] && k.sc == nil {
		// a plain closure may be invoked synchronously by whoever receives it
		k.calls = append(k.calls, callSite{callee: fn, must: set{}, may: k.st.may.clone(), pos: lit.Pos()})
	}
}

// selectorBase walks the operand of a selector without treating a fresh variable as escaping.
func (k *walker) selectorBase(sel *ast.SelectorExpr) bool {
	if id, ok := ast.Unparen(sel.X).(*ast.Ident); ok {
		if s := k.info.Selections[sel]; s != nil && s.Kind() == types.FieldVal {
			return k.freshKey(id) != ""
		}
		k.killFresh(id)
		return false
	}
	k.expr(sel.X)
	return false
}

// selector: x.f as an rvalue (akind read/cread) or the target of a write.
func (k *walker) selector(sel *ast.SelectorExpr, akind string, atomic bool) {
	s := k.info.Selections[sel]
	if s == nil {
		// qualified identifier pkg.Name
		return
	}
	fresh := k.selectorBase(sel)
	if s.Kind() != types.FieldVal {
		// method value: implicit reads of embedded fields on the path
		k.pathReads(sel, s, len(s.Index())-1, fresh)
		return
	}
	k.pathReads(sel, s, len(s.Index())-1, fresh)
	if fv, ok := s.Obj().(*types.Var); ok {
		k.accessOp(sel.Sel.Pos(), fv, akind, atomic, fresh, k.curOp)
		if akind == "cwrite" || akind == "cread" {
			// the container header is read as well: same field, same policy; one row is enough
		}
	}
}

// pathReads emits reads of the embedded fields traversed by a promoted selection (first n indices).
func (k *walker) pathReads(sel *ast.SelectorExpr, s *types.Selection, n int, fresh bool) {
	t := s.Recv()
	idx := s.Index()
	for i := 0; i < n && i < len(idx); i++ {
		if p, ok := t.Underlying().(*types.Pointer); ok {
			t = p.Elem()
		}
		st, ok := t.Underlying().(*types.Struct)
		if !ok {
			return
		}
		f := st.Field(idx[i])
		k.access(sel.Sel.Pos(), f, "read", false, fresh)
		t = f.Type()
	}
}

func (k *walker) lhs(e ast.Expr, compound bool) {
	switch x := ast.Unparen(e).(type) {
	case *ast.Ident:
		if x.Name != "_" {
			k.killFresh(x)
		}
	case *ast.SelectorExpr:
		if fv := fieldOf(k.info, x); fv != nil {
			if compound {
				k.selector(x, "read", false)
			}
			k.selector(x, "write", false)
			return
		}
		k.expr(x)
	case *ast.IndexExpr:
		k.expr(x.Index)
		if sel, ok := ast.Unparen(x.X).(*ast.SelectorExpr); ok {
			if fv := fieldOf(k.info, sel); fv != nil {
				if compound {
					k.selector(sel, "cread", false)
				}
				k.selector(sel, "cwrite", false)
				return
			}
		}
		k.expr(x.X)
	case *ast.StarExpr:
		k.expr(x.X)
		if n, ok := k.info.TypeOf(x).(*types.Named); ok && trackedStructs[n.Obj().Name()] {
			k.unknown(x.Pos(), "whole-struct store to tracked type "+n.Obj().Name())
		}
	default:
		k.expr(e)
	}
}

// ---------------------------------------------------------------------------
// calls

// lockOp recognises x.Lock()/Unlock()/RLock()/RUnlock() on sync.Mutex / sync.RWMutex.
func (k *walker) lockOp(call *ast.CallExpr) (op, lock string, ok bool) {
	sel, isSel := ast.Unparen(call.Fun).(*ast.SelectorExpr)
	if !isSel {
		return
	}
	s := k.info.Selections[sel]
	if s == nil || s.Kind() != types.MethodVal {
		return
	}
	f, _ := s.Obj().(*types.Func)
	if f == nil || f.Pkg() == nil || f.Pkg().Path() != "sync" {
		return
	}
	recv := f.Type().(*types.Signature).Recv()
	if recv == nil || !isSyncLock(recv.Type()) {
		return
	}
	switch f.Name() {
	case "Lock", "Unlock", "RLock", "RUnlock", "TryLock", "TryRLock", "RLocker":
	default:
		return
	}
	op, ok = f.Name(), true
	idx := s.Index()
	if len(idx) > 1 {
		// promoted through embedded field(s): the lock is the last embedded field on the path
		t := s.Recv()
		owner, name := "", ""
		for i := 0; i < len(idx)-1; i++ {
			if p, isP := t.Underlying().(*types.Pointer); isP {
				t = p.Elem()
			}
			st, isS := t.Underlying().(*types.Struct)
			if !isS {
				break
			}
			fld := st.Field(idx[i])
			owner, name = k.w.fieldOwner[fld], fld.Name()
			t = fld.Type()
		}
		if owner != "" {
			lock = owner + "." + name
			return
		}
	} else if fs, isF := ast.Unparen(sel.X).(*ast.SelectorExpr); isF {
		if fv := fieldOf(k.info, fs); fv != nil && k.w.fieldOwner[fv] != "" {
			lock = k.w.fieldOwner[fv] + "." + fv.Name()
			return
		}
	}
	lock = "?" + k.exprText(sel.X)
	return
}

// lockRecv walks the receiver chain of a lock operation (everything but the mutex field itself).
func (k *walker) lockRecv(sel *ast.SelectorExpr) {
	s := k.info.Selections[sel]
	if s != nil && len(s.Index()) > 1 {
		// embedded lock: receiver object expression
		if id, ok := ast.Unparen(sel.X).(*ast.Ident); ok {
			k.killFresh(id)
		} else {
			k.expr(sel.X)
		}
		return
	}
	if fs, ok := ast.Unparen(sel.X).(*ast.SelectorExpr); ok {
		k.selectorBase(fs)
		if ss := k.info.Selections[fs]; ss != nil {
			k.pathReads(fs, ss, len(ss.Index())-1, false)
		}
		return
	}
	k.expr(sel.X)
}

var atomicRead = map[string]bool{"LoadInt32": true, "LoadInt64": true, "LoadUint32": true, "LoadUint64": true, "LoadPointer": true, "LoadUintptr": true}

func (k *walker) call(call *ast.CallExpr) {
	info := k.info
	fun := ast.Unparen(call.Fun)
	// type conversion
	if tv, ok := info.Types[fun]; ok && tv.IsType() {
		for _, a := range call.Args {
			k.expr(a)
		}
		return
	}
	// builtins
	if id, ok := fun.(*ast.Ident); ok {
		if _, isB := info.Uses[id].(*types.Builtin); isB {
			switch id.Name {
			case "len", "cap":
				if len(call.Args) == 1 {
					if _, isMap := info.TypeOf(call.Args[0]).Underlying().(*types.Map); isMap {
						k.container(call.Args[0], "cread")
					} else {
						k.expr(call.Args[0])
					}
				}
			case "append":
				if len(call.Args) > 0 {
					k.container(call.Args[0], "cread")
					for _, a := range call.Args[1:] {
						k.expr(a)
					}
				}
			case "delete":
				if len(call.Args) == 2 {
					k.expr(call.Args[1])
					k.container(call.Args[0], "cwrite")
				}
			case "copy":
				if len(call.Args) == 2 {
					k.container(call.Args[1], "cread")
					k.container(call.Args[0], "cwrite")
				}
			case "close":
				for _, a := range call.Args {
					k.expr(a)
				}
			default:
				for _, a := range call.Args {
					k.expr(a)
				}
			}
			return
		}
	}
	// lock operations
	if op, lock, ok := k.lockOp(call); ok {
		sel := fun.(*ast.SelectorExpr)
		k.lockRecv(sel)
		k.applyLock(call.Pos(), op, lock)
		return
	}
	callee := calleeFunc(info, call)
	name := ""
	if callee != nil {
		name = funcName(callee)
	}
	// sync.Cond
	if strings.HasPrefix(name, "sync.Cond.") {
		sel := fun.(*ast.SelectorExpr)
		lock := ""
		if fs, ok := ast.Unparen(sel.X).(*ast.SelectorExpr); ok {
			if fv := fieldOf(info, fs); fv != nil {
				lock = k.w.condLock[fv]
			}
		}
		k.expr(sel.X)
		if callee.Name() == "Wait" {
			if lock == "" {
				k.unknown(call.Pos(), "cond.Wait on a condition variable whose lock is not known: "+k.exprText(sel.X))
				lock = "?"
			}
			k.block(call.Pos(), "cond-wait", k.exprText(sel.X), lock)
		}
		return
	}
	// sync/atomic on &x.f
	if callee != nil && callee.Pkg() != nil && callee.Pkg().Path() == "sync/atomic" && len(call.Args) > 0 {
		handled := false
		if u, ok := ast.Unparen(call.Args[0]).(*ast.UnaryExpr); ok && u.Op == token.AND {
			if sel, ok := ast.Unparen(u.X).(*ast.SelectorExpr); ok {
				if fv := fieldOf(info, sel); fv != nil {
					ak := "write"
					if atomicRead[callee.Name()] {
						ak = "read"
					}
					op := "Other"
					switch n := callee.Name(); {
					case strings.HasPrefix(n, "Load"):
						op = "Load"
					case strings.HasPrefix(n, "Add"):
						op = "Add"
					case strings.HasPrefix(n, "CompareAndSwap"):
						op = "CAS"
					case strings.HasPrefix(n, "Swap"):
						op = "Swap"
					case strings.HasPrefix(n, "Store"):
						op = "Store"
						if len(call.Args) == 2 {
							if tv, ok := info.Types[call.Args[1]]; ok && tv.Value != nil && tv.Value.String() == "0" {
								op = "Store0"
							}
						}
					}
					k.curOp = op
					k.selector(sel, ak, true)
					k.curOp = ""
					handled = true
				}
			}
		}
		if !handled {
			k.expr(call.Args[0])
		}
		for _, a := range call.Args[1:] {
			k.expr(a)
		}
		return
	}
	// receiver / function expression
	var recvSel *ast.SelectorExpr
	switch f := fun.(type) {
	case *ast.SelectorExpr:
		recvSel = f
		if s := info.Selections[f]; s != nil {
			if s.Kind() == types.FieldVal {
				k.selector(f, "read", false) // call through a function-valued field
			} else {
				fresh := false
				if id, ok := ast.Unparen(f.X).(*ast.Ident); ok {
					k.killFresh(id)
				} else {
					k.expr(f.X)
				}
				k.pathReads(f, s, len(s.Index())-1, fresh)
			}
		}
	case *ast.Ident:
		// plain function or local function value
	case *ast.FuncLit:
		k.funcLit(f)
	default:
		k.expr(fun)
	}
	// arguments
	for _, a := range call.Args {
		if noRetain[name] {
			if id, ok := ast.Unparen(a).(*ast.Ident); ok && k.freshKey(id) != "" {
				continue
			}
		}
		k.expr(a)
	}
	// the call itself
	var scopedCallees []*Fn
	site := func(fn *Fn) {
		if k.sc != nil {
			scopedCallees = append(scopedCallees, fn)
			return
		}
		k.calls = append(k.calls, callSite{callee: fn, must: k.st.must.clone(), may: k.st.may.clone(), pos: call.Pos()})
		// locks the callee certainly acquired and released (on every path) count as released here too
		for f := range relFacts(fn.exitMust) {
			k.st.must[f] = true
		}
	}
	defer func() {
		if k.sc != nil && len(scopedCallees) > 0 {
			k.enterCallee(scopedCallees)
		}
	}()
	ext := func(what string) {
		switch what {
		case "time.Sleep":
			k.block(call.Pos(), "sleep", what, "")
			return
		case "sync.WaitGroup.Wait":
			k.block(call.Pos(), "wait", what, "")
			return
		}
		if len(lockFacts(k.st.may)) > 0 {
			k.block(call.Pos(), "extcall", what, "")
		}
	}
	if lit, ok := fun.(*ast.FuncLit); ok {
		if fn := k.w.byLit[lit]; fn != nil {
			site(fn)
		}
		return
	}
	if callee != nil {
		if fn := k.w.byObj[callee]; fn != nil {
			site(fn)
			return
		}
		sig := callee.Type().(*types.Signature)
		if r := sig.Recv(); r != nil {
			if iface, ok := r.Type().Underlying().(*types.Interface); ok {
				impls := k.w.implementers(iface, callee.Name())
				for _, fn := range impls {
					site(fn)
				}
				declaredHere := callee.Pkg() != nil && k.w.repoPkg[callee.Pkg()]
				if !declaredHere || len(impls) == 0 {
					ext(name)
				}
				return
			}
		}
		ext(name)
		return
	}
	// function values
	if recvSel != nil {
		if fv := fieldOf(info, recvSel); fv != nil {
			for _, fn := range k.w.fieldLits[fv] {
				site(fn)
			}
			ext("funcvalue:" + k.w.fieldOwner[fv] + "." + fv.Name())
			return
		}
	}
	ext("funcvalue:" + k.exprText(fun))
}

func (k *walker) applyLock(p token.Pos, op, lock string) {
	mode := "W"
	if op == "RLock" || op == "RUnlock" {
		mode = "R"
	}
	fact := "L:" + lock + "|" + mode
	switch op {
	case "Lock", "RLock":
		if k.emit {
			r := k.base("acquire", p)
			r.typ, r.field = lock, mode
			r.what = fmt.Sprintf("%s:%d", r.file, r.line)
			k.rows = append(k.rows, r)
		}
		if strings.HasPrefix(lock, "?") {
			k.unknown(p, "acquisition of a lock that is not a field of a struct of these packages: "+lock[1:])
		}
		k.st.must[fact] = true
		k.st.may[fact] = true
		// open a section instance: id = acquisition site, "+" when a section opened here may already have been completed
		f, l, _ := k.w.pos(p)
		id := fmt.Sprintf("%s:%d", f, l)
		for sf := range k.st.may {
			if strings.HasPrefix(sf, "S:"+lock+"|") {
				delete(k.st.may, sf)
			}
		}
		if k.st.may["P:"+lock+"|"+id] {
			k.st.may["S:"+lock+"|"+id+"+"] = true
		}
		k.st.may["S:"+lock+"|"+id] = true
	case "Unlock", "RUnlock":
		if !k.st.may[fact] {
			k.unknown(p, "release of "+lock+" ("+mode+") which is not held on any path")
		} else if !k.st.must[fact] {
			k.unknown(p, "release of "+lock+" ("+mode+") which is held on some paths only")
		}
		delete(k.st.must, fact)
		delete(k.st.may, fact)
		closeSections(k.st.may, lock)
		k.st.must["X:"+lock] = true
	default:
		k.unknown(p, "unsupported lock operation "+op+" on "+lock)
	}
}
