// lockfacts: flow-sensitive lockset translator for grpc-gcp-go (properties C10 / C06).
//
// For every function, method and function literal of the packages grpcgcp and
// grpcgcp/multiendpoint it computes, per program point, the set of (lock, mode)
// CERTAINLY held (must: intersection over paths and call sites) and POSSIBLY held
// (may: union), and emits one row per access to a field of a tracked struct, per lock
// acquisition, per blocking operation, and an explicit `unknown` row for everything it
// cannot resolve.  It never guesses.
//
// usage: lockfacts -repo /repo -out <dir> [-modfile x.mod]
// writes <dir>/LockFacts.v and <dir>/lockfacts.tsv
package main

import (
	"flag"
	"fmt"
	"go/ast"
	"go/token"
	"go/types"
	"os"
	"path/filepath"
	"sort"
	"strings"

	"golang.org/x/tools/go/cfg"
	"golang.org/x/tools/go/packages"
)

// Structs whose fields are tracked.
var trackedStructs = map[string]bool{
	"gcpBalancer": true, "subConnRef": true, "gcpPicker": true, "connectivityStateEvaluator": true,
	"GCPMultiEndpoint": true, "monitoredConn": true, "multiEndpoint": true, "endpoint": true,
	"gcpClientStream": true, "gcpContext": true,
}

// Callees that do not retain their arguments (freshness of a just-allocated object survives them).
var noRetain = map[string]bool{"fmt.Sprintf": true, "fmt.Errorf": true, "fmt.Sprint": true, "sync.NewCond": true}

const (
	cxCallback = "Callback"
	cxPick     = "Pick"
	cxDone     = "Done"
	cxApp      = "App"
	cxTimer    = "Timer"
	cxMonitor  = "Monitor"
	cxClosure  = "Closure"
)

type set map[string]bool

func (s set) clone() set {
	if s == nil {
		return nil
	}
	r := set{}
	for k := range s {
		r[k] = true
	}
	return r
}
func (s set) eq(o set) bool {
	if (s == nil) != (o == nil) || len(s) != len(o) {
		return false
	}
	for k := range s {
		if !o[k] {
			return false
		}
	}
	return true
}
func (s set) sorted() []string {
	r := []string{}
	for k := range s {
		r = append(r, k)
	}
	sort.Strings(r)
	return r
}

// meet for must sets: nil is TOP.
func meet(a, b set) set {
	if a == nil {
		return b.clone()
	}
	if b == nil {
		return a.clone()
	}
	r := set{}
	for k := range a {
		if b[k] {
			r[k] = true
		}
	}
	return r
}
func union(a, b set) set {
	r := set{}
	for k := range a {
		r[k] = true
	}
	for k := range b {
		r[k] = true
	}
	return r
}

// state at a program point. must == nil means unreachable (TOP).
type state struct {
	must set // facts "L:<lock>|<R/W>", "F:<var>", "X:<lock>"
	may  set // facts "L:<lock>|<R/W>"
}

func (s state) clone() state { return state{s.must.clone(), s.may.clone()} }

type Fn struct {
	key       string
	decl      *ast.FuncDecl
	lit       *ast.FuncLit
	body      *ast.BlockStmt
	pkg       *packages.Package
	obj       *types.Func
	file      string
	line      int
	parent    *Fn
	nlits     int
	g         *cfg.CFG
	isEntry   bool
	ctxs      set
	entryMust set
	entryMay  set
	deferred  bool // literal run by a defer / called in place
	// results of the last analysis
	calls    []callSite
	rows     []row
	exitMust set
	exitMay  set
	reach    bool
}

type callSite struct {
	callee *Fn
	must   set
	may    set
	pos    token.Pos
}

type row struct {
	kind   string // access | acquire | block | unknown
	file   string
	line   int
	col    int
	fn     string
	typ    string // access: struct ; acquire: lock ; block: kind
	field  string // access: field ; acquire: mode ; block: what
	akind  string // read write cread cwrite
	atomic bool
	fresh  bool
	must   []string // "lock|M"
	may    []string
	rel    []string
	lock   string // block cond-wait: the cond's lock
	what   string
	ctxs   []string
	op     string   // access through sync/atomic: Load Store Store0 Add CAS Swap Other
	sec    []string // section instances possibly open here: "lock|file:line" ("+": re-entered)
	root   string   // scoped rows: the function whose execution this access belongs to
}

type world struct {
	fset       *token.FileSet
	pkgs       []*packages.Package
	fns        []*Fn
	byObj      map[*types.Func]*Fn
	byLit      map[*ast.FuncLit]*Fn
	fieldOwner map[*types.Var]string
	named      []*types.Named
	condLock   map[*types.Var]string
	fieldLits  map[*types.Var][]*Fn
	rangeX     map[ast.Expr]bool
	commNB     map[ast.Stmt]bool // comm statements of a select WITH default
	commSel    map[ast.Stmt]bool // comm statements of a select without default
	repoPkg    map[*types.Package]bool
	unknowns   []row
	scopeMemo  map[string]*scopeNode
}

var W *world

func main() {
	repo := flag.String("repo", "/repo", "repository root")
	out := flag.String("out", "", "output directory")
	modfile := flag.String("modfile", "", "alternate go.mod (kept outside the repository)")
	flag.Parse()
	if *out == "" {
		fmt.Fprintln(os.Stderr, "need -out")
		os.Exit(2)
	}
	dir := filepath.Join(*repo, "grpcgcp")
	env := os.Environ()
	gf := "-mod=mod"
	if *modfile != "" {
		gf += " -modfile=" + *modfile
	}
	env = append(env, "GOFLAGS="+gf, "GOPROXY=off", "GOSUMDB=off", "GOTOOLCHAIN=local")
	cfgp := &packages.Config{
		Mode: packages.NeedName | packages.NeedFiles | packages.NeedCompiledGoFiles | packages.NeedImports |
			packages.NeedTypes | packages.NeedSyntax | packages.NeedTypesInfo | packages.NeedTypesSizes | packages.NeedDeps,
		Dir: dir, Env: env, Tests: false,
	}
	pkgs, err := packages.Load(cfgp, ".", "./multiendpoint")
	if err != nil {
		fmt.Fprintln(os.Stderr, "load:", err)
		os.Exit(2)
	}
	bad := false
	for _, p := range pkgs {
		for _, e := range p.Errors {
			fmt.Fprintln(os.Stderr, "package error:", e)
			bad = true
		}
	}
	if bad || len(pkgs) != 2 {
		os.Exit(2)
	}
	sort.Slice(pkgs, func(i, j int) bool { return pkgs[i].PkgPath < pkgs[j].PkgPath })
	W = &world{fset: pkgs[0].Fset, pkgs: pkgs, byObj: map[*types.Func]*Fn{}, byLit: map[*ast.FuncLit]*Fn{},
		fieldOwner: map[*types.Var]string{}, condLock: map[*types.Var]string{}, fieldLits: map[*types.Var][]*Fn{},
		scopeMemo: map[string]*scopeNode{}, rangeX: map[ast.Expr]bool{}, commNB: map[ast.Stmt]bool{}, commSel: map[ast.Stmt]bool{}, repoPkg: map[*types.Package]bool{}}
	W.collect()
	W.classifyEntries()
	W.fixpoint()
	rows := W.finalRows()
	rows = append(rows, W.scopedRows()...)
	if err := os.MkdirAll(*out, 0o755); err != nil {
		panic(err)
	}
	emitTSV(filepath.Join(*out, "lockfacts.tsv"), rows)
	emitCoq(filepath.Join(*out, "LockFacts.v"), rows)
	n := map[string]int{}
	for _, r := range rows {
		n[r.kind]++
	}
	fmt.Printf("lockfacts: %d functions, %d access, %d acquire, %d block, %d unknown, %d scoped rows\n",
		len(W.fns), n["access"], n["acquire"], n["block"], n["unknown"], n["scoped"])
}

func (w *world) pos(p token.Pos) (string, int, int) {
	ps := w.fset.Position(p)
	return filepath.Base(ps.Filename), ps.Line, ps.Column
}

// ---------------------------------------------------------------------------
// collection of functions, struct fields, syntactic side tables

// recvName: "T." for methods of T or *T (no "(*T)" spelling: the names end up in Coq string literals and the
// project's comment stripper is not string-aware).
func recvName(fd *ast.FuncDecl) string {
	if fd.Recv == nil || len(fd.Recv.List) == 0 {
		return ""
	}
	t := fd.Recv.List[0].Type
	if s, ok := t.(*ast.StarExpr); ok {
		t = s.X
	}
	if id, ok := t.(*ast.Ident); ok {
		return id.Name + "."
	}
	return "?."
}

func (w *world) collect() {
	for _, p := range w.pkgs {
		w.repoPkg[p.Types] = true
	}
	for _, p := range w.pkgs {
		scope := p.Types.Scope()
		for _, name := range scope.Names() {
			tn, ok := scope.Lookup(name).(*types.TypeName)
			if !ok {
				continue
			}
			nt, ok := tn.Type().(*types.Named)
			if !ok {
				continue
			}
			w.named = append(w.named, nt)
			if st, ok := nt.Underlying().(*types.Struct); ok {
				for i := 0; i < st.NumFields(); i++ {
					w.fieldOwner[st.Field(i)] = name
				}
			}
		}
		prefix := ""
		if strings.HasSuffix(p.PkgPath, "/multiendpoint") {
			prefix = "multiendpoint."
		}
		for _, f := range p.Syntax {
			fname := filepath.Base(w.fset.Position(f.Pos()).Filename)
			for _, d := range f.Decls {
				fd, ok := d.(*ast.FuncDecl)
				if !ok || fd.Body == nil {
					continue
				}
				obj, _ := p.TypesInfo.Defs[fd.Name].(*types.Func)
				fn := &Fn{key: prefix + recvName(fd) + fd.Name.Name, decl: fd, body: fd.Body, pkg: p, obj: obj, file: fname,
					line: w.fset.Position(fd.Pos()).Line, ctxs: set{}}
				w.fns = append(w.fns, fn)
				if obj != nil {
					w.byObj[obj] = fn
				}
				w.collectLits(fn, fd.Body)
			}
		}
	}
	// syntactic side tables
	for _, fn := range w.fns {
		info := fn.pkg.TypesInfo
		ast.Inspect(fn.body, func(n ast.Node) bool {
			switch s := n.(type) {
			case *ast.FuncLit:
				return false // nested literals are functions of their own
			case *ast.RangeStmt:
				w.rangeX[s.X] = true
			case *ast.SelectStmt:
				hasDefault := false
				for _, c := range s.Body.List {
					if c.(*ast.CommClause).Comm == nil {
						hasDefault = true
					}
				}
				for _, c := range s.Body.List {
					if cm := c.(*ast.CommClause).Comm; cm != nil {
						if hasDefault {
							w.commNB[cm] = true
						} else {
							w.commSel[cm] = true
						}
					}
				}
			case *ast.AssignStmt:
				if len(s.Lhs) == len(s.Rhs) {
					for i := range s.Lhs {
						sel, ok := s.Lhs[i].(*ast.SelectorExpr)
						if !ok {
							continue
						}
						fv := fieldOf(info, sel)
						if fv == nil {
							continue
						}
						rhs := ast.Unparen(s.Rhs[i])
						if lit, ok := rhs.(*ast.FuncLit); ok {
							if lf := w.byLit[lit]; lf != nil {
								w.fieldLits[fv] = append(w.fieldLits[fv], lf)
							}
						}
						if call, ok := rhs.(*ast.CallExpr); ok && calleeName(info, call) == "sync.NewCond" && len(call.Args) == 1 {
							if l := w.lockerName(info, call.Args[0]); l != "" {
								w.condLock[fv] = l
							}
						}
					}
				}
			}
			return true
		})
	}
}

func (w *world) collectLits(parent *Fn, body ast.Node) {
	ast.Inspect(body, func(n ast.Node) bool {
		lit, ok := n.(*ast.FuncLit)
		if !ok {
			return true
		}
		parent.nlits++
		fn := &Fn{key: fmt.Sprintf("%s$%d", parent.key, parent.nlits), lit: lit, body: lit.Body, pkg: parent.pkg, file: parent.file,
			line: w.fset.Position(lit.Pos()).Line, parent: parent, ctxs: set{}}
		w.fns = append(w.fns, fn)
		w.byLit[lit] = fn
		w.collectLits(fn, lit.Body)
		return false
	})
}

// fieldOf returns the struct field a selector denotes (nil if it is not a field selection).
func fieldOf(info *types.Info, sel *ast.SelectorExpr) *types.Var {
	if s := info.Selections[sel]; s != nil && s.Kind() == types.FieldVal {
		if v, ok := s.Obj().(*types.Var); ok {
			return v
		}
	}
	return nil
}

func isSyncLock(t types.Type) bool {
	if p, ok := t.(*types.Pointer); ok {
		t = p.Elem()
	}
	n, ok := t.(*types.Named)
	if !ok || n.Obj().Pkg() == nil || n.Obj().Pkg().Path() != "sync" {
		return false
	}
	return n.Obj().Name() == "Mutex" || n.Obj().Name() == "RWMutex"
}

// lockerName: name of the lock an expression used as sync.Locker denotes ("" if unknown).
func (w *world) lockerName(info *types.Info, e ast.Expr) string {
	e = ast.Unparen(e)
	if u, ok := e.(*ast.UnaryExpr); ok && u.Op == token.AND {
		if sel, ok := ast.Unparen(u.X).(*ast.SelectorExpr); ok {
			if fv := fieldOf(info, sel); fv != nil && isSyncLock(fv.Type()) {
				return w.fieldOwner[fv] + "." + fv.Name()
			}
		}
		return ""
	}
	t := info.TypeOf(e)
	if p, ok := t.(*types.Pointer); ok {
		t = p.Elem()
	}
	n, ok := t.(*types.Named)
	if !ok {
		return ""
	}
	st, ok := n.Underlying().(*types.Struct)
	if !ok {
		return ""
	}
	for i := 0; i < st.NumFields(); i++ {
		if f := st.Field(i); f.Embedded() && isSyncLock(f.Type()) {
			return n.Obj().Name() + "." + f.Name()
		}
	}
	return ""
}

// calleeName: "pkg.Func" or "pkg.Type.Method" for statically known callees, "" otherwise.
func calleeName(info *types.Info, call *ast.CallExpr) string {
	f := calleeFunc(info, call)
	if f == nil {
		return ""
	}
	return funcName(f)
}

func funcName(f *types.Func) string {
	pk := ""
	if f.Pkg() != nil {
		pk = f.Pkg().Name() + "."
	}
	sig := f.Type().(*types.Signature)
	if r := sig.Recv(); r != nil {
		t := r.Type()
		if p, ok := t.(*types.Pointer); ok {
			t = p.Elem()
		}
		if n, ok := t.(*types.Named); ok {
			if n.Obj().Pkg() != nil {
				pk = n.Obj().Pkg().Name() + "."
			}
			return pk + n.Obj().Name() + "." + f.Name()
		}
		return pk + "?." + f.Name()
	}
	return pk + f.Name()
}

func calleeFunc(info *types.Info, call *ast.CallExpr) *types.Func {
	switch f := ast.Unparen(call.Fun).(type) {
	case *ast.Ident:
		if fn, ok := info.Uses[f].(*types.Func); ok {
			return fn
		}
	case *ast.SelectorExpr:
		if s := info.Selections[f]; s != nil {
			if fn, ok := s.Obj().(*types.Func); ok {
				return fn
			}
			return nil
		}
		if fn, ok := info.Uses[f.Sel].(*types.Func); ok {
			return fn
		}
	}
	return nil
}

// ---------------------------------------------------------------------------
// entry points

func (w *world) lookupIface(path, name string) *types.Interface {
	var find func(p *packages.Package, seen map[string]bool) *types.Interface
	find = func(p *packages.Package, seen map[string]bool) *types.Interface {
		if seen[p.PkgPath] {
			return nil
		}
		seen[p.PkgPath] = true
		if p.PkgPath == path && p.Types != nil {
			if o := p.Types.Scope().Lookup(name); o != nil {
				if i, ok := o.Type().Underlying().(*types.Interface); ok {
					return i
				}
			}
		}
		for _, q := range p.Imports {
			if r := find(q, seen); r != nil {
				return r
			}
		}
		return nil
	}
	for _, p := range w.pkgs {
		if r := find(p, map[string]bool{}); r != nil {
			return r
		}
	}
	return nil
}

func (w *world) implementers(iface *types.Interface, method string) []*Fn {
	var res []*Fn
	if iface == nil {
		return nil
	}
	for _, nt := range w.named {
		if _, isI := nt.Underlying().(*types.Interface); isI {
			continue
		}
		pt := types.NewPointer(nt)
		if !types.Implements(pt, iface) && !types.Implements(nt, iface) {
			continue
		}
		ms := types.NewMethodSet(pt)
		for i := 0; i < ms.Len(); i++ {
			if f, ok := ms.At(i).Obj().(*types.Func); ok && f.Name() == method {
				if fn := w.byObj[f]; fn != nil {
					res = append(res, fn)
				}
			}
		}
	}
	return res
}

func (w *world) classifyEntries() {
	bal := w.lookupIface("google.golang.org/grpc/balancer", "Balancer")
	pick := w.lookupIface("google.golang.org/grpc/balancer", "Picker")
	mark := func(fn *Fn, c string) {
		fn.isEntry = true
		fn.ctxs[c] = true
	}
	if bal != nil {
		for i := 0; i < bal.NumMethods(); i++ {
			for _, fn := range w.implementers(bal, bal.Method(i).Name()) {
				mark(fn, cxCallback)
			}
		}
	}
	if pick != nil {
		for _, fn := range w.implementers(pick, "Pick") {
			mark(fn, cxPick)
		}
	}
	// literals: Done callbacks, timers, goroutines; go statements on named functions
	for _, fn := range w.fns {
		info := fn.pkg.TypesInfo
		ast.Inspect(fn.body, func(n ast.Node) bool {
			switch s := n.(type) {
			case *ast.GoStmt:
				if lit, ok := ast.Unparen(s.Call.Fun).(*ast.FuncLit); ok {
					mark(w.byLit[lit], cxMonitor)
				} else if f := calleeFunc(info, s.Call); f != nil && w.byObj[f] != nil {
					mark(w.byObj[f], cxMonitor)
				}
			case *ast.DeferStmt:
				if lit, ok := ast.Unparen(s.Call.Fun).(*ast.FuncLit); ok {
					w.byLit[lit].deferred = true
				}
			case *ast.CallExpr:
				if lit, ok := ast.Unparen(s.Fun).(*ast.FuncLit); ok {
					w.byLit[lit].deferred = true
				}
				name := ""
				switch f := ast.Unparen(s.Fun).(type) {
				case *ast.Ident:
					name = f.Name
				case *ast.SelectorExpr:
					name = f.Sel.Name
				}
				if strings.HasSuffix(name, "AfterFunc") {
					for _, a := range s.Args {
						if lit, ok := ast.Unparen(a).(*ast.FuncLit); ok {
							mark(w.byLit[lit], cxTimer)
						}
					}
				}
			case *ast.FuncLit:
				if sig, ok := info.TypeOf(s).(*types.Signature); ok && sig.Params().Len() == 1 {
					if strings.HasSuffix(sig.Params().At(0).Type().String(), "balancer.DoneInfo") {
						mark(w.byLit[s], cxDone)
					}
				}
			}
			return true
		})
	}
	// who is called statically from inside the packages (to find unreferenced unexported functions)
	called := map[*Fn]bool{}
	for _, fn := range w.fns {
		info := fn.pkg.TypesInfo
		ast.Inspect(fn.body, func(n ast.Node) bool {
			if id, ok := n.(*ast.Ident); ok {
				if f, ok := info.Uses[id].(*types.Func); ok && w.byObj[f] != nil {
					called[w.byObj[f]] = true
				}
			}
			return true
		})
	}
	for _, fn := range w.fns {
		if fn.isEntry {
			continue
		}
		if fn.decl != nil {
			if ast.IsExported(fn.decl.Name.Name) || fn.decl.Name.Name == "init" || !called[fn] {
				mark(fn, cxApp)
			}
			continue
		}
		// remaining literals
		if fn.deferred {
			continue // analysed as a call at the defer/call site
		}
		isFieldLit := false
		for _, ls := range w.fieldLits {
			for _, l := range ls {
				if l == fn {
					isFieldLit = true
				}
			}
		}
		if isFieldLit {
			continue // reached through calls of the function-valued field
		}
		mark(fn, cxClosure)
	}
}

// ---------------------------------------------------------------------------
// interprocedural fixpoint

func (w *world) fixpoint() {
	for _, fn := range w.fns {
		fn.g = cfg.New(fn.body, func(*ast.CallExpr) bool { return true })
		fn.entryMay = set{}
		if fn.isEntry {
			fn.entryMust = set{}
			fn.reach = true
		}
	}
	for iter := 0; iter < 100; iter++ {
		changed := false
		for _, fn := range w.fns {
			if !fn.reach {
				continue
			}
			oldRel := relFacts(fn.exitMust)
			w.analyze(fn, false)
			if !relFacts(fn.exitMust).eq(oldRel) {
				changed = true
			}
			for _, cs := range fn.calls {
				c := cs.callee
				nm := meet(c.entryMust, lockFacts(cs.must))
				if c.isEntry {
					nm = set{}
				}
				nmay := union(c.entryMay, lsFacts(cs.may)) // sections are inherited; completed-section marks (P:) are per function here
				nctx := union(c.ctxs, fn.ctxs)
				if !c.reach || !nm.eq(c.entryMust) || !nmay.eq(c.entryMay) || !nctx.eq(c.ctxs) {
					c.reach = true
					c.entryMust, c.entryMay, c.ctxs = nm, nmay, nctx
					changed = true
				}
			}
		}
		if !changed {
			return
		}
	}
	w.unknowns = append(w.unknowns, row{kind: "unknown", file: "-", fn: "-", what: "interprocedural fixpoint did not converge"})
}

func lsFacts(s set) set {
	r := set{}
	for k := range s {
		if strings.HasPrefix(k, "L:") || strings.HasPrefix(k, "S:") {
			r[k] = true
		}
	}
	return r
}

// scopedRows: for every function that itself acquires a lock, the accesses executed within one execution of it
// (its body and, context-sensitively, its callees), each with the section instances open at that point.
func (w *world) scopedRows() []row {
	var out []row
	for _, fn := range w.fns {
		acquires := false
		ast.Inspect(fn.body, func(n ast.Node) bool {
			if _, ok := n.(*ast.FuncLit); ok {
				return false
			}
			if call, ok := n.(*ast.CallExpr); ok {
				k := &walker{w: w, fn: fn, info: fn.pkg.TypesInfo}
				if op, _, ok := k.lockOp(call); ok && (op == "Lock" || op == "RLock") {
					acquires = true
				}
			}
			return true
		})
		if !acquires {
			continue
		}
		root := w.scoped(fn, state{must: set{}, may: set{}})
		if root == nil {
			continue
		}
		seen := map[*scopeNode]bool{}
		dedup := map[string]bool{}
		var visit func(n *scopeNode)
		visit = func(n *scopeNode) {
			if seen[n] {
				return
			}
			seen[n] = true
			for _, r := range n.rows {
				if r.kind != "access" && r.kind != "unknown" {
					continue
				}
				r.root = fn.key
				if r.kind == "unknown" {
					continue // unknown rows are reported by the context-insensitive pass already
				}
				key := fmt.Sprintf("%s:%d:%d|%s.%s|%s|%s|%v|%v", r.file, r.line, r.col, r.typ, r.field, r.akind, r.op, r.must, r.sec)
				if dedup[key] {
					continue
				}
				dedup[key] = true
				r.kind = "scoped"
				out = append(out, r)
			}
			for _, c := range n.children {
				visit(c)
			}
		}
		visit(root)
	}
	sort.SliceStable(out, func(i, j int) bool {
		a, b := out[i], out[j]
		if a.root != b.root {
			return a.root < b.root
		}
		if a.file != b.file {
			return a.file < b.file
		}
		if a.line != b.line {
			return a.line < b.line
		}
		return a.col < b.col
	})
	return out
}

func lockFacts(s set) set {
	r := set{}
	for k := range s {
		if strings.HasPrefix(k, "L:") {
			r[k] = true
		}
	}
	return r
}

func (w *world) finalRows() []row {
	var rows []row
	for _, fn := range w.fns {
		if !fn.reach {
			// unreachable literal (e.g. deferred literal of an unreachable function): analyse with empty sets
			fn.entryMust = set{}
			fn.reach = true
			fn.ctxs[cxClosure] = true
		}
		w.analyze(fn, true)
		cx := fn.ctxs.sorted()
		onlyCb := len(cx) == 1 && cx[0] == cxCallback
		for i := range fn.rows {
			fn.rows[i].ctxs = cx
			if onlyCb && fn.rows[i].kind == "access" {
				// the usage contract serializes balancer callbacks: modelled as a pseudo lock held in W mode
				fn.rows[i].must = append(fn.rows[i].must, "@callback|W")
			}
		}
		rows = append(rows, fn.rows...)
		if fn.exitMust != nil {
			em, am := lockFacts(fn.exitMust), lockFacts(fn.entryMust)
			if !em.eq(am) || !lockFacts(fn.exitMay).eq(lockFacts(fn.entryMay)) {
				// the function may return holding/releasing a lock of its caller: callers are analysed as if it were balanced
				rows = append(rows, row{kind: "unknown", file: fn.file, line: fn.line, fn: fn.key, ctxs: cx,
					what: fmt.Sprintf("unbalanced locking: entry must=%v may=%v, exit must=%v may=%v", am.sorted(), lockFacts(fn.entryMay).sorted(), em.sorted(), lockFacts(fn.exitMay).sorted())})
			}
		}
		if fn.deferred {
			for _, r := range fn.rows {
				if r.kind == "access" || r.kind == "acquire" {
					rows = append(rows, row{kind: "unknown", file: r.file, line: r.line, fn: fn.key,
						what: "deferred/in-place function literal touches tracked state or locks (lock set at its execution is not modelled): " + r.typ + "." + r.field})
				}
			}
		}
	}
	rows = append(rows, w.unknowns...)
	sort.SliceStable(rows, func(i, j int) bool {
		a, b := rows[i], rows[j]
		if a.kind != b.kind {
			return a.kind < b.kind
		}
		if a.file != b.file {
			return a.file < b.file
		}
		if a.line != b.line {
			return a.line < b.line
		}
		return a.col < b.col
	})
	return rows
}
