"""Engine "codec": property C19 (end-to-end checksum codec, /repo/e2e-checksum/main.go).

Pure-function engine: every case is a one-line history
  H M <type> <hex inner> | H R <hex> | H E <name> [hex] | H A <n> (<type> <hex>)*n  ;  OK <hex out> | ERR <hex out> <same err>  ;  I .. CRC .. RT .. FS .. D ..
(see harness/codec/codec_verif_test.go).  The Go harness runs the real
myCodec.Marshal / Unmarshal; ocaml/codec/codec_driver replays each case on the
model extracted from coq/Codec/Model.v and evaluates the Coq-defined monitor
C19_case_ok on the implementation's output."""
import os
import engines


def codec_nontrivial(lines):
    # a case whose inner encoding is non-empty and was framed (not an error case)
    if not lines:
        return False
    parts = lines[0].split(";")
    t = parts[0].split()
    if len(t) >= 5 and t[1] == "A":
        # a sequence: at least two calls, at least one non-empty inner encoding
        return len(t[4::2]) >= 2 and any(h != "-" for h in t[4::2])
    if len(t) >= 4 and t[1] == "M":
        inner = t[3]
    elif len(t) >= 3 and t[1] == "R":
        inner = t[2]
    else:
        return False
    return inner != "-" and len(parts) > 1 and parts[1].split()[:1] == ["OK"]


RULE = ("cases = corpus + seeded random: 70% messages of 31 generated types reachable from e2e-checksum's go.mod "
        "(datastore v1 Entity/Key/Value/ArrayValue/Mutation/CommitRequest/Lookup*/RunQuery*, LatLng, wrapperspb, structpb, anypb, "
        "timestamppb, durationpb, fieldmaskpb, typepb, apipb, descriptorpb (proto2), emptypb) filled through protoreflect "
        "(every scalar kind, oneofs, enums, repeated, maps, nesting depth <= 5, boundary integers, +-0/inf/denormal floats, multi-byte "
        "UTF-8, empty messages, messages consisting only of unknown fields, unknown fields of all wire types incl. groups and incl. a "
        "pre-existing field 2047, at top level and nested), 12% sequences of 2-3 Marshal calls on one codec (kind A: mostly inner "
        "encodings <= 58 bytes, raw lengths around 57/58/59/64; the returned slices themselves are kept and re-read after the later "
        "calls, after overwriting the inner codec's returned bytes and the input messages, and after overwriting earlier outputs -- "
        "outputs must be independent values), 10% arbitrary inner byte strings through a stub inner codec (random bytes; "
        "well-formed token sequences; truncated / bit-flipped / extended ones), 8% failing inner codecs (non-proto value, nil, typed "
        "nil, invalid UTF-8, proto2 required field missing with partial bytes returned, stub returning bytes+error); inner sizes 0 .. "
        "VERIF_MAXLEN bytes; distinct by hash of the operation token list; non-trivial = non-empty inner encoding that was framed")


class CodecEngine(engines.HistEngine):
    name = "codec"
    pkg_rel = "e2e-checksum"
    harness_dir = "codec"
    test_name = "TestVerifCodec"
    driver_dir = "codec"
    driver_bin = "codec_driver"
    extract_v = "ExtractCODEC.v"
    coq_dir = "Codec"
    corpus = "codec"
    props = {
        "C19": dict(monitor="c19",
                    rel={"bytes", "crc", "error", "fields", "roundtrip", "unmarshal", "direct", "alias"},
                    quick=dict(VERIF_N="2000", VERIF_MAXLEN="65536", VERIF_HUGE="3"),
                    thorough=dict(VERIF_N="100000", VERIF_MAXLEN="1048576", VERIF_HUGE="12"),
                    nontrivial=codec_nontrivial,
                    rule=RULE),
    }

    def run_impl(self, scratch, env, tag="t", timeout=3000):
        rc, out, trace = super().run_impl(scratch, env, tag=tag, timeout=timeout)
        # the harness writes the distribution of kinds / types / sizes / features of
        # the run next to the trace; put it into the evidence (coverage.rule)
        dist = trace + ".dist"
        if tag == "t" and rc == 0 and os.path.exists(dist):
            pid = env.get("VERIF_PROP", "C19")
            if pid in self.props:
                self.props[pid]["rule"] = RULE + " || measured in this run: " + open(dist).read().strip()
        return rc, out, trace


ENGINE = CodecEngine()

ASSUMPTIONS = {
    "C19": [
        "'standard protobuf encoding of the message' = the bytes the wrapped inner codec (gRPC's proto codec) returned for it in the "
        "same call; the harness records them with a pass-through wrapper around the real inner codec (needed because Go's encoding of "
        "map fields is not deterministic) and additionally runs the codec exactly as main() constructs it (token D)",
        "'message equal to the original' = proto.Equal on known fields after discarding top-level unknown fields, and unknown fields "
        "= the 6-byte checksum field followed by the original unknown fields; a plain proto.Equal would see the extra unknown field",
        "'any conforming parser' = the wire-format splitter Codec.Model.fields (varint <= 10 bytes, field numbers 1..2^29-1, wire "
        "types 0,1,2,5 and properly nested groups 3/4); it is compared on every output with google.golang.org/protobuf/encoding/protowire",
        "'unknown field' presupposes that the message type does not itself declare a field number 2047 (none of the generated types in "
        "the module's dependency graph does); for a type that declares field 2047 the checksum would be read as that field",
        "hash/crc32 (Castagnoli) is re-specified bit by bit in Coq and compared with the library on every case; proto.Buffer.EncodeVarint/"
        "EncodeFixed32 never return an error (golang/protobuf 1.5.3), so the two error branches after them are unreachable and not modelled",
        "outputs are values: a slice returned by Marshal must keep reading as the frame of its own message after later Marshal "
        "calls on the same codec, after the caller overwrites the inner codec's bytes / the input message, and after the caller "
        "overwrites other outputs (kind A, class 'alias'); single-goroutine sequences only -- concurrent Marshal calls are not run",
        "the error value is opaque: the harness checks that the returned error is the inner codec's error value (==) and the returned "
        "bytes are the inner codec's bytes; log.Printf output of Marshal is discarded and not part of the property",
    ],
}
