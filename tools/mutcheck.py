#!/usr/bin/env python3
"""Development tool (not a registered check): confirm a seeded change and run the checks against it.

  mutcheck.py <dir with patch.diff, demo_test.go, meta.json> <seed id> [--props C01,C02] [--keep]

1. makes a scratch worktree of /repo's HEAD outside /repo and /verif,
2. confirms: with the patch the library builds, the existing tests pass and the
   demonstration FAILS; without it the demonstration PASSES,
3. runs the quick checks of the given properties with VERIF_REPO=<worktree with patch>,
4. writes /verif/seeded/<seed id>/{patch.diff, demo_test.go, meta.json} and removes the worktree.
"""
import sys, os, json, subprocess, shutil, re, tempfile, time

VERIF = os.path.dirname(os.path.dirname(os.path.abspath(__file__)))
ENV = dict(os.environ, GOFLAGS="-mod=mod", GOPROXY="off", GOSUMDB="off", GOTOOLCHAIN="local")


def sh(cmd, cwd=None, env=None, timeout=1800):
    p = subprocess.run(cmd, cwd=cwd, env=env or ENV, shell=isinstance(cmd, str), stdout=subprocess.PIPE,
                       stderr=subprocess.STDOUT, text=True, timeout=timeout)
    return p.returncode, p.stdout


def main():
    src, sid = sys.argv[1], sys.argv[2]
    props = None
    if "--props" in sys.argv:
        props = sys.argv[sys.argv.index("--props") + 1].split(",")
    meta_in = {}
    if os.path.exists(os.path.join(src, "meta.json")):
        meta_in = json.load(open(os.path.join(src, "meta.json")))
    prop = meta_in.get("property") or (props[0] if props else None)
    if props is None:
        props = [prop]
    wt = tempfile.mkdtemp(prefix="mutwt-")
    os.rmdir(wt)
    ran = []
    res = {"seed": sid, "property": prop}
    try:
        rc, out = sh("git -C /repo worktree add -q --detach %s HEAD" % wt)
        assert rc == 0, out
        demo = open(os.path.join(src, "demo_test.go")).read()
        first = demo.split("\n")[0:6]
        # which package directory?
        pkg = "grpcgcp"
        m = re.search(r"^package\s+(\w+)", demo, re.M)
        if m and m.group(1) == "multiendpoint":
            pkg = "grpcgcp/multiendpoint"
        elif m and m.group(1) == "main":
            pkg = "spanner_prober" if "prober" in "\n".join(first) else "e2e-checksum"
        elif m and m.group(1) == "prober":
            pkg = "spanner_prober/prober"
        demo_dst = os.path.join(wt, pkg, "zz_seed_demo_test.go")
        tests = re.findall(r"^func (Test\w+)\(", demo, re.M)
        run = "^(" + "|".join(tests) + ")$"
        mod = os.path.join(wt, pkg.split("/")[0])
        rel = "./" + "/".join(pkg.split("/")[1:]) if "/" in pkg else "."

        race = ["-race"] if "-race" in "\n".join(first) else []

        def run_demo():
            shutil.copy(os.path.join(src, "demo_test.go"), demo_dst)
            rc, out = sh(["go", "test", "-vet=off", "-count=1", "-timeout", "300s"] + race + ["-run", run, rel], cwd=mod)
            os.remove(demo_dst)
            return rc, out
        # without the patch the demo passes
        rc0, out0 = run_demo()
        ran.append("demo on unchanged tree: exit %d" % rc0)
        res["demo_passes_without"] = rc0 == 0
        rc, out = sh("git apply %s" % os.path.join(os.path.abspath(src), "patch.diff"), cwd=wt)
        if rc != 0:   # the repository moved on since the change was written: try a 3-way merge
            rc, out2 = sh("git apply -3 %s" % os.path.join(os.path.abspath(src), "patch.diff"), cwd=wt)
            out += out2
            ran.append("patch applied with git apply -3 (HEAD moved since it was written)")
        assert rc == 0, "patch does not apply: " + out
        pkgs = ". ./multiendpoint" if pkg.startswith("grpcgcp") else "./..."
        rcb, outb = sh("go test -vet=off -count=1 -run '^$' %s" % pkgs, cwd=mod)
        res["builds"] = rcb == 0
        # failing tests of the unchanged tree (spanner_prober has one in the baseline)
        # (no git stash here: the stash stack is shared by all worktrees of a repository)
        pf = os.path.join(os.path.abspath(src), "patch.diff")
        base_fail = set()
        if not pkg.startswith("grpcgcp"):
            sh("git apply -R %s" % pf, cwd=wt)
            base_fail = set(re.findall(r"^\s*--- FAIL: (\S+)", sh("go test -vet=off -count=1 %s" % pkgs, cwd=mod)[1], re.M))
            sh("git apply %s" % pf, cwd=wt)
        for attempt in range(3):     # the suite has wall-clock sensitive tests; retry to filter load flakes
            rct, outt = sh("go test -vet=off -count=1 %s" % pkgs, cwd=mod)
            now_fail = set(re.findall(r"^\s*--- FAIL: (\S+)", outt, re.M))
            if rct == 0 or (now_fail and now_fail == base_fail):
                rct = 0
                break
        if rct != 0:
            res["existing_tests_output"] = outt[-1500:]
        ran.append("existing tests (%s) with patch: exit %d" % (pkgs, rct))
        res["existing_tests_pass_with"] = rct == 0
        if pkg.startswith("grpcgcp"):
            for attempt in range(6):
                rcg, outg = sh("go test -vet=off -count=1 ./test_grpc", cwd=mod)
                if "address already in use" in outg:
                    time.sleep(20)
                    continue
                break
            ran.append("existing tests (./test_grpc) with patch: exit %d" % rcg)
            res["test_grpc_pass_with"] = rcg == 0 if "address already in use" not in outg else None
        rc1, out1 = run_demo()
        ran.append("demo with patch: exit %d" % rc1)
        res["demo_fails_with"] = rc1 != 0
        # the checks
        res["checks"] = {}
        for p in props:
            e = dict(os.environ, VERIF_REPO=wt, VERIF_EVID=os.path.join(wt, ".verif-evidence"))
            rcc, outc = sh(["python3", os.path.join(VERIF, "tools", "check.py"), "run", p, "--tier", "quick"], cwd=VERIF, env=e, timeout=3000)
            lines = [l for l in outc.split("\n") if l.startswith("VIOLATION") or l.startswith("KNOWN-FINDING") or l.startswith(p + ":")]
            res["checks"][p] = {"exit": rcc, "lines": [l[:300] for l in lines]}
            ran.append("VERIF_REPO=<worktree+patch> python3 tools/check.py run %s --tier quick: exit %d" % (p, rcc))
            # keep the first replay next to the seed
            m = re.search(r"replay=(\S+)", outc)
            if m and os.path.exists(m.group(1)):
                os.makedirs(os.path.join(VERIF, "seeded", sid), exist_ok=True)
                shutil.copy(m.group(1), os.path.join(VERIF, "seeded", sid, "replay_%s.json" % p))
        res["confirmed"] = bool(res["demo_passes_without"] and res["builds"] and res["existing_tests_pass_with"] and res["demo_fails_with"])
        res["caught_by"] = [p for p in props if res["checks"][p]["exit"] == 1]
    finally:
        sh("git -C /repo worktree remove --force %s" % wt)
        shutil.rmtree(wt, ignore_errors=True)
    dst = os.path.join(VERIF, "seeded", sid)
    os.makedirs(dst, exist_ok=True)
    shutil.copy(os.path.join(src, "patch.diff"), os.path.join(dst, "patch.diff"))
    shutil.copy(os.path.join(src, "demo_test.go"), os.path.join(dst, "demo_test.go"))
    meta = {"breaks_property": prop, "summary": meta_in.get("summary"), "needs_to_manifest": meta_in.get("what_it_needs_to_manifest"),
            "author": "independent sub-agent given only the property text and a scratch worktree",
            "what_i_ran": ran, "result": res}
    json.dump(meta, open(os.path.join(dst, "meta.json"), "w"), indent=1)
    print(json.dumps(res, indent=1))


if __name__ == "__main__":
    main()
