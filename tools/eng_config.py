"""Engine D/Config: property C17 (configuration: defaults, fidelity and immutability of
the pool config).  Pure-function engine with one multi-event case kind (B: a balancer and
a sequence of resolver updates).  See coq/Config/*.v, harness/config, ocaml/config."""
import os, json, re
import check as C
from engines import HistEngine


def _kind(lines):
    t = lines[0].split()
    return t[1] if len(t) > 1 else "?"


def config_nontrivial(lines):
    """P/Q: the JSON value has at least three nodes; X: always (every malformed text is a
    different way of not being JSON); R: a config with a pool or a method entry; B: at least
    one update that carries a non-empty config, or two updates; G: a non-nil config."""
    op = lines[0].split(";")[0].split()
    k = op[1] if len(op) > 1 else "?"
    if k in ("P", "Q"):
        return len(op) - 3 >= 3
    if k == "X":
        return True
    if k == "R":
        return op[2:] != ["C", "p0", "0"]
    if k == "B":
        ups = [l.split(";")[0].split() for l in lines[1:] if l.startswith("U ")]
        return len(ups) >= 2 or any(u[1] == "3" and u[4:] != ["C", "p0", "0"] for u in ups)
    if k == "G":
        return op[2:] != ["-"]
    return False


class ConfigEngine(HistEngine):
    name = "config"
    pkg_rel = "grpcgcp"
    harness_dir = "config"
    test_name = "TestVerifConfig"
    driver_dir = "config"
    driver_bin = "config_driver"
    extract_v = "ExtractCONFIG.v"
    coq_dir = "Config"
    corpus = "config"
    props = {
        "C17": dict(
            monitor="c17",
            rel={"parse-accept", "parse-value", "malformed-accepted", "render", "consts", "outputs", "effective",
                 "method-table", "unresponsive", "subconns", "fixed-once", "alias", "gcpconfig", "service-config"},
            quick=dict(VERIF_N="3000"),
            thorough=dict(VERIF_N="100000"),
            nontrivial=config_nontrivial,
            rule="cases = corpus + seeded random, one per line except B: "
                 "P (44%) a JSON value built from a random ApiConfig spelt in a random way (JSON or proto field names, "
                 "defaults omitted / explicit / null, integers as numbers, numeric strings, x.0, exponent and shifted-point "
                 "forms, enums as names or numbers; ~1 in 30 fields wrong on purpose: negative, fractional, overflowing, "
                 "wrong JSON type, wrong-case enum name) plus structural edits (reordered, duplicated under the same or the "
                 "other name, null-then-value, unknown and misplaced members, non-object top level), rendered to text by "
                 "the harness with random white space and string escapes; "
                 "Q (1.5%) the same with one value shaped like known findings PJ1-PJ3; "
                 "X (14.5%) malformed text in 16 classes (stray/missing commas and colons, truncation, trailing text, quotes, "
                 "bad numbers, bad escapes / control characters / invalid UTF-8 / lone surrogates, misspelt literals, "
                 "comments, empty, missing values, unbalanced brackets); "
                 "R (15%) protojson.Marshal of a random ApiConfig (nil/empty/full pool incl. max uint32/uint64, unknown enum "
                 "numbers, 0-6 method entries incl. nil entries, nil/empty name lists, overlapping names) parsed back; "
                 "B (20%) a real gcpBalancer over a fake ClientConn and 1-7 resolver updates (config / nil interface / nil "
                 "pointer / nil ApiConfig / foreign config type; minSize <= 50; 0-2 addresses; SubConn creation refused by the "
                 "fake for the duration of an update or because the address list is empty) interleaved with all or some pool "
                 "connections reporting Shutdown (with or without Ready first) and with overwriting every message passed in; a "
                 "quarter of the histories empty the pool between updates, a quarter start with an update during which no "
                 "connection can be created; after every event cfg, methodCfg, unresponsiveDetection and len(scRefs) are read "
                 "back and compared with the first accepted config's effective values, NewSubConn calls/successes and "
                 "UpdateAddresses calls are counted; "
                 "G (5%) NewGCPMultiEndpoint through a real grpc.Dial with a failing dialer, GCPConfig() three times with the "
                 "result and the caller's message overwritten in between, and the JSON grpc hands to ParseConfig for the "
                 "default service config. Distinct by hash of the input tokens; non-trivial = P/Q: JSON value with >= 3 "
                 "nodes, X: always, R: non-empty config, B: >= 2 updates or an update with a non-empty config, G: non-nil config"),
    }

    # ---- extra evidence: per-kind and per-trigger counts of the main run
    _kinds = None
    _flags = None

    def run_impl(self, scratch, env, tag="t", timeout=3000):
        rc, out, trace = super().run_impl(scratch, env, tag=tag, timeout=timeout)
        if tag == "t" and rc == 0 and os.path.exists(trace):
            kinds = {}
            with open(trace) as f:
                for line in f:
                    if line.startswith("H "):
                        k = line.split(None, 2)[1]
                        kinds[k] = kinds.get(k, 0) + 1
            self._kinds = kinds
            try:
                self._dist = [l for l in open(trace + ".dist").read().split("\n")[1:] if l.strip()]
            except OSError:
                self._dist = []
        return rc, out, trace

    def run_driver(self, trace, extra=None):
        rc, out, err = super().run_driver(trace, extra)
        if not extra and os.path.basename(trace) == "t.trace" and rc == 0:
            flags = {}
            for r in self.parse_results(out):
                for k, v in r["flag"].items():
                    if v and not k.startswith("kind_"):
                        flags[k] = flags.get(k, 0) + 1
                if "c17core" in r["mon"] and not r["mon"]["c17core"][0]:
                    flags["c17core_failures"] = flags.get("c17core_failures", 0) + 1
            self._flags = flags
        return rc, out, err

    def run_property(self, pid, tier, seed):
        import engines
        cls = type(self)
        hook = cls.run_property
        del cls.run_property            # let the generic flow run
        try:
            rc = engines.run_property(pid, tier, seed)
        finally:
            cls.run_property = hook
        path = os.path.join(C.EVID, pid + ".json")
        try:
            ev = json.load(open(path))
            cov = ev["coverage"]
            cov["case_kinds"] = self._kinds or {}
            cov["known_finding_triggers_fired"] = {k: v for k, v in (self._flags or {}).items() if k.startswith("k_")}
            cov["monitor_c17core_failures"] = (self._flags or {}).get("c17core_failures", 0)
            cov["input_distribution"] = [l.strip() for l in getattr(self, "_dist", [])]
            json.dump(ev, open(path, "w"), indent=1)
        except Exception as e:          # evidence stays as the generic flow wrote it
            print("eng_config: could not extend the evidence: %s" % e)
        return rc


ENGINE = ConfigEngine()

ASSUMPTIONS = {
    "C17": [
        "protojson (google.golang.org/protobuf v1.30.0, pinned by grpcgcp/go.mod) is modelled, not verified: "
        "Model.of_json mirrors its decoder function for function and is tied to it by the differential run only",
        "JSON is compared at the level of parsed values (objects with ordered members, number lexemes, decoded strings); "
        "tokenisation (white space, string escapes, UTF-8 validation) is exercised through the harness' renderer and the "
        "malformed-text stream, not modelled in Coq",
        "'well-formed rendering' = the documented proto3 JSON mapping (Model.of_json_strict): a numeric string is one whole "
        "RFC 8259 number and a number stands for the integer it denotes; the three places where protojson differs are the "
        "open known findings PJ1-PJ3",
        "strings in configurations are valid UTF-8 (protojson.Marshal refuses anything else, so makeOpts fails on such a config)",
        "immutability / non-aliasing have no content in a functional model: they are checked on the implementation only "
        "(proto.Equal and structural dump before/after every call, overwrite-everything-afterwards)",
        "min_size <= 50 in balancer histories (each unit is one fake SubConn); larger values only in the parse/render kinds",
        "balancer histories are serialized calls of UpdateClientConnState / UpdateSubConnState on one goroutine; pool "
        "connections leave the pool only by reporting Shutdown (no refresh in progress in these histories)",
    ],
}
