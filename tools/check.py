#!/usr/bin/env python3
"""Single entry point of the verification machinery (see DESIGN.md section 2).

  check.py setup                       build the Coq development, the OCaml drivers, the translators
  check.py run <Cxx> [--tier quick|thorough]
  check.py replay <replay.json>
  check.py audit                       grep the Coq tree for forbidden constructs

Exit status of `run`: 0 = property held on everything explored (KNOWN-FINDING
lines may be printed), 1 = a line `VIOLATION property=<id> replay=<path>` was
printed.
"""
import sys, os, json, subprocess, tempfile, shutil, time, hashlib, re, fcntl, glob

VERIF = os.path.dirname(os.path.dirname(os.path.abspath(__file__)))
REPO = os.environ.get("VERIF_REPO", "/repo")
COQ = os.path.join(VERIF, "coq")
BUILD = os.path.join(VERIF, "build")
# evidence goes to /verif/evidence unless a development run against a scratch tree redirects it
EVID = os.environ.get("VERIF_EVID") or os.path.join(VERIF, "evidence")
REPLAYS = os.path.join(VERIF, "replays")
sys.path.insert(0, os.path.join(VERIF, "tools"))

GOENV = dict(os.environ, GOFLAGS="-mod=mod", GOPROXY="off", GOSUMDB="off", GOTOOLCHAIN="local",
             CGO_ENABLED=os.environ.get("CGO_ENABLED", "1"))


def sh(cmd, cwd=None, env=None, timeout=None, check=False):
    p = subprocess.run(cmd, cwd=cwd, env=env, timeout=timeout, stdout=subprocess.PIPE,
                       stderr=subprocess.STDOUT, text=True, shell=isinstance(cmd, str))
    if check and p.returncode != 0:
        raise RuntimeError("command failed: %s\n%s" % (cmd, p.stdout[-4000:]))
    return p.returncode, p.stdout


class Lock:
    def __init__(self, name):
        os.makedirs(BUILD, exist_ok=True)
        self.path = os.path.join(BUILD, name)

    def __enter__(self):
        self.f = open(self.path, "w")
        fcntl.flock(self.f, fcntl.LOCK_EX)

    def __exit__(self, *a):
        fcntl.flock(self.f, fcntl.LOCK_UN)
        self.f.close()


# ----------------------------------------------------------------------------
# Coq build
FORBIDDEN = re.compile(r"\b(Admitted|admit|Axiom|Axioms|Parameter|Parameters|Conjecture|Conjectures|"
                       r"Admit Obligations|bypass_check|Unset Guard Checking|Unset Positivity Checking|"
                       r"Unset Universe Checking|type-in-type|impredicative-set)\b")


def strip_comments(src):
    out, depth, i = [], 0, 0
    while i < len(src):
        if src.startswith("(*", i):
            depth += 1; i += 2
        elif src.startswith("*)", i) and depth > 0:
            depth -= 1; i += 2
        else:
            if depth == 0:
                out.append(src[i])
            i += 1
    return "".join(out)


def audit():
    bad = []
    for path in glob.glob(os.path.join(COQ, "**", "*.v"), recursive=True):
        src = strip_comments(open(path).read())
        for ln, line in enumerate(src.split("\n"), 1):
            if FORBIDDEN.search(line):
                bad.append("%s:%d: %s" % (path, ln, line.strip()))
            if re.match(r"\s*(Variable|Variables|Hypothesis|Hypotheses|Context)\b", line):
                # only allowed inside a Section
                pre = src.split("\n")[:ln]
                opened = sum(1 for l in pre if re.match(r"\s*Section\b", l))
                closed = sum(1 for l in pre if re.match(r"\s*End\b", l))
                if opened <= closed:
                    bad.append("%s:%d: %s (outside a section)" % (path, ln, line.strip()))
    cp = open(os.path.join(COQ, "_CoqProject")).read()
    if "-type-in-type" in cp or "-impredicative-set" in cp or "-vos" in cp:
        bad.append("_CoqProject: forbidden flag")
    return bad


def coq_build(clean=False):
    """Full .vo build of the Coq tree. Returns (ok, log)."""
    with Lock("coq.lock"):
        if clean:
            sh("find . -name '*.vo' -o -name '*.glob' -o -name '*.vok' -o -name '*.vos' -o -name '.*.aux' | xargs rm -f", cwd=COQ)
        mk = os.path.join(COQ, "Makefile")
        if not os.path.exists(mk) or os.path.getmtime(mk) < os.path.getmtime(os.path.join(COQ, "_CoqProject")):
            sh("coq_makefile -f _CoqProject -o Makefile", cwd=COQ, check=True)
        # -k: a file that no longer checks must only break the properties that depend on it
        rc, out = sh("timeout 3000 make -k -j16 2>&1", cwd=COQ)
        return rc == 0, out


def props_assumptions(pid):
    """Re-check Props_<pid>.v and capture what Print Assumptions says."""
    cands = glob.glob(os.path.join(COQ, "*", "Props_%s.v" % pid))
    if not cands:
        return False, "no Props_%s.v" % pid, [], 0, 0
    path = cands[0]
    with Lock("coq.lock"):
        rc, out = sh(["timeout", "1200", "coqc", "-Q", COQ, "GV", path], cwd=COQ)
    axioms = []
    closed = out.count("Closed under the global context")
    for m in re.finditer(r"^([A-Za-z_][\w.']*)\s*:", out, re.M):
        axioms.append(m.group(1))
    axioms = sorted(set(axioms))
    # obligations: statements in the dependency cone
    n_stmt, n_qed = cone_counts(path)
    return rc == 0, out, axioms, n_stmt, n_qed


def cone_counts(path):
    rc, out = sh("coqdep -Q . GV %s" % os.path.relpath(path, COQ), cwd=COQ)
    files = set([path])
    seen = set()
    todo = [path]
    while todo:
        p = todo.pop()
        if p in seen:
            continue
        seen.add(p)
        rc, out = sh("coqdep -Q . GV %s" % os.path.relpath(p, COQ), cwd=COQ)
        for m in re.finditer(r"(\S+)\.vo\b", out.split(":", 1)[1] if ":" in out else ""):
            q = os.path.normpath(os.path.join(COQ, m.group(1) + ".v"))
            if os.path.exists(q) and q.startswith(COQ):
                todo.append(q)
    n_stmt = n_qed = 0
    for p in seen:
        src = strip_comments(open(p).read())
        n_stmt += len(re.findall(r"^\s*(?:Local\s+|Global\s+)?(?:Lemma|Theorem|Corollary|Fact|Remark|Proposition|Example)\b", src, re.M))
        n_qed += len(re.findall(r"\b(?:Qed|Defined)\.", src))
    return n_stmt, n_qed


# ----------------------------------------------------------------------------
# Go harness
def go_module_of(pkg_dir):
    d = pkg_dir
    while d != "/" and not os.path.exists(os.path.join(d, "go.mod")):
        d = os.path.dirname(d)
    return d


def run_harness(scratch, pkg_rel, harness_dir, test_name, env, mask_tests=True, extra_overlay=None,
                timeout=3000, race=False):
    """Compile the package at REPO/pkg_rel with the harness files overlaid and run one test."""
    pkg = os.path.join(REPO, pkg_rel)
    mod = go_module_of(pkg)
    repl = {}
    if mask_tests:
        for f in glob.glob(os.path.join(pkg, "*_test.go")):
            repl[f] = ""
    for f in glob.glob(os.path.join(VERIF, "harness", harness_dir, "*.go")):
        repl[os.path.join(pkg, os.path.basename(f))] = f
    if extra_overlay:
        repl.update(extra_overlay)
    ov = os.path.join(scratch, "overlay.json")
    json.dump({"Replace": repl}, open(ov, "w"))
    shutil.copy(os.path.join(mod, "go.mod"), os.path.join(scratch, "x.mod"))
    if os.path.exists(os.path.join(mod, "go.sum")):
        shutil.copy(os.path.join(mod, "go.sum"), os.path.join(scratch, "x.sum"))
    e = dict(GOENV)
    e.update(env)
    e["GOCACHE"] = os.environ.get("GOCACHE", os.path.join(BUILD, "gocache"))
    e["GOTMPDIR"] = scratch
    cmd = ["go", "test", "-vet=off", "-tags", "verif", "-overlay", ov, "-modfile", os.path.join(scratch, "x.mod"),
           "-count=1", "-timeout", "%ds" % timeout, "-run", "^%s$" % test_name]
    if race:
        cmd.append("-race")
    cmd.append("./" + os.path.relpath(pkg, mod))
    if os.environ.get("VERIF_COVER"):
        # development aid (tools/covreport.py): statement coverage of the package by the harness.  go's cover
        # tool ignores -overlay, so the overlay is materialised in a scratch copy of the module instead.
        cp = os.path.join(scratch, "covmod")
        shutil.rmtree(cp, ignore_errors=True)
        shutil.copytree(mod, cp, ignore=shutil.ignore_patterns(".git"))
        for dst, srcf in repl.items():
            d2 = os.path.join(cp, os.path.relpath(dst, mod))
            if srcf == "":
                if os.path.exists(d2):
                    os.remove(d2)
            else:
                os.makedirs(os.path.dirname(d2), exist_ok=True)
                shutil.copy(srcf, d2)
        n = len(glob.glob(os.environ["VERIF_COVER"] + ".*"))
        cmd = [c for c in cmd if c not in ("-overlay", ov)]
        cmd[-1:-1] = ["-covermode=atomic", "-coverprofile=%s.%d" % (os.environ["VERIF_COVER"], n)]
        mod = cp
    try:
        rc, out = sh(cmd, cwd=mod, env=e, timeout=timeout + 60)
    except subprocess.TimeoutExpired:
        return 124, "harness timed out"
    return rc, out


# ----------------------------------------------------------------------------
def sha(s):
    return hashlib.sha1(s.encode()).hexdigest()[:16]


def load_known():
    p = os.environ.get("VERIF_KNOWN") or os.path.join(VERIF, "known_findings.json")
    if os.path.exists(p):
        return json.load(open(p))
    return {"findings": []}


def write_evidence(pid, tier, seed, coverage, wall, violations, assumptions):
    os.makedirs(EVID, exist_ok=True)
    ev = {"property_id": pid, "tier": tier, "seed": seed, "level": "proof", "coverage": coverage,
          "assumptions": assumptions, "wall_s": round(wall, 2), "violations": violations}
    json.dump(ev, open(os.path.join(EVID, pid + ".json"), "w"), indent=1)


def write_replay(pid, seed, n, payload):
    os.makedirs(REPLAYS, exist_ok=True)
    path = os.path.join(REPLAYS, "%s-%s-%d.json" % (pid, seed, n))
    json.dump(payload, open(path, "w"), indent=1)
    return path


def main():
    if len(sys.argv) < 2:
        print(__doc__); return 2
    cmd = sys.argv[1]
    import engines
    if cmd == "setup":
        return engines.setup()
    if cmd == "audit":
        bad = audit()
        for b in bad:
            print(b)
        print("audit: %d problem(s)" % len(bad))
        return 1 if bad else 0
    if cmd == "coqchk":
        # independent re-check of every compiled module of the development (minutes)
        mods = [l.strip()[:-2].replace("/", ".") for l in open(os.path.join(COQ, "_CoqProject")) if l.strip().endswith(".v")]
        ok, out = coq_build()
        rc, out = sh(["coqchk", "-silent", "-o", "-Q", ".", "GV"] + ["GV." + m for m in mods], cwd=COQ, timeout=6 * 3600)
        print(out[-3000:])
        open(os.path.join(COQ, "COQCHK.txt"), "w").write(out[-3000:])
        return rc
    if cmd == "run":
        pid = sys.argv[2]
        tier = os.environ.get("VERIF_TIER", "quick")
        if "--tier" in sys.argv:
            tier = sys.argv[sys.argv.index("--tier") + 1]
        seed = int(os.environ.get("VERIF_SEED", "1") or "1")
        return engines.run_property(pid, tier, seed)
    if cmd == "replay":
        return engines.replay(sys.argv[2])
    print(__doc__)
    return 2


if __name__ == "__main__":
    sys.exit(main())
