"""Engines and per-property check logic (verdict rules of DESIGN.md section 2.7)."""
import os, sys, json, time, tempfile, shutil, re, glob, subprocess
import check as C

VERIF = C.VERIF


# ----------------------------------------------------------------------------
class HistEngine:
    """An engine whose correspondence check is: the Go harness runs histories on
    the implementation and writes `op ; outs ; obs` lines, the extracted model
    (OCaml driver) replays them and runs the Coq-defined monitors."""
    name = None
    pkg_rel = None          # package directory relative to /repo
    harness_dir = None      # under /verif/harness
    test_name = None
    driver_dir = None       # under /verif/ocaml
    driver_bin = None
    extract_v = None        # Coq extraction file
    props = {}              # pid -> dict(monitor=..., rel=set(...), quick=env, thorough=env, rule=..., nontrivial=fn)

    def driver_path(self):
        return os.path.join(VERIF, "ocaml", self.driver_dir, self.driver_bin)

    def build_driver(self, force=False):
        d = os.path.join(VERIF, "ocaml", self.driver_dir)
        binp = self.driver_path()
        srcs = glob.glob(os.path.join(d, "*_body.ml")) + glob.glob(os.path.join(VERIF, "ocaml", "common", "*.ml")) + \
            glob.glob(os.path.join(C.COQ, self.coq_dir, "*.v")) + [os.path.join(C.COQ, "Extract", self.extract_v)]
        if not force and os.path.exists(binp) and all(os.path.getmtime(s) <= os.path.getmtime(binp) for s in srcs):
            return True, ""
        with C.Lock("ocaml-%s.lock" % self.name):
            rc, out = C.sh(["sh", os.path.join(d, "build.sh")], cwd=d)
        return rc == 0, out

    def extra_overlay(self, scratch):
        return None

    def extra_obligations(self, pid, scratch, known):
        """Obligations regenerated from the source on every run by the lock-table translator (engine `locks`):
        the critical sections the model treats as atomic steps really are single critical sections in the code
        (atomicity groups / add-only counters protecting this property); for C06 also the interleaving half."""
        ev, ok, logs = {}, True, []
        try:
            import eng_locks
        except Exception:
            return True, "", None
        locks_scratch = os.path.join(scratch, "locks")
        if hasattr(eng_locks, "atomicity_check"):
            try:
                res = eng_locks.atomicity_check(locks_scratch, known)
                if "*" in res:          # the table could not be built: a failure for every property it backs
                    res = {pid: res["*"]}
                if pid in res:
                    aok, rows, aev = res[pid]
                    ev["atomicity"] = aev
                    if not aok:
                        ok = False
                        logs.append("atomicity group / counter rows fail: " + str(rows)[:1500])
            except Exception as ex:
                ok = False
                logs.append("atomicity analysis failed: %r" % ex)
        if pid == "C06":
            try:
                iok, fail, iev = eng_locks.interleaving_check(locks_scratch, known)
                ev["interleaving"] = iev
                if not iok:
                    ok = False
                    logs.append("; ".join(eng_locks.row_text(r) if isinstance(r, dict) else str(r) for r in fail[:5]) or iev.get("error", ""))
            except Exception as ex:
                ok = False
                logs.append("lock-table analysis failed: %r" % ex)
        return ok, " | ".join(logs), (ev or None)

    def run_impl(self, scratch, env, tag="t", timeout=3000):
        trace = os.path.join(scratch, tag + ".trace")
        e = dict(env)
        e["VERIF_OUT"] = trace
        ov = self.extra_overlay(scratch)
        if getattr(self, "nogate", False):
            e["VERIF_NOGATE"] = "1"
        rc, out = C.run_harness(scratch, self.pkg_rel, self.harness_dir, self.test_name, e,
                                extra_overlay=ov, timeout=timeout)
        return rc, out, trace

    def run_driver(self, trace, extra=None):
        cmd = [self.driver_path(), trace] + (extra or [])
        p = subprocess.run(cmd, stdout=subprocess.PIPE, stderr=subprocess.PIPE, text=True)
        return p.returncode, p.stdout, p.stderr

    @staticmethod
    def parse_results(text):
        res = []
        for line in text.split("\n"):
            t = line.split()
            if not t or t[0] != "hist":
                continue
            r = {"hist": int(t[1]), "line": int(t[3]), "nev": int(t[5]), "mon": {}, "flag": {}}
            i = 6
            assert t[i] == "acc"
            if t[i + 1] == "ok":
                r["acc"] = None; i += 2
            else:
                r["acc"] = (int(t[i + 2]), t[i + 3]); i += 4
            while i < len(t):
                if t[i].startswith("m:"):
                    r["mon"][t[i][2:]] = (t[i + 1] == "1", int(t[i + 2])); i += 3
                elif t[i].startswith("f:"):
                    r["flag"][t[i][2:]] = int(t[i + 1]); i += 2
                else:
                    i += 1
            res.append(r)
        return res

    @staticmethod
    def split_histories(trace_path):
        hs, cur = [], None
        with open(trace_path) as f:
            for ln, line in enumerate(f, 1):
                if line.startswith("H "):
                    cur = {"line": ln, "lines": []}
                    hs.append(cur)
                if cur is not None and line.strip():
                    cur["lines"].append(line.rstrip("\n"))
        return hs

    @staticmethod
    def ops_of(lines):
        return [l.split(";")[0].strip() for l in lines]


def ops_hash(ops):
    return C.sha("\n".join(ops))


# ----------------------------------------------------------------------------
def me_nontrivial_c13(lines):
    # a history in which Current() changed at least once after construction
    curs = set()
    for l in lines:
        parts = l.split(";")
        if len(parts) == 3 and parts[2].split():
            curs.add(parts[2].split()[0])
    return len(curs) >= 2


def me_nontrivial_c14(lines):
    # at least one timer callback ran (E) and at least one switch/recovery timer was created
    ops = [l.split(";")[0].split() for l in lines]
    created = any(" T " in (" " + l.split(";")[1] + " ") for l in lines if l.count(";") == 2)
    return created and any(o and o[0] == "E" for o in ops)


class MEEngine(HistEngine):
    name = "multiendpoint"
    pkg_rel = "grpcgcp/multiendpoint"
    harness_dir = "multiendpoint"
    test_name = "TestVerifME"
    driver_dir = "me"
    driver_bin = "me_driver"
    extract_v = "ExtractME.v"
    coq_dir = "ME"
    corpus = "me"
    props = {
        "C13": dict(monitor="c13", rel={"current", "endpoints", "outputs", "construct", "illegal-op", "timers"},
                    quick=dict(VERIF_N="6000", VERIF_MAXOPS="40"),
                    thorough=dict(VERIF_N="400000", VERIF_MAXOPS="50", VERIF_ENUM_DEPTH="5"),
                    nontrivial=me_nontrivial_c13,
                    rule="histories = corpus + seeded random (1-5 endpoints from a pool of up to 6 ids incl. the empty string, "
                         "recovery/delay from {0,5,10,20,30,-5}, reports incl. unknown ids, list replacements incl. empty and "
                         "duplicates, clock advances to/around the next due time, timers fired in any order with Begin/End split) "
                         "[+ thorough: every legal history of depth 5 over 3 endpoints x 6 configurations]; distinct by hash of the "
                         "operation list; non-trivial = Current() took at least two different values"),
        "C14": dict(monitor="c14", rel={"current", "endpoints", "outputs", "construct", "illegal-op", "timers"},
                    quick=dict(VERIF_N="6000", VERIF_MAXOPS="40"),
                    thorough=dict(VERIF_N="400000", VERIF_MAXOPS="50", VERIF_ENUM_DEPTH="5"),
                    nontrivial=me_nontrivial_c14,
                    rule="same generator as C13; non-trivial = at least one timer was created and at least one timer callback ran"),
    }



def pool_nontrivial(kind):
    def f(lines):
        ops = [l.split(";")[0].split() for l in lines]
        mids = [l.split(";")[1] if l.count(";") >= 2 else "" for l in lines]
        picked = sum(1 for m in mids if "RET picked" in m)
        if kind == "picks":
            return picked >= 1
        if kind == "publish":
            return sum(1 for m in mids if " S " in (" " + m)) >= 2
        if kind == "keyed":
            # a keyed call after a successful bind completion
            bound = False
            for o, m in zip(ops, mids):
                if o and o[0] == "D" and len(o) > 2 and o[2] == "0":
                    bound = True
                if bound and o and o[0] == "P" and o[2] in ("2", "3") and "RET picked" in m:
                    return True
            return False
        if kind == "refresh":
            return any(" RM " in (" " + m) for m in mids)
        if kind == "growth":
            return any(o and o[0] == "P" and " N " in (" " + m) for o, m in zip(ops, mids))
        if kind == "rr":
            return any("RET blocked" in m for m in mids) or sum(1 for o, m in zip(ops, mids) if o and o[0] == "P" and o[2] == "1" and "RET picked" in m) >= 2
        if kind == "resolver":
            return sum(1 for o in ops if o and o[0] == "R") >= 2
        if kind == "any":
            return len(ops) >= 3
        return False
    return f


class PoolEngine(HistEngine):
    name = "pool"
    pkg_rel = "grpcgcp"
    harness_dir = "pool"
    test_name = "TestVerifPool"
    driver_dir = "pool"
    driver_bin = "pool_driver"
    extract_v = "ExtractPOOL.v"
    coq_dir = "Pool"
    corpus = "pool"
    GEN = ("histories = corpus (witnesses of every fixed finding) + seeded random histories over pool configurations "
           "(min,max in {0,1,2,3,5}; watermark in {0,1,2,3,100,2^31,2^32-1}; fallback on/off; unresponsive (ms,calls); "
           "round-robin on/off; nil config) of resolver updates (changing/empty address lists, nil/wrong-type config), resolver errors, "
           "state reports for pool/unknown/replacement connections (all five states), picks on current and superseded pickers "
           "(plain/BIND/BOUND/UNBIND, good and bad key paths, 0-2 keys, with/without interceptor context, deadlines, cancelled), "
           "completions in any order (ok/error/client deadline/server deadline), clock advances, factory failures, cancellations, "
           "weighted directed scenarios (refresh by deadline, bind-then-use, saturation, gate/park/resume, stale stand-in) and one large-pool "
           "history (256-300 connections); thorough tier adds every operation sequence of depth 4 over a small state-dependent alphabet "
           "after a fixed prelude for 3 configurations; "
           "distinct by hash of the operation list; ")
    props = {}

    def extra_overlay(self, scratch):
        """line-preserving copies of gcp_balancer.go / gcp_picker.go with time.Now() -> verifNow()"""
        repl = {}
        for f in ("gcp_balancer.go", "gcp_picker.go"):
            src = os.path.join(C.REPO, "grpcgcp", f)
            dst = os.path.join(scratch, "clock_" + f)
            text = open(src).read().replace("time.Now()", "verifNow()")
            # every other way the code could consult or wait for the wall clock goes through the harness's
            # virtual clock as well: a wait capped by a timer, or by counting ticker ticks, then shows as a
            # divergence when the harness advances the virtual clock under a blocked call
            for a, b in (("time.NewTicker(", "verifNewTicker("), ("time.NewTimer(", "verifNewTimer("),
                         ("time.After(", "verifAfter("), ("time.Since(", "verifSince("), ("time.Until(", "verifUntil(")):
                text = text.replace(a, b)
            if f == "gcp_picker.go":
                # yield point between the pool-size check and newSubConn() (same line: line numbers are preserved)
                if "\t\tp.gb.newSubConn()\n" in text:
                    text = text.replace("\t\tp.gb.newSubConn()\n", "\t\tverifYield(\"grow\"); p.gb.newSubConn()\n", 1)
                else:
                    self.nogate = True
            open(dst, "w").write(text)
            repl[src] = dst
        return repl


_POOL_REL_ALL = {"ret", "newsc", "addr", "publish", "unblocked", "cfg", "counters", "aff", "fb", "states", "refs",
                 "streams", "slotaff", "refresh", "rr", "picker", "now", "lock", "ended", "badop", "construct"}


def _pool_prop(mon, rel, nontriv, rule, n_quick="3000", n_thorough="150000"):
    return dict(monitor=mon, rel=rel, quick=dict(VERIF_N=n_quick, VERIF_MAXOPS="40"),
                thorough=dict(VERIF_N=n_thorough, VERIF_MAXOPS="60", VERIF_ENUM_DEPTH="4"),
                nontrivial=pool_nontrivial(nontriv), rule=PoolEngine.GEN + rule)


PoolEngine.props = {
    "C01": _pool_prop("c01", {"ret", "aff", "refs", "states", "slotaff", "ended", "badop", "construct", "fb", "picker", "publish"}, "keyed",
                      "non-trivial = a BOUND/UNBIND call was placed after a successful BIND completion"),
    "C02": _pool_prop("c02", {"ret", "streams", "refs", "states", "picker", "publish", "ended", "badop", "construct"}, "picks",
                      "non-trivial = at least one call was placed"),
    "C03": _pool_prop("c03", {"ret", "newsc", "refs", "states", "cfg", "ended", "badop", "construct"}, "growth",
                      "non-trivial = the pool grew during a pick"),
    "C04": _pool_prop("c04", {"publish", "counters", "states", "refs", "picker", "ended", "badop", "construct"}, "publish",
                      "non-trivial = at least two state/picker pairs were published"),
    "C05": _pool_prop("c05", _POOL_REL_ALL, "any", "non-trivial = at least two operations after construction"),
    "C06": _pool_prop("c06", {"ret", "unblocked", "lock", "ended", "badop", "construct", "rr", "states", "refs"}, "any",
                      "non-trivial = at least two operations after construction"),
    "C07": _pool_prop("c07", {"cfg", "newsc", "refresh", "refs", "states", "ret", "aff", "fb", "streams", "slotaff", "ended", "badop", "construct"}, "refresh",
                      "non-trivial = a refresh ran to completion (old connection removed)"),
    "C08": _pool_prop("c08", {"ret", "fb", "aff", "states", "refs", "picker", "publish", "ended", "badop", "construct"}, "keyed",
                      "non-trivial = a BOUND/UNBIND call was placed after a successful BIND completion (fallback enabled by the generator)"),
    "C09": _pool_prop("c09", {"ret", "rr", "unblocked", "refs", "states", "streams", "ended", "badop", "construct"}, "rr",
                      "non-trivial = a round-robin BIND pick blocked, or two of them were placed"),
    "C20": _pool_prop("c20", {"addr", "newsc", "refs", "refresh", "cfg", "ended", "badop", "construct"}, "resolver",
                      "non-trivial = at least two resolver updates"),
}


ENGINES = [MEEngine(), PoolEngine()]


def load_plugins():
    """tools/eng_<name>.py files define ENGINE (a HistEngine subclass instance) and
    optionally ASSUMPTIONS (dict pid -> list of strings) and SETUP (callable -> rc)."""
    import importlib
    for f in sorted(glob.glob(os.path.join(VERIF, "tools", "eng_*.py"))):
        try:
            mod = importlib.import_module(os.path.basename(f)[:-3])
        except Exception as ex:     # a plugin under construction must not break the other checks
            sys.stderr.write("warning: plugin %s not loaded: %r\n" % (os.path.basename(f), ex))
            continue
        ENGINES.append(mod.ENGINE)
        ASSUMPTIONS.update(getattr(mod, "ASSUMPTIONS", {}))
        if hasattr(mod, "SETUP"):
            EXTRA_SETUP.append(mod.SETUP)


def engine_of(pid):
    for e in ENGINES:
        if pid in e.props:
            return e
    return None


# ----------------------------------------------------------------------------
def setup():
    t0 = time.time()
    bad = C.audit()
    if bad:
        print("\n".join(bad)); print("audit failed"); return 1
    ok, out = C.coq_build()
    if not ok:
        print(out[-6000:]); print("coq build failed"); return 1
    try:
        claimed = set(c["property_id"] for c in json.load(open(os.path.join(VERIF, "MANIFEST.json")))["checks"])
    except Exception:
        claimed = set()
    for e in ENGINES:
        if not hasattr(e, "build_driver"):
            continue
        ok, out = e.build_driver(force=True)
        if not ok:
            if claimed & set(e.props):
                print(out[-4000:]); print("driver build failed: " + e.name); return 1
            print("warning: engine %s (no claimed property yet) does not build; skipped" % e.name)
    for extra in EXTRA_SETUP:
        try:
            rc = extra()
        except Exception as ex:
            rc = 1
            print("setup hook failed: %r" % ex)
        if rc:
            print("warning: a plugin setup hook failed (rc=%s)" % rc)
    print("setup ok in %.0fs" % (time.time() - t0))
    return 0


EXTRA_SETUP = []
ASSUMPTIONS = {}


# ----------------------------------------------------------------------------
def shrink(engine, scratch, ops, still_fails, max_rounds=40):
    """Batch delta debugging on the operation list (the H line is kept)."""
    cur = list(ops)
    if len(cur) > 160:
        # very long histories (large-pool scenarios): truncation to the failing event is all the shrinking we do
        return cur
    rounds = 0
    chunk = max(1, (len(cur) - 1) // 2)
    while rounds < max_rounds and len(cur) > 2:
        rounds += 1
        cands = []
        i = 1
        while i < len(cur):
            cands.append(cur[:i] + cur[i + chunk:])
            i += chunk
        hist = os.path.join(scratch, "shrink.hist")
        with open(hist, "w") as f:
            for c in cands:
                f.write("\n".join(c) + "\n")
        rc, out, trace = engine.run_impl(scratch, {"VERIF_HIST": hist, "VERIF_N": "0"}, tag="shrink")
        if rc != 0:
            break
        drc, dout, derr = engine.run_driver(trace)
        res = engine.parse_results(dout)
        picked = None
        for k, r in enumerate(res):
            if k < len(cands) and still_fails(r):
                picked = k
                break
        if picked is not None:
            cur = cands[picked]
            chunk = max(1, min(chunk, (len(cur) - 1) // 2))
        elif chunk > 1:
            chunk = chunk // 2
        else:
            break
    return cur


def known_match(pid, r, known):
    """A failing history matches an open known finding iff the driver raised the
    finding's trigger flag (a Coq-defined predicate over the trace) on it."""
    for k in known.get("findings", []):
        if k.get("property") == pid and k.get("status") == "open" and r["flag"].get("k_" + k["id"], 0) == 1:
            return k
    return None


def run_property(pid, tier, seed):
    t0 = time.time()
    eng = engine_of(pid)
    if eng is None:
        print("no engine claims property " + pid)
        return 2
    if hasattr(eng, "run_property"):
        return eng.run_property(pid, tier, seed)
    P = eng.props[pid]
    mon = P["monitor"]
    known = C.load_known()
    violations = []           # (kind, replay_path)
    notes = []
    scratch = tempfile.mkdtemp(prefix="verif-%s-" % pid)
    try:
        # 1. proof obligations
        ok_build, build_log = C.coq_build()
        # the property's own Props file (and through it its dependency cone) decides
        proof_ok, plog, axioms, n_stmt, n_qed = C.props_assumptions(pid)
        if not proof_ok:
            plog = plog + "\n--- make log ---\n" + build_log[-3000:]
        bad = C.audit()
        if bad:
            proof_ok = False
            plog = "audit: " + "; ".join(bad[:5])
        okd, dlog = eng.build_driver()
        # obligations regenerated from the source on every run (translators)
        extra_ev = None
        if hasattr(eng, "extra_obligations"):
            xok, xlog, extra_ev = eng.extra_obligations(pid, scratch, known)
            if not xok:
                proof_ok = False
                plog = "regenerated obligation fails: " + xlog
        # 2. implementation runs
        env = dict(P[tier] if tier in P else P["quick"])
        env["VERIF_SEED"] = str(seed)
        env["VERIF_PROP"] = pid
        corpus = os.path.join(VERIF, "corpus", eng.corpus)
        env["VERIF_HIST"] = corpus if os.path.isdir(corpus) else ""
        # a harness that hangs (e.g. on a lock leaked by the code under test) is a broken correspondence: bound it
        rc, hout, trace = eng.run_impl(scratch, env, timeout=(900 if tier == "quick" else 4 * 3600))
        harness_ok = rc == 0 and os.path.exists(trace)
        results, hists = [], []
        if harness_ok and okd:
            drc, dout, derr = eng.run_driver(trace)
            if drc != 0:
                harness_ok = False
                hout = "driver failed: " + derr[-2000:]
            else:
                results = eng.parse_results(dout)
                hists = eng.split_histories(trace)
        if not (harness_ok and okd and len(results) == len(hists)):
            # correspondence cannot be established at all (harness does not compile / crashed)
            path = C.write_replay(pid, seed, 0, {
                "property": pid, "engine": eng.name, "kind": "correspondence-broken",
                "what": "the harness or driver could not be built/run against the current tree; "
                        "the correspondence between model and code no longer checks",
                "log": (hout or dlog)[-6000:]})
            violations.append(("no-failing-input-found", path))
        mon_fail = [r for r in results if mon in r["mon"] and not r["mon"][mon][0]]
        divs_rel = [r for r in results if r["acc"] is not None and r["acc"][1] in P["rel"]]
        divs_other = [r for r in results if r["acc"] is not None and r["acc"][1] not in P["rel"]]
        known_printed = {}
        # 3. monitor failures on implementation traces
        reported = 0
        for r in mon_fail:
            k = known_match(pid, r, known)
            if k is not None:
                known_printed[k["id"]] = k
                continue
            if reported >= 3:
                continue
            h = hists[r["hist"]]
            ops = eng.ops_of(h["lines"])
            fidx = r["mon"][mon][1]
            ops = ops[: fidx + 2] if fidx >= 0 else ops
            small = shrink(eng, scratch, ops, lambda rr: mon in rr["mon"] and not rr["mon"][mon][0]
                           and known_match(pid, rr, known) is None)
            path = C.write_replay(pid, seed, len(violations), {
                "property": pid, "engine": eng.name, "kind": "monitor-failure", "monitor": mon,
                "history": small, "original_history": eng.ops_of(h["lines"]),
                "failing_event_index": fidx, "trace": h["lines"][: fidx + 2] if fidx >= 0 else h["lines"]})
            violations.append(("", path))
            reported += 1
        # 4. broken obligation / relevant divergence without a monitor failure
        if not violations and (divs_rel or not proof_ok):
            found = None
            budget = 3 if tier == "quick" else 12
            for extra in range(budget):
                env2 = dict(env)
                env2["VERIF_SEED"] = str(seed * 1000003 + extra + 17)
                env2["VERIF_HIST"] = ""
                rc2, out2, trace2 = eng.run_impl(scratch, env2, tag="search%d" % extra)
                if rc2 != 0:
                    break
                drc, dout, derr = eng.run_driver(trace2)
                res2 = eng.parse_results(dout)
                h2 = eng.split_histories(trace2)
                bad2 = [r for r in res2 if mon in r["mon"] and not r["mon"][mon][0] and known_match(pid, r, known) is None]
                if bad2:
                    r = bad2[0]
                    ops = eng.ops_of(h2[r["hist"]]["lines"])
                    fidx = r["mon"][mon][1]
                    ops = ops[: fidx + 2] if fidx >= 0 else ops
                    small = shrink(eng, scratch, ops, lambda rr: mon in rr["mon"] and not rr["mon"][mon][0])
                    found = C.write_replay(pid, seed, 0, {
                        "property": pid, "engine": eng.name, "kind": "monitor-failure", "monitor": mon,
                        "history": small, "failing_event_index": fidx})
                    break
            if found:
                violations.append(("", found))
            else:
                payload = {"property": pid, "engine": eng.name, "kind": "no-failing-input-found"}
                if not proof_ok:
                    payload["broken_obligation"] = "Props_%s.v (or its dependency cone) no longer checks" % pid
                    payload["log"] = plog[-4000:]
                if divs_rel:
                    r = divs_rel[0]
                    h = hists[r["hist"]]
                    payload["correspondence_class"] = r["acc"][1]
                    payload["diverging_event_index"] = r["acc"][0]
                    payload["history"] = eng.ops_of(h["lines"])[: r["acc"][0] + 1]
                    payload["trace"] = h["lines"][: r["acc"][0] + 1]
                    payload["what"] = ("model and implementation differ in observable class '%s' at event %d; the theorem "
                                       "about the model no longer transfers to the code" % (r["acc"][1], r["acc"][0]))
                path = C.write_replay(pid, seed, 0, payload)
                violations.append(("no-failing-input-found", path))
        # 5. evidence
        distinct = {}
        for h in hists:
            ops = eng.ops_of(h["lines"])
            distinct.setdefault(ops_hash(ops), h)
        nontriv = sum(1 for h in distinct.values() if P["nontrivial"](h["lines"]))
        opcount = {}
        for h in hists:
            for o in eng.ops_of(h["lines"]):
                opcount[o.split()[0]] = opcount.get(o.split()[0], 0) + 1
        divclasses = {}
        for r in results:
            if r["acc"] is not None:
                divclasses[r["acc"][1]] = divclasses.get(r["acc"][1], 0) + 1
        # in-Coq cross-check of a sample of the traces
        coq_checked, coq_mismatch = 0, None
        if harness_ok and okd and results:
            nmax = 150 if tier == "quick" else 1500
            coq_checked, coq_mismatch = coq_crosscheck(eng, scratch, trace, nmax)
            if coq_mismatch:
                notes.append("in-Coq evaluation disagrees with the extracted driver: " + coq_mismatch)
                path = C.write_replay(pid, seed, 99, {"property": pid, "kind": "no-failing-input-found",
                                                       "what": "extracted driver and vm_compute disagree", "log": coq_mismatch})
                violations.append(("no-failing-input-found", path))
        samples = [h["lines"][:12] for h in list(distinct.values())[:3]]
        cov = {
            # obligations: Lemma/Theorem/Example/... statements in the dependency cone of Props_<id>.v; the cone
            # compiled (full .vo) and the audit found no Admitted/admit/Axiom, so all of them are discharged
            "obligations": n_stmt, "discharged": n_stmt if proof_ok else 0, "qed_or_defined_in_cone": n_qed,
            "checker_cmd": "cd /verif/coq && make (coqc 8.16.1, full .vo) ; coqc Props_%s.v (Print Assumptions)" % pid,
            "trusted_base": TRUSTED_BASE,
            "axioms_reported_by_Print_Assumptions": axioms,
            "print_assumptions_closed_count": plog.count("Closed under the global context") if proof_ok else 0,
            "evaluations": len(hists),
            "traces_validated_against_impl": sum(1 for r in results if r["acc"] is None),
            "distinct_nontrivial": nontriv,
            "distinct_histories": len(distinct),
            "events": sum(r["nev"] for r in results),
            "rule": P["rule"],
            "operation_histogram": opcount,
            "divergences_by_class": divclasses,
            "divergences_in_foreign_classes": len(divs_other),
            "monitor_failures_on_impl_traces": len(mon_fail),
            "in_coq_crosschecked_traces": coq_checked,
            "known_findings_printed": sorted(known_printed),
            "samples": samples,
            "exhaustive": False,
            "notes": notes,
        }
        if extra_ev is not None:
            cov["regenerated_obligations"] = extra_ev
        for k in known_printed.values():
            print("KNOWN-FINDING: property=%s %s" % (pid, k["what"]))
        for kind, path in violations:
            print("VIOLATION property=%s replay=%s%s" % (pid, path, (" " + kind) if kind else ""))
        C.write_evidence(pid, tier, seed, cov, time.time() - t0, len(violations), ASSUMPTIONS.get(pid, []))
        print("%s: %d histories (%d distinct, %d non-trivial), %d accepted by the model, %d monitor failures, proof %s, %.1fs"
              % (pid, len(hists), len(distinct), nontriv, cov["traces_validated_against_impl"], len(mon_fail),
                 "ok" if proof_ok else "BROKEN", time.time() - t0))
        return 1 if violations else 0
    finally:
        shutil.rmtree(scratch, ignore_errors=True)


def coq_crosscheck(eng, scratch, trace, nmax):
    """Evaluate accept/monitors on a sample of the recorded traces inside Coq
    (vm_compute) and compare with what the extracted driver said."""
    cases = os.path.join(scratch, "Cases.v")
    rc, out, err = eng.run_driver(trace, ["--coq", cases, str(nmax)])
    if rc != 0 or not os.path.exists(cases):
        return 0, "driver --coq failed: " + err[-500:]
    with C.Lock("coq.lock"):
        rc, out = C.sh(["timeout", "900", "coqc", "-Q", C.COQ, "GV", "-Q", scratch, "Scratch", cases], cwd=scratch)
    if rc != 0:
        return 0, "coqc Cases.v failed: " + out[-800:]
    m = re.search(r"mismatches\s*=\s*(.*?)\s*:\s*list nat", out, re.S)
    n = len(re.findall(r"^Definition case_\d+ ", open(cases).read(), re.M))
    if not m:
        return 0, "no result printed"
    if m.group(1).strip() != "[]":
        return n, "cases " + m.group(1).strip()
    return n, None


def replay(path):
    rp = json.load(open(path))
    pid = rp["property"]
    eng = engine_of(pid)
    if eng is None:
        print("no engine claims property " + pid)
        return 2
    if hasattr(eng, "replay"):
        return eng.replay(rp)
    if "history" not in rp:
        print("replay file names a broken obligation/correspondence without a history:")
        print(json.dumps({k: v for k, v in rp.items() if k != "log"}, indent=1))
        return run_property(pid, "quick", 1)
    P = eng.props[pid]
    mon = P["monitor"]
    scratch = tempfile.mkdtemp(prefix="verif-replay-")
    try:
        C.coq_build()
        eng.build_driver()
        hist = os.path.join(scratch, "r.hist")
        open(hist, "w").write("\n".join(rp["history"]) + "\n")
        rc, out, trace = eng.run_impl(scratch, {"VERIF_HIST": hist, "VERIF_N": "0"})
        if rc != 0:
            print(out[-3000:]); return 1
        print(open(trace).read())
        drc, dout, derr = eng.run_driver(trace)
        print(dout)
        res = eng.parse_results(dout)
        fails = any((mon in r["mon"] and not r["mon"][mon][0]) or (r["acc"] is not None and r["acc"][1] in P["rel"]) for r in res)
        print("replay: property %s %s on this history" % (pid, "FAILS" if fails else "holds"))
        return 1 if fails else 0
    finally:
        shutil.rmtree(scratch, ignore_errors=True)


TRUSTED_BASE = [
    "Coq 8.16.1 kernel (coqc; vm_compute used, native_compute not used)",
    "Coq extraction with ExtrOcamlBasic only (Extract Inductive bool/option/list/prod/unit/sumbool/sumor; no Extract Constant), OCaml 4.13.1",
    "ocaml/common/conv.ml and the per-engine driver (parsing/printing glue)",
    "the Go harness under /verif/harness (fakes, virtual clock, history generator) and go test -overlay",
    "tools/check.py + tools/engines.py (verdict logic)",
]

ASSUMPTIONS.update({
    "C13": ["endpoint names are opaque strings (numbered); '' is id 0",
            "time.AfterFunc modelled as: fires no earlier than due, any order, Stop() effective only before the runtime fired the timer",
            "priority claims are for duplicate-free lists; on duplicates the model follows the code (last position wins)"],
    "C14": ["as C13", "recovery timeout >= 0 for the clause 'a timer never takes an endpoint out of the available state' "
            "(with a negative timeout two state changes can share a timestamp and the code's stamp check cannot tell them apart)"],
})

load_plugins()
