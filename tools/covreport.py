#!/usr/bin/env python3
"""Development aid: list the statements of given files not executed in a coverage profile
(VERIF_COVER=<prefix> python3 tools/check.py run Cxx).   covreport.py <profile> file1.go file2.go ..."""
import sys, re
prof, files = sys.argv[1], sys.argv[2:]
tot = {}; cov = {}
blocks = {}
for l in open(prof):
    m = re.match(r'(.*):(\d+)\.(\d+),(\d+)\.(\d+) (\d+) (\d+)', l)
    if not m: continue
    f = m.group(1).split("/")[-1]
    if files and f not in files: continue
    k = (f, int(m.group(2)), int(m.group(4)))
    blocks[k] = (int(m.group(6)), blocks.get(k, (0, 0))[1] + int(m.group(7)))
for (f, a, b), (n, c) in sorted(blocks.items()):
    tot[f] = tot.get(f, 0) + n
    if c: cov[f] = cov.get(f, 0) + n
    else: print("uncovered %s:%d-%d (%d stmts)" % (f, a, b, n))
for f in sorted(tot):
    print("%s: %d/%d statements (%.1f%%)" % (f, cov.get(f, 0), tot[f], 100.0 * cov.get(f, 0) / tot[f]))
