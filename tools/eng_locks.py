"""Engine "locks": property C10 (data-race freedom) and the interleaving half of C06
(no self-deadlock / lock-order cycle / blocking while holding a lock).

Every run
  1. rebuilds the lock table from the CURRENT working tree (REPO = check.REPO) with the
     translator tools/lockfacts (Go; go/packages + go/cfg) -> <scratch>/gen/LockFacts.v + lockfacts.tsv,
  2. compiles LockFacts.v and a generated Instance.v against coq/Locks:
        instance_race_free   : forallb site_ok    accesses = true
        instance_acquire_ok  : forallb acquire_ok acquires = true
        instance_block_ok    : forallb block_ok   blocks   = true
        instance_order       : order_acyclic acquires = true
        instance_no_unknown  : forallb unknown_ok unknowns = true
     (by vm_compute; with open known findings the rows they list are filtered out inside the theorem),
     which instantiate Locks/Check.v : table_race_free / table_no_wait_cycle / ... (Props_C10.v),
  3. failing rows: open known finding (struct, field, function) -> KNOWN-FINDING; otherwise the
     failing-input search runs the `-race` stress harness of the row's group; a race-detector report whose
     accessing frame is that function/line is the replay, else `no-failing-input-found` naming the rows.
The race detector alone is never the verdict (thorough tier: a report in the analysed files that no
failing row explains is reported, because then the table missed an access)."""
import os, re, json, time, shutil, tempfile, glob, subprocess
import check as C

VERIF = C.VERIF
LF_DIR = os.path.join(VERIF, "tools", "lockfacts")
LF_BIN = os.path.join(C.BUILD, "lockfacts")
COQ_FILES = ["Tables", "Policy", "DRF", "Deadlock", "Check", "RefFacts", "Props_C10"]   # dependency order
FILES = ["gcp_balancer.go", "gcp_picker.go", "gcp_multiendpoint.go", "gcp_interceptor.go", "multiendpoint.go", "endpoint.go"]

# group -> (package dir relative to the repository, harness dir, test name, extra env)
GROUPS = {
    "pool": ("grpcgcp", "locks_pool", "TestVerifLocksPool", {}),
    "stream": ("grpcgcp", "locks_pool", "TestVerifLocksStream", {}),
    "gme": ("grpcgcp", "locks_gme", "TestVerifLocksGME", {}),
    "me": ("grpcgcp/multiendpoint", "locks_me", "TestVerifLocksME", {}),
}

TRUSTED = [
    "Coq 8.16.1 kernel (coqc; vm_compute for the instance theorems)",
    "tools/lockfacts (Go, ~1400 lines; go/packages type information + x/tools/go/cfg v0.29.0): the flow-sensitive must/may lock "
    "sets, the call graph (static calls, interface calls resolved to the implementing types of the two packages, calls through "
    "function-valued fields resolved to the literals assigned to them), the classification of entry points and the freshness "
    "analysis are TRUSTED - this is the largest unverified piece of the C10 argument",
    "coq/Locks/Policy.v: the hand-written protection policy per (struct, field), the lock order and the list of callees accepted as "
    "non-blocking (reviewed input)",
    "instance assumption: a lock class held at an access (e.g. gcpBalancer.mu) is the instance that owns the accessed object "
    "(one balancer per subConnRef/picker, one multiEndpoint per endpoint, one stream per mutex)",
    "Go memory model as abstracted by Locks/DRF.v (program order, release->acquire of sync.Mutex/RWMutex, go statement, "
    "sync/atomic accesses never race with each other)",
    "tools/eng_locks.py + tools/check.py (verdict logic); the -race stress harnesses under harness/locks_* only search for replays",
]

ASSUMPTIONS = {"C10": [
    "usage contract: balancer callbacks (UpdateClientConnState, ResolverError, UpdateSubConnState, Close) are mutually serialized by "
    "gRPC (modelled as a pseudo lock @callback held in W mode around each callback); Pick and Done may run on any goroutine",
    "publication contract for gcpBalancer.cfg/methodCfg/unresponsiveDetection: written only by the first UpdateClientConnState, "
    "before any gcpPicker exists; a Pick/Done runs only on a picker handed to cc.UpdateState by a later callback",
    "write-once contract for gcpClientStream.ClientStream: set once (nil -> stream) under the stream mutex; SendMsg/RecvMsg use it "
    "only after leaving a critical section in which they saw it set (checked syntactically: the mutex was released earlier in the "
    "same function on every path)",
    "fresh objects: an access through a local variable bound to a composite literal that has not yet been passed on, captured or "
    "had a method called on it cannot race (fmt.Sprintf/Errorf and sync.NewCond are taken not to retain their arguments)",
    "composite-literal field initialisation is not an access row (the object is being allocated)",
    "fields of foreign types (grpc.ClientConn, protobuf messages, time.Timer), channels and aliasing through interfaces or "
    "closures other than the modelled ones are outside the table",
]}


# ----------------------------------------------------------------------------
# building blocks

def build_translator(force=False):
    srcs = glob.glob(os.path.join(LF_DIR, "*.go")) + [os.path.join(LF_DIR, "go.mod"), os.path.join(LF_DIR, "go.sum")]
    if not force and os.path.exists(LF_BIN) and all(os.path.getmtime(s) <= os.path.getmtime(LF_BIN) for s in srcs):
        return True, ""
    os.makedirs(C.BUILD, exist_ok=True)
    with C.Lock("lockfacts.lock"):
        e = dict(C.GOENV)
        e["GOCACHE"] = os.environ.get("GOCACHE", os.path.join(C.BUILD, "gocache"))
        rc, out = C.sh(["go", "build", "-o", LF_BIN, "."], cwd=LF_DIR, env=e)
    return rc == 0, out


def build_coq():
    """compile coq/Locks/*.v in dependency order when a .vo is missing or stale (make does it too once the files are in _CoqProject)"""
    with C.Lock("coq.lock"):
        newest = 0
        for f in COQ_FILES:
            v = os.path.join(C.COQ, "Locks", f + ".v")
            vo = v + "o"
            newest = max(newest, os.path.getmtime(v))
            if not os.path.exists(vo) or os.path.getmtime(vo) < newest:
                rc, out = C.sh(["timeout", "900", "coqc", "-Q", ".", "GV", "Locks/%s.v" % f], cwd=C.COQ)
                if rc != 0:
                    return False, out
                newest = max(newest, os.path.getmtime(vo))
    return True, ""


def make_table(scratch):
    """run the translator on REPO; returns (ok, log, rows) with rows = list of dicts from the TSV"""
    gen = os.path.join(scratch, "gen")
    os.makedirs(gen, exist_ok=True)
    mod = os.path.join(C.REPO, "grpcgcp")
    shutil.copy(os.path.join(mod, "go.mod"), os.path.join(scratch, "lf.mod"))
    if os.path.exists(os.path.join(mod, "go.sum")):
        shutil.copy(os.path.join(mod, "go.sum"), os.path.join(scratch, "lf.sum"))
    e = dict(C.GOENV)
    e["GOCACHE"] = os.environ.get("GOCACHE", os.path.join(C.BUILD, "gocache"))
    e["GOTMPDIR"] = scratch
    rc, out = C.sh([LF_BIN, "-repo", C.REPO, "-out", gen, "-modfile", os.path.join(scratch, "lf.mod")], env=e, timeout=600)
    if rc != 0:
        return False, out, []
    rows = []
    lines = open(os.path.join(gen, "lockfacts.tsv")).read().split("\n")
    for ln in lines[1:]:
        if not ln.strip():
            continue
        t = ln.split("\t")
        rows.append(dict(kind=t[0], file=t[1], line=int(t[2]), func=t[3], a=t[4], b=t[5], access=t[6], atomic=t[7] == "true",
                         fresh=t[8] == "true", must=t[9], may=t[10], released=t[11], condlock=t[12], ctxs=t[13],
                         op=t[14] if len(t) > 14 else "", sec=t[15] if len(t) > 15 else "", root=t[16] if len(t) > 16 else ""))
    return True, out, rows


def coq_str(s):
    return '"' + s.replace('"', '""') + '"'


def known_rows(known, pid="C10"):
    """(struct, field, func) triples listed by OPEN known findings -> finding"""
    m = {}
    for k in known.get("findings", []):
        if k.get("property") == pid and k.get("status") == "open":
            for r in k.get("rows", []):
                m[(r["struct"], r["field"], r["func"])] = k
    return m


HEADER = """From Coq Require Import String List Bool.
From GV Require Import Locks.Tables Locks.Policy Locks.Check.
Require Import LockFacts.
Import ListNotations.
Open Scope string_scope.
"""


def parse_coq_terms(out):
    """every `= <term> : <type>` printed by Eval, parsed into Python (lists, tuples, str, int, bool, None/Some x)"""
    res = []
    for m in re.finditer(r"^\s*=\s(.*?)\n\s*:\s", out, re.S | re.M):
        txt = m.group(1)
        toks = re.findall(r'"(?:[^"]|"")*"|\d+|[A-Za-z_][\w.\']*|[\[\]();,]', txt)
        pos = [0]

        def term():
            t = toks[pos[0]]
            pos[0] += 1
            if t == "[":
                xs = []
                if toks[pos[0]] == "]":
                    pos[0] += 1
                    return xs
                while True:
                    xs.append(term())
                    t2 = toks[pos[0]]
                    pos[0] += 1
                    if t2 == "]":
                        return xs
            if t == "(":
                xs = []
                while True:
                    xs.append(term())
                    t2 = toks[pos[0]]
                    pos[0] += 1
                    if t2 == ")":
                        return tuple(xs) if len(xs) > 1 else xs[0]
            if t.startswith('"'):
                return t[1:-1].replace('""', '"')
            if t.isdigit():
                return int(t)
            if t == "true":
                return True
            if t == "false":
                return False
            if t == "None":
                return None
            if t == "Some":
                return term()
            return t
        try:
            res.append(term())
        except IndexError:
            res.append(None)
    return res


def compile_instance(scratch, kn_triples):
    """Compile LockFacts.v + Instance.v. Returns dict(ok, log, bad={sites:[idx], acqs:[idx], blks:[idx], unks:[idx], order:bool}, instance_ok)"""
    gen = os.path.join(scratch, "gen")
    known_def = "Definition known_rows : list (string * string * string) := [%s].\n" % "; ".join(
        "(%s, %s, %s)" % (coq_str(a), coq_str(b), coq_str(c)) for (a, b, c) in sorted(kn_triples))
    known_def += ("Definition is_known (s : site) : bool := existsb (fun k => String.eqb (fst (fst k)) (s_type s) && "
                  "String.eqb (snd (fst k)) (s_field s) && String.eqb (snd k) (s_func s)) known_rows.\n"
                  "Definition checked_sites := filter (fun s => negb (is_known s)) accesses.\n")
    inst = HEADER + known_def + """
Theorem instance_race_free : forallb site_ok checked_sites = true.
Proof. vm_cast_no_check (@eq_refl bool true). Qed.
Theorem instance_acquire_ok : forallb acquire_ok acquires = true.
Proof. vm_cast_no_check (@eq_refl bool true). Qed.
Theorem instance_block_ok : forallb block_ok blocks = true.
Proof. vm_cast_no_check (@eq_refl bool true). Qed.
Theorem instance_order : order_acyclic acquires = true.
Proof. vm_cast_no_check (@eq_refl bool true). Qed.
Theorem instance_no_unknown : forallb unknown_ok unknowns = true.
Proof. vm_cast_no_check (@eq_refl bool true). Qed.
Theorem instance_groups : forallb (group_ok scoped) groups = true.
Proof. vm_cast_no_check (@eq_refl bool true). Qed.
Theorem instance_counters : forallb counter_ok accesses = true.
Proof. vm_cast_no_check (@eq_refl bool true). Qed.
Print Assumptions instance_race_free.
Print Assumptions instance_groups.
"""
    diag = HEADER + """
Fixpoint bad_idx {A} (ok : A -> bool) (l : list A) (i : nat) : list nat :=
  match l with [] => [] | x :: r => if ok x then bad_idx ok r (S i) else i :: bad_idx ok r (S i) end.
Definition d_sites := bad_idx site_ok accesses 0.
Definition d_acqs := bad_idx acquire_ok acquires 0.
Definition d_blks := bad_idx block_ok blocks 0.
Definition d_unks := bad_idx unknown_ok unknowns 0.
Definition d_order := order_acyclic acquires.
Eval vm_compute in d_sites.
Eval vm_compute in d_acqs.
Eval vm_compute in d_blks.
Eval vm_compute in d_unks.
Eval vm_compute in d_order.
Definition d_counters := bad_idx counter_ok accesses 0.
Eval vm_compute in d_counters.
Definition is_grow (g : group) (r : srow) : bool := String.eqb (r_root r) (g_fn g) && relevant g r.
Fixpoint idx_where {A} (p : A -> bool) (l : list A) (i : nat) : list nat :=
  match l with [] => [] | x :: r => if p x then i :: idx_where p r (S i) else idx_where p r (S i) end.
Definition d_group (g : group) :=
  let marked := map (fun r => (is_grow g r, r)) scoped in
  let rows := map snd (filter fst marked) in
  let id := first_id (g_lock g) rows in
  let bad := match id with
             | None => idx_where fst marked 0
             | Some s => idx_where (fun p => fst p && negb (row_ok g s (snd p))) marked 0
             end in
  let missing := match id with
                 | None => g_members g
                 | Some s => filter (fun m => negb (existsb (fun r => member_matches m r && row_in_section (g_lock g) s r) rows)) (g_members g)
                 end in
  let ok := match id with
            | None => false
            | Some s => is_nil bad && is_nil missing
            end in
  (g_name g, g_props g, g_fn g, g_lock g, ok, id, length rows, bad, map (fun m => (m_type m, m_field m)) missing, g_why g).
Definition d_groups := map d_group groups.
Eval vm_compute in d_groups.
Definition d_counter_meta := map (fun c => match c with (t, f, ops, props, why) => (t, f, props, why) end) counters.
Eval vm_compute in d_counter_meta.
"""
    open(os.path.join(gen, "Instance.v"), "w").write(inst)
    open(os.path.join(gen, "Diag.v"), "w").write(diag)
    res = dict(ok=False, log="", bad=None, instance_ok=False)
    def par(files):
        ps = [subprocess.Popen(["timeout", "900", "coqc", "-Q", C.COQ, "GV", "-Q", ".", "", f], cwd=gen, stdout=subprocess.PIPE,
                               stderr=subprocess.STDOUT, text=True) for f in files]
        outs = [p.communicate()[0] for p in ps]
        return [(p.returncode, o) for p, o in zip(ps, outs)]
    with C.Lock("coq.lock"):
        rc, out = C.sh(["timeout", "900", "coqc", "-Q", C.COQ, "GV", "-Q", ".", "", "LockFactsStr.v"], cwd=gen)
        if rc != 0:
            res["log"] = "LockFactsStr.v does not compile:\n" + out[-3000:]
            return res
        r = par(["LockFactsA.v", "LockFactsS.v"])
        if any(rc for rc, _ in r):
            res["log"] = "the generated tables do not compile against coq/Locks/Tables.v:\n" + "\n".join(o for _, o in r)[-3000:]
            return res
        rc, out = C.sh(["timeout", "900", "coqc", "-Q", C.COQ, "GV", "-Q", ".", "", "LockFacts.v"], cwd=gen)
        if rc != 0:
            res["log"] = "LockFacts.v does not compile:\n" + out[-3000:]
            return res
        (rc, out), (rc2, out2) = par(["Diag.v", "Instance.v"])
    if rc != 0:
        res["log"] = "Diag.v failed:\n" + out[-3000:]
        return res
    vals = parse_coq_terms(out)
    if len(vals) != 8 or any(v is None for v in vals[:6]):
        res["log"] = "cannot parse Diag.v output:\n" + out[-3000:]
        return res
    res["bad"] = dict(sites=vals[0], acqs=vals[1], blks=vals[2], unks=vals[3], order=vals[4], counters=vals[5])
    res["groups"] = [dict(name=g[0], props=g[1], fn=g[2], lock=g[3], ok=g[4], section=g[5], rows=g[6], bad=g[7],
                          missing=["%s.%s" % m for m in g[8]], why=g[9]) for g in vals[6]]
    res["counters"] = [dict(struct=c[0], field=c[1], props=c[2], why=c[3]) for c in vals[7]]
    res["ok"] = True
    res["instance_ok"] = rc2 == 0
    res["log"] = out2[-3000:]
    res["closed"] = "Closed under the global context" in out2
    return res


def group_of(row):
    f = row["file"]
    if f in ("multiendpoint.go", "endpoint.go"):
        return "me"
    if f == "gcp_multiendpoint.go":
        return "gme"
    if f == "gcp_interceptor.go":
        return "stream"
    return "pool"


def go_symbol(func):
    """translator function name -> symbol as printed in race reports, with the pointer-receiver spelling removed
    (T.m for both T.m and (*T).m; literals f$1$2 -> f.func1.2)"""
    m = re.match(r"^(multiendpoint\.)?(.*?)((?:\$\d+)*)$", func)
    pk = "grpcgcp/multiendpoint." if m.group(1) else "grpcgcp."
    lits = re.findall(r"\$(\d+)", m.group(3))
    suffix = ""
    if lits:
        suffix = ".func" + lits[0] + "".join("." + x for x in lits[1:])
    return pk + m.group(2) + suffix


def norm_symbol(sym):
    return re.sub(r"\(\*(\w+)\)", r"\1", sym)


REPORT_SPLIT = re.compile(r"^={18}\s*$", re.M)
ACCESS_HDR = re.compile(r"^(Write|Read|Previous write|Previous read|Atomic write|Atomic read|Previous atomic write|Previous atomic read) at 0x[0-9a-f]+ by ", re.M)


def parse_reports(out):
    """list of dict(text, frames=[(func, file, line) first repo frame of each of the two accesses])"""
    reps = []
    for blk in REPORT_SPLIT.split(out):
        if "WARNING: DATA RACE" not in blk:
            continue
        frames = []
        parts = ACCESS_HDR.split(blk)
        # parts = [pre, kind1, body1, kind2, body2...]
        for i in range(2, len(parts), 2):
            body = parts[i].split("\n\n")[0]
            fr = re.findall(r"^\s+(\S+)\(.*?\)\n\s+(\S+?):(\d+)", body, re.M)
            for fn, path, line in fr:
                if "/grpcgcp/" in path and not os.path.basename(path).endswith("_verif_test.go") and "/usr/lib/go" not in path:
                    frames.append((fn.split("grpc-gcp-go/")[-1], os.path.basename(path), int(line)))
                    break
        reps.append(dict(text=blk.strip(), frames=frames))
    return reps


def report_matches(rep, row):
    sym = go_symbol(row["func"])
    for fn, f, ln in rep["frames"]:
        if f == row["file"] and norm_symbol(fn) == sym and abs(ln - row["line"]) <= 3:
            return True
    return False


def run_race(scratch, group, ms, seed, tag):
    pkg, hd, test, extra = GROUPS[group]
    env = {"VERIF_MS": str(ms), "VERIF_SEED": str(seed), "GORACE": "halt_on_error=0"}
    env.update(extra)
    rc, out = C.run_harness(scratch, pkg, hd, test, env, race=True, timeout=max(120, ms // 1000 + 120))
    return rc, out


def row_text(r):
    if r["kind"] == "access":
        return "%s:%d %s: %s of %s.%s%s, certainly held [%s], possibly held [%s], contexts {%s}" % (
            r["file"], r["line"], r["func"], {"read": "read", "write": "write", "cread": "container read", "cwrite": "container write"}[r["access"]],
            r["a"], r["b"], ((" (atomic %s)" % r.get("op", "")) if r["atomic"] else "") + (" (object still fresh)" if r["fresh"] else ""), r["must"], r["may"], r["ctxs"])
    if r["kind"] == "scoped":
        return "%s:%d %s (within %s): %s of %s.%s%s, certainly held [%s], open sections [%s]" % (
            r["file"], r["line"], r["func"], r["root"], {"read": "read", "write": "write", "cread": "container read", "cwrite": "container write"}[r["access"]],
            r["a"], r["b"], (" (atomic %s)" % r["op"]) if r["op"] else "", r["must"], r["sec"])
    if r["kind"] == "acquire":
        return "%s:%d %s: acquires %s (%s) while possibly holding [%s]" % (r["file"], r["line"], r["func"], r["a"], r["b"], r["may"])
    if r["kind"] == "block":
        return "%s:%d %s: %s %s while possibly holding [%s]" % (r["file"], r["line"], r["func"], r["a"], r["b"], r["may"])
    return "%s:%d %s: %s" % (r["file"], r["line"], r["func"], r["b"])


# ----------------------------------------------------------------------------
_CACHE = {}


def analyse(scratch, known):
    """common part of C10, the C06 interleaving check and the atomicity check: ONE translator run and one
    Coq evaluation per scratch directory (cached in this process)."""
    key = (os.path.abspath(scratch), C.REPO, json.dumps(sorted(known_rows(known).keys())))
    if key not in _CACHE:
        _CACHE[key] = _analyse(scratch, known)
    return _CACHE[key]


def _analyse(scratch, known):
    t0 = time.time()
    okt, tlog = build_translator()
    okc, clog = build_coq() if okt else (False, "")
    A = dict(ok=False, log="", rows=[], fail_sites=[], fail_acqs=[], fail_blks=[], fail_unks=[], order_ok=True,
             instance_ok=False, known_hit={}, t_table=0.0, t_coq=0.0, fail_counters=[], groups=[], counters=[])
    if not okt:
        A["log"] = "translator does not build:\n" + tlog[-3000:]
        return A
    if not okc:
        A["log"] = "coq/Locks does not compile:\n" + clog[-3000:]
        return A
    ok, log, rows = make_table(scratch)
    A["t_table"] = time.time() - t0
    if not ok:
        A["log"] = "translator failed on the working tree (does the package still type-check?):\n" + log[-3000:]
        return A
    A["rows"] = rows
    kn = known_rows(known)
    t1 = time.time()
    R = compile_instance(scratch, set(kn.keys()))
    A["t_coq"] = time.time() - t1
    if not R["ok"]:
        A["log"] = R["log"]
        return A
    by = {k: [r for r in rows if r["kind"] == k] for k in ("access", "acquire", "block", "unknown", "scoped")}
    A["by"] = by
    bad = R["bad"]
    A["fail_counters"] = [by["access"][i] for i in bad["counters"]]
    A["groups"] = R["groups"]
    for g in A["groups"]:
        g["bad_rows"] = [by["scoped"][i] for i in g["bad"]]
    A["counters"] = R["counters"]
    for i in bad["sites"]:
        r = by["access"][i]
        k = kn.get((r["a"], r["b"], r["func"]))
        if k is not None:
            A["known_hit"].setdefault(k["id"], (k, []))[1].append(r)
        else:
            A["fail_sites"].append(r)
    A["fail_acqs"] = [by["acquire"][i] for i in bad["acqs"]]
    A["fail_blks"] = [by["block"][i] for i in bad["blks"]]
    A["fail_unks"] = [by["unknown"][i] for i in bad["unks"]]
    A["order_ok"] = bad["order"]
    A["instance_ok"] = R["instance_ok"]
    A["instance_log"] = R["log"]
    A["closed"] = R.get("closed", False)
    A["ok"] = True
    return A


def interleaving_check(scratch, known=None):
    """For the pool engine's C06 check: the interleaving half (no self-deadlock, no lock-order cycle, no blocking
    while holding a lock) decided on the table regenerated from the working tree.
    Returns (ok, failing_rows, evidence_dict); failing_rows are row dicts (see row_text)."""
    A = analyse(scratch, known or {"findings": []})
    if not A["ok"]:
        return False, [], {"error": A["log"]}
    fail = A["fail_acqs"] + A["fail_blks"] + A["fail_unks"]
    ev = {"acquire_rows": len(A["by"]["acquire"]), "block_rows": len(A["by"]["block"]), "unknown_rows": len(A["by"]["unknown"]),
          "order_acyclic": A["order_ok"], "failing": [row_text(r) for r in fail],
          "theorems": ["C06_table_no_wait_cycle", "C06_table_blocked_holds_nothing", "C06_table_waiter_reaches_runnable", "C06_order_acyclic"],
          "not_covered": "scheduler/RWMutex fairness (writer starvation), the 100 ms ticker, blocking inside callees accepted as non-blocking by Policy.v"}
    return (not fail and A["order_ok"]), fail, ev


def group_text(g):
    """what fails in a group, as text"""
    out = []
    if g["section"] is None:
        out.append("group %s (%s, lock %s): no member access runs inside exactly one section of the lock" % (g["name"], g["fn"], g["lock"]))
    for r in g["bad_rows"]:
        out.append("group %s: expected section %s of %s, but %s" % (g["name"], g["section"], g["lock"], row_text(r)))
    for m in g["missing"]:
        out.append("group %s: no access to %s inside section %s of %s within %s" % (g["name"], m, g["section"], g["lock"], g["fn"]))
    return out


def atomicity_check(scratch, known=None):
    """Atomicity granularity of the models, decided on the table regenerated from the working tree:
    every group of Policy.groups runs inside ONE critical-section instance, every counter of Policy.counters is only
    touched by its allowed sync/atomic operations.  Returns {pid: (ok, failing_rows_text, evidence_dict)} for every
    property id named by a group or a counter.  Shares the translator run with interleaving_check (same scratch)."""
    A = analyse(scratch, known or {"findings": []})
    res = {}
    if not A["ok"]:
        return {"*": (False, A["log"], {"error": A["log"]})}
    per = {}
    for g in A["groups"]:
        for pid in g["props"]:
            per.setdefault(pid, {"groups": [], "counters": [], "fail": []})
            per[pid]["groups"].append(g)
            if not g["ok"]:
                per[pid]["fail"] += group_text(g)
    for c in A["counters"]:
        rows = [r for r in A["fail_counters"] if r["a"] == c["struct"] and r["b"] == c["field"]]
        for pid in c["props"]:
            per.setdefault(pid, {"groups": [], "counters": [], "fail": []})
            per[pid]["counters"].append(c)
            per[pid]["fail"] += ["counter %s.%s: only the allowed sync/atomic operations may touch it, but %s" % (c["struct"], c["field"], row_text(r)) for r in rows]
    for pid, d in per.items():
        ev = {"groups": [{"name": g["name"], "function": g["fn"], "lock": g["lock"], "section": g["section"], "member_rows": g["rows"],
                          "ok": g["ok"], "backs": g["why"]} for g in d["groups"]],
              "counters": [{"field": c["struct"] + "." + c["field"], "backs": c["why"]} for c in d["counters"]],
              "scoped_rows": len(A["by"]["scoped"]), "failing": d["fail"],
              "theorems": ["C10_group_atomic", "C10_table_group_atomic", "C10_counter_no_lost_update", "C10_counter_interleaving_independent"],
              "note": "no automatic search for a failing schedule of a logical race: a failing group is a broken obligation of the model's atomicity granularity"}
        res[pid] = (not d["fail"], "; ".join(d["fail"][:6]), ev)
    return res


class LocksEngine:
    name = "locks"
    corpus = "locks"
    props = {"C10": dict(rule="table rows regenerated from the working tree; see coverage.rule")}

    def build_driver(self, force=False):
        return build_translator(force)

    # ------------------------------------------------------------------
    def run_property(self, pid, tier, seed):
        t0 = time.time()
        known = C.load_known()
        scratch = tempfile.mkdtemp(prefix="verif-%s-" % pid)
        violations = []
        notes = []
        try:
            bad_audit = C.audit()
            proof_ok, plog, axioms, n_stmt, n_qed = False, "", [], 0, 0
            okc, clog = build_coq()
            if okc and not bad_audit:
                proof_ok, plog, axioms, n_stmt, n_qed = C.props_assumptions(pid)
            A = analyse(scratch, known)
            include_c06 = os.environ.get("VERIF_LOCKS_C06_IN_C10", "0") != "0"
            race_runs, race_reports, confirmed = 0, 0, {}
            if not A["ok"] or not proof_ok or bad_audit:
                what = A["log"] if not A["ok"] else ("audit: " + "; ".join(bad_audit[:5]) if bad_audit else "Props_C10.v no longer checks:\n" + plog[-3000:])
                path = C.write_replay(pid, seed, 0, {"property": pid, "engine": self.name, "kind": "no-failing-input-found",
                                                     "broken_obligation": "the lock table / its Coq development could not be built for the current tree",
                                                     "log": what})
                violations.append(("no-failing-input-found", path))
            fail_sites = A["fail_sites"] if A["ok"] else []
            other = []
            if A["ok"]:
                other += [("unknown_ok", r) for r in A["fail_unks"]]
                other += [("counter_ok", r) for r in A["fail_counters"] if not any(r is f for f in fail_sites)]
                if include_c06:
                    other += [("acquire_ok", r) for r in A["fail_acqs"]] + [("block_ok", r) for r in A["fail_blks"]]
            # ---- failing-input search for access rows that no known finding explains
            budget = float(os.environ.get("VERIF_RACE_BUDGET_S", "28" if tier == "quick" else "240"))
            all_reports = []
            unexplained = []
            groups_needed = sorted(set(group_of(r) for r in fail_sites))
            if tier == "thorough" and A["ok"]:
                groups_needed = sorted(GROUPS.keys())
            matched = {}
            if groups_needed:
                per = budget / len(groups_needed)
                for g in groups_needed:
                    tg = time.time()
                    it = 0
                    while time.time() - tg < per:
                        todo = [r for r in fail_sites if group_of(r) == g and id(r) not in matched]
                        if not todo and tier == "quick":
                            break
                        ms = int(min(max(1500, (per - (time.time() - tg)) * 1000 * 0.45), 6000 if tier == "quick" else 20000))
                        rc, out = run_race(scratch, g, ms, seed * 7919 + it, "%s%d" % (g, it))
                        it += 1
                        race_runs += 1
                        if rc != 0 and "WARNING: DATA RACE" not in out and "fatal error" not in out and "panic:" not in out:
                            notes.append("race harness %s did not run: %s" % (g, out[-600:]))
                            break
                        reps = parse_reports(out)
                        race_reports += len(reps)
                        for rep in reps:
                            rep["group"] = g
                            all_reports.append(rep)
                            for r in todo:
                                if id(r) not in matched and report_matches(rep, r):
                                    matched[id(r)] = rep
                        if tier == "thorough" and not todo and it >= 2:
                            break
            # reports that no failing / known row explains (the table missed an access?)
            if A["ok"]:
                expl_rows = fail_sites + [r for (_, rs) in A["known_hit"].values() for r in rs]
                for rep in all_reports:
                    if not rep["frames"]:
                        continue
                    if not any(report_matches(rep, r) for r in expl_rows):
                        # the partner access of a matched report is fine; a report with NO explained side is not
                        unexplained.append(rep)
                for k, (kf, rs) in A["known_hit"].items():
                    confirmed[k] = sum(1 for rep in all_reports if any(report_matches(rep, r) for r in rs))
            # ---- verdicts
            n = 0
            for r in fail_sites:
                if id(r) in matched:
                    n += 1
                    if n <= 6:
                        path = C.write_replay(pid, seed, len(violations), {
                            "property": pid, "engine": self.name, "kind": "race-report", "row": r, "what": row_text(r),
                            "obligation": "site_ok (instance_race_free)", "group": group_of(r),
                            "harness": GROUPS[group_of(r)][2], "race_report": matched[id(r)]["text"][:6000]})
                        violations.append(("", path))
            rest = [r for r in fail_sites if id(r) not in matched]
            if rest:
                path = C.write_replay(pid, seed, len(violations), {
                    "property": pid, "engine": self.name, "kind": "no-failing-input-found",
                    "broken_obligation": "instance_race_free: forallb site_ok accesses = true (Locks/Check.v) fails on the rows below; "
                                         "the -race stress harness produced no report on them within the budget",
                    "rows": rest, "what": [row_text(r) for r in rest]})
                violations.append(("no-failing-input-found", path))
            if other or (A["ok"] and include_c06 and not A["order_ok"]):
                path = C.write_replay(pid, seed, len(violations), {
                    "property": pid, "engine": self.name, "kind": "no-failing-input-found",
                    "broken_obligation": "lock-discipline obligations of the table (instance_acquire_ok / instance_block_ok / instance_order / "
                                         "instance_no_unknown / instance_counters; the first three are the interleaving half of C06; counter_ok = "
                                         "a counter field is touched by something else than its allowed sync/atomic operations: lost updates) "
                                         "fail on the rows below",
                    "rows": [dict(r, obligation=o) for o, r in other], "what": ["%s: %s" % (o, row_text(r)) for o, r in other],
                    "order_acyclic": A.get("order_ok")})
                violations.append(("no-failing-input-found", path))
            if tier == "thorough" and unexplained:
                path = C.write_replay(pid, seed, len(violations), {
                    "property": pid, "engine": self.name, "kind": "race-report-not-explained-by-table",
                    "what": "the race detector reported a race in the analysed packages that no failing row of the table explains",
                    "race_report": unexplained[0]["text"][:6000], "count": len(unexplained)})
                violations.append(("", path))
            # ---- evidence
            by = A.get("by", {"access": [], "acquire": [], "block": [], "unknown": [], "scoped": []})
            n_rows = sum(len(by[k]) for k in ("access", "acquire", "block", "unknown"))
            groups = A.get("groups", [])
            inst = [not fail_sites, not A["fail_acqs"], not A["fail_blks"], bool(A.get("order_ok")), not A["fail_unks"],
                    not A.get("fail_counters")] if A["ok"] else []
            n_inst = len(inst) + len(groups)
            n_inst_ok = sum(1 for x in inst if x) + sum(1 for g in groups if g["ok"])
            n_known_rows = sum(len(rs) for (_, rs) in A["known_hit"].values())
            n_bad = len(fail_sites) + len(A["fail_acqs"]) + len(A["fail_blks"]) + len(A["fail_unks"]) + n_known_rows
            samples = [row_text(r) for r in (by["access"][:2] + by["acquire"][:2] + by["block"][:1])]
            samples += ["KNOWN %s: %s" % (k, row_text(rs[0])) for k, (kf, rs) in sorted(A["known_hit"].items())][:4]
            pol = {}
            for r in by["access"]:
                pol[r["a"] + "." + r["b"]] = pol.get(r["a"] + "." + r["b"], 0) + 1
            cov = {
                "obligations": n_stmt + (n_rows - n_known_rows) + n_inst,
                "discharged": (n_stmt if proof_ok else 0) + (n_rows - n_bad) + n_inst_ok,
                "checker_cmd": "tools/lockfacts -repo $REPO -out gen ; coqc -Q coq GV gen/LockFacts.v gen/Instance.v (vm_compute) ; "
                               "coqc Locks/Props_C10.v (Print Assumptions)",
                "trusted_base": TRUSTED,
                "axioms_reported_by_Print_Assumptions": axioms,
                "print_assumptions_closed_count": plog.count("Closed under the global context") if proof_ok else 0,
                "generic_theorems": ["C10_lockset_race_free", "C10_table_race_free", "C06_table_no_wait_cycle",
                                     "C06_table_blocked_holds_nothing", "C06_table_waiter_reaches_runnable", "C06_order_acyclic",
                                     "C10_group_atomic", "C10_table_group_atomic", "C10_counter_no_lost_update",
                                     "C10_counter_interleaving_independent", "C10_counter_since_reset"],
                "atomicity_groups": [{"name": g["name"], "protects": g["props"], "function": g["fn"], "lock": g["lock"],
                                      "section": g["section"], "member_rows": g["rows"], "ok": g["ok"]} for g in groups],
                "atomicity_groups_failing": [t for g in groups if not g["ok"] for t in group_text(g)][:20],
                "atomicity_note": "groups are reported through atomicity_check() to the properties they protect (pool / multiendpoint / gme engines); "
                                  "C10's own verdict covers data races and the counter policy",
                "counters": [c["struct"] + "." + c["field"] for c in A.get("counters", [])],
                "instance_theorems_hold": bool(inst) and all(inst),
                "instance_theorems_incl_groups_hold": bool(A.get("instance_ok")),
                "instance_theorems_modulo_known_rows": n_known_rows,
                "table": {"functions_analysed": len(set(r["func"] for k in by for r in by[k])), "access_rows": len(by["access"]),
                          "acquire_rows": len(by["acquire"]), "block_rows": len(by["block"]), "unknown_rows": len(by["unknown"]),
                          "scoped_rows": len(by.get("scoped", [])), "tracked_fields_with_rows": len(pol)},
                "failing_rows": {"access": len(fail_sites), "access_known": n_known_rows, "acquire": len(A["fail_acqs"]),
                                 "block": len(A["fail_blks"]), "unknown": len(A["fail_unks"]), "order_acyclic": A.get("order_ok"),
                                 "counter": len(A.get("fail_counters", []))},
                "evaluations": n_rows,
                "distinct_nontrivial": len(by["access"]) - sum(1 for r in by["access"] if r["fresh"]),
                "rule": "one obligation per row of the table regenerated from the working tree (every read/write of a field of the ten "
                        "tracked structs in grpcgcp and grpcgcp/multiendpoint, every Lock/RLock, every blocking operation or call into "
                        "another package made under a lock, every unknown) plus the statements of Props_C10.v's dependency cone; "
                        "non-trivial = access rows on objects that may already be shared (not fresh)",
                "race_harness_runs": race_runs, "race_reports_seen": race_reports,
                "race_reports_confirming_known_findings": confirmed,
                "race_reports_not_explained_by_table": len(unexplained),
                "known_findings_printed": sorted(A["known_hit"].keys()),
                "samples": samples,
                "exhaustive": True,
                "exhaustive_note": "every row of the table is checked (no sampling); the theorem covers every schedule of executions that conform to the table",
                "timings_s": {"translator": round(A["t_table"], 2), "coq_instance": round(A["t_coq"], 2)},
                "notes": notes,
            }
            for k, (kf, rs) in sorted(A["known_hit"].items()):
                print("KNOWN-FINDING: property=%s %s" % (pid, kf["what"]))
            for kind, path in violations:
                print("VIOLATION property=%s replay=%s%s" % (pid, path, (" " + kind) if kind else ""))
            C.write_evidence(pid, tier, seed, cov, time.time() - t0, len(violations), ASSUMPTIONS.get(pid, []))
            print("%s: %d rows (%d access, %d acquire, %d block, %d unknown), %d failing (%d known), instance %s, proof %s, "
                  "%d race runs / %d reports, %.1fs" % (pid, n_rows, len(by["access"]), len(by["acquire"]), len(by["block"]),
                                                       len(by["unknown"]), n_bad, n_known_rows,
                                                       ("ok" if inst and all(inst) else "FAILS") + " (atomicity groups %d/%d ok)" % (
                                                           sum(1 for g in groups if g["ok"]), len(groups)),
                                                       "ok" if proof_ok else "BROKEN",
                                                       race_runs, race_reports, time.time() - t0))
            return 1 if violations else 0
        finally:
            shutil.rmtree(scratch, ignore_errors=True)

    # ------------------------------------------------------------------
    def replay(self, rp):
        """Re-decide the row(s) named by the replay file against the current tree; for a race report re-run the harness."""
        pid = rp["property"]
        scratch = tempfile.mkdtemp(prefix="verif-replay-")
        try:
            A = analyse(scratch, {"findings": []})
            if not A["ok"]:
                print(A["log"]); print("replay: property %s FAILS (table cannot be built)" % pid)
                return 1
            rows = rp.get("rows") or ([rp["row"]] if "row" in rp else [])
            failing = A["fail_sites"] + A["fail_acqs"] + A["fail_blks"] + A["fail_unks"]
            still = [r for r in rows if any(f["kind"] == r["kind"] and f["func"] == r["func"] and f["a"] == r["a"] and f["b"] == r["b"] for f in failing)]
            for r in rows:
                print(("STILL FAILS  " if r in still else "now passes   ") + row_text(r))
            if rp.get("kind") == "race-report" and still:
                g = rp.get("group", group_of(still[0]))
                hit = None
                for it in range(4):
                    rc, out = run_race(scratch, g, 4000, 12345 + it, "rp%d" % it)
                    for rep in parse_reports(out):
                        if any(report_matches(rep, r) for r in still):
                            hit = rep
                            break
                    if hit:
                        break
                if hit:
                    print(hit["text"][:4000])
                    print("replay: race reproduced by %s" % GROUPS[g][2])
                else:
                    print("replay: the table row still fails; the race detector did not fire in 4 runs")
            fails = bool(still) or (not rows and bool(failing))
            print("replay: property %s %s" % (pid, "FAILS" if fails else "holds on the rows of this replay"))
            return 1 if fails else 0
        finally:
            shutil.rmtree(scratch, ignore_errors=True)


ENGINE = LocksEngine()


def SETUP():
    ok, out = build_translator(force=True)
    if not ok:
        print(out[-3000:]); print("lockfacts translator build failed")
        return 1
    ok, out = build_coq()
    if not ok:
        print(out[-3000:]); print("coq/Locks build failed")
        return 1
    return 0


def write_ref_facts():
    """maintenance: regenerate coq/Locks/RefFacts.v (committed regression copy) from the current tree:
    python3 tools/eng_locks.py --write-ref"""
    ok, out = build_translator()
    if not ok:
        print(out); return 1
    sc = tempfile.mkdtemp(prefix="verif-ref-")
    try:
        ok, log, rows = make_table(sc)
        if not ok:
            print(log); return 1
        g = os.path.join(sc, "gen")
        body = lambda f: re.sub(r"^(\(\*.*?\*\)|From .*|Import .*|Open Scope .*|Require .*)\n", "", open(os.path.join(g, f)).read(), flags=re.M)
        head = subprocess.run(["git", "-C", C.REPO, "rev-parse", "--short", "HEAD"], stdout=subprocess.PIPE, text=True).stdout.strip()
        txt = ("(* Reference copy of the tables generated by tools/lockfacts from %s at %s.\n"
               "   Regression/example input only: the checks always use the tables REGENERATED from the working tree. *)\n"
               "From Coq Require Import String List.\nFrom GV Require Import Locks.Tables.\nImport ListNotations.\nOpen Scope string_scope.\n\n"
               % (C.REPO, head)) + body("LockFactsStr.v") + body("LockFactsA.v") + body("LockFactsS.v")
        open(os.path.join(C.COQ, "Locks", "RefFacts.v"), "w").write(txt)
        print("wrote coq/Locks/RefFacts.v (%d rows)" % len(rows))
        return 0
    finally:
        shutil.rmtree(sc, ignore_errors=True)


if __name__ == "__main__":
    import sys
    if "--write-ref" in sys.argv:
        sys.exit(write_ref_facts())

