"""Engine "gme" (properties C15, C16): GCPMultiEndpoint (grpcgcp/gcp_multiendpoint.go:
NewGCPMultiEndpoint, UpdateMultiEndpoints, pickConn/Invoke, Close, monitoredConn), built on
engine B's model of package multiendpoint.  See tools/PLUGIN.md."""
import engines


def _fields(line):
    parts = line.split(";")
    op = parts[0].split()
    out = parts[1].split() if len(parts) > 1 else []
    return op, out


def _err(out):
    return int(out[1]) if len(out) > 1 and out[0] == "E" else 0


def _errs(op, out):
    """error codes of the update(s) of one trace line (a UC line carries two: E ... V ...)"""
    if not op or op[0] not in ("H", "U", "UR", "UB", "UC"):
        return []
    codes = [_err(out)]
    if op[0] == "UC" and "V" in out:
        codes.append(int(out[out.index("V") + 1]))
    return codes


def gme_nontrivial_c15(lines):
    """at least two accepted configurations (construction + one accepted update), i.e. the pool
    set was really reconfigured, or a connectivity change / RPC was observed"""
    ok_updates = 0
    extra = False
    for l in lines:
        op, out = _fields(l)
        if not op:
            continue
        ok_updates += sum(1 for c in _errs(op, out) if c == 0)
        if op[0] in ("P", "X"):
            extra = True
    return ok_updates >= 2 or (ok_updates >= 1 and extra)


def gme_nontrivial_c16(lines):
    """a rejected construction/update, or a Close of a constructed object"""
    for l in lines:
        op, out = _fields(l)
        if not op:
            continue
        if any(c != 0 for c in _errs(op, out)):
            return True
        if op[0] == "C":
            return True
    return False


GEN = ("histories = corpus (witnesses of G2, G3, G4 + ordinary reconfigurations + a live-server scenario) + seeded random "
       "histories: NewGCPMultiEndpoint then 2..VERIF_MAXOPS+1 operations over 3-6 endpoints and MultiEndpoint names "
       "{'', me1..me4}: UpdateMultiEndpoints with options derived from the previous accepted ones (keep / reorder / add / "
       "drop endpoint / rename / replace list / new MultiEndpoints / removed MultiEndpoints / change of default, map entries "
       "in shuffled textual order, shared endpoints, occasional duplicate endpoints) and in 35% of the updates one invalidity "
       "(default without options; nil options; empty endpoint list of an existing or of a new MultiEndpoint; dial failure "
       "of 1-2 random endpoints, needed or not; sometimes a second problem at another position), Close at the end of 75% of "
       "the histories; in VERIF_LIVE% of the histories in-process gRPC servers on bufconn listeners are started/stopped "
       "(SU/SD) and real unary RPCs are issued (X) with no / known / unknown MultiEndpoint name; every connectivity change "
       "of a pool is its own event (P) recorded when conn.GetState() and every MultiEndpoint show it (bounded by 3 s); "
       "VERIF_FLAP dedicated scenarios (and ~10% of the operations of live histories) are updates whose first DialFunc call "
       "BLOCKS, so that UpdateMultiEndpoints holds gme.mu (UB): meanwhile the server of a kept READY endpoint is stopped until "
       "its ClientConn leaves READY and its monitor is parked in notify on gme.mu.RLock (goroutine stacks), restarted until "
       "READY again, then the dial is released; the UB line is recorded when all monitors are back in WaitForStateChange and "
       "every MultiEndpoint shows the pool's final readiness (bounded by 3 s; given up 0.5 s after every monitor is idle with "
       "the report still missing), followed by a P line; "
       "VERIF_READY dedicated scenarios (and ~8% of the operations of live histories) are updates (UR) whose DialFunc, for "
       "endpoints whose server is up, returns the new ClientConn only when it is READY (like grpc.WithBlock(); dial code 2), "
       "so that the pool is READY when it is registered and stays READY; the line is recorded when all monitors are idle and "
       "every MultiEndpoint shows it (same bounds as UB), followed by a P line per such endpoint; "
       "VERIF_CONC dedicated scenarios (and ~8% of the operations of every history) are PAIRS of updates (UC): the first "
       "DialFunc call of update 1 blocks; update 2 (replacing / shrinking / reverting / renaming / invalid options) is started "
       "in a second goroutine and is parked on gme.mu inside UpdateMultiEndpoints (goroutine stacks) or has returned when the "
       "dial is released; the pair must take effect as update 1 then update 2 (dial logs attributed per goroutine); "
       "after every event: routes of pickConn for the contexts (none, '', me1..me4, me9), tables of every MultiEndpoint, "
       "pool table, dial log, open connections, census of monitor goroutines; in all of the above RecoveryTimeout = "
       "SwitchingDelay = 0; VERIF_TIMED further histories are TIMED: RecoveryTimeout / SwitchingDelay of every MultiEndpoint "
       "from {0,5,10,20}, the clock and timer factory of package multiendpoint replaced (overlay file harness/gme_me/"
       "zz_verif_clock.go) by a virtual clock and timers that fire only when the history says so (TA dt, TB name k, TE name k "
       "= the model's GTick name OpAdvance/OpBegin/OpEnd; every timer is attributed to its MultiEndpoint through the lock its "
       "creator holds / the endpoint referring to it), generated online from the implementation's timer table: live servers "
       "up/down one at a time, updates that remove endpoints/MultiEndpoints or add down endpoints/new MultiEndpoints, clock "
       "advances to the next due time or by small steps, due timers fired in any order with Begin/End split, RPCs; "
       "distinct by hash of the operation list; ")


class GMEEngine(engines.HistEngine):
    name = "gme"
    pkg_rel = "grpcgcp"
    harness_dir = "gme"
    test_name = "TestVerifGME"
    driver_dir = "gme"
    driver_bin = "gme_driver"
    extract_v = "ExtractGME.v"
    coq_dir = "GME"
    corpus = "gme"
    props = {
        "C15": dict(monitor="c15",
                    rel={"route", "pools", "dial", "mes", "default", "call", "open", "census", "badop"},
                    quick=dict(VERIF_N="700", VERIF_MAXOPS="10", VERIF_LIVE="20", VERIF_FLAP="60", VERIF_CONC="60", VERIF_READY="40", VERIF_TIMED="60"),
                    thorough=dict(VERIF_N="30000", VERIF_MAXOPS="16", VERIF_LIVE="25", VERIF_FLAP="1500", VERIF_CONC="1500", VERIF_READY="1000", VERIF_TIMED="1500", VERIF_TMAXOPS="20"),
                    nontrivial=gme_nontrivial_c15,
                    rule=GEN + "non-trivial = at least two accepted configurations, or one plus a connectivity change / RPC"),
        "C16": dict(monitor="c16",
                    rel={"error", "route", "pools", "dial", "mes", "default", "open", "census", "badop"},
                    quick=dict(VERIF_N="700", VERIF_MAXOPS="10", VERIF_LIVE="20", VERIF_FLAP="60", VERIF_CONC="60", VERIF_READY="40", VERIF_TIMED="60"),
                    thorough=dict(VERIF_N="30000", VERIF_MAXOPS="16", VERIF_LIVE="25", VERIF_FLAP="1500", VERIF_CONC="1500", VERIF_READY="1000", VERIF_TIMED="1500", VERIF_TMAXOPS="20"),
                    nontrivial=gme_nontrivial_c16,
                    rule=GEN + "non-trivial = the history contains a rejected construction/update or a Close"),
    }


    def extra_overlay(self, scratch):
        """adds harness/gme_me/*.go to package multiendpoint (exports a hook to replace its clock and timers)"""
        import os, glob
        repl = {}
        for f in glob.glob(os.path.join(engines.VERIF, "harness", "gme_me", "*.go")):
            repl[os.path.join(engines.C.REPO, "grpcgcp", "multiendpoint", os.path.basename(f))] = f
        return repl

    def build_driver(self, force=False):
        # the driver also links engine B's extracted model: rebuild when coq/ME changes too
        import os, glob
        binp = self.driver_path()
        me_srcs = glob.glob(os.path.join(engines.C.COQ, "ME", "*.v"))
        if os.path.exists(binp) and any(os.path.getmtime(f) > os.path.getmtime(binp) for f in me_srcs):
            force = True
        return engines.HistEngine.build_driver(self, force=force)


ENGINE = GMEEngine()

_COMMON = [
    "the model is the code of gcp_multiendpoint.go AFTER proposed_fixes/gme_atomic_update.diff (validation of all options "
    "before any change; pools registered and monitored only when every dial of the call succeeded)",
    "MultiEndpoint and endpoint names are opaque strings (numbered); a Go map is an association list with distinct keys "
    "(options with duplicate names cannot be written in Go and are excluded: error code 4 in the model)",
    "every named MultiEndpoint is engine B's model (ME.Model, theorems of C13/C14 reused: Inv, step_ok, Inv_cur_member); "
    "the theorems hold for every RecoveryTimeout/SwitchingDelay and include the timer events of every MultiEndpoint (GTick). "
    "The harness exercises them in TIMED histories: the unexported timeNow/timeAfterFunc of package multiendpoint are "
    "replaced through an exported hook added to that package by the overlay (harness/gme_me/zz_verif_clock.go, trusted); "
    "one virtual clock drives all MultiEndpoints (the model keeps one clock per MultiEndpoint, advanced together; a "
    "MultiEndpoint created later starts at 0, only differences of times matter)",
    "timed histories are generated under a policy that makes them deterministic (not proved, argued in the harness): "
    "connection attempts to down endpoints hang (no background state changes of pools); while a delayed switch is pending "
    "only clock/timer operations are issued (each availability report re-runs maybeUpdateCurrent and would schedule one "
    "more switch timer, and the number of reports a monitor makes for one outage is not fixed); updates never carry new "
    "information in the status-sync loop (no reordering of kept endpoints, only down endpoints are added) and never fail - "
    "otherwise Go's map iteration order in that loop changes the number of timers; UB/UC/UR and dial failures are not used "
    "in timed histories. A timer whose MultiEndpoint cannot be determined makes the harness fail (none observed)",
    "map iteration order: the order of dials is read from the dial log (oracle); the order of the status-sync loop and of "
    "the MultiEndpoint loop is fixed in the model - proved irrelevant for the endpoint statuses (update_status_synced holds "
    "for the model's order and the statuses it establishes do not depend on it); for Current() with zero delays the "
    "independence is not proved, it is checked by the acceptor on every recorded trace",
    "a pool's connectivity is READY / not READY; a change is delivered to every MultiEndpoint atomically (one P event): the "
    "harness serialises connectivity changes (a new pool may only connect after the update that created it was recorded)",
    "'follows within bounded time' and the goroutine census are sampled runtime observations (polling, bounds 3 s / 250 ms, "
    "census = goroutines whose stack contains monitoredConn.monitor or that were created by newMonitoredConn), not part of "
    "the theorems; real RPCs (X) are only issued in live histories and must reach the server of the routed endpoint iff its "
    "pool is READY",
    "a blocked update (UB) is, for the model, an ordinary update: the flapped endpoint is READY before and after, so the "
    "state the model predicts is the state every correct interleaving of the parked monitor converges to (status sync at the "
    "end of the update, stale outage report, recovery report; with zero delays Current() is again the top available endpoint); "
    "the harness records the UB line only when all monitors are idle again, so the transient states are not observed and a "
    "LOST recovery report shows as a failure of the C15 clauses update_status_synced (UB line) and follows_connectivity (P line)",
    "the readiness a new pool has when DialFunc returns it is an input of the model's update (GUpdate .. readys, read from "
    "the dial log code 2, like the dial order); status sync covers new pools too (update_status_synced); the harness lets a "
    "new pool be READY at registration only in UR updates, otherwise new pools connect after the update line was recorded",
    "a UC line (two overlapping updates) is two model events GUpdate o1; GUpdate o2 (update 2 is ordered after update 1 "
    "because it arrived while update 1 held gme.mu); the observation BETWEEN the two does not exist in the implementation "
    "and is supplied by the driver from the extracted model (gobs_norm (gobserve (gstep ..))), so the first event of the "
    "pair only checks update 1's error code and dial log, and the second event checks the final observation against the "
    "sequential outcome (monitors and acceptor)",
    "pickConn reads the maps without the lock (property C10): RPCs and route probes are never issued concurrently with "
    "updates; after Close only the pool table, the open connections and the census are compared (cancelled monitors may "
    "or may not deliver a last notification) and the monitors stop checking",
]

ASSUMPTIONS = {"C15": _COMMON, "C16": _COMMON}
