"""Engine "keys" (property C11): affinity-key extraction (keysFromMessage /
getAffinityKeysFromMessage in grpcgcp/gcp_picker.go).  See tools/PLUGIN.md."""
import os, sys
import engines


def _line_nontrivial(line):
    parts = line.split(";")
    ops = parts[0].split()
    if ops and ops[0] == "H":
        ops = ops[1:]
    if len(parts) < 2 or not ops or ops[0] != "K":
        return False
    out = parts[1].split()
    if len(out) < 2:
        return False
    return out[0] == "O" or (out[0] == "E" and int(out[1]) >= 1)


def keys_nontrivial(lines):
    """A history in which keys were really extracted by at least one call: the
    implementation returned O (no error) - with >= 1 key, or with none, which
    only happens by fanning out over an empty repeated field - or an error next
    to >= 1 partial key (a repeated field was crossed before the error)."""
    return any(_line_nontrivial(l) for l in lines)


class KeysEngine(engines.HistEngine):
    name = "keys"
    pkg_rel = "grpcgcp"
    harness_dir = "keys"
    test_name = "TestVerifKeys"
    driver_dir = "keys"
    driver_bin = "keys_driver"
    extract_v = "ExtractKEYS.v"
    coq_dir = "Keys"
    corpus = "keys"
    props = {
        "C11": dict(
            monitor="c11",
            rel={"panic", "error", "keys", "title", "split", "history"},
            quick=dict(VERIF_N="5000"),
            thorough=dict(VERIF_N="300000"),
            nontrivial=keys_nontrivial,
            rule="histories = one STATEFUL multi-event history run first in a pristine process (alternating calls on "
                 "families of distinct Go types that print identically under reflect.Type.String() - same-named "
                 "function-local types with different field order / missing fields / string vs non-string fields - "
                 "interleaved with min(N/10,1000) random cases that are each run twice at different points) + corpus "
                 "(incl. multi-event sequences) + seeded random single-call cases: a fresh reflect-built type per round "
                 "(message-like 80% / arbitrary 20%, depth <= 6: strings, numbers, bools, chans, funcs, pointers incl. "
                 "pointer-to-pointer, slices, arrays, maps, interfaces holding structs/pointers/strings, unexported '_x' "
                 "fields, nil at every level with probability 0-50%) x 6 values x locators (65% derived from the value's "
                 "shape, 35% mutated: too short/long, dropped/empty segment, '..', leading/trailing dot, wrong case, other "
                 "separators, separator inside a segment, empty, unknown field, random bytes, non-ASCII) + 22% fixture "
                 "rounds (hand-written types with unexported/embedded/interface-typed fields, named string types, twin "
                 "types, generated protobuf messages ApiConfig/HelloRequest fresh and used) + N/10 direct comparisons each "
                 "of strings.Title and strings.Split with the model + a 10% sample of the random cases re-run in shuffled "
                 "order at the end of the process; every call is compared with the pure model/spec and any two calls with "
                 "equal inputs in one run must return equal results (class 'history'); distinct by hash of the input "
                 "lines; non-trivial = some call returned keys without error (>= 1 key, or none via an empty repeated "
                 "field) or an error after >= 1 collected key"),
    }

    def run_impl(self, scratch, env, tag="t", timeout=3000):
        base = engines.HistEngine.run_impl
        if tag == "shrink" and env.get("VERIF_HIST") and os.path.isfile(env["VERIF_HIST"]):
            # Candidates of the delta debugger are histories that may depend on state
            # left in the process by earlier calls: run each candidate in a process
            # of its own, or an earlier candidate would pollute a later one.
            cands, cur = [], None
            for line in open(env["VERIF_HIST"]):
                if line.startswith("H "):
                    cur = []
                    cands.append(cur)
                if cur is not None and line.strip():
                    cur.append(line)
            if len(cands) > 1 and any(len(c) > 1 for c in cands):
                trace = os.path.join(scratch, tag + ".trace")
                with open(trace, "w") as out_f:
                    for k, c in enumerate(cands):
                        hp = os.path.join(scratch, "cand%d.hist" % k)
                        open(hp, "w").write("".join(c))
                        e = dict(env)
                        e["VERIF_HIST"] = hp
                        rc, out, tr = base(self, scratch, e, tag="cand%d" % k, timeout=timeout)
                        if rc != 0:
                            return rc, out, trace
                        out_f.write(open(tr).read())
                return 0, "", trace
        rc, out, trace = base(self, scratch, env, tag=tag, timeout=timeout)
        stats = trace + ".stats"
        if tag == "t" and os.path.exists(stats):
            # input distribution of the main run (kinds, depths, outcomes per stream)
            sys.stderr.write("keys: input distribution\n" + "".join("  " + l for l in open(stats)))
        return rc, out, trace


ENGINE = KeysEngine()

ASSUMPTIONS = {
    "C11": [
        "Go values are modelled as reflect presents them (Kind, Elem, FieldByName, Len/Index, String); package reflect "
        "itself and strings.Title/strings.Split are modelled, not verified (Title/Split are compared directly with the "
        "model on random ASCII inputs)",
        "a 'message' is a struct or a pointer/interface directly holding a struct (one indirection, as the code does); "
        "pointer-to-pointer, interface holding a pointer, maps, arrays and non-field slices are non-message values (error)",
        "a path segment names the field strings.Title(segment); a 'repeated field' is a field of slice kind (so an empty "
        "[]byte field at the end of a path yields no keys and no error)",
        "out of model, totality only (no panic) is checked: values containing embedded (anonymous) struct fields "
        "(promotion rules of FieldByName) and locators with non-ASCII bytes",
        "the keys returned next to an error are not part of the property (no caller reads them); they are compared with "
        "the model under the divergence class 'errkeys', which is reported but is not a violation",
        "history independence is checked on the calls of one test process: a stateful multi-event history in a pristine "
        "process, every random case of its sample twice, 10% of the single-call cases again at the end; state that only "
        "shows across processes or under concurrency is not exercised",
        "contents of protobuf's internal `state` field of a used message are not dumped (lower-case initial: unreachable "
        "by any locator, theorem C11_unexported_irrelevant)",
    ],
}
