// streamir regenerates the instruction lists of the gcpClientStream methods
// (the program the Coq semantics Stream/Sem.v runs) from the Go source
// grpcgcp/gcp_interceptor.go.  It recognises exactly the statement forms that
// occur there and fails loudly (exit 1, file:line) on anything else.
//
//	streamir -src <gcp_interceptor.go> [-coq StreamIR.v] [-ir stream.ir]
//	         [-instrument <copy.go>] [-manifest <file>]
//
// Calls of other methods of *gcpClientStream defined in the same file are
// inlined (second half of this file): the instruction set has no call and no boolean or
// error-valued local besides `err`, so a helper that returns a value is
// expanded at the call site and each of its return paths continues with the
// caller's code specialised on the returned value (branch duplication).
// Recursive helpers, helpers with two or more results, method values and calls
// in positions other than the recognised ones are refused (exit 1, file:line).
//
// -instrument writes a line-preserving copy of the source with
// `vsYield("<site>"); ` in front of every yield point (Lock, Unlock, Wait,
// Broadcast, the streamer call, delegations, <-ctx.Done()).
package main

import (
	"flag"
	"fmt"
	"go/ast"
	"go/parser"
	"go/token"
	"os"
	"sort"
	"strings"
)

const structName = "gcpClientStream"

var methods = []string{"SendMsg", "RecvMsg", "CloseSend", "Header", "Trailer", "Context"}
var methCoq = map[string]string{"SendMsg": "MSend", "RecvMsg": "MRecv", "CloseSend": "MCloseSend",
	"Header": "MHeader", "Trailer": "MTrailer", "Context": "MContext"}

type failure struct {
	pos token.Pos
	msg string
}

type node struct {
	op   string   // constructor
	args []string // scalar arguments (already Coq syntax)
	cnd  string
	body []*node
	els  []*node // IIfElse only
	has  bool    // has cnd/body
}

type insertion struct {
	off  int
	text string
}

type tr struct {
	fset     *token.FileSet
	file     *ast.File
	decls    map[string]*ast.FuncDecl // methods of *gcpClientStream
	watch    string                   // name of the spawned helper
	inserts  []insertion
	inlining []string // helpers being expanded (innermost last)
	yields   int
	nest     int    // depth of if/for bodies being translated (within the current method or helper)
	w        writes // how often the thread-local registers of the model were written so far
	tmp      int    // fresh names for hoisted helper results
}

func (t *tr) fail(p token.Pos, format string, a ...interface{}) {
	panic(failure{p, fmt.Sprintf(format, a...)})
}

// per-function translation context
type fctx struct {
	recv        string
	params      []string
	ctxVar      string // local holding context.WithValue(...)
	csVar       string // local holding the streamer's stream
	errVar      string // local err
	name        string
	void        bool
	inlined     bool
	deferUnlock bool // `defer cs.Unlock()` is pending: every return unlocks first

	// inlining of helpers
	top      []string          // parameters of the translated (outermost) method
	alias    map[string]string // local name -> the parameter of the outermost method it stands for
	syms     map[string]sval   // locals bound to symbolic values; never updated in place
	errKnown int               // what is known about errVar on this path: +1 non-nil, -1 nil, 0 nothing
	resType  string            // helper: "" (no result), "bool", "error", "value"
	loop     int               // depth of loops of this method/helper being translated
	// helper with `return` statements: what follows the call, given the returned value
	retK func(v sval, at token.Pos) []*node
}

func isSel(e ast.Expr, path ...string) bool {
	// matches a.b.c given ["a","b","c"]
	for i := len(path) - 1; i >= 1; i-- {
		s, ok := e.(*ast.SelectorExpr)
		if !ok || s.Sel.Name != path[i] {
			return false
		}
		e = s.X
	}
	id, ok := e.(*ast.Ident)
	return ok && id.Name == path[0]
}

func isIdent(e ast.Expr, name string) bool {
	id, ok := e.(*ast.Ident)
	return ok && name != "" && id.Name == name
}

func isNil(e ast.Expr) bool { return isIdent(e, "nil") }

func unparen(e ast.Expr) ast.Expr {
	for {
		p, ok := e.(*ast.ParenExpr)
		if !ok {
			return e
		}
		e = p.X
	}
}

func (t *tr) yield(pos token.Pos, site string) {
	t.inserts = append(t.inserts, insertion{t.fset.Position(pos).Offset, fmt.Sprintf("vsYield(%q); ", site)})
	t.yields++
}

// neg negates a condition term, cancelling a double negation.
func neg(c string) string {
	const pre = "(CNot "
	if strings.HasPrefix(c, pre) && strings.HasSuffix(c, ")") {
		// does the opening parenthesis of c close at its very end?
		depth, whole := 0, true
		for i, ch := range c {
			if ch == '(' {
				depth++
			} else if ch == ')' {
				depth--
				if depth == 0 && i != len(c)-1 {
					whole = false
				}
			}
		}
		if whole {
			return c[len(pre) : len(c)-1]
		}
	}
	return "(CNot " + c + ")"
}

// terminates: every path through the list ends the call (return or delegation)
func terminates(ns []*node) bool {
	if len(ns) == 0 {
		return false
	}
	l := ns[len(ns)-1]
	switch l.op {
	case "IReturn", "IDelegate":
		return true
	case "IIfElse":
		return terminates(l.body) && terminates(l.els)
	}
	return false
}

// cond translates a condition; one that is decided by what is known on this
// path (see condS) becomes the constant.
func (t *tr) cond(f *fctx, e ast.Expr) string {
	c, st := t.condS(f, e)
	switch {
	case st > 0:
		return "CTrue"
	case st < 0:
		return "(CNot CTrue)"
	}
	return c
}

// condS translates a condition.  The second result tells whether its value is
// known on the path being translated: +1 true, -1 false, 0 not known (the
// first result is then evaluated at run time).  Known are: a boolean local
// whose defining test was turned into a branch (below), a helper's result,
// and `err` after a test of `err` itself.
func (t *tr) condS(f *fctx, e ast.Expr) (string, int) {
	e = unparen(e)
	switch x := e.(type) {
	case *ast.Ident:
		if x.Name == "true" {
			return "CTrue", 0
		}
		if v, ok := f.syms[x.Name]; ok && x.Name != f.errVar {
			if v.kind != vBool {
				t.fail(x.Pos(), "%s is not a boolean", x.Name)
			}
			if v.b {
				return "CTrue", 1
			}
			return "(CNot CTrue)", -1
		}
	case *ast.SelectorExpr:
		if isSel(x, f.recv, "watching") {
			return "CWatching", 0
		}
	case *ast.UnaryExpr:
		if x.Op == token.NOT {
			c, st := t.condS(f, x.X)
			return neg(c), -st
		}
	case *ast.BinaryExpr:
		switch x.Op {
		case token.LAND, token.LOR:
			a, sa := t.condS(f, x.X)
			b, sb := t.condS(f, x.Y)
			// conditions have no side effects: a known operand is dropped or decides
			unit, op := 1, "CAnd"
			if x.Op == token.LOR {
				unit, op = -1, "COr"
			}
			switch {
			case sa == -unit:
				return a, sa
			case sa == unit:
				return b, sb
			case sb == -unit:
				return b, sb
			case sb == unit:
				return a, 0
			}
			return "(" + op + " " + a + " " + b + ")", 0
		case token.EQL, token.NEQ:
			l, r := unparen(x.X), unparen(x.Y)
			if isNil(l) {
				l, r = r, l
			}
			if !isNil(r) {
				break
			}
			eq := x.Op == token.EQL
			pick := func(whenEq, whenNeq string) string {
				if eq {
					return whenEq
				}
				return whenNeq
			}
			// nonnil: +1 the operand is known to be non-nil, -1 known to be nil
			known := func(nonnil int) int {
				if eq {
					return -nonnil
				}
				return nonnil
			}
			switch {
			case isSel(l, f.recv, "ClientStream"):
				return pick("CStreamNil", "(CNot CStreamNil)"), 0
			case isSel(l, f.recv, "initStreamErr"):
				return pick("(CNot CErrSet)", "CErrSet"), 0
			case isIdent(l, f.errVar):
				return pick("(CNot CLocalErr)", "CLocalErr"), known(f.errKnown)
			}
			if id, ok := l.(*ast.Ident); ok {
				if v, ok := f.syms[id.Name]; ok {
					switch v.kind {
					case vNil:
						return pick("CTrue", "(CNot CTrue)"), known(-1)
					case vCtxErr:
						return pick("(CNot CTrue)", "CTrue"), known(1)
					}
					t.fail(x.Pos(), "comparison of %s with nil: the translator does not know whether this value is nil", id.Name)
				}
			}
			if c, ok := l.(*ast.CallExpr); ok && len(c.Args) == 0 {
				if isSel(c.Fun, f.recv, "ctx", "Err") {
					return pick("CCtxLive", "(CNot CCtxLive)"), 0
				}
				if isSel(c.Fun, f.recv, "ctx", "Done") {
					return pick("(CNot CCancellable)", "CCancellable"), 0
				}
			}
		}
	}
	t.fail(e.Pos(), "unrecognised condition")
	return "", 0
}

// log-like calls that do not touch the stream wrapper's synchronisation
func (t *tr) isLogCall(f *fctx, c *ast.CallExpr) bool {
	s, ok := c.Fun.(*ast.SelectorExpr)
	if !ok {
		return false
	}
	id, ok := s.X.(*ast.Ident)
	if !ok {
		return false
	}
	switch id.Name {
	case "log", "grpclog", "fmt", "logger":
	default:
		return false
	}
	pure := true
	for _, a := range c.Args {
		ast.Inspect(a, func(n ast.Node) bool {
			if _, ok := n.(*ast.CallExpr); ok {
				pure = false
			}
			if _, ok := n.(*ast.UnaryExpr); ok && n.(*ast.UnaryExpr).Op == token.ARROW {
				pure = false
			}
			return true
		})
	}
	return pure
}

func (t *tr) isCtxErrValue(f *fctx, e ast.Expr) bool {
	// status.FromContextError(cs.ctx.Err()).Err()
	c, ok := e.(*ast.CallExpr)
	if !ok || len(c.Args) != 0 {
		return false
	}
	s, ok := c.Fun.(*ast.SelectorExpr)
	if !ok || s.Sel.Name != "Err" {
		return false
	}
	in, ok := s.X.(*ast.CallExpr)
	if !ok || len(in.Args) != 1 || !isSel(in.Fun, "status", "FromContextError") {
		return false
	}
	a, ok := in.Args[0].(*ast.CallExpr)
	return ok && len(a.Args) == 0 && isSel(a.Fun, f.recv, "ctx", "Err")
}

func (t *tr) block(f *fctx, stmts []ast.Stmt) []*node { return t.seq(f, stmts, nil) }

func leaf(op string, args ...string) []*node { return []*node{{op: op, args: args}} }

func (t *tr) stmt(f *fctx, s ast.Stmt) []*node {
	switch x := s.(type) {
	case *ast.EmptyStmt:
		return nil
	case *ast.BlockStmt:
		return t.block(f, x.List)
	case *ast.ExprStmt:
		e := unparen(x.X)
		if u, ok := e.(*ast.UnaryExpr); ok && u.Op == token.ARROW {
			if c, ok := u.X.(*ast.CallExpr); ok && len(c.Args) == 0 && isSel(c.Fun, f.recv, "ctx", "Done") {
				t.yield(x.Pos(), "await")
				return leaf("IAwaitDone")
			}
			t.fail(x.Pos(), "unrecognised channel receive")
		}
		c, ok := e.(*ast.CallExpr)
		if !ok {
			t.fail(x.Pos(), "unrecognised expression statement")
		}
		if len(c.Args) == 0 {
			switch {
			case isSel(c.Fun, f.recv, "Lock"), isSel(c.Fun, f.recv, "Mutex", "Lock"):
				t.yield(x.Pos(), "lock")
				return leaf("ILock")
			case isSel(c.Fun, f.recv, "Unlock"), isSel(c.Fun, f.recv, "Mutex", "Unlock"):
				t.yield(x.Pos(), "unlock")
				return leaf("IUnlock")
			case isSel(c.Fun, f.recv, "cond", "Broadcast"):
				t.yield(x.Pos(), "bcast")
				return leaf("IBroadcast")
			case isSel(c.Fun, f.recv, "cond", "Wait"):
				t.yield(x.Pos(), "wait")
				return leaf("IWait")
			}
			// cs.helper() without parameters, results and return statements: the body in place
			// (every other helper call is expanded by t.special)
			if sel, ok := c.Fun.(*ast.SelectorExpr); ok && isIdent(sel.X, f.recv) {
				if d, ok := t.decls[sel.Sel.Name]; ok {
					w0 := t.w
					ns := t.inline(d, x.Pos())
					t.clobber(f, w0)
					return ns
				}
			}
		}
		if t.isLogCall(f, c) {
			return nil
		}
		t.fail(x.Pos(), "unrecognised call statement")
	case *ast.GoStmt:
		c := x.Call
		if sel, ok := c.Fun.(*ast.SelectorExpr); ok && len(c.Args) == 0 && isIdent(sel.X, f.recv) {
			if _, ok := t.decls[sel.Sel.Name]; ok {
				if t.watch != "" && t.watch != sel.Sel.Name {
					t.fail(x.Pos(), "a second kind of goroutine is started (%s and %s)", t.watch, sel.Sel.Name)
				}
				t.watch = sel.Sel.Name
				t.inserts = append(t.inserts, insertion{t.fset.Position(x.Pos()).Offset, "vsSpawn(); "})
				return leaf("ISpawn")
			}
		}
		t.fail(x.Pos(), "unrecognised go statement")
	case *ast.DeferStmt:
		// `defer cs.Unlock()`: every later return unlocks after its values are evaluated.  Supported for
		// returns that do not delegate (a delegation would run with the mutex held across the call of the
		// underlying stream - not the same behaviour, and not what the model's mutex discipline allows).
		c := x.Call
		if len(c.Args) == 0 && (isSel(c.Fun, f.recv, "Unlock") || isSel(c.Fun, f.recv, "Mutex", "Unlock")) && (!f.inlined || f.retK != nil) && !f.deferUnlock && t.nest == 0 {
			f.deferUnlock = true
			return nil
		}
		t.fail(x.Pos(), "this defer is not supported (only one `defer cs.Unlock()` directly in the body of a method or of a helper with return statements)")
	case *ast.IfStmt:
		var out []*node
		if x.Init != nil {
			out = append(out, t.stmt(f, x.Init)...)
		}
		c, st := t.condS(f, x.Cond)
		syms := f.syms // bindings of symbolic locals made in the statement end with it
		if st != 0 {
			// decided on this path: only the branch that is taken
			var ns []*node
			t.nest++
			if st > 0 {
				ns = t.block(f, x.Body.List)
			} else if x.Else != nil {
				ns = t.stmt(f, x.Else)
			}
			t.nest--
			t.unscope(f, syms)
			return append(out, ns...)
		}
		pre := f.errKnown
		// local-variable bindings made in one branch must not leak into the other
		saved := *f
		f.errKnown = refine(pre, c, true)
		t.nest++
		a := t.block(f, x.Body.List)
		t.nest--
		afterA := *f
		if x.Else == nil {
			if terminates(a) {
				f.errKnown = refine(pre, c, false)
			} else {
				f.errKnown = join(afterA.errKnown, refine(pre, c, false))
			}
			t.unscope(f, syms)
			return append(out, &node{op: "IIf", cnd: c, body: a, has: true})
		}
		*f = saved
		f.errKnown = refine(pre, c, false)
		t.nest++
		b := t.stmt(f, x.Else) // a block or another if statement
		t.nest--
		if f.ctxVar != afterA.ctxVar || f.csVar != afterA.csVar || f.errVar != afterA.errVar {
			// what follows the statement would depend on which branch declared the variable
			if !terminates(a) && !terminates(b) {
				t.fail(x.Pos(), "the branches of this if/else bind different local variables")
			}
			if terminates(b) {
				*f = afterA
			}
		}
		switch {
		case terminates(a):
		case terminates(b):
			f.errKnown = afterA.errKnown
		default:
			f.errKnown = join(afterA.errKnown, f.errKnown)
		}
		t.unscope(f, syms)
		// if C {A} else {B}; rest  ==  if C {A}; B; rest      when A ends the call
		//                          ==  if !C {B}; A; rest     when B ends the call
		switch {
		case terminates(a):
			out = append(out, &node{op: "IIf", cnd: c, body: a, has: true})
			return append(out, b...)
		case terminates(b):
			out = append(out, &node{op: "IIf", cnd: neg(c), body: b, has: true})
			return append(out, a...)
		}
		return append(out, &node{op: "IIfElse", cnd: c, body: a, els: b, has: true})
	case *ast.ForStmt:
		if x.Init != nil || x.Post != nil {
			t.fail(x.Pos(), "only `for cond { ... }` loops are supported")
		}
		// nothing that was learnt about err before the loop holds at the head of a later iteration
		f.errKnown = 0
		c := "CTrue"
		if x.Cond != nil {
			c = t.cond(f, x.Cond)
		}
		syms := f.syms
		t.nest++
		f.loop++
		body := t.block(f, x.Body.List)
		f.loop--
		t.nest--
		f.errKnown = 0
		t.unscope(f, syms)
		return []*node{{op: "IWhile", cnd: c, body: body, has: true}}
	case *ast.AssignStmt:
		return t.assign(f, x)
	case *ast.ReturnStmt:
		return t.ret(f, x)
	}
	t.fail(s.Pos(), "unrecognised statement form %T", s)
	return nil
}

func (t *tr) inline(d *ast.FuncDecl, at token.Pos) []*node {
	name := d.Name.Name
	if t.isInlining(name) {
		t.fail(at, "recursive helper %s", name)
	}
	if d.Type.Params.NumFields() != 0 || d.Type.Results.NumFields() != 0 {
		t.fail(at, "helper %s takes parameters or returns values", name)
	}
	inl, nest := t.inlining, t.nest
	t.inlining = append(append([]string{}, inl...), name)
	t.nest = 0
	defer func() { t.inlining, t.nest = inl, nest }()
	f := &fctx{recv: recvName(d), name: name, void: true, inlined: true}
	return t.block(f, d.Body.List)
}

func recvName(d *ast.FuncDecl) string {
	if d.Recv == nil || len(d.Recv.List) == 0 || len(d.Recv.List[0].Names) == 0 {
		return ""
	}
	return d.Recv.List[0].Names[0].Name
}

func (t *tr) assign(f *fctx, x *ast.AssignStmt) []*node {
	// _ = anything pure
	if len(x.Lhs) == 1 && isIdent(x.Lhs[0], "_") && x.Tok == token.ASSIGN {
		if _, ok := unparen(x.Rhs[0]).(*ast.Ident); ok {
			return nil
		}
	}
	if len(x.Lhs) == 2 && len(x.Rhs) == 1 {
		// realCS, err := cs.streamer(ctx, cs.desc, cs.cc, cs.method, cs.opts...)
		c, ok := x.Rhs[0].(*ast.CallExpr)
		if ok && isSel(c.Fun, f.recv, "streamer") {
			if len(c.Args) != 5 || !isSel(c.Args[1], f.recv, "desc") || !isSel(c.Args[2], f.recv, "cc") ||
				!isSel(c.Args[3], f.recv, "method") || !isSel(c.Args[4], f.recv, "opts") || !c.Ellipsis.IsValid() {
				t.fail(x.Pos(), "the streamer is not called with (ctx, cs.desc, cs.cc, cs.method, cs.opts...)")
			}
			a, b := x.Lhs[0].(*ast.Ident), x.Lhs[1].(*ast.Ident)
			if a == nil || b == nil || a.Name == "_" || b.Name == "_" {
				t.fail(x.Pos(), "results of the streamer call must be kept in two variables")
			}
			local := ""
			switch {
			case isIdent(c.Args[0], f.ctxVar):
				local = "true"
			case isSel(c.Args[0], f.recv, "ctx"):
				local = "false"
			default:
				t.fail(c.Args[0].Pos(), "unrecognised context argument of the streamer call")
			}
			f.csVar, f.errVar = a.Name, b.Name
			t.wrote(f, true, true, false)
			f.syms = without(without(f.syms, a.Name), b.Name)
			t.yield(x.Pos(), "streamer")
			return leaf("ICallStreamer", local)
		}
	}
	if len(x.Lhs) != 1 || len(x.Rhs) != 1 {
		t.fail(x.Pos(), "unrecognised assignment")
	}
	l, r := x.Lhs[0], unparen(x.Rhs[0])
	// ctx := context.WithValue(cs.ctx, gcpKey, &gcpContext{reqMsg: m})
	if c, ok := r.(*ast.CallExpr); ok && isSel(c.Fun, "context", "WithValue") {
		id, ok := l.(*ast.Ident)
		if !ok || len(c.Args) != 3 || !isSel(c.Args[0], f.recv, "ctx") || !isIdent(c.Args[1], "gcpKey") {
			t.fail(x.Pos(), "unrecognised context.WithValue form (want: <var> := context.WithValue(cs.ctx, gcpKey, &gcpContext{...}))")
		}
		u, ok := c.Args[2].(*ast.UnaryExpr)
		if !ok || u.Op != token.AND {
			t.fail(c.Args[2].Pos(), "context value is not &gcpContext{...}")
		}
		lit, ok := u.X.(*ast.CompositeLit)
		if !ok || !isIdent(lit.Type, "gcpContext") {
			t.fail(c.Args[2].Pos(), "context value is not &gcpContext{...}")
		}
		withmsg := "false"
		for _, el := range lit.Elts {
			kv, ok := el.(*ast.KeyValueExpr)
			if !ok {
				t.fail(el.Pos(), "gcpContext literal without field names")
			}
			if isIdent(kv.Key, "reqMsg") && len(f.top) > 0 && f.standsFor(kv.Value, f.top[0]) {
				withmsg = "true"
			} else if isIdent(kv.Key, "reqMsg") {
				t.fail(kv.Pos(), "reqMsg is not the message passed to %s", f.name)
			}
		}
		f.ctxVar = id.Name
		t.wrote(f, false, false, true)
		f.syms = without(f.syms, id.Name)
		return leaf("IMkCtx", withmsg)
	}
	switch {
	case isSel(l, f.recv, "initStreamErr") && isIdent(r, f.errVar) && x.Tok == token.ASSIGN:
		return leaf("ISetErr")
	case isSel(l, f.recv, "initStreamErr") && isNil(r) && x.Tok == token.ASSIGN:
		return leaf("IClearErr")
	case isSel(l, f.recv, "ClientStream") && isIdent(r, f.csVar) && x.Tok == token.ASSIGN:
		return leaf("ISetStream")
	case isSel(l, f.recv, "watching") && isIdent(r, "true") && x.Tok == token.ASSIGN:
		return leaf("ISetWatching")
	case isSel(r, f.recv, "initStreamErr"):
		if id, ok := l.(*ast.Ident); ok && id.Name != "_" {
			if x.Tok == token.ASSIGN && id.Name != f.errVar {
				t.fail(x.Pos(), "assignment to an unknown variable")
			}
			f.errVar = id.Name
			t.wrote(f, true, false, false)
			f.syms = without(f.syms, id.Name)
			return leaf("ILoadErr")
		}
	}
	t.fail(x.Pos(), "unrecognised assignment")
	return nil
}

func (t *tr) ret(f *fctx, x *ast.ReturnStmt) []*node {
	if f.retK != nil {
		return t.retHelper(f, x)
	}
	if f.inlined {
		t.fail(x.Pos(), "return inside the inlined helper %s", f.name)
	}
	if len(x.Results) == 0 {
		if !f.void {
			t.fail(x.Pos(), "bare return")
		}
		if f.deferUnlock {
			t.yield(x.Pos(), "unlock")
			return append(leaf("IUnlock"), leaf("IReturn", "RNil")...)
		}
		return leaf("IReturn", "RNil")
	}
	res := x.Results
	if len(res) == 2 {
		// (metadata.MD, error): the first must be nil
		if !isNil(res[0]) {
			t.fail(x.Pos(), "unrecognised two-valued return")
		}
		res = res[1:]
	}
	if len(res) != 1 {
		t.fail(x.Pos(), "unrecognised return")
	}
	e := unparen(res[0])
	// with a deferred Unlock the value is evaluated first, then the mutex is released
	pre := []*node{}
	if f.deferUnlock {
		t.yield(x.Pos(), "unlock")
		pre = leaf("IUnlock")
	}
	if id, ok := e.(*ast.Ident); ok && id.Name != f.errVar {
		// a local that holds a helper's result
		if v, ok := f.syms[id.Name]; ok {
			switch v.kind {
			case vNil:
				return append(pre, leaf("IReturn", "RNil")...)
			case vCtxErr:
				return append(pre, leaf("IReturn", "RCtxErr")...)
			case vCallCtx:
				return append(pre, leaf("IReturn", "RCallCtx")...)
			case vDeleg:
				// the underlying stream was called by the helper, as its last action
				if f.deferUnlock {
					t.fail(x.Pos(), "delegation under `defer cs.Unlock()`: the underlying stream would be called with the wrapper's mutex held")
				}
				if len(x.Results) != 1 {
					t.fail(x.Pos(), "unrecognised delegation")
				}
				return leaf("IDelegate", v.meth, fmt.Sprint(v.same))
			}
			t.fail(x.Pos(), "unrecognised return value (%s)", id.Name)
		}
	}
	switch {
	case isNil(e):
		return append(pre, leaf("IReturn", "RNil")...)
	case isIdent(e, f.errVar):
		return append(pre, leaf("IReturn", "RLocalErr")...)
	case isSel(e, f.recv, "initStreamErr"):
		if f.deferUnlock {
			// read under the lock
			t.wrote(f, true, false, false)
			f.errVar = ""
			return append(append(leaf("ILoadErr"), pre...), leaf("IReturn", "RLocalErr")...)
		}
		return leaf("IReturn", "RInitErr")
	case isSel(e, f.recv, "ctx"):
		return append(pre, leaf("IReturn", "RCallCtx")...)
	case t.isCtxErrValue(f, e):
		return append(pre, leaf("IReturn", "RCtxErr")...)
	}
	if f.deferUnlock {
		t.fail(x.Pos(), "delegation under `defer cs.Unlock()`: the underlying stream would be called with the wrapper's mutex held")
	}
	if c, ok := e.(*ast.CallExpr); ok {
		if sel, ok := c.Fun.(*ast.SelectorExpr); ok && isSel(sel.X, f.recv, "ClientStream") {
			m, ok := methCoq[sel.Sel.Name]
			if !ok {
				t.fail(x.Pos(), "delegation to an unknown method %s", sel.Sel.Name)
			}
			if len(x.Results) != 1 {
				t.fail(x.Pos(), "unrecognised delegation")
			}
			same := t.sameArgs(f, c)
			t.yield(x.Pos(), "deleg")
			return leaf("IDelegate", m, fmt.Sprint(same))
		}
	}
	t.fail(x.Pos(), "unrecognised return value")
	return nil
}

// ---- printing ----
func coqList(ns []*node) string {
	var parts []string
	for _, n := range ns {
		parts = append(parts, coqNode(n))
	}
	return "[" + strings.Join(parts, "; ") + "]"
}

func coqNode(n *node) string {
	if n.op == "IIfElse" {
		return n.op + " " + n.cnd + " " + coqList(n.body) + " " + coqList(n.els)
	}
	if n.has {
		return n.op + " " + n.cnd + " " + coqList(n.body)
	}
	if len(n.args) == 0 {
		return n.op
	}
	return n.op + " " + strings.Join(n.args, " ")
}

func irList(ns []*node) string {
	var parts []string
	parts = append(parts, "[")
	for _, n := range ns {
		if n.has {
			c := strings.NewReplacer("(", " ( ", ")", " ) ").Replace(n.cnd)
			parts = append(parts, n.op, "{", c, "}", irList(n.body))
			if n.op == "IIfElse" {
				parts = append(parts, irList(n.els))
			}
		} else {
			parts = append(parts, n.op)
			parts = append(parts, n.args...)
		}
	}
	parts = append(parts, "]")
	return strings.Join(parts, " ")
}

func main() {
	src := flag.String("src", "", "gcp_interceptor.go")
	coq := flag.String("coq", "", "output StreamIR.v")
	ir := flag.String("ir", "", "output stream.ir (text form for the driver)")
	instr := flag.String("instrument", "", "output: instrumented copy of the source")
	manifest := flag.String("manifest", "", "output: promoted methods and yield count")
	modname := flag.String("name", "StreamIR", "name used in the header comment")
	flag.Parse()
	if *src == "" {
		fmt.Fprintln(os.Stderr, "usage: streamir -src gcp_interceptor.go [-coq f] [-ir f] [-instrument f] [-manifest f]")
		os.Exit(2)
	}
	t := &tr{fset: token.NewFileSet(), decls: map[string]*ast.FuncDecl{}}
	defer func() {
		if r := recover(); r != nil {
			if f, ok := r.(failure); ok {
				p := t.fset.Position(f.pos)
				fmt.Fprintf(os.Stderr, "streamir: %s:%d:%d: %s\n", p.Filename, p.Line, p.Column, f.msg)
				os.Exit(1)
			}
			panic(r)
		}
	}()
	data, err := os.ReadFile(*src)
	if err != nil {
		fmt.Fprintln(os.Stderr, "streamir:", err)
		os.Exit(1)
	}
	file, err := parser.ParseFile(t.fset, *src, data, 0)
	if err != nil {
		fmt.Fprintln(os.Stderr, "streamir:", err)
		os.Exit(1)
	}
	t.file = file

	// the struct: embeds sync.Mutex and grpc.ClientStream
	var st *ast.StructType
	var stPos token.Pos
	for _, d := range file.Decls {
		g, ok := d.(*ast.GenDecl)
		if !ok {
			continue
		}
		for _, sp := range g.Specs {
			if ts, ok := sp.(*ast.TypeSpec); ok && ts.Name.Name == structName {
				st, _ = ts.Type.(*ast.StructType)
				stPos = ts.Pos()
			}
		}
	}
	if st == nil {
		t.fail(file.Pos(), "type %s not found", structName)
	}
	embedsMutex, embedsCS := false, false
	fields := map[string]bool{}
	for _, fl := range st.Fields.List {
		if len(fl.Names) == 0 {
			if isSel(fl.Type, "sync", "Mutex") {
				embedsMutex = true
			}
			if isSel(fl.Type, "grpc", "ClientStream") {
				embedsCS = true
			}
		}
		for _, n := range fl.Names {
			fields[n.Name] = true
		}
	}
	if !embedsMutex || !embedsCS {
		t.fail(stPos, "%s no longer embeds sync.Mutex and grpc.ClientStream", structName)
	}
	for _, need := range []string{"cond", "initStreamErr", "ctx", "streamer"} {
		if !fields[need] {
			t.fail(stPos, "%s has no field %s", structName, need)
		}
	}
	// methods; the constructor must tie the condition variable to the wrapper's own mutex
	condOK := false
	for _, d := range file.Decls {
		fd, ok := d.(*ast.FuncDecl)
		if !ok || fd.Body == nil {
			continue
		}
		if fd.Recv != nil && len(fd.Recv.List) == 1 {
			if s, ok := fd.Recv.List[0].Type.(*ast.StarExpr); ok && isIdent(s.X, structName) {
				t.decls[fd.Name.Name] = fd
			} else if isIdent(fd.Recv.List[0].Type, structName) {
				t.fail(fd.Pos(), "value receiver on %s (copies the mutex)", structName)
			}
		}
		if fd.Recv == nil && fd.Name.Name == "GCPStreamClientInterceptor" {
			ast.Inspect(fd.Body, func(n ast.Node) bool {
				a, ok := n.(*ast.AssignStmt)
				if !ok || len(a.Lhs) != 1 || len(a.Rhs) != 1 {
					return true
				}
				ls, ok := a.Lhs[0].(*ast.SelectorExpr)
				if !ok || ls.Sel.Name != "cond" {
					return true
				}
				c, ok := a.Rhs[0].(*ast.CallExpr)
				if ok && isSel(c.Fun, "sync", "NewCond") && len(c.Args) == 1 {
					if id, ok := ls.X.(*ast.Ident); ok && isIdent(c.Args[0], id.Name) {
						condOK = true
					}
				}
				return true
			})
		}
	}
	if !condOK {
		t.fail(file.Pos(), "GCPStreamClientInterceptor no longer sets cs.cond = sync.NewCond(cs)")
	}

	progs := map[string][]*node{}
	var promoted []string
	for _, m := range methods {
		d, ok := t.decls[m]
		if !ok {
			// promoted from the embedded grpc.ClientStream: a direct call on the (possibly nil) interface
			progs[m] = leaf("IDelegate", methCoq[m], "true")
			promoted = append(promoted, m)
			continue
		}
		f := &fctx{recv: recvName(d), name: m, alias: map[string]string{}}
		for _, p := range d.Type.Params.List {
			for _, n := range p.Names {
				f.params = append(f.params, n.Name)
				f.top = append(f.top, n.Name)
				if n.Name != "_" {
					f.alias[n.Name] = n.Name
				}
			}
		}
		if f.recv == "" {
			t.fail(d.Pos(), "method %s has no receiver name", m)
		}
		progs[m] = t.block(f, d.Body.List)
	}
	var watch []*node
	if t.watch != "" {
		d := t.decls[t.watch]
		if d.Type.Params.NumFields() != 0 || d.Type.Results.NumFields() != 0 {
			t.fail(d.Pos(), "goroutine body %s takes parameters or returns values", t.watch)
		}
		f := &fctx{recv: recvName(d), name: t.watch, void: true}
		watch = t.block(f, d.Body.List)
		// the harness learns that the goroutine returned
		t.inserts = append(t.inserts, insertion{t.fset.Position(d.Body.Lbrace).Offset + 1, " defer vsFin();"})
	}

	names := []struct{ coq, key string }{{"prog_SendMsg", "SendMsg"}, {"prog_RecvMsg", "RecvMsg"}, {"prog_CloseSend", "CloseSend"},
		{"prog_Header", "Header"}, {"prog_Trailer", "Trailer"}, {"prog_Context", "Context"}}
	if *coq != "" {
		var b strings.Builder
		fmt.Fprintf(&b, "(* %s: GENERATED by tools/streamir from %s - do not edit.\n", *modname, "grpcgcp/gcp_interceptor.go")
		fmt.Fprintf(&b, "   Instruction lists of the gcpClientStream methods (semantics: Stream/Sem.v).\n")
		if len(promoted) > 0 {
			fmt.Fprintf(&b, "   Promoted from the embedded grpc.ClientStream (no method of their own): %s.\n", strings.Join(promoted, ", "))
		}
		fmt.Fprintf(&b, "*)\nFrom Coq Require Import List.\nFrom GV Require Import Stream.Sem.\nImport ListNotations.\n\n")
		for _, n := range names {
			fmt.Fprintf(&b, "Definition %s : list instr :=\n  %s.\n\n", n.coq, coqList(progs[n.key]))
		}
		fmt.Fprintf(&b, "(* body of the goroutine started by `go cs.%s()` *)\n", t.watch)
		fmt.Fprintf(&b, "Definition prog_watch : list instr :=\n  %s.\n\n", coqList(watch))
		fmt.Fprintf(&b, "Definition the_prog : prog :=\n  {| p_send := prog_SendMsg; p_recv := prog_RecvMsg; p_close := prog_CloseSend;\n     p_header := prog_Header; p_trailer := prog_Trailer; p_context := prog_Context;\n     p_watch := prog_watch |}.\n")
		if err := os.WriteFile(*coq, []byte(b.String()), 0644); err != nil {
			fmt.Fprintln(os.Stderr, "streamir:", err)
			os.Exit(1)
		}
	}
	if *ir != "" {
		var b strings.Builder
		for _, n := range names {
			fmt.Fprintf(&b, "%s %s\n", n.key, irList(progs[n.key]))
		}
		fmt.Fprintf(&b, "watch %s\n", irList(watch))
		if err := os.WriteFile(*ir, []byte(b.String()), 0644); err != nil {
			fmt.Fprintln(os.Stderr, "streamir:", err)
			os.Exit(1)
		}
	}
	if *instr != "" {
		ins := t.inserts
		// a helper inlined at several call sites is visited several times: one insertion per offset
		sort.Slice(ins, func(i, j int) bool { return ins[i].off < ins[j].off })
		var out []byte
		last, prev := 0, -1
		for _, i := range ins {
			if i.off == prev {
				continue
			}
			out = append(out, data[last:i.off]...)
			out = append(out, i.text...)
			last, prev = i.off, i.off
		}
		out = append(out, data[last:]...)
		if err := os.WriteFile(*instr, out, 0644); err != nil {
			fmt.Fprintln(os.Stderr, "streamir:", err)
			os.Exit(1)
		}
	}
	if *manifest != "" {
		seen := map[int]bool{}
		for _, i := range t.inserts {
			if strings.HasPrefix(i.text, "vsYield") {
				seen[i.off] = true
			}
		}
		s := fmt.Sprintf("promoted %s\nyields %d\nwatcher %s\n", strings.Join(promoted, ","), len(seen), t.watch)
		if err := os.WriteFile(*manifest, []byte(s), 0644); err != nil {
			fmt.Fprintln(os.Stderr, "streamir:", err)
			os.Exit(1)
		}
	}
}

// ---------------------------------------------------------------- inlining
//
// Inlining of calls to other methods of *gcpClientStream ("helpers").
//
// The instruction set of Stream/Sem.v has no call instruction and, besides the
// register behind `err`, no local that could hold a helper's result.  A helper
// is therefore expanded at the call site, and a helper that has `return`
// statements is expanded together with everything that follows the call in the
// caller's block: each `return e` of the helper continues with that code,
// translated again for this path with the result bound to what is known about
// e (branch duplication).  Nothing is assumed about a returned value that the
// model can test: where the value depends on the state (a condition, or
// status.FromContextError(cs.ctx.Err()).Err(), which is nil while the context
// is alive) a branch on exactly that test is emitted at the place where the
// helper evaluates it, so a read of cs.ClientStream made under the lock stays
// under the lock.
//
// Recognised call sites:
//
//	cs.h(a...)                               statement, result (if any) dropped
//	x := cs.h(a...)                          and `_ = cs.h(a...)`
//	if x := cs.h(a...); <cond> { } else { }
//	if <cond> { } else { }                   where the first operand <cond> evaluates is
//	                                         cs.h(a...), !cs.h(a...), cs.h(a...) ==/!= nil
//	return cs.h(a...)                        and `return nil, cs.h(a...)`
//
// and, in any method or helper, `b := <condition>` (a boolean local).
// Helpers have at most one, unnamed, result; arguments are parameters of the
// translated method (passed on under any name), nil or literals.  Everything
// else fails loudly.

// ---- symbolic values

const (
	vVoid     = iota // the helper has no result
	vNil             // the literal nil
	vLocalErr        // held by the model's `err` register; known: is it nil
	vCtxErr          // status.FromContextError(cs.ctx.Err()).Err() of a context that HAS ended (non-nil for good)
	vCallCtx         // cs.ctx
	vBool            // a boolean that is decided on this path
	vDeleg           // the result of cs.ClientStream.M(args), called as the helper's last action
)

type sval struct {
	kind  int
	known int    // vLocalErr: +1 non-nil, -1 nil, 0 not known
	b     bool   // vBool
	meth  string // vDeleg
	same  bool   // vDeleg
}

// how often the per-thread registers of the model (lerr, lcs, lctx) have been written
type writes struct{ lerr, lcs, lctx int }

func (t *tr) wrote(f *fctx, lerr, lcs, lctx bool) {
	if lerr {
		t.w.lerr++
		f.errKnown = 0
	}
	if lcs {
		t.w.lcs++
	}
	if lctx {
		t.w.lctx++
	}
}

// clobber forgets the caller's variables whose register was written since w0
func (t *tr) clobber(f *fctx, w0 writes) {
	if t.w.lerr != w0.lerr {
		f.errVar, f.errKnown = "", 0
	}
	if t.w.lcs != w0.lcs {
		f.csVar = ""
	}
	if t.w.lctx != w0.lctx {
		f.ctxVar = ""
	}
}

func (t *tr) isInlining(name string) bool {
	for _, n := range t.inlining {
		if n == name {
			return true
		}
	}
	return false
}

func (t *tr) fresh() string {
	t.tmp++
	return fmt.Sprintf("·r%d", t.tmp) // not a Go identifier a source can contain
}

// standsFor: e is a local that holds the parameter `top` of the translated method
func (f *fctx) standsFor(e ast.Expr, top string) bool {
	id, ok := e.(*ast.Ident)
	if !ok || top == "" || top == "_" {
		return false
	}
	if _, shadowed := f.syms[id.Name]; shadowed {
		return false
	}
	if id.Name == f.errVar || id.Name == f.csVar || id.Name == f.ctxVar {
		return false
	}
	return f.alias[id.Name] == top
}

// sameArgs: the call passes on exactly the arguments of the translated method
func (t *tr) sameArgs(f *fctx, c *ast.CallExpr) bool {
	if len(c.Args) != len(f.top) || c.Ellipsis.IsValid() {
		return false
	}
	for i, a := range c.Args {
		if !f.standsFor(a, f.top[i]) {
			return false
		}
	}
	return true
}

func with(m map[string]sval, k string, v sval) map[string]sval {
	n := make(map[string]sval, len(m)+1)
	for a, b := range m {
		n[a] = b
	}
	n[k] = v
	return n
}

func without(m map[string]sval, k string) map[string]sval {
	if _, ok := m[k]; !ok {
		return m
	}
	n := make(map[string]sval, len(m))
	for a, b := range m {
		if a != k {
			n[a] = b
		}
	}
	return n
}

// unscope ends a scope: the symbolic bindings are those of its beginning.  A
// register variable (bound in the scope, the translator lets those live on)
// with the name of a symbolic local of the outer scope is dropped: the name
// means the outer variable again.
func (t *tr) unscope(f *fctx, syms map[string]sval) {
	f.syms = syms
	if _, ok := syms[f.errVar]; ok {
		f.errVar, f.errKnown = "", 0
	}
	if _, ok := syms[f.csVar]; ok {
		f.csVar = ""
	}
	if _, ok := syms[f.ctxVar]; ok {
		f.ctxVar = ""
	}
}

// refine: what is known about err in the branch `branch` of a test c
func refine(pre int, c string, branch bool) int {
	v := 0
	switch c {
	case "CLocalErr":
		v = 1
	case "(CNot CLocalErr)":
		v = -1
	default:
		return pre
	}
	if !branch {
		v = -v
	}
	return v
}

func join(a, b int) int {
	if a == b {
		return a
	}
	return 0
}

func hasReturn(n ast.Node) bool {
	found := false
	ast.Inspect(n, func(m ast.Node) bool {
		switch m.(type) {
		case *ast.FuncLit:
			return false
		case *ast.ReturnStmt:
			found = true
		}
		return !found
	})
	return found
}

// helperCall: e is cs.h(...) with h a method of *gcpClientStream of this file
func (t *tr) helperCall(f *fctx, e ast.Expr) (*ast.CallExpr, *ast.FuncDecl) {
	c, ok := unparen(e).(*ast.CallExpr)
	if !ok {
		return nil, nil
	}
	sel, ok := c.Fun.(*ast.SelectorExpr)
	if !ok || !isIdent(sel.X, f.recv) {
		return nil, nil
	}
	if d, ok := t.decls[sel.Sel.Name]; ok {
		return c, d
	}
	return nil, nil
}

// plain: the helper call that stmt() expands by itself (as before there were
// helpers with results): no arguments, parameters, results or return statements
func plain(c *ast.CallExpr, d *ast.FuncDecl) bool {
	return len(c.Args) == 0 && d.Type.Params.NumFields() == 0 && d.Type.Results.NumFields() == 0 && !hasReturn(d.Body)
}

// leadCall: the helper call that is the first thing the condition e evaluates
func (t *tr) leadCall(f *fctx, e ast.Expr) (*ast.CallExpr, *ast.FuncDecl) {
	e = unparen(e)
	switch x := e.(type) {
	case *ast.CallExpr:
		return t.helperCall(f, x)
	case *ast.UnaryExpr:
		if x.Op == token.NOT {
			return t.leadCall(f, x.X)
		}
	case *ast.BinaryExpr:
		switch x.Op {
		case token.LAND, token.LOR:
			return t.leadCall(f, x.X)
		case token.EQL, token.NEQ:
			if c, d := t.leadCall(f, x.X); c != nil {
				return c, d
			}
			if isNil(unparen(x.X)) {
				return t.leadCall(f, x.Y)
			}
		}
	}
	return nil, nil
}

// subst rebuilds the condition e with `by` in the place of target
func subst(e ast.Expr, target, by ast.Expr) ast.Expr {
	if e == target {
		return by
	}
	switch x := e.(type) {
	case *ast.ParenExpr:
		y := *x
		y.X = subst(x.X, target, by)
		return &y
	case *ast.UnaryExpr:
		y := *x
		y.X = subst(x.X, target, by)
		return &y
	case *ast.BinaryExpr:
		y := *x
		y.X, y.Y = subst(x.X, target, by), subst(x.Y, target, by)
		return &y
	}
	return e
}

// looksLikeCond: the right-hand side of `b := ...` is a condition
func (t *tr) looksLikeCond(f *fctx, e ast.Expr) bool {
	switch x := unparen(e).(type) {
	case *ast.BinaryExpr:
		switch x.Op {
		case token.LAND, token.LOR, token.EQL, token.NEQ:
			return true
		}
	case *ast.UnaryExpr:
		return x.Op == token.NOT
	case *ast.SelectorExpr:
		return isSel(x, f.recv, "watching")
	case *ast.Ident:
		if x.Name == "true" {
			return true
		}
		v, ok := f.syms[x.Name]
		return ok && v.kind == vBool && x.Name != f.errVar
	}
	return false
}

// rejectHelperCalls fails on a helper call (or a method value of a helper) in
// the expressions of s itself - not in nested blocks, which are translated
// statement by statement - i.e. on every use that t.special did not expand.
func (t *tr) rejectHelperCalls(f *fctx, s ast.Stmt) {
	var roots []ast.Node
	switch x := s.(type) {
	case *ast.ExprStmt:
		if c, d := t.helperCall(f, x.X); c != nil && plain(c, d) {
			return
		}
		roots = append(roots, x.X)
	case *ast.AssignStmt:
		for _, e := range x.Lhs {
			roots = append(roots, e)
		}
		for _, e := range x.Rhs {
			roots = append(roots, e)
		}
	case *ast.IfStmt:
		if x.Init != nil {
			t.rejectHelperCalls(f, x.Init)
		}
		roots = append(roots, x.Cond)
	case *ast.ForStmt:
		if x.Cond != nil {
			roots = append(roots, x.Cond)
		}
	case *ast.ReturnStmt:
		for _, e := range x.Results {
			roots = append(roots, e)
		}
	case *ast.DeferStmt:
		roots = append(roots, x.Call)
	case *ast.DeclStmt:
		roots = append(roots, x.Decl)
	}
	for _, r := range roots {
		called := map[ast.Expr]bool{}
		ast.Inspect(r, func(n ast.Node) bool {
			switch y := n.(type) {
			case *ast.CallExpr:
				called[y.Fun] = true
				if c, d := t.helperCall(f, y); c != nil {
					t.fail(y.Pos(), "call of the helper %s in a position the translator does not inline (supported: statement, "+
						"`x := cs.%s()`, `if x := cs.%s(); ...`, first operand of an if condition, `return cs.%s()`)",
						d.Name.Name, d.Name.Name, d.Name.Name, d.Name.Name)
				}
			case *ast.SelectorExpr:
				if isIdent(y.X, f.recv) && !called[y] {
					if _, ok := t.decls[y.Sel.Name]; ok {
						t.fail(y.Pos(), "method value %s.%s: helpers called through function values are not supported", f.recv, y.Sel.Name)
					}
				}
			}
			return true
		})
	}
}

// ---- statement lists

type kont func(f *fctx) []*node

// atNest: k, run with the nesting depth of the place it continues
func (t *tr) atNest(k kont) kont {
	n := t.nest
	return func(g *fctx) []*node {
		cur := t.nest
		t.nest = n
		defer func() { t.nest = cur }()
		return k(g)
	}
}

// seq translates stmts followed by k (nil: nothing follows in this block).
func (t *tr) seq(f *fctx, stmts []ast.Stmt, k kont) []*node {
	var out []*node
	for i, s := range stmts {
		rest := stmts[i+1:]
		after := t.atNest(func(g *fctx) []*node { return t.seq(g, rest, k) })
		if ns, ok := t.special(f, s, after); ok {
			return append(out, ns...)
		}
		t.rejectHelperCalls(f, s)
		ns := t.stmt(f, s)
		out = append(out, ns...)
		if terminates(ns) {
			// every path ended the call: what follows is unreachable
			return out
		}
		if _, ret := s.(*ast.ReturnStmt); ret && f.retK != nil {
			// the helper returned: the caller's code is in ns already
			return out
		}
	}
	if k != nil {
		out = append(out, k(f)...)
	}
	return out
}

// fork: a branch on c (known: st) with both continuations in the branches
func (t *tr) fork(c string, st int, a, b func() []*node) []*node {
	switch {
	case st > 0:
		return a()
	case st < 0:
		return b()
	}
	an, bn := a(), b()
	ta, tb := terminates(an), terminates(bn)
	if ta && tb && an[len(an)-1].op == "IDelegate" && bn[len(bn)-1].op != "IDelegate" {
		// both end the call: the one that reaches the stream is written last, as in the source
		return append([]*node{{op: "IIf", cnd: neg(c), body: bn, has: true}}, an...)
	}
	switch {
	case ta:
		return append([]*node{{op: "IIf", cnd: c, body: an, has: true}}, bn...)
	case tb:
		return append([]*node{{op: "IIf", cnd: neg(c), body: bn, has: true}}, an...)
	}
	return []*node{{op: "IIfElse", cnd: c, body: an, els: bn, has: true}}
}

// special translates the statement forms that need what follows them (`after`):
// call sites of helpers, boolean locals, and - inside a helper with return
// statements - every statement that contains a return.  ok=false: not such a
// form, nothing was translated.
func (t *tr) special(f *fctx, s ast.Stmt, after kont) ([]*node, bool) {
	switch x := s.(type) {
	case *ast.ExprStmt:
		if c, d := t.helperCall(f, x.X); c != nil && !plain(c, d) {
			return t.call(f, c, d, "", false, after), true
		}
	case *ast.AssignStmt:
		if len(x.Rhs) != 1 {
			return nil, false
		}
		if c, d := t.helperCall(f, x.Rhs[0]); c != nil {
			if len(x.Lhs) != 1 {
				t.fail(x.Pos(), "the results of the helper %s go to %d variables; only helpers with at most one result are inlined", d.Name.Name, len(x.Lhs))
			}
			id, ok := x.Lhs[0].(*ast.Ident)
			if !ok {
				t.fail(x.Pos(), "the result of the helper %s is not kept in a local variable", d.Name.Name)
			}
			if x.Tok != token.DEFINE && id.Name != "_" {
				t.fail(x.Pos(), "the result of the helper %s is assigned to an existing variable; only `%s := %s.%s(...)` is supported", d.Name.Name, id.Name, f.recv, d.Name.Name)
			}
			return t.call(f, c, d, id.Name, false, after), true
		}
		if id, ok := x.Lhs[0].(*ast.Ident); ok && len(x.Lhs) == 1 && x.Tok == token.DEFINE && id.Name != "_" && t.looksLikeCond(f, x.Rhs[0]) {
			// b := <condition>: the test is made here, what follows knows the outcome
			c, st := t.condS(f, x.Rhs[0])
			br := func(b bool) func() []*node {
				return func() []*node {
					g := *f
					t.bind(&g, id.Name, sval{kind: vBool, b: b}, false, x.Pos())
					return after(&g)
				}
			}
			return t.fork(c, st, br(true), br(false)), true
		}
	case *ast.BlockStmt:
		if f.retK != nil && hasReturn(x) {
			syms := f.syms
			return t.seq(f, x.List, func(g *fctx) []*node { t.unscope(g, syms); return after(g) }), true
		}
	case *ast.IfStmt:
		if as, ok := x.Init.(*ast.AssignStmt); ok && len(as.Rhs) == 1 {
			c, _ := t.helperCall(f, as.Rhs[0])
			if c != nil || (as.Tok == token.DEFINE && len(as.Lhs) == 1 && t.looksLikeCond(f, as.Rhs[0])) {
				// if x := cs.h(); cond ...   ==   x := cs.h(); if cond ...
				y := *x
				y.Init = nil
				return t.seq(f, []ast.Stmt{as, &y}, after), true
			}
		}
		if c, d := t.leadCall(f, x.Cond); c != nil {
			var out []*node
			if x.Init != nil {
				t.rejectHelperCalls(f, x.Init)
				out = t.stmt(f, x.Init)
			}
			name := t.fresh()
			y := *x
			y.Init = nil
			y.Cond = subst(x.Cond, c, &ast.Ident{NamePos: c.Pos(), Name: name})
			return append(out, t.call(f, c, d, name, false, func(g *fctx) []*node { return t.seq(g, []ast.Stmt{&y}, after) })...), true
		}
		if f.retK != nil && hasReturn(x) {
			// inside a helper: a return continues with the caller's code, so the statements after this
			// one belong into the branches (into the one that does not end the call, if one does)
			var out []*node
			if x.Init != nil {
				t.rejectHelperCalls(f, x.Init)
				out = t.stmt(f, x.Init)
			}
			c, st := t.condS(f, x.Cond)
			syms := f.syms
			then := func(g *fctx) []*node { t.unscope(g, syms); return after(g) }
			br := func(branch bool) func() []*node {
				return func() []*node {
					g := *f
					if st == 0 {
						g.errKnown = refine(f.errKnown, c, branch)
					}
					switch {
					case branch:
						t.nest++
						defer func() { t.nest-- }()
						return t.seq(&g, x.Body.List, then)
					case x.Else == nil:
						return then(&g)
					}
					t.nest++
					defer func() { t.nest-- }()
					if e, ok := x.Else.(*ast.BlockStmt); ok {
						return t.seq(&g, e.List, then)
					}
					return t.seq(&g, []ast.Stmt{x.Else}, then)
				}
			}
			return append(out, t.fork(c, st, br(true), br(false))...), true
		}
	case *ast.ReturnStmt:
		// return cs.h(...)  /  return nil, cs.h(...)
		n := len(x.Results)
		if n == 0 {
			return nil, false
		}
		c, d := t.helperCall(f, x.Results[n-1])
		if c == nil {
			return nil, false
		}
		name := t.fresh()
		y := *x
		y.Results = append(append([]ast.Expr{}, x.Results[:n-1]...), &ast.Ident{NamePos: c.Pos(), Name: name})
		return t.call(f, c, d, name, true, func(g *fctx) []*node { return t.seq(g, []ast.Stmt{&y}, nil) }), true
	}
	return nil, false
}

// bind: the local `name` holds v from here on
func (t *tr) bind(g *fctx, name string, v sval, direct bool, at token.Pos) {
	if name == "" || name == "_" {
		if v.kind == vDeleg {
			t.fail(at, "the helper calls the underlying stream as its last action and the caller drops the result; the model ends a call with the delegation")
		}
		return
	}
	switch v.kind {
	case vVoid:
		t.fail(at, "the helper has no result")
	case vLocalErr:
		g.errVar, g.errKnown = name, v.known
		g.syms = without(g.syms, name)
		if g.csVar == name {
			g.csVar = ""
		}
		if g.ctxVar == name {
			g.ctxVar = ""
		}
		return
	case vDeleg:
		if !direct {
			t.fail(at, "the helper returns the result of a method of the underlying stream; only `return %s.<helper>(...)` is supported for such a helper", g.recv)
		}
	}
	// the name shadows a register variable of the same name for the rest of this path
	if g.errVar == name {
		g.errVar, g.errKnown = "", 0
	}
	if g.csVar == name {
		g.csVar = ""
	}
	if g.ctxVar == name {
		g.ctxVar = ""
	}
	g.syms = with(g.syms, name, v)
}

// call expands the helper d at the call c of the caller f.  The result goes to
// the caller's local `name` ("" or "_": dropped; direct: the local is a
// temporary that is returned at once); `after` is what follows the call.
func (t *tr) call(f *fctx, c *ast.CallExpr, d *ast.FuncDecl, name string, direct bool, after kont) []*node {
	hname, at := d.Name.Name, c.Pos()
	if t.isInlining(hname) {
		t.fail(at, "recursive helper %s", hname)
	}
	fh := &fctx{recv: recvName(d), name: hname, inlined: true, top: f.top, alias: map[string]string{}}
	if fh.recv == "" {
		t.fail(d.Pos(), "helper %s has no receiver name", hname)
	}
	switch n := d.Type.Results.NumFields(); {
	case n == 0:
		fh.void = true
	case n > 1:
		t.fail(at, "helper %s returns %d values; only helpers with at most one result are inlined", hname, n)
	default:
		r := d.Type.Results.List[0]
		if len(r.Names) != 0 {
			t.fail(r.Pos(), "helper %s has a named result", hname)
		}
		switch {
		case isIdent(r.Type, "bool"):
			fh.resType = "bool"
		case isIdent(r.Type, "error"):
			fh.resType = "error"
		default:
			fh.resType = "value"
		}
	}
	// arguments: a parameter of the translated method (under whatever name), nil or a literal
	var params []*ast.Ident
	for _, p := range d.Type.Params.List {
		if _, variadic := p.Type.(*ast.Ellipsis); variadic {
			t.fail(p.Pos(), "helper %s is variadic", hname)
		}
		if len(p.Names) == 0 {
			params = append(params, &ast.Ident{Name: "_"})
		}
		params = append(params, p.Names...)
	}
	if len(params) != len(c.Args) || c.Ellipsis.IsValid() {
		t.fail(at, "call of helper %s with %d arguments for %d parameters", hname, len(c.Args), len(params))
	}
	for i, a := range c.Args {
		a = unparen(a)
		id, isId := a.(*ast.Ident)
		_, isLit := a.(*ast.BasicLit)
		switch {
		case isId && f.standsFor(id, f.alias[id.Name]):
			if params[i].Name != "_" {
				fh.alias[params[i].Name] = f.alias[id.Name]
			}
		case isNil(a), isLit, isId && (id.Name == "true" || id.Name == "false"):
			// a use of the parameter that matters to the model is refused where it occurs
		default:
			t.fail(a.Pos(), "argument %d of the call of helper %s is neither a parameter of %s, nil nor a literal", i+1, hname, f.outer())
		}
	}
	snap, w0 := *f, t.w
	nest, inl := t.nest, t.inlining
	fh.retK = func(v sval, pos token.Pos) []*node {
		// the caller goes on, on this return path of the helper
		g := snap
		t.clobber(&g, w0)
		t.bind(&g, name, v, direct, pos)
		curNest, curInl := t.nest, t.inlining
		t.nest, t.inlining = nest, inl
		defer func() { t.nest, t.inlining = curNest, curInl }()
		return after(&g)
	}
	t.inlining = append(append([]string{}, inl...), hname)
	t.nest = 0
	body := t.seq(fh, d.Body.List, func(g *fctx) []*node {
		if !g.void {
			t.fail(d.Body.Rbrace, "helper %s: the end of the body is reached without a return", hname)
		}
		return t.leave(g, d.Body.Rbrace, sval{kind: vVoid})
	})
	t.inlining, t.nest = inl, nest
	// the state after the caller's block (whatever was bound in it is out of scope)
	t.clobber(f, w0)
	return body
}

// outer: name of the method being translated, for messages
func (f *fctx) outer() string {
	if f.inlined {
		return "the translated method"
	}
	return f.name
}

// leave: the helper g returns v at pos
func (t *tr) leave(g *fctx, pos token.Pos, v sval) []*node {
	var pre []*node
	if g.deferUnlock {
		t.yield(pos, "unlock")
		pre = leaf("IUnlock")
	}
	ns := append(pre, g.retK(v, pos)...)
	if g.loop > 0 && !terminates(ns) {
		t.fail(pos, "return inside a loop of the helper %s, and the code after the call does not end the method on every path: "+
			"the model has no jump out of a loop", g.name)
	}
	return ns
}

// retHelper: a return statement of a helper that is expanded with its continuation
func (t *tr) retHelper(f *fctx, x *ast.ReturnStmt) []*node {
	if len(x.Results) == 0 {
		if !f.void {
			t.fail(x.Pos(), "bare return")
		}
		return t.leave(f, x.Pos(), sval{kind: vVoid})
	}
	if f.void || len(x.Results) != 1 {
		t.fail(x.Pos(), "unrecognised return")
	}
	e := unparen(x.Results[0])
	if f.resType == "bool" {
		c, st := t.condS(f, e)
		br := func(b bool) func() []*node {
			return func() []*node { return t.leave(f, x.Pos(), sval{kind: vBool, b: b}) }
		}
		return t.fork(c, st, br(true), br(false))
	}
	if id, ok := e.(*ast.Ident); ok && id.Name != f.errVar {
		if v, ok := f.syms[id.Name]; ok {
			if v.kind == vBool {
				t.fail(x.Pos(), "unrecognised return value (%s)", id.Name)
			}
			return t.leave(f, x.Pos(), v)
		}
	}
	switch {
	case isNil(e):
		return t.leave(f, x.Pos(), sval{kind: vNil})
	case isIdent(e, f.errVar):
		return t.leave(f, x.Pos(), sval{kind: vLocalErr, known: f.errKnown})
	case isSel(e, f.recv, "initStreamErr"):
		// read here (under the lock, if the helper holds it), tested by the caller later
		t.wrote(f, true, false, false)
		f.errVar = ""
		return append(leaf("ILoadErr"), t.leave(f, x.Pos(), sval{kind: vLocalErr})...)
	case isSel(e, f.recv, "ctx"):
		return t.leave(f, x.Pos(), sval{kind: vCallCtx})
	case t.isCtxErrValue(f, e):
		// nil as long as the context is alive: decided where the helper evaluates it
		return t.fork("(CNot CCtxLive)", 0,
			func() []*node { return t.leave(f, x.Pos(), sval{kind: vCtxErr}) },
			func() []*node { return t.leave(f, x.Pos(), sval{kind: vNil}) })
	}
	if c, ok := e.(*ast.CallExpr); ok {
		if sel, ok := c.Fun.(*ast.SelectorExpr); ok && isSel(sel.X, f.recv, "ClientStream") {
			if f.deferUnlock {
				t.fail(x.Pos(), "delegation under `defer cs.Unlock()`: the underlying stream would be called with the wrapper's mutex held")
			}
			m, ok := methCoq[sel.Sel.Name]
			if !ok {
				t.fail(x.Pos(), "delegation to an unknown method %s", sel.Sel.Name)
			}
			same := t.sameArgs(f, c)
			t.yield(x.Pos(), "deleg")
			return t.leave(f, x.Pos(), sval{kind: vDeleg, meth: m, same: same})
		}
	}
	t.fail(x.Pos(), "unrecognised return value")
	return nil
}
