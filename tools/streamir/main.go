// streamir regenerates the instruction lists of the gcpClientStream methods
// (the program the Coq semantics Stream/Sem.v runs) from the Go source
// grpcgcp/gcp_interceptor.go.  It recognises exactly the statement forms that
// occur there and fails loudly (exit 1, file:line) on anything else.
//
//	streamir -src <gcp_interceptor.go> [-coq StreamIR.v] [-ir stream.ir]
//	         [-instrument <copy.go>] [-manifest <file>]
//
// -instrument writes a line-preserving copy of the source with
// `vsYield("<site>"); ` in front of every yield point (Lock, Unlock, Wait,
// Broadcast, the streamer call, delegations, <-ctx.Done()).
package main

import (
	"flag"
	"fmt"
	"go/ast"
	"go/parser"
	"go/token"
	"os"
	"sort"
	"strings"
)

const structName = "gcpClientStream"

var methods = []string{"SendMsg", "RecvMsg", "CloseSend", "Header", "Trailer", "Context"}
var methCoq = map[string]string{"SendMsg": "MSend", "RecvMsg": "MRecv", "CloseSend": "MCloseSend",
	"Header": "MHeader", "Trailer": "MTrailer", "Context": "MContext"}

type failure struct {
	pos token.Pos
	msg string
}

type node struct {
	op   string   // constructor
	args []string // scalar arguments (already Coq syntax)
	cnd  string
	body []*node
	els  []*node // IIfElse only
	has  bool    // has cnd/body
}

type insertion struct {
	off  int
	text string
}

type tr struct {
	fset     *token.FileSet
	file     *ast.File
	decls    map[string]*ast.FuncDecl // methods of *gcpClientStream
	watch    string                   // name of the spawned helper
	inserts  []insertion
	inlining map[string]bool
	yields   int
	nest     int // depth of if/for bodies being translated
}

func (t *tr) fail(p token.Pos, format string, a ...interface{}) {
	panic(failure{p, fmt.Sprintf(format, a...)})
}

// per-function translation context
type fctx struct {
	recv        string
	params      []string
	ctxVar      string // local holding context.WithValue(...)
	csVar       string // local holding the streamer's stream
	errVar      string // local err
	name        string
	void        bool
	inlined     bool
	deferUnlock bool // `defer cs.Unlock()` is pending: every return unlocks first
}

func isSel(e ast.Expr, path ...string) bool {
	// matches a.b.c given ["a","b","c"]
	for i := len(path) - 1; i >= 1; i-- {
		s, ok := e.(*ast.SelectorExpr)
		if !ok || s.Sel.Name != path[i] {
			return false
		}
		e = s.X
	}
	id, ok := e.(*ast.Ident)
	return ok && id.Name == path[0]
}

func isIdent(e ast.Expr, name string) bool {
	id, ok := e.(*ast.Ident)
	return ok && name != "" && id.Name == name
}

func isNil(e ast.Expr) bool { return isIdent(e, "nil") }

func unparen(e ast.Expr) ast.Expr {
	for {
		p, ok := e.(*ast.ParenExpr)
		if !ok {
			return e
		}
		e = p.X
	}
}

func (t *tr) yield(pos token.Pos, site string) {
	t.inserts = append(t.inserts, insertion{t.fset.Position(pos).Offset, fmt.Sprintf("vsYield(%q); ", site)})
	t.yields++
}

// neg negates a condition term, cancelling a double negation.
func neg(c string) string {
	const pre = "(CNot "
	if strings.HasPrefix(c, pre) && strings.HasSuffix(c, ")") {
		// does the opening parenthesis of c close at its very end?
		depth, whole := 0, true
		for i, ch := range c {
			if ch == '(' {
				depth++
			} else if ch == ')' {
				depth--
				if depth == 0 && i != len(c)-1 {
					whole = false
				}
			}
		}
		if whole {
			return c[len(pre) : len(c)-1]
		}
	}
	return "(CNot " + c + ")"
}

// terminates: every path through the list ends the call (return or delegation)
func terminates(ns []*node) bool {
	if len(ns) == 0 {
		return false
	}
	l := ns[len(ns)-1]
	switch l.op {
	case "IReturn", "IDelegate":
		return true
	case "IIfElse":
		return terminates(l.body) && terminates(l.els)
	}
	return false
}

func (t *tr) cond(f *fctx, e ast.Expr) string {
	e = unparen(e)
	switch x := e.(type) {
	case *ast.Ident:
		if x.Name == "true" {
			return "CTrue"
		}
	case *ast.SelectorExpr:
		if isSel(x, f.recv, "watching") {
			return "CWatching"
		}
	case *ast.UnaryExpr:
		if x.Op == token.NOT {
			return neg(t.cond(f, x.X))
		}
	case *ast.BinaryExpr:
		switch x.Op {
		case token.LAND:
			return "(CAnd " + t.cond(f, x.X) + " " + t.cond(f, x.Y) + ")"
		case token.LOR:
			return "(COr " + t.cond(f, x.X) + " " + t.cond(f, x.Y) + ")"
		case token.EQL, token.NEQ:
			l, r := unparen(x.X), unparen(x.Y)
			if isNil(l) {
				l, r = r, l
			}
			if !isNil(r) {
				break
			}
			eq := x.Op == token.EQL
			pick := func(whenEq, whenNeq string) string {
				if eq {
					return whenEq
				}
				return whenNeq
			}
			switch {
			case isSel(l, f.recv, "ClientStream"):
				return pick("CStreamNil", "(CNot CStreamNil)")
			case isSel(l, f.recv, "initStreamErr"):
				return pick("(CNot CErrSet)", "CErrSet")
			case isIdent(l, f.errVar):
				return pick("(CNot CLocalErr)", "CLocalErr")
			}
			if c, ok := l.(*ast.CallExpr); ok && len(c.Args) == 0 {
				if isSel(c.Fun, f.recv, "ctx", "Err") {
					return pick("CCtxLive", "(CNot CCtxLive)")
				}
				if isSel(c.Fun, f.recv, "ctx", "Done") {
					return pick("(CNot CCancellable)", "CCancellable")
				}
			}
		}
	}
	t.fail(e.Pos(), "unrecognised condition")
	return ""
}

// log-like calls that do not touch the stream wrapper's synchronisation
func (t *tr) isLogCall(f *fctx, c *ast.CallExpr) bool {
	s, ok := c.Fun.(*ast.SelectorExpr)
	if !ok {
		return false
	}
	id, ok := s.X.(*ast.Ident)
	if !ok {
		return false
	}
	switch id.Name {
	case "log", "grpclog", "fmt", "logger":
	default:
		return false
	}
	pure := true
	for _, a := range c.Args {
		ast.Inspect(a, func(n ast.Node) bool {
			if _, ok := n.(*ast.CallExpr); ok {
				pure = false
			}
			if _, ok := n.(*ast.UnaryExpr); ok && n.(*ast.UnaryExpr).Op == token.ARROW {
				pure = false
			}
			return true
		})
	}
	return pure
}

func (t *tr) isCtxErrValue(f *fctx, e ast.Expr) bool {
	// status.FromContextError(cs.ctx.Err()).Err()
	c, ok := e.(*ast.CallExpr)
	if !ok || len(c.Args) != 0 {
		return false
	}
	s, ok := c.Fun.(*ast.SelectorExpr)
	if !ok || s.Sel.Name != "Err" {
		return false
	}
	in, ok := s.X.(*ast.CallExpr)
	if !ok || len(in.Args) != 1 || !isSel(in.Fun, "status", "FromContextError") {
		return false
	}
	a, ok := in.Args[0].(*ast.CallExpr)
	return ok && len(a.Args) == 0 && isSel(a.Fun, f.recv, "ctx", "Err")
}

func (t *tr) block(f *fctx, stmts []ast.Stmt) []*node {
	var out []*node
	for _, s := range stmts {
		out = append(out, t.stmt(f, s)...)
	}
	return out
}

func leaf(op string, args ...string) []*node { return []*node{{op: op, args: args}} }

func (t *tr) stmt(f *fctx, s ast.Stmt) []*node {
	switch x := s.(type) {
	case *ast.EmptyStmt:
		return nil
	case *ast.BlockStmt:
		return t.block(f, x.List)
	case *ast.ExprStmt:
		e := unparen(x.X)
		if u, ok := e.(*ast.UnaryExpr); ok && u.Op == token.ARROW {
			if c, ok := u.X.(*ast.CallExpr); ok && len(c.Args) == 0 && isSel(c.Fun, f.recv, "ctx", "Done") {
				t.yield(x.Pos(), "await")
				return leaf("IAwaitDone")
			}
			t.fail(x.Pos(), "unrecognised channel receive")
		}
		c, ok := e.(*ast.CallExpr)
		if !ok {
			t.fail(x.Pos(), "unrecognised expression statement")
		}
		if len(c.Args) == 0 {
			switch {
			case isSel(c.Fun, f.recv, "Lock"), isSel(c.Fun, f.recv, "Mutex", "Lock"):
				t.yield(x.Pos(), "lock")
				return leaf("ILock")
			case isSel(c.Fun, f.recv, "Unlock"), isSel(c.Fun, f.recv, "Mutex", "Unlock"):
				t.yield(x.Pos(), "unlock")
				return leaf("IUnlock")
			case isSel(c.Fun, f.recv, "cond", "Broadcast"):
				t.yield(x.Pos(), "bcast")
				return leaf("IBroadcast")
			case isSel(c.Fun, f.recv, "cond", "Wait"):
				t.yield(x.Pos(), "wait")
				return leaf("IWait")
			}
			// cs.helper(): inline
			if sel, ok := c.Fun.(*ast.SelectorExpr); ok && isIdent(sel.X, f.recv) {
				if d, ok := t.decls[sel.Sel.Name]; ok {
					return t.inline(d, x.Pos())
				}
			}
		}
		if t.isLogCall(f, c) {
			return nil
		}
		t.fail(x.Pos(), "unrecognised call statement")
	case *ast.GoStmt:
		c := x.Call
		if sel, ok := c.Fun.(*ast.SelectorExpr); ok && len(c.Args) == 0 && isIdent(sel.X, f.recv) {
			if _, ok := t.decls[sel.Sel.Name]; ok {
				if t.watch != "" && t.watch != sel.Sel.Name {
					t.fail(x.Pos(), "a second kind of goroutine is started (%s and %s)", t.watch, sel.Sel.Name)
				}
				t.watch = sel.Sel.Name
				t.inserts = append(t.inserts, insertion{t.fset.Position(x.Pos()).Offset, "vsSpawn(); "})
				return leaf("ISpawn")
			}
		}
		t.fail(x.Pos(), "unrecognised go statement")
	case *ast.DeferStmt:
		// `defer cs.Unlock()`: every later return unlocks after its values are evaluated.  Supported for
		// returns that do not delegate (a delegation would run with the mutex held across the call of the
		// underlying stream - not the same behaviour, and not what the model's mutex discipline allows).
		c := x.Call
		if len(c.Args) == 0 && (isSel(c.Fun, f.recv, "Unlock") || isSel(c.Fun, f.recv, "Mutex", "Unlock")) && !f.inlined && !f.deferUnlock && t.nest == 0 {
			f.deferUnlock = true
			return nil
		}
		t.fail(x.Pos(), "this defer is not supported (only one `defer cs.Unlock()` directly in a method body)")
	case *ast.IfStmt:
		var out []*node
		if x.Init != nil {
			out = append(out, t.stmt(f, x.Init)...)
		}
		c := t.cond(f, x.Cond)
		// local-variable bindings made in one branch must not leak into the other
		saved := *f
		t.nest++
		a := t.block(f, x.Body.List)
		t.nest--
		afterA := *f
		if x.Else == nil {
			return append(out, &node{op: "IIf", cnd: c, body: a, has: true})
		}
		*f = saved
		t.nest++
		b := t.stmt(f, x.Else) // a block or another if statement
		t.nest--
		if f.ctxVar != afterA.ctxVar || f.csVar != afterA.csVar || f.errVar != afterA.errVar {
			// what follows the statement would depend on which branch declared the variable
			if !terminates(a) && !terminates(b) {
				t.fail(x.Pos(), "the branches of this if/else bind different local variables")
			}
			if terminates(b) {
				*f = afterA
			}
		}
		// if C {A} else {B}; rest  ==  if C {A}; B; rest      when A ends the call
		//                          ==  if !C {B}; A; rest     when B ends the call
		switch {
		case terminates(a):
			out = append(out, &node{op: "IIf", cnd: c, body: a, has: true})
			return append(out, b...)
		case terminates(b):
			out = append(out, &node{op: "IIf", cnd: neg(c), body: b, has: true})
			return append(out, a...)
		}
		return append(out, &node{op: "IIfElse", cnd: c, body: a, els: b, has: true})
	case *ast.ForStmt:
		if x.Init != nil || x.Post != nil {
			t.fail(x.Pos(), "only `for cond { ... }` loops are supported")
		}
		c := "CTrue"
		if x.Cond != nil {
			c = t.cond(f, x.Cond)
		}
		t.nest++
		body := t.block(f, x.Body.List)
		t.nest--
		return []*node{{op: "IWhile", cnd: c, body: body, has: true}}
	case *ast.AssignStmt:
		return t.assign(f, x)
	case *ast.ReturnStmt:
		return t.ret(f, x)
	}
	t.fail(s.Pos(), "unrecognised statement form %T", s)
	return nil
}

func (t *tr) inline(d *ast.FuncDecl, at token.Pos) []*node {
	name := d.Name.Name
	if t.inlining[name] {
		t.fail(at, "recursive helper %s", name)
	}
	if d.Type.Params.NumFields() != 0 || d.Type.Results.NumFields() != 0 {
		t.fail(at, "helper %s takes parameters or returns values", name)
	}
	t.inlining[name] = true
	defer delete(t.inlining, name)
	f := &fctx{recv: recvName(d), name: name, void: true, inlined: true}
	return t.block(f, d.Body.List)
}

func recvName(d *ast.FuncDecl) string {
	if d.Recv == nil || len(d.Recv.List) == 0 || len(d.Recv.List[0].Names) == 0 {
		return ""
	}
	return d.Recv.List[0].Names[0].Name
}

func (t *tr) assign(f *fctx, x *ast.AssignStmt) []*node {
	// _ = anything pure
	if len(x.Lhs) == 1 && isIdent(x.Lhs[0], "_") && x.Tok == token.ASSIGN {
		if _, ok := unparen(x.Rhs[0]).(*ast.Ident); ok {
			return nil
		}
	}
	if len(x.Lhs) == 2 && len(x.Rhs) == 1 {
		// realCS, err := cs.streamer(ctx, cs.desc, cs.cc, cs.method, cs.opts...)
		c, ok := x.Rhs[0].(*ast.CallExpr)
		if ok && isSel(c.Fun, f.recv, "streamer") {
			if len(c.Args) != 5 || !isSel(c.Args[1], f.recv, "desc") || !isSel(c.Args[2], f.recv, "cc") ||
				!isSel(c.Args[3], f.recv, "method") || !isSel(c.Args[4], f.recv, "opts") || !c.Ellipsis.IsValid() {
				t.fail(x.Pos(), "the streamer is not called with (ctx, cs.desc, cs.cc, cs.method, cs.opts...)")
			}
			a, b := x.Lhs[0].(*ast.Ident), x.Lhs[1].(*ast.Ident)
			if a == nil || b == nil || a.Name == "_" || b.Name == "_" {
				t.fail(x.Pos(), "results of the streamer call must be kept in two variables")
			}
			local := ""
			switch {
			case isIdent(c.Args[0], f.ctxVar):
				local = "true"
			case isSel(c.Args[0], f.recv, "ctx"):
				local = "false"
			default:
				t.fail(c.Args[0].Pos(), "unrecognised context argument of the streamer call")
			}
			f.csVar, f.errVar = a.Name, b.Name
			t.yield(x.Pos(), "streamer")
			return leaf("ICallStreamer", local)
		}
	}
	if len(x.Lhs) != 1 || len(x.Rhs) != 1 {
		t.fail(x.Pos(), "unrecognised assignment")
	}
	l, r := x.Lhs[0], unparen(x.Rhs[0])
	// ctx := context.WithValue(cs.ctx, gcpKey, &gcpContext{reqMsg: m})
	if c, ok := r.(*ast.CallExpr); ok && isSel(c.Fun, "context", "WithValue") {
		id, ok := l.(*ast.Ident)
		if !ok || len(c.Args) != 3 || !isSel(c.Args[0], f.recv, "ctx") || !isIdent(c.Args[1], "gcpKey") {
			t.fail(x.Pos(), "unrecognised context.WithValue form (want: <var> := context.WithValue(cs.ctx, gcpKey, &gcpContext{...}))")
		}
		u, ok := c.Args[2].(*ast.UnaryExpr)
		if !ok || u.Op != token.AND {
			t.fail(c.Args[2].Pos(), "context value is not &gcpContext{...}")
		}
		lit, ok := u.X.(*ast.CompositeLit)
		if !ok || !isIdent(lit.Type, "gcpContext") {
			t.fail(c.Args[2].Pos(), "context value is not &gcpContext{...}")
		}
		withmsg := "false"
		for _, el := range lit.Elts {
			kv, ok := el.(*ast.KeyValueExpr)
			if !ok {
				t.fail(el.Pos(), "gcpContext literal without field names")
			}
			if isIdent(kv.Key, "reqMsg") && len(f.params) > 0 && isIdent(kv.Value, f.params[0]) {
				withmsg = "true"
			} else if isIdent(kv.Key, "reqMsg") {
				t.fail(kv.Pos(), "reqMsg is not the message passed to %s", f.name)
			}
		}
		f.ctxVar = id.Name
		return leaf("IMkCtx", withmsg)
	}
	switch {
	case isSel(l, f.recv, "initStreamErr") && isIdent(r, f.errVar) && x.Tok == token.ASSIGN:
		return leaf("ISetErr")
	case isSel(l, f.recv, "initStreamErr") && isNil(r) && x.Tok == token.ASSIGN:
		return leaf("IClearErr")
	case isSel(l, f.recv, "ClientStream") && isIdent(r, f.csVar) && x.Tok == token.ASSIGN:
		return leaf("ISetStream")
	case isSel(l, f.recv, "watching") && isIdent(r, "true") && x.Tok == token.ASSIGN:
		return leaf("ISetWatching")
	case isSel(r, f.recv, "initStreamErr"):
		if id, ok := l.(*ast.Ident); ok && id.Name != "_" {
			if x.Tok == token.ASSIGN && id.Name != f.errVar {
				t.fail(x.Pos(), "assignment to an unknown variable")
			}
			f.errVar = id.Name
			return leaf("ILoadErr")
		}
	}
	t.fail(x.Pos(), "unrecognised assignment")
	return nil
}

func (t *tr) ret(f *fctx, x *ast.ReturnStmt) []*node {
	if f.inlined {
		t.fail(x.Pos(), "return inside the inlined helper %s", f.name)
	}
	if len(x.Results) == 0 {
		if !f.void {
			t.fail(x.Pos(), "bare return")
		}
		if f.deferUnlock {
			t.yield(x.Pos(), "unlock")
			return append(leaf("IUnlock"), leaf("IReturn", "RNil")...)
		}
		return leaf("IReturn", "RNil")
	}
	res := x.Results
	if len(res) == 2 {
		// (metadata.MD, error): the first must be nil
		if !isNil(res[0]) {
			t.fail(x.Pos(), "unrecognised two-valued return")
		}
		res = res[1:]
	}
	if len(res) != 1 {
		t.fail(x.Pos(), "unrecognised return")
	}
	e := unparen(res[0])
	// with a deferred Unlock the value is evaluated first, then the mutex is released
	pre := []*node{}
	if f.deferUnlock {
		t.yield(x.Pos(), "unlock")
		pre = leaf("IUnlock")
	}
	switch {
	case isNil(e):
		return append(pre, leaf("IReturn", "RNil")...)
	case isIdent(e, f.errVar):
		return append(pre, leaf("IReturn", "RLocalErr")...)
	case isSel(e, f.recv, "initStreamErr"):
		if f.deferUnlock {
			// read under the lock
			return append(append(leaf("ILoadErr"), pre...), leaf("IReturn", "RLocalErr")...)
		}
		return leaf("IReturn", "RInitErr")
	case isSel(e, f.recv, "ctx"):
		return append(pre, leaf("IReturn", "RCallCtx")...)
	case t.isCtxErrValue(f, e):
		return append(pre, leaf("IReturn", "RCtxErr")...)
	}
	if f.deferUnlock {
		t.fail(x.Pos(), "delegation under `defer cs.Unlock()`: the underlying stream would be called with the wrapper's mutex held")
	}
	if c, ok := e.(*ast.CallExpr); ok {
		if sel, ok := c.Fun.(*ast.SelectorExpr); ok && isSel(sel.X, f.recv, "ClientStream") {
			m, ok := methCoq[sel.Sel.Name]
			if !ok {
				t.fail(x.Pos(), "delegation to an unknown method %s", sel.Sel.Name)
			}
			if len(x.Results) != 1 {
				t.fail(x.Pos(), "unrecognised delegation")
			}
			same := len(c.Args) == len(f.params) && !c.Ellipsis.IsValid()
			if same {
				for i, a := range c.Args {
					if !isIdent(a, f.params[i]) {
						same = false
					}
				}
			}
			t.yield(x.Pos(), "deleg")
			return leaf("IDelegate", m, fmt.Sprint(same))
		}
	}
	t.fail(x.Pos(), "unrecognised return value")
	return nil
}

// ---- printing ----
func coqList(ns []*node) string {
	var parts []string
	for _, n := range ns {
		parts = append(parts, coqNode(n))
	}
	return "[" + strings.Join(parts, "; ") + "]"
}

func coqNode(n *node) string {
	if n.op == "IIfElse" {
		return n.op + " " + n.cnd + " " + coqList(n.body) + " " + coqList(n.els)
	}
	if n.has {
		return n.op + " " + n.cnd + " " + coqList(n.body)
	}
	if len(n.args) == 0 {
		return n.op
	}
	return n.op + " " + strings.Join(n.args, " ")
}

func irList(ns []*node) string {
	var parts []string
	parts = append(parts, "[")
	for _, n := range ns {
		if n.has {
			c := strings.NewReplacer("(", " ( ", ")", " ) ").Replace(n.cnd)
			parts = append(parts, n.op, "{", c, "}", irList(n.body))
			if n.op == "IIfElse" {
				parts = append(parts, irList(n.els))
			}
		} else {
			parts = append(parts, n.op)
			parts = append(parts, n.args...)
		}
	}
	parts = append(parts, "]")
	return strings.Join(parts, " ")
}

func main() {
	src := flag.String("src", "", "gcp_interceptor.go")
	coq := flag.String("coq", "", "output StreamIR.v")
	ir := flag.String("ir", "", "output stream.ir (text form for the driver)")
	instr := flag.String("instrument", "", "output: instrumented copy of the source")
	manifest := flag.String("manifest", "", "output: promoted methods and yield count")
	modname := flag.String("name", "StreamIR", "name used in the header comment")
	flag.Parse()
	if *src == "" {
		fmt.Fprintln(os.Stderr, "usage: streamir -src gcp_interceptor.go [-coq f] [-ir f] [-instrument f] [-manifest f]")
		os.Exit(2)
	}
	t := &tr{fset: token.NewFileSet(), decls: map[string]*ast.FuncDecl{}, inlining: map[string]bool{}}
	defer func() {
		if r := recover(); r != nil {
			if f, ok := r.(failure); ok {
				p := t.fset.Position(f.pos)
				fmt.Fprintf(os.Stderr, "streamir: %s:%d:%d: %s\n", p.Filename, p.Line, p.Column, f.msg)
				os.Exit(1)
			}
			panic(r)
		}
	}()
	data, err := os.ReadFile(*src)
	if err != nil {
		fmt.Fprintln(os.Stderr, "streamir:", err)
		os.Exit(1)
	}
	file, err := parser.ParseFile(t.fset, *src, data, 0)
	if err != nil {
		fmt.Fprintln(os.Stderr, "streamir:", err)
		os.Exit(1)
	}
	t.file = file

	// the struct: embeds sync.Mutex and grpc.ClientStream
	var st *ast.StructType
	var stPos token.Pos
	for _, d := range file.Decls {
		g, ok := d.(*ast.GenDecl)
		if !ok {
			continue
		}
		for _, sp := range g.Specs {
			if ts, ok := sp.(*ast.TypeSpec); ok && ts.Name.Name == structName {
				st, _ = ts.Type.(*ast.StructType)
				stPos = ts.Pos()
			}
		}
	}
	if st == nil {
		t.fail(file.Pos(), "type %s not found", structName)
	}
	embedsMutex, embedsCS := false, false
	fields := map[string]bool{}
	for _, fl := range st.Fields.List {
		if len(fl.Names) == 0 {
			if isSel(fl.Type, "sync", "Mutex") {
				embedsMutex = true
			}
			if isSel(fl.Type, "grpc", "ClientStream") {
				embedsCS = true
			}
		}
		for _, n := range fl.Names {
			fields[n.Name] = true
		}
	}
	if !embedsMutex || !embedsCS {
		t.fail(stPos, "%s no longer embeds sync.Mutex and grpc.ClientStream", structName)
	}
	for _, need := range []string{"cond", "initStreamErr", "ctx", "streamer"} {
		if !fields[need] {
			t.fail(stPos, "%s has no field %s", structName, need)
		}
	}
	// methods; the constructor must tie the condition variable to the wrapper's own mutex
	condOK := false
	for _, d := range file.Decls {
		fd, ok := d.(*ast.FuncDecl)
		if !ok || fd.Body == nil {
			continue
		}
		if fd.Recv != nil && len(fd.Recv.List) == 1 {
			if s, ok := fd.Recv.List[0].Type.(*ast.StarExpr); ok && isIdent(s.X, structName) {
				t.decls[fd.Name.Name] = fd
			} else if isIdent(fd.Recv.List[0].Type, structName) {
				t.fail(fd.Pos(), "value receiver on %s (copies the mutex)", structName)
			}
		}
		if fd.Recv == nil && fd.Name.Name == "GCPStreamClientInterceptor" {
			ast.Inspect(fd.Body, func(n ast.Node) bool {
				a, ok := n.(*ast.AssignStmt)
				if !ok || len(a.Lhs) != 1 || len(a.Rhs) != 1 {
					return true
				}
				ls, ok := a.Lhs[0].(*ast.SelectorExpr)
				if !ok || ls.Sel.Name != "cond" {
					return true
				}
				c, ok := a.Rhs[0].(*ast.CallExpr)
				if ok && isSel(c.Fun, "sync", "NewCond") && len(c.Args) == 1 {
					if id, ok := ls.X.(*ast.Ident); ok && isIdent(c.Args[0], id.Name) {
						condOK = true
					}
				}
				return true
			})
		}
	}
	if !condOK {
		t.fail(file.Pos(), "GCPStreamClientInterceptor no longer sets cs.cond = sync.NewCond(cs)")
	}

	progs := map[string][]*node{}
	var promoted []string
	for _, m := range methods {
		d, ok := t.decls[m]
		if !ok {
			// promoted from the embedded grpc.ClientStream: a direct call on the (possibly nil) interface
			progs[m] = leaf("IDelegate", methCoq[m], "true")
			promoted = append(promoted, m)
			continue
		}
		f := &fctx{recv: recvName(d), name: m}
		for _, p := range d.Type.Params.List {
			for _, n := range p.Names {
				f.params = append(f.params, n.Name)
			}
		}
		if f.recv == "" {
			t.fail(d.Pos(), "method %s has no receiver name", m)
		}
		progs[m] = t.block(f, d.Body.List)
	}
	var watch []*node
	if t.watch != "" {
		d := t.decls[t.watch]
		if d.Type.Params.NumFields() != 0 || d.Type.Results.NumFields() != 0 {
			t.fail(d.Pos(), "goroutine body %s takes parameters or returns values", t.watch)
		}
		f := &fctx{recv: recvName(d), name: t.watch, void: true}
		watch = t.block(f, d.Body.List)
		// the harness learns that the goroutine returned
		t.inserts = append(t.inserts, insertion{t.fset.Position(d.Body.Lbrace).Offset + 1, " defer vsFin();"})
	}

	names := []struct{ coq, key string }{{"prog_SendMsg", "SendMsg"}, {"prog_RecvMsg", "RecvMsg"}, {"prog_CloseSend", "CloseSend"},
		{"prog_Header", "Header"}, {"prog_Trailer", "Trailer"}, {"prog_Context", "Context"}}
	if *coq != "" {
		var b strings.Builder
		fmt.Fprintf(&b, "(* %s: GENERATED by tools/streamir from %s - do not edit.\n", *modname, "grpcgcp/gcp_interceptor.go")
		fmt.Fprintf(&b, "   Instruction lists of the gcpClientStream methods (semantics: Stream/Sem.v).\n")
		if len(promoted) > 0 {
			fmt.Fprintf(&b, "   Promoted from the embedded grpc.ClientStream (no method of their own): %s.\n", strings.Join(promoted, ", "))
		}
		fmt.Fprintf(&b, "*)\nFrom Coq Require Import List.\nFrom GV Require Import Stream.Sem.\nImport ListNotations.\n\n")
		for _, n := range names {
			fmt.Fprintf(&b, "Definition %s : list instr :=\n  %s.\n\n", n.coq, coqList(progs[n.key]))
		}
		fmt.Fprintf(&b, "(* body of the goroutine started by `go cs.%s()` *)\n", t.watch)
		fmt.Fprintf(&b, "Definition prog_watch : list instr :=\n  %s.\n\n", coqList(watch))
		fmt.Fprintf(&b, "Definition the_prog : prog :=\n  {| p_send := prog_SendMsg; p_recv := prog_RecvMsg; p_close := prog_CloseSend;\n     p_header := prog_Header; p_trailer := prog_Trailer; p_context := prog_Context;\n     p_watch := prog_watch |}.\n")
		if err := os.WriteFile(*coq, []byte(b.String()), 0644); err != nil {
			fmt.Fprintln(os.Stderr, "streamir:", err)
			os.Exit(1)
		}
	}
	if *ir != "" {
		var b strings.Builder
		for _, n := range names {
			fmt.Fprintf(&b, "%s %s\n", n.key, irList(progs[n.key]))
		}
		fmt.Fprintf(&b, "watch %s\n", irList(watch))
		if err := os.WriteFile(*ir, []byte(b.String()), 0644); err != nil {
			fmt.Fprintln(os.Stderr, "streamir:", err)
			os.Exit(1)
		}
	}
	if *instr != "" {
		ins := t.inserts
		// a helper inlined at several call sites is visited several times: one insertion per offset
		sort.Slice(ins, func(i, j int) bool { return ins[i].off < ins[j].off })
		var out []byte
		last, prev := 0, -1
		for _, i := range ins {
			if i.off == prev {
				continue
			}
			out = append(out, data[last:i.off]...)
			out = append(out, i.text...)
			last, prev = i.off, i.off
		}
		out = append(out, data[last:]...)
		if err := os.WriteFile(*instr, out, 0644); err != nil {
			fmt.Fprintln(os.Stderr, "streamir:", err)
			os.Exit(1)
		}
	}
	if *manifest != "" {
		seen := map[int]bool{}
		for _, i := range t.inserts {
			if strings.HasPrefix(i.text, "vsYield") {
				seen[i.off] = true
			}
		}
		s := fmt.Sprintf("promoted %s\nyields %d\nwatcher %s\n", strings.Join(promoted, ","), len(seen), t.watch)
		if err := os.WriteFile(*manifest, []byte(s), 0644); err != nil {
			fmt.Fprintln(os.Stderr, "streamir:", err)
			os.Exit(1)
		}
	}
}
