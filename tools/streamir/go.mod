module streamir

go 1.21
