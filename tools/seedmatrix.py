#!/usr/bin/env python3
"""Regenerates the seeded-change matrix in DESIGN.md (between the MATRIX markers) from seeded/*/meta.json."""
import json, glob, os, re
V = os.path.dirname(os.path.dirname(os.path.abspath(__file__)))
rows = ['| seeded | what | caught by |', '|---|---|---|']
n = missed = 0
for d in sorted(glob.glob(os.path.join(V, 'seeded', 'C*'))):
    m = json.load(open(d + '/meta.json')); r = m['result']; n += 1
    caught = []
    for p, v in r['checks'].items():
        if v['exit'] == 1:
            conc = any(l.startswith('VIOLATION') and 'no-failing-input-found' not in l for l in v['lines'])
            caught.append(p + (' (replay)' if conc else ' (nfif)'))
    if not caught:
        missed += 1
    rows.append('| %s | %s | %s |' % (os.path.basename(d), (m.get('summary') or '')[:100].replace('|', '/').replace('\n', ' '),
                                      ', '.join(caught) or 'MISSED (see text)'))
s = open(os.path.join(V, 'DESIGN.md')).read()
a = s.index('<!-- MATRIX-BEGIN -->'); b = s.index('<!-- MATRIX-END -->')
s = s[:a] + '<!-- MATRIX-BEGIN -->\n' + '\n'.join(rows) + '\n' + s[b:]
open(os.path.join(V, 'DESIGN.md'), 'w').write(s)
print(n, 'seeded changes,', missed, 'not caught by the checks that were run')
