"""Engine E "stream" (property C12): the interceptors of grpcgcp/gcp_interceptor.go.

Per run (see DESIGN.md 3.E / C12 and tools/PLUGIN.md):
 1. tools/streamir regenerates the instruction lists of the gcpClientStream
    methods from REPO's gcp_interceptor.go (StreamIR.v + stream.ir + a
    yield-instrumented copy of the source for the overlay); StreamIR.v and an
    instance-proof file (closed-set check by vm_compute + the theorems of
    Stream/Check.v and Stream/ConcProofs.v instantiated) are compiled in a
    scratch directory.  A failure = broken proof obligation; the extracted
    explorer then names the failing model path and searches a schedule at
    yield-point granularity that the monitor rejects.
 2. schedule-directed differential: the extracted model enumerates
    interleavings (corpus + built-in call scripts), the Go harness forces each
    on the real wrapper, the driver compares and runs C12_ok / C12_final_ok on
    the IMPLEMENTATION's events; plus random unary cases.
 3. evidence.
"""
import os, sys, re, json, time, glob, shutil, tempfile, subprocess
import check as C
import engines

VERIF = C.VERIF
STREAM_V = ["Sem", "Eq", "ClosedSet", "Monitors", "Check", "Conc", "ConcProofs", "Unary", "RefIR", "RefProofs", "Props_C12"]
BIN = os.path.join(C.BUILD, "bin", "streamir")
SRC_REL = os.path.join("grpcgcp", "gcp_interceptor.go")

INSTANCE_V = """(* GENERATED per run by tools/eng_stream.py: the closed-set check of the program
   regenerated from the current source, and the theorems instantiated with it. *)
From Coq Require Import List Bool.
From GV Require Import Stream.Sem Stream.Eq Stream.ClosedSet Stream.Monitors Stream.Check Stream.Conc Stream.ConcProofs.
From Scratch Require Import StreamIR.
Import ListNotations.

Lemma cur_checked : check_prog the_prog = true.
Proof. vm_cast_no_check (eq_refl true). Qed.

Theorem cur_C12_holds : forall c, crun the_prog c -> C12_ok (c_log c) = true.
Proof. exact (C12_holds the_prog cur_checked). Qed.
Theorem cur_C12_final_holds : forall c, crun the_prog c -> has_internal the_prog (c_s c) = false ->
  C12_final_ok (c_log c) (stuck_all c) = true.
Proof. exact (C12_final_holds the_prog cur_checked). Qed.
Theorem cur_single_creation : forall s, reachable the_prog s ->
  forall t wm ok s', In (LCreate t wm ok, s') (next the_prog s) -> created s = false.
Proof. exact (single_creation the_prog cur_checked). Qed.
Theorem cur_first_message_visible : forall s, reachable the_prog s ->
  forall t wm ok s', In (LCreate t wm ok, s') (next the_prog s) ->
    wm = true /\\ exists p, a_open (amon s) t = Some (MSend, p).
Proof. exact (first_message_visible the_prog cur_checked). Qed.
Theorem cur_recv_waits_then_delegates : forall s, reachable the_prog s -> forall t,
  (forall m same s', In (LDeleg t m same, s') (next the_prog s) ->
     created s = true /\\ same = true /\\ exists p, a_open (amon s) t = Some (m, p)) /\\
  (forall r v s', In (LRet t r v, s') (next the_prog s) -> is_user t = true ->
     exists m, a_open (amon s) t = Some (m, false) /\\ ret_allowed (amon s) m v = true).
Proof. exact (recv_waits_then_delegates the_prog cur_checked). Qed.
Theorem cur_delegation_in_order : forall s, reachable the_prog s -> forall t m,
  cm (get_thr s t) = Some m -> post (get_thr s t) = true -> is_user t = true ->
  (forall r v s', ~ In (LRet t r v, s') (next the_prog s)) /\\
  (forall m' same s', In (LDeleg t m' same, s') (next the_prog s) -> m' = m /\\ same = true).
Proof. exact (delegation_in_order the_prog cur_checked). Qed.
Theorem cur_no_method_panics : forall s, reachable the_prog s ->
  forall t w s', ~ In (LPanic t w, s') (next the_prog s).
Proof. exact (no_method_panics the_prog cur_checked). Qed.
Theorem cur_mutex_discipline : forall s, reachable the_prog s ->
  (forall t s', ~ In (LForeignUnlock t, s') (next the_prog s)) /\\
  (forall t s', ~ In (LPanic t WUnlockUnlocked, s') (next the_prog s)) /\\
  (forall t r v s', In (LRet t r v, s') (next the_prog s) -> holds s t = false) /\\
  (forall t m same s', In (LDeleg t m same, s') (next the_prog s) -> holds s t = false).
Proof. exact (mutex_discipline the_prog cur_checked). Qed.
Theorem cur_no_lost_wakeup : forall s, reachable the_prog s -> has_internal the_prog s = false ->
  forall t k, st (get_thr s t) = TWait k ->
    stream s = false /\\ err s = false /\\ cdone s = false /\\ stuck_ok (amon s) (StuckWait t) = true.
Proof. exact (no_lost_wakeup the_prog cur_checked). Qed.
Theorem cur_no_deadlock : forall s, reachable the_prog s -> has_internal the_prog s = false ->
  forall t, match st (get_thr s t) with
            | TIdle | TFin | TWait _ => True
            | TRun (IAwaitDone :: _) => cdone s = false
            | _ => False
            end.
Proof. exact (no_deadlock the_prog cur_checked). Qed.
Theorem cur_calls_terminate : exists bound : core -> nat,
  forall s, reachable the_prog s -> forall n, ipath core label (next the_prog) internal s n -> n <= bound s.
Proof. exact (internal_steps_bounded the_prog cur_checked). Qed.

Print Assumptions cur_C12_holds.
Print Assumptions cur_C12_final_holds.
Print Assumptions cur_no_lost_wakeup.
Print Assumptions cur_calls_terminate.
"""
INSTANCE_THEOREMS = 12   # Lemma/Theorem statements in INSTANCE_V


def go_env():
    e = dict(C.GOENV)
    e["GOCACHE"] = os.environ.get("GOCACHE", os.path.join(C.BUILD, "gocache"))
    return e


def build_translator():
    os.makedirs(os.path.dirname(BIN), exist_ok=True)
    d = os.path.join(VERIF, "tools", "streamir")
    srcs = glob.glob(os.path.join(d, "*.go"))
    if os.path.exists(BIN) and all(os.path.getmtime(s) <= os.path.getmtime(BIN) for s in srcs):
        return 0, ""
    with C.Lock("streamir.lock"):
        rc, out = C.sh(["go", "build", "-o", BIN, "."], cwd=d, env=go_env())
    return rc, out


def ensure_stream_vo():
    """The Stream/*.v files are compiled by `make` once they are in _CoqProject; until
    then (and after an edit) compile them here, in dependency order."""
    log = ""
    with C.Lock("coq.lock"):
        newest_dep = 0.0
        for f in STREAM_V:
            v = os.path.join(C.COQ, "Stream", f + ".v")
            vo = v + "o"
            stale = (not os.path.exists(vo)) or os.path.getmtime(vo) < os.path.getmtime(v) or os.path.getmtime(vo) < newest_dep
            if stale:
                rc, out = C.sh(["timeout", "900", "coqc", "-Q", ".", "GV", os.path.join("Stream", f + ".v")], cwd=C.COQ)
                log += out
                if rc != 0:
                    return False, log
            newest_dep = max(newest_dep, os.path.getmtime(vo))
    return True, log


def SETUP():
    rc, out = build_translator()
    if rc != 0:
        print(out[-3000:]); print("streamir build failed")
        return 1
    ok, log = ensure_stream_vo()
    if not ok:
        print(log[-3000:]); print("Stream/*.v build failed")
        return 1
    return 0


class StreamEngine(engines.HistEngine):
    name = "stream"
    pkg_rel = "grpcgcp"
    harness_dir = "stream"
    test_name = "TestVerifStream"
    driver_dir = "stream"
    driver_bin = "stream_driver"
    extract_v = "ExtractSTREAM.v"
    coq_dir = "Stream"
    corpus = "stream"
    REL = {"stuck", "panic", "events", "ret", "site", "final", "harness", "unary"}
    props = {
        "C12": dict(
            monitor="c12", rel=REL,
            quick=dict(VERIF_N="1500", SCHEDULES="320"),
            thorough=dict(VERIF_N="100000", SCHEDULES="1200000"),
            nontrivial=lambda lines: True,
            rule="stream: interleavings at yield-point granularity (start of a call, Lock, Unlock, cond.Wait, re-lock after a "
                 "wake-up, cond.Broadcast, the streamer call, each delegation, <-ctx.Done() of the watcher goroutine) of the "
                 "model regenerated from the source, for the corpus configurations and the built-in call scripts (sender "
                 "[Send;Send] [Send;CloseSend] [CloseSend;Send] [Header] [Trailer] [Context;Send] [Send;Header] "
                 "[Send;Trailer;Context] [] ..., receiver [Recv;Recv] [Recv] [Header;Recv] [Trailer] [Context] [] ..., creation "
                 "ok / fail / fail-then-ok / fail-fail, context cancellable or not with the cancellation at every point); a "
                 "configuration is enumerated completely when it has at most max/#configs schedules, else sampled (seeded); "
                 "each schedule is forced on the real gcpClientStream, one goroutine released at a time. thorough: every pair "
                 "of scripts of <= 3 calls over {Send,CloseSend,Header,Context} x {Recv,Header,Trailer} x 3 oracles x 2 "
                 "contexts, same cap. unary: seeded random calls (0-4 context bindings over five key types incl. a shadowed "
                 "key, 0-3 options, 9 methods, 4 connections, nil/3 errors) with a capturing invoker. distinct = by hash of "
                 "the operation list; non-trivial (stream) = the two goroutines' steps alternate at least once or the "
                 "context is cancelled or a creation fails; (unary) = at least one context binding or option"),
    }

    # ---- regeneration
    def regenerate(self, scratch):
        """streamir on REPO's source -> dict(ok, msg, ir, coq, inst, promoted, yields)"""
        src = os.path.join(C.REPO, SRC_REL)
        r = dict(ok=False, msg="", src=src, ir=os.path.join(scratch, "stream.ir"), coq=os.path.join(scratch, "StreamIR.v"),
                 inst=os.path.join(scratch, "instr_gcp_interceptor.go"), promoted="", yields=0)
        rc, out = build_translator()
        if rc != 0:
            r["msg"] = "streamir does not build: " + out[-1500:]
            return r
        man = os.path.join(scratch, "streamir.manifest")
        rc, out = C.sh([BIN, "-src", src, "-coq", r["coq"], "-ir", r["ir"], "-instrument", r["inst"], "-manifest", man])
        if rc != 0:
            r["msg"] = out.strip()[-1500:]
            return r
        for l in open(man):
            t = l.split()
            if t and t[0] == "promoted" and len(t) > 1:
                r["promoted"] = t[1]
            if t and t[0] == "yields" and len(t) > 1:
                r["yields"] = int(t[1])
        r["ok"] = True
        return r

    def instance_proof(self, scratch, gen):
        """compile StreamIR.v + Instance.v in the scratch directory"""
        open(os.path.join(scratch, "Instance.v"), "w").write(INSTANCE_V)
        t0 = time.time()
        with C.Lock("coq.lock"):
            rc, out = C.sh(["timeout", "900", "coqc", "-Q", C.COQ, "GV", "-Q", scratch, "Scratch", "StreamIR.v"], cwd=scratch)
            if rc == 0:
                rc, out2 = C.sh(["timeout", "900", "coqc", "-Q", C.COQ, "GV", "-Q", scratch, "Scratch", "Instance.v"], cwd=scratch)
                out += out2
        return rc == 0, out, time.time() - t0

    def same_as_reference(self, gen):
        strip = lambda s: re.sub(r"\(\*.*?\*\)", "", s, flags=re.S).split()
        try:
            return strip(open(gen["coq"]).read()) == strip(open(os.path.join(C.COQ, "Stream", "RefIR.v")).read())
        except OSError:
            return False

    # ---- harness
    def run_sched(self, scratch, gen, hist, n_unary, seed, tag, nogate=False, timeout=3000):
        trace = os.path.join(scratch, tag + ".trace")
        env = {"VERIF_OUT": trace, "VERIF_HIST": hist, "VERIF_N": str(n_unary), "VERIF_SEED": str(seed),
               "VERIF_STREAM_PROMOTED": gen.get("promoted", "")}
        ov = None
        if nogate:
            env["VERIF_NOGATE"] = "1"
        else:
            ov = {gen["src"]: gen["inst"]}
        rc, out = C.run_harness(scratch, self.pkg_rel, self.harness_dir, self.test_name, env, extra_overlay=ov, timeout=timeout)
        return rc, out, trace

    def judge(self, trace, ir):
        cmd = [self.driver_path(), trace] + (["--ir", ir] if ir else [])
        p = subprocess.run(cmd, stdout=subprocess.PIPE, stderr=subprocess.PIPE, text=True)
        res = []
        for line in p.stdout.split("\n"):
            t = line.split()
            if not t or t[0] != "hist":
                continue
            r = {"hist": int(t[1]), "line": int(t[3]), "nev": int(t[5]), "flag": {}, "what": "-"}
            i = 6
            if t[i + 1] == "ok":
                r["acc"] = None; i += 2
            else:
                r["acc"] = (int(t[i + 2]), t[i + 3]); i += 4
            while i < len(t):
                if t[i] == "m:c12":
                    r["ok"] = t[i + 1] == "1"; r["fail_at"] = int(t[i + 2]); i += 3
                elif t[i].startswith("f:"):
                    r["flag"][t[i][2:]] = int(t[i + 1]); i += 2
                elif t[i].startswith("w:"):
                    r["what"] = t[i][2:]; i += 1
                else:
                    i += 1
            res.append(r)
        return p.returncode, res, p.stderr

    def scan_trace(self, trace, wanted):
        """one pass over the trace: per-history hash / non-triviality / operation histogram, the lines of the
        histories in `wanted` and of the first three distinct ones"""
        info = dict(n=0, distinct=set(), nontrivial=0, opcount={}, keep={}, samples=[])
        cur, idx = None, -1

        def flush():
            if cur is None:
                return
            ops = self.ops_of(cur)
            hsh = engines.ops_hash(ops)
            if hsh not in info["distinct"]:
                info["distinct"].add(hsh)
                if self.nontrivial(cur):
                    info["nontrivial"] += 1
                if len(info["samples"]) < 3:
                    info["samples"].append(cur[:14])
            for o in ops[1:]:
                t_ = o.split()
                if len(t_) >= 2:
                    info["opcount"][t_[1]] = info["opcount"].get(t_[1], 0) + 1
            if idx in wanted:
                info["keep"][idx] = {"lines": cur}
        with open(trace) as f:
            for line in f:
                if line.startswith("H "):
                    flush()
                    idx += 1
                    cur = []
                if cur is not None and line.strip():
                    cur.append(line.rstrip("\n"))
        flush()
        info["n"] = idx + 1
        return info

    @staticmethod
    def nontrivial(lines):
        head = lines[0].split(";")[0].split()
        if len(head) > 1 and head[1] == "U":
            f = dict(kv.split("=", 1) for kv in head[2:] if "=" in kv)
            return f.get("x", "-") != "-" or f.get("o", "-") != "-"
        ops = [l.split(";")[0].split() for l in lines[1:]]
        tids = [o[0] for o in ops if o and o[0] in ("0", "1")]
        alternates = any(a != b for a, b in zip(tids, tids[1:]))
        return alternates or any(o and o[0] == "X" for o in ops) or ("f" in (head[6] if len(head) > 6 else ""))

    # ---- the check
    def run_property(self, pid, tier, seed):
        t0 = time.time()
        P = self.props[pid]
        known = C.load_known()
        notes, violations = [], []
        timing = {}
        scratch = tempfile.mkdtemp(prefix="verif-%s-" % pid)
        try:
            # 0. the committed development
            t = time.time()
            ok_build, build_log = C.coq_build()
            # only this property's own dependency cone decides (make -k: a broken file elsewhere must not alarm C12)
            ok_vo, vo_log = ensure_stream_vo()
            proof_ok, plog, axioms, n_stmt, n_qed = (False, vo_log, [], 0, 0)
            if ok_vo:
                proof_ok, plog, axioms, n_stmt, n_qed = C.props_assumptions(pid)
            bad = C.audit()
            if bad:
                proof_ok = False
                plog = "audit: " + "; ".join(bad[:5])
            okd, dlog = self.build_driver()
            timing["coq_and_driver_s"] = round(time.time() - t, 1)
            if not okd:
                path = C.write_replay(pid, seed, 0, {"property": pid, "engine": self.name, "kind": "no-failing-input-found",
                                                      "what": "the driver does not build", "log": dlog[-4000:]})
                print("VIOLATION property=%s replay=%s no-failing-input-found" % (pid, path))
                C.write_evidence(pid, tier, seed, {"evaluations": 0, "distinct_nontrivial": 0, "rule": P["rule"], "samples": [],
                                                   "obligations": n_stmt, "discharged": 0, "checker_cmd": "coqc", "trusted_base": []},
                                 time.time() - t0, 1, ASSUMPTIONS[pid])
                return 1
            # 1. regenerate the program from the source and re-prove
            t = time.time()
            gen = self.regenerate(scratch)
            inst_ok, inst_log, inst_s = (False, gen["msg"], 0.0)
            model_report, model_path, witness = "", "", None
            states = transitions = 0
            if gen["ok"]:
                inst_ok, inst_log, inst_s = self.instance_proof(scratch, gen)
                wfile = os.path.join(scratch, "witness.hist")
                rc, out = C.sh([self.driver_path(), "check", gen["ir"], wfile])
                model_report = out
                m = re.search(r"check ok states=(\d+) transitions=(\d+)", out)
                if m:
                    states, transitions = int(m.group(1)), int(m.group(2))
                m = re.search(r"^path: (.*)$", out, re.M)
                if m:
                    model_path = m.group(1)
                if os.path.exists(wfile) and os.path.getsize(wfile) > 0:
                    witness = wfile
                if inst_ok != ("check ok" in out):
                    notes.append("the Coq closed-set check and the extracted explorer disagree: coq=%s explorer=%s"
                                 % (inst_ok, "check ok" in out))
            timing["regenerate_and_instance_proof_s"] = round(time.time() - t, 1)
            same_ref = gen["ok"] and self.same_as_reference(gen)
            # 2. schedules
            t = time.time()
            corpus_files = sorted(glob.glob(os.path.join(VERIF, "corpus", self.corpus, "*.hist")))
            unary_corpus = [f for f in corpus_files if os.path.basename(f).startswith("unary")]
            nogate = (not gen["ok"]) or bool(os.environ.get("VERIF_NOGATE"))
            sched = os.path.join(scratch, "sched.hist")
            enum_ir = gen["ir"] if gen["ok"] else os.path.join(C.COQ, "Stream", "RefIR.ir")
            maxn = P[tier]["SCHEDULES"] if tier in P else P["quick"]["SCHEDULES"]
            rc, enum_out = C.sh([self.driver_path(), "enum", enum_ir, sched, tier, str(seed), maxn] + corpus_files)
            if rc != 0:
                notes.append("schedule enumeration failed: " + enum_out[-500:])
                open(sched, "w").close()
            hist_arg = ":".join(([witness] if witness else []) + [sched] + unary_corpus)
            n_unary = P[tier]["VERIF_N"] if tier in P else P["quick"]["VERIF_N"]
            rc, hout, trace = self.run_sched(scratch, gen, hist_arg, n_unary, seed, "t", nogate=nogate,
                                             timeout=240 if tier == "quick" else 3000)
            harness_ok = rc == 0 and os.path.exists(trace)
            results, hists, scan = [], {}, dict(n=0, distinct=set(), nontrivial=0, opcount={}, keep={}, samples=[])
            if harness_ok:
                drc, results, derr = self.judge(trace, None if nogate else gen["ir"])
                wanted = set(r["hist"] for r in results if not r.get("ok", True) or r["acc"] is not None)
                scan = self.scan_trace(trace, wanted)
                hists = scan["keep"]
                if drc != 0 or len(results) != scan["n"]:
                    harness_ok = False
                    hout = "driver failed: " + derr[-2000:]
            timing["schedules_s"] = round(time.time() - t, 1)
            if not harness_ok:
                path = C.write_replay(pid, seed, 0, {
                    "property": pid, "engine": self.name, "kind": "correspondence-broken",
                    "what": "the harness or driver could not be built/run against the current tree (a fatal error such as "
                            "'sync: unlock of unlocked mutex' kills the test binary and also ends up here)",
                    "model_path": model_path, "translator": gen["msg"], "log": (hout or "")[-6000:]})
                violations.append(("no-failing-input-found", path))
            # 3. verdicts
            fails = [r for r in results if not r.get("ok", True)]
            divs = [r for r in results if r["acc"] is not None and r["acc"][1] in self.REL]
            inapplicable = [r for r in results if r["acc"] is not None and r["acc"][1] == "schedule"]
            known_printed = {}
            by_what = {}
            for r in fails:
                k = engines.known_match(pid, r, known)
                if k is not None:
                    known_printed[k["id"]] = k
                    continue
                h = hists[r["hist"]]
                cur = by_what.get(r["what"])
                if cur is None or len(h["lines"]) < len(cur[1]["lines"]):
                    by_what[r["what"]] = (r, h)
            for what, (r, h) in sorted(by_what.items())[:8]:
                path = C.write_replay(pid, seed, len(violations), {
                    "property": pid, "engine": self.name, "kind": "monitor-failure", "monitor": "C12_final_ok",
                    "what": what, "history": self.ops_of(h["lines"]), "trace": h["lines"],
                    "failing_event_index": r["fail_at"],
                    "known_pattern": [k[2:] for k in r["flag"] if k.startswith("k_")],
                    "model_agrees": r["acc"] is None, "model_path_of_broken_obligation": model_path})
                violations.append(("", path))
            if not violations and (divs or not (inst_ok and proof_ok)):
                payload = {"property": pid, "engine": self.name, "kind": "no-failing-input-found"}
                if not gen["ok"]:
                    payload["broken_obligation"] = "StreamIR.v could not be regenerated: " + gen["msg"]
                    payload["what"] = ("the translator does not recognise the current shape of gcp_interceptor.go; the proof "
                                       "about the stream wrapper is not re-established; %d unscheduled stress runs found no "
                                       "monitor failure" % sum(1 for r in results if r["flag"].get("kind_stream")))
                elif not inst_ok:
                    payload["broken_obligation"] = "check_prog the_prog = true (closed-set check of the regenerated program)"
                    payload["model_path"] = model_path
                    payload["model_report"] = model_report[-3000:]
                    payload["log"] = inst_log[-3000:]
                    payload["what"] = ("the regenerated program no longer passes the verified closed-set check; the failing "
                                       "model path is not reproducible at yield-point granularity on the real code "
                                       "(it needs an interleaving inside a segment between two yield points)")
                elif not proof_ok:
                    payload["broken_obligation"] = "Props_C12.v (or its dependency cone) no longer checks"
                    payload["log"] = plog[-3000:]
                if divs:
                    r = divs[0]
                    h = hists[r["hist"]]
                    payload["correspondence_class"] = r["acc"][1]
                    payload["diverging_event_index"] = r["acc"][0]
                    payload["history"] = self.ops_of(h["lines"])
                    payload["trace"] = h["lines"]
                    payload.setdefault("what", "model and implementation differ in observable class '%s' at step %d; the "
                                       "theorem about the model no longer transfers to the code" % (r["acc"][1], r["acc"][0]))
                path = C.write_replay(pid, seed, 0, payload)
                violations.append(("no-failing-input-found", path))
            # 4. in-Coq cross-check of a sample
            t = time.time()
            coq_checked, coq_mismatch = 0, None
            if harness_ok and results:
                nmax = 120 if tier == "quick" else 1500
                coq_checked, coq_mismatch = self.crosscheck(scratch, trace, None if nogate else gen["ir"], nmax, len(results))
                if coq_mismatch:
                    notes.append("in-Coq evaluation disagrees with the extracted driver: " + coq_mismatch)
                    path = C.write_replay(pid, seed, 99, {"property": pid, "kind": "no-failing-input-found",
                                                           "what": "extracted driver and vm_compute disagree", "log": coq_mismatch})
                    violations.append(("no-failing-input-found", path))
            timing["coq_crosscheck_s"] = round(time.time() - t, 1)
            # 5. evidence
            distinct = scan["distinct"]
            nontriv = scan["nontrivial"]
            n_stream = sum(1 for r in results if r["flag"].get("kind_stream"))
            n_unary_run = sum(1 for r in results if r["flag"].get("kind_unary"))
            divclasses = {}
            for r in results:
                if r["acc"] is not None:
                    divclasses[r["acc"][1]] = divclasses.get(r["acc"][1], 0) + 1
            opcount = scan["opcount"]
            m = re.search(r"enum schedules=(\d+) configs=(\d+) exhaustive_configs=(\d+) sampled_configs=(\d+) corpus_histories=(\d+) "
                          r"corpus_replayed_verbatim=(\d+) corpus_schedules=(\d+)", enum_out)
            enum_stats = dict(zip(["schedules", "configs", "exhaustive_configs", "sampled_configs", "corpus_histories",
                                   "corpus_replayed_verbatim", "corpus_schedules"], map(int, m.groups()))) if m else {}
            obligations = n_stmt + (INSTANCE_THEOREMS if gen["ok"] else 0)
            discharged = (n_stmt if proof_ok else 0) + (INSTANCE_THEOREMS if inst_ok else 0)
            if not (proof_ok and inst_ok):
                discharged = min(discharged, obligations - 1)
            cov = {
                "obligations": obligations, "discharged": discharged,
                "checker_cmd": "cd /verif/coq && make ; coqc Stream/Props_C12.v (Print Assumptions) ; per run in a scratch dir: "
                               "streamir -src REPO/grpcgcp/gcp_interceptor.go -coq StreamIR.v ; coqc StreamIR.v ; coqc Instance.v "
                               "(check_prog the_prog = true by vm_compute, 12 theorems instantiated)",
                "trusted_base": engines.TRUSTED_BASE + [
                    "tools/streamir (Go, go/parser+go/ast): the translation of the method bodies into instruction lists and the "
                    "placement of the yield points is trusted, not verified",
                    "Stream/Sem.v as a model of sync.Mutex / sync.Cond / goroutines / context cancellation"],
                "axioms_reported_by_Print_Assumptions": axioms,
                "print_assumptions_closed_count": plog.count("Closed under the global context") if proof_ok else 0,
                "instance_proof": {"regenerated": gen["ok"], "compiled": inst_ok, "seconds": round(inst_s, 1),
                                   "identical_to_reference_RefIR": bool(same_ref),
                                   "print_assumptions_closed_count": inst_log.count("Closed under the global context") if inst_ok else 0,
                                   "translator_message": gen["msg"], "promoted_methods": gen.get("promoted", ""),
                                   "yield_points_inserted": gen.get("yields", 0)},
                "states": states, "transitions": transitions,
                "closed_set_states_explored": states,
                "evaluations": scan["n"],
                "schedules_forced": n_stream, "unary_cases": n_unary_run,
                "traces_validated_against_impl": sum(1 for r in results if r["acc"] is None),
                "distinct_nontrivial": nontriv, "distinct_histories": len(distinct),
                "events": sum(r["nev"] for r in results),
                "rule": P["rule"],
                "enumeration": enum_stats,
                "operation_histogram": opcount,
                "divergences_by_class": divclasses,
                "schedules_not_applicable_to_current_code": len(inapplicable),
                "monitor_failures_on_impl_traces": len(fails),
                "in_coq_crosschecked_traces": coq_checked,
                "known_findings_printed": sorted(known_printed),
                "gate": "off (VERIF_NOGATE): unscheduled stress runs only, the yield patterns / statement forms no longer match "
                        "the source" if nogate else "on: every schedule forced step by step",
                "samples": scan["samples"],
                "exhaustive": False,
                "timing": timing,
                "notes": notes,
            }
            for k in known_printed.values():
                print("KNOWN-FINDING: property=%s %s" % (pid, k["what"]))
            for kind, path in violations:
                print("VIOLATION property=%s replay=%s%s" % (pid, path, (" " + kind) if kind else ""))
            C.write_evidence(pid, tier, seed, cov, time.time() - t0, len(violations), ASSUMPTIONS.get(pid, []))
            print("%s: %d " % (pid, n_stream) + ("UNSCHEDULED stress runs (gate off)" if nogate else "schedules forced") +
                  " + %d unary cases (%d distinct, %d non-trivial), %d agree with the model, %d monitor "
                  "failures, closed-set check of the regenerated program %s (%d states), proof %s, %.1fs"
                  % (n_unary_run, len(distinct), nontriv, cov["traces_validated_against_impl"], len(fails),
                     "ok" if inst_ok else ("NOT REGENERATED" if not gen["ok"] else "FAILS"), states,
                     "ok" if proof_ok else "BROKEN", time.time() - t0))
            return 1 if violations else 0
        finally:
            shutil.rmtree(scratch, ignore_errors=True)

    def crosscheck(self, scratch, trace, ir, nmax, total):
        cases = os.path.join(scratch, "Cases.v")
        cmd = [self.driver_path(), trace] + (["--ir", ir] if ir else []) + ["--coq", cases, str(nmax), str(total)]
        p = subprocess.run(cmd, stdout=subprocess.PIPE, stderr=subprocess.PIPE, text=True)
        if p.returncode != 0 or not os.path.exists(cases):
            return 0, "driver --coq failed: " + p.stderr[-500:]
        with C.Lock("coq.lock"):
            rc, out = C.sh(["timeout", "900", "coqc", "-Q", C.COQ, "GV", "-Q", scratch, "Scratch", cases], cwd=scratch)
        if rc != 0:
            return 0, "coqc Cases.v failed: " + out[-800:]
        m = re.search(r"mismatches\s*=\s*(.*?)\s*:\s*list nat", out, re.S)
        n = len(re.findall(r"^Definition case_\d+ ", open(cases).read(), re.M))
        if not m:
            return 0, "no result printed"
        if m.group(1).strip() != "[]":
            return n, "cases " + m.group(1).strip()
        return n, None

    # ---- replay
    def replay(self, rp):
        pid = rp["property"]
        if "history" not in rp:
            print("replay file names a broken obligation/correspondence without a schedule:")
            print(json.dumps({k: v for k, v in rp.items() if k not in ("log", "model_report")}, indent=1))
            return self.run_property(pid, "quick", 1)
        scratch = tempfile.mkdtemp(prefix="verif-replay-")
        try:
            C.coq_build()
            ensure_stream_vo()
            self.build_driver()
            gen = self.regenerate(scratch)
            hist = os.path.join(scratch, "r.hist")
            lines = [l if ";" in l else l + " ; ;" for l in rp["history"]]
            open(hist, "w").write("\n".join(lines) + "\n")
            if not gen["ok"]:
                print("streamir: " + gen["msg"])
                print("replaying unscheduled (VERIF_NOGATE)")
            rc, out, trace = self.run_sched(scratch, gen, hist, 0, 1, "r", nogate=not gen["ok"])
            if rc != 0 or not os.path.exists(trace):
                print(out[-3000:])
                print("replay: the harness did not run to completion on this schedule (property %s FAILS to be checked)" % pid)
                return 1
            print(open(trace).read())
            drc, res, derr = self.judge(trace, gen["ir"] if gen["ok"] else None)
            for r in res:
                print("history %d: model %s, monitor %s%s" % (r["hist"], "agrees" if r["acc"] is None else "diverges at step %d (%s)" % r["acc"],
                                                            "accepts" if r.get("ok") else "REJECTS at event %d" % r.get("fail_at", -1),
                                                            "" if r["what"] == "-" else " [" + r["what"] + "]"))
            fails = any(not r.get("ok", True) for r in res)
            # no monitor failure but the model of the CURRENT code does not follow the recorded schedule:
            # the code changed shape since the schedule was recorded
            stale = (not fails) and any(r["acc"] is not None for r in res)
            if stale and gen["ok"] and lines and lines[0].startswith("H S"):
                # the code changed shape: the recorded schedule does not apply any more; run the schedules
                # of the same call scripts that the current program has
                print("the recorded schedule does not apply to the current code; enumerating the schedules of its configuration")
                sched = os.path.join(scratch, "again.hist")
                C.sh([self.driver_path(), "enum", gen["ir"], sched, "none", "1", "0", hist])
                rc, out, trace = self.run_sched(scratch, gen, sched, 0, 1, "again")
                if rc != 0:
                    print(out[-3000:]); return 1
                drc, res, derr = self.judge(trace, gen["ir"])
                bad = [r for r in res if not r.get("ok", True) or (r["acc"] is not None and r["acc"][1] in self.REL)]
                print("%d schedules forced, %d rejected by the monitor or diverging from the model" % (len(res), len(bad)))
                hs = self.split_histories(trace)
                for r in bad[:1]:
                    print("\n".join(hs[r["hist"]]["lines"]))
                fails = bool(bad)
            else:
                fails = fails or any(r["acc"] is not None and r["acc"][1] in self.REL for r in res)
            print("replay: property %s %s on this schedule" % (pid, "FAILS" if fails else "holds"))
            return 1 if fails else 0
        finally:
            shutil.rmtree(scratch, ignore_errors=True)


ENGINE = StreamEngine()

ASSUMPTIONS = {
    "C12": [
        "one sending goroutine (SendMsg, CloseSend, Header, Trailer, Context) and one receiving goroutine (RecvMsg, Header, "
        "Trailer, Context), as gRPC's ClientStream contract requires; each issues its calls one after the other",
        "the model is the source as translated by tools/streamir on this run (RefIR.v: with proposed_fixes/stream_S1..S3); "
        "sync.Mutex, sync.Cond (Wait = atomically unlock and join the wait set; Broadcast wakes every member; no spurious "
        "wake-ups: Go's sync.Cond has none), goroutine start and context cancellation are modelled in Stream/Sem.v, not verified "
        "against the Go runtime; they are sampled by forcing the model's schedules on the real code",
        "every instruction is one atomic step in the proof (finer than the real yield points); the differential runs use the "
        "coarser yield-point granularity; reads of cs.ClientStream after Unlock are modelled as reads at that later step",
        "the streamer call and the calls of the underlying stream are atomic and return at once (the fake stream never blocks)",
        "a creation error is 'some earlier failed attempt's error' in the theorem; which attempt's is checked by the exact "
        "comparison with the model (divergence class ret)",
        "CloseSend before the first message creates nothing and returns nil (decision of proposed_fixes/stream_S1.diff)",
        "unary: contexts are modelled by what Value() answers; context.WithValue itself is not verified",
    ],
}
