#!/usr/bin/env python3
"""Regenerates /verif/MANIFEST.json from the table below (keeps it schema-valid)."""
import json, os

VERIF = os.path.dirname(os.path.dirname(os.path.abspath(__file__)))
TECH = "Coq proof over all histories/inputs of a Gallina model + differential correspondence of the model against the Go implementation"

# pid -> (engine, text, note, design_ref) ; only properties whose check is built and passes on the clean tree
CLAIMED = {
    "C13": ("multiendpoint",
            "Theorems C13_holds/cur_member over all histories of the Gallina model of multiEndpoint (membership, top-available, three-way rule for delay 0, empty list rejected), tied to the Go code by differential correspondence (white-box observation after every operation) on generated/enumerated histories evaluated by the extracted model and, for a sample, inside Coq.",
            "Trusted: Coq kernel, extraction+OCaml driver, Go harness (fake clock/timers); time.AfterFunc modelled as 'fires no earlier than due, any order, Stop effective only before firing'. The theorem is about the model; the tie to the code is sampled correspondence.",
            "DESIGN.md 4 C13"),
    "C14": ("multiendpoint",
            "Theorems C14_holds/convergence/invariant over all histories of the same model (recovery window, no inline move, no down move, convergence when no timer is active), same tie.",
            "As C13; guard inside the monitor: recovery timeout >= 0 for the clause 'a timer never takes an endpoint out of the available state' (counterexample for r<0 proved in InvC14.v).",
            "DESIGN.md 4 C14"),
    "C11": ("keys",
            "24 theorems (totality of the wrapper, equality with a declarative traversal for every value and locator, one corollary per clause of the statement) over a Gallina model of keysFromMessage/getAffinityKeysFromMessage following reflect case by case; differential correspondence on reflect-built values and real protobuf messages.",
            "Trusted: Coq kernel, extraction, driver, harness value dumper. reflect and strings.Title (ASCII) are modelled. Out of model (totality only): embedded struct fields, non-ASCII locators.",
            "DESIGN.md 4 C11"),
    "C19": ("codec",
            "20 theorems for every byte list (framing, payload unchanged, field 2047/fixed32 tag, wire-parser view, CRC32C check value and bound, error passthrough) over a Gallina model of myCodec.Marshal with bitwise CRC32C and a protobuf wire splitter; differential correspondence byte-for-byte against the real codec, hash/crc32 and proto.Unmarshal.",
            "Trusted: Coq kernel, extraction, driver, harness. The inner proto codec is an input (its output bytes are given); message equality after decoding is checked on the Go side only.",
            "DESIGN.md 4 C19"),
    "C17": ("config",
            "21 theorems (round trip and soundness of the protojson model, defaults 1/4/100 and nothing else changed, method table = last entry wins / iff under unique names, configuration fixed once over all update sequences); differential correspondence against ParseConfig, the balancer's effective configuration, and GCPConfig(); three OPEN known findings (protojson laxness PJ1-PJ3) reported as KNOWN-FINDING.",
            "Trusted: Coq kernel, extraction, driver, harness JSON renderer. protojson (third party) is MODELLED, tied by correspondence only; JSON tokenisation is exercised by the harness, not modelled; immutability/aliasing are checked on the implementation only.",
            "DESIGN.md 4 C17"),
}

CLAIMED["C18"] = ("prober",
    "25 theorems over Flocq binary64 / int64 / byte-string models of backoff, parseT4T7Latency, validateFlags, the URI builders and probeInterval (bounds and monotonicity of backoff for every int64 base <= max and every retry count; latency parsing total, header first, first entry, exact value or range error; accepted flags => URI segments exactly the supplied names, parsable probe type, 10^6 <= interval), bit-exact differential correspondence against the real functions (two packages stitched).",
    "Trusted: Coq kernel, Flocq 4.1.0, extraction, driver, harnesses. The floating-point theorems depend on the standard library's axioms ClassicalDedekindReals.sig_not_dec, sig_forall_dec, FunctionalExtensionality.functional_extensionality_dep, Classical_Prop.classic (via Flocq/Reals). strconv.ParseInt, the two regexps, %s formatting are modelled and compared on every case; SHA-256 is executable in Coq, compared with crypto/sha256, abstract in the theorem; main() glue between validateFlags and the URI/interval use is replicated in the harness; int64(float64) as on amd64.",
    "DESIGN.md 4 C18")

PLANNED = {
    "C01": "pool engine built (model, monitor, correspondence, fix commits); registered once Props_C01.v carries its theorem",
    "C02": "as C01", "C03": "as C01", "C04": "as C01", "C05": "as C01", "C06": "as C01", "C07": "as C01",
    "C08": "as C01", "C09": "as C01", "C20": "as C01",
    "C10": "lock-facts translator + DRF theorem under construction",
    "C12": "stream semantics + IR translator under construction",
    "C15": "GME engine under construction", "C16": "GME engine under construction",
    "C18": "prober engine under construction",
}

ENGINES = [
    {"name": "multiendpoint", "path": "coq/ME, harness/multiendpoint, ocaml/me", "serves_properties": ["C13", "C14"],
     "kind_free_text": "hand-written Gallina model of grpcgcp/multiendpoint + theorems; differential correspondence under a fake clock"},
    {"name": "pool", "path": "coq/Pool, harness/pool, ocaml/pool",
     "serves_properties": ["C01", "C02", "C03", "C04", "C05", "C06", "C07", "C08", "C09", "C20"],
     "kind_free_text": "Gallina model of gcpBalancer/gcpPicker (function for function, machine arithmetic explicit), Coq monitors, white-box differential correspondence with virtual clock, goroutine-state-aware blocking picks and a yield gate between critical sections"},
    {"name": "keys", "path": "coq/Keys, harness/keys, ocaml/keys", "serves_properties": ["C11"], "kind_free_text": "model of reflect-based key extraction"},
    {"name": "codec", "path": "coq/Codec, harness/codec, ocaml/codec", "serves_properties": ["C19"], "kind_free_text": "CRC32C + protobuf wire model"},
    {"name": "config", "path": "coq/Config, harness/config, ocaml/config", "serves_properties": ["C17"], "kind_free_text": "ApiConfig/JSON model, protojson modelled"},
    {"name": "prober", "path": "coq/Prober, harness/prober, harness/prober_main, ocaml/prober", "serves_properties": ["C18"], "kind_free_text": "Flocq binary64 / int64 models of the spanner prober helpers"},
]


def chk(pid, engine, text, note, ref):
    return {"property_id": pid, "quick_cmd": "python3 tools/check.py run %s --tier quick" % pid,
            "thorough_cmd": "python3 tools/check.py run %s --tier thorough" % pid,
            "evidence_file": "/verif/evidence/%s.json" % pid,
            "replay_cmd_template": "python3 tools/check.py replay {path}",
            "engine": engine,
            "level_claimed": {"category": "proof", "text": text, "design_ref": ref},
            "level_note": note, "technique": TECH}


def main():
    extra = os.path.join(VERIF, "tools", "manifest_extra.json")
    claimed = dict(CLAIMED)
    planned = dict(PLANNED)
    engines = list(ENGINES)
    if os.path.exists(extra):
        x = json.load(open(extra))
        for pid, v in x.get("claimed", {}).items():
            claimed[pid] = tuple(v)
        for e in x.get("engines", []):
            engines = [g for g in engines if g["name"] != e["name"]] + [e]
    for pid in claimed:
        planned.pop(pid, None)
    m = {
        "version": 1,
        "setup_cmd": "python3 tools/check.py setup",
        "hooks": {"guard": "verif",
                  "enable": "go test -tags verif -overlay <generated overlay.json> -modfile <scratch copy of go.mod>: harness files under /verif/harness (all `//go:build verif`) are added to the package by the overlay, which also substitutes line-preserving copies of gcp_balancer.go/gcp_picker.go with time.Now() -> verifNow() and a verifYield gate; no file in /repo carries hooks",
                  "baseline_off_cmd": "for m in $(cat /w/out/gomods.txt); do MF=$(cd /repo/$m && . /w/out/goenv.sh && gomodflag); (cd /repo/$m && go test $MF -json -vet=off -count=1 -timeout 25m ./...); done",
                  "source_commits": [], "add_only": True},
        "engines": engines,
        "checks": [chk(pid, *claimed[pid]) for pid in sorted(claimed)],
        "not_applicable": [{"property_id": p, "reason": "not claimed in this commit (the technique applies; check still being built): " + r}
                           for p, r in sorted(planned.items())],
        "notes": "See DESIGN.md. Every check: (1) make of the Coq tree + Print Assumptions of Props_<id>.v, (2) the Go harness injected by overlay runs corpus+generated histories/cases on /repo's working tree, (3) the extracted model must accept the traces and Coq-defined monitors run on the implementation's traces (a sample is re-evaluated inside Coq with vm_compute), (4) verdict per DESIGN.md 2.7. Genuine defects found so far are fixed by `fix:` commits in /repo or listed in known_findings.json.",
    }
    json.dump(m, open(os.path.join(VERIF, "MANIFEST.json"), "w"), indent=1)
    print("claimed:", sorted(claimed))


if __name__ == "__main__":
    main()
