#!/usr/bin/env python3
"""Regenerates /verif/MANIFEST.json from the table below (keeps it schema-valid)."""
import json, os

VERIF = os.path.dirname(os.path.dirname(os.path.abspath(__file__)))
TECH = "Coq proof over all histories/inputs of a Gallina model + differential correspondence of the model against the Go implementation"

# pid -> (engine, text, note, design_ref) ; only properties whose check is built and passes on the clean tree
CLAIMED = {
    "C13": ("multiendpoint",
            "Theorems C13_holds/cur_member over all histories of the Gallina model of multiEndpoint (membership, top-available, three-way rule for delay 0, empty list rejected), tied to the Go code by differential correspondence (white-box observation after every operation) on generated/enumerated histories evaluated by the extracted model and, for a sample, inside Coq.",
            "Trusted: Coq kernel, extraction+OCaml driver, Go harness (fake clock/timers); time.AfterFunc modelled as 'fires no earlier than due, any order, Stop effective only before firing'. The theorem is about the model; the tie to the code is sampled correspondence.",
            "DESIGN.md 4 C13"),
    "C14": ("multiendpoint",
            "Theorems C14_holds/convergence/invariant over all histories of the same model (recovery window, no inline move, no down move, convergence when no timer is active), same tie.",
            "As C13; guard inside the monitor: recovery timeout >= 0 for the clause 'a timer never takes an endpoint out of the available state' (counterexample for r<0 proved in InvC14.v).",
            "DESIGN.md 4 C14"),
    "C11": ("keys",
            "24 theorems (totality of the wrapper, equality with a declarative traversal for every value and locator, one corollary per clause of the statement) over a Gallina model of keysFromMessage/getAffinityKeysFromMessage following reflect case by case; differential correspondence on reflect-built values and real protobuf messages.",
            "Trusted: Coq kernel, extraction, driver, harness value dumper. reflect and strings.Title (ASCII) are modelled. Out of model (totality only): embedded struct fields, non-ASCII locators.",
            "DESIGN.md 4 C11"),
    "C19": ("codec",
            "20 theorems for every byte list (framing, payload unchanged, field 2047/fixed32 tag, wire-parser view, CRC32C check value and bound, error passthrough) over a Gallina model of myCodec.Marshal with bitwise CRC32C and a protobuf wire splitter; differential correspondence byte-for-byte against the real codec, hash/crc32 and proto.Unmarshal.",
            "Trusted: Coq kernel, extraction, driver, harness. The inner proto codec is an input (its output bytes are given); message equality after decoding is checked on the Go side only.",
            "DESIGN.md 4 C19"),
    "C17": ("config",
            "21 theorems (round trip and soundness of the protojson model, defaults 1/4/100 and nothing else changed, method table = last entry wins / iff under unique names, configuration fixed once over all update sequences); differential correspondence against ParseConfig, the balancer's effective configuration, and GCPConfig(); three OPEN known findings (protojson laxness PJ1-PJ3) reported as KNOWN-FINDING.",
            "Trusted: Coq kernel, extraction, driver, harness JSON renderer. protojson (third party) is MODELLED, tied by correspondence only; JSON tokenisation is exercised by the harness, not modelled; immutability/aliasing are checked on the implementation only.",
            "DESIGN.md 4 C17"),
}

CLAIMED["C18"] = ("prober",
    "25 theorems over Flocq binary64 / int64 / byte-string models of backoff, parseT4T7Latency, validateFlags, the URI builders and probeInterval (bounds and monotonicity of backoff for every int64 base <= max and every retry count; latency parsing total, header first, first entry, exact value or range error; accepted flags => URI segments exactly the supplied names, parsable probe type, 10^6 <= interval), bit-exact differential correspondence against the real functions (two packages stitched).",
    "Trusted: Coq kernel, Flocq 4.1.0, extraction, driver, harnesses. The floating-point theorems depend on the standard library's axioms ClassicalDedekindReals.sig_not_dec, sig_forall_dec, FunctionalExtensionality.functional_extensionality_dep, Classical_Prop.classic (via Flocq/Reals). strconv.ParseInt, the two regexps, %s formatting are modelled and compared on every case; SHA-256 is executable in Coq, compared with crypto/sha256, abstract in the theorem; main() glue between validateFlags and the URI/interval use is replicated in the harness; int64(float64) as on amd64.",
    "DESIGN.md 4 C18")

POOL_NOTE = ("Trusted: Coq kernel, extraction+OCaml driver, the Go harness (fake ClientConn refusing empty address lists like gRPC 1.56.3, virtual clock via the time.Now()->verifNow() overlay rewrite, goroutine-state classification of blocked picks, yield gate). "
             "The theorem is about the model (ops incl. the two critical sections of a growing Pick); the tie to the code is white-box differential correspondence on sampled histories. Go map iteration is an oracle (any permutation). ")
CLAIMED["C02"] = ("pool", "Theorem C02_holds (monitor P02 true on every model history and oracle: a load-routed call is placed on a slot of the picker's READY snapshot with minimal stream count; stream count = number of placed, uncompleted calls, across refreshes) + invariants Inv/Sim preserved by every step; correspondence as for all pool properties.",
                  POOL_NOTE + "Guard: fewer than 2^31 outstanding picks (int32 stream counter). Minimality is for serialized operations.", "DESIGN.md 4 C02")
CLAIMED["C04"] = ("pool", "Theorem C04_holds (last published state = census of the pool's connections, error picker iff TRANSIENT_FAILURE, snapshot = READY slots, publication on every READY-ness/TF change) over all histories of adversarial state reports.",
                  POOL_NOTE + "Guard: fewer than 2^64 pool connections (uint64 counters).", "DESIGN.md 4 C04")
CLAIMED["C05"] = ("pool", "Theorems C05_no_panic (no model event returns RPanic: every partial Go operation mirrored in the model is unreachable) and C05_holds; key extraction totality is C11, the stream wrapper's is C12.",
                  POOL_NOTE + "Guard of C05_holds only: connection numbers below 9*10^8 (an encoding bound of the monitor). nil context.Context is outside the model.", "DESIGN.md 4 C05")
CLAIMED["C06"] = ("pool", "Theorems C06_holds/C06_no_stuck (no operation is stuck, gb.mu free after every operation, only a round-robin BIND waits and only while its channel is not READY and its context alive) + for interleavings the Coq theorems C06_table_no_wait_cycle/… instantiated by vm_compute on the lock table REGENERATED from the source on every run (no self-acquire, no blocking while holding a lock, acyclic lock order).",
                  POOL_NOTE + "Partial for interleavings: the lock-table translator (tools/lockfacts) is trusted; scheduler/RWMutex fairness and the 100 ms ticker are outside the model.", "DESIGN.md 4 C06")
CLAIMED["C20"] = ("pool", "Theorem C20_holds, unguarded: after every event every pool connection and every replacement of a refresh in flight was last given the current address list and asked to connect; resolver errors change nothing. (Its failed first proof attempt produced the counterexample fixed by be2386d.)",
                  POOL_NOTE, "DESIGN.md 4 C20")
CLAIMED["C01"] = ("pool", "Theorem C01_holds: on every legal model history the monitor P01 holds (key table of the code = the monitor's key->channel table; a BOUND/UNBIND call for a bound key whose channel is READY is placed on that channel by every picker that places it and IS placed by the most recent picker, across refresh swaps; with fallback off and the channel not READY it is never placed).",
                  POOL_NOTE + "Guards: harness-legal histories (no operation referring to a non-existent pick/picker; the monitors are false on illegal ones, Example in Props_C01.v), fewer than 2^64 pool connections (uint64 evaluator).", "DESIGN.md 4 C01")
CLAIMED["C03"] = ("pool", "Theorems C03_holds (strict property on histories without a revival), C03R_holds (size bound relaxed by one per revived channel, all other clauses strict), C03_size_bound_step (the bound per critical section, hence under every interleaving of the modelled sections incl. parked picks), C03_init_size, C03_growth_only_when_saturated, C03_remove_only_swapped; C03_revival_refuted is the open known finding RES on the model.",
                  POOL_NOTE + "Guards: legal histories (only Picks on a picker whose mutex a parked Pick holds matter), config fields >= 0; the strict bound needs 'no revival' (RES).", "DESIGN.md 4 C03")
CLAIMED["C07"] = ("pool", "Theorem C07_holds (detection flag = config; every completion either counts as a response or follows the exact trigger rule: a replacement is attempted iff client-side deadline, started after the last response, count >= unresponsive_calls, more than ms*2^k elapsed, no refresh in flight; exactly one attempt; old connection serves until the swap; the swap hands over keys, streams, position and removes the old connection exactly once) + refresh_iff, one_replacement, old_serves_until_swap, swap_takes_over, disabled_never_refreshes, factory_failure_does_not_disable.",
                  POOL_NOTE + "Guards: legal histories, fewer than 2^31 placed calls (int32 stream counter); the iff-clause where ms*2^k < 2^32 (beyond: window_wrap_refuted, R2).", "DESIGN.md 4 C07")
CLAIMED["C08"] = ("pool", "Theorem C08_holds: fallback table entries always name READY pool connections; with fallback on a keyed call whose home is not READY is placed by the latest picker on the sticky stand-in if one exists, else on a READY channel (also above the watermark) which becomes the stand-in, else not placed; home READY again => home; a Pick never changes the key table.",
                  POOL_NOTE + "Guards as C01.", "DESIGN.md 4 C08")
CLAIMED["C09"] = ("pool", "Theorems C09_holds (cursor +1 mod 2^32 per round-robin BIND, slot = cursor mod n, handed out iff READY or context ended, blocked picks released exactly then, other picks leave the cursor alone), rr_cursor_init (cursor as a function of the number of BIND picks on every history), rr_window_fair (any n*k consecutive cursor values without 32-bit wrap hit every slot exactly k times) and rr_window_fair_refuted / c09_rr1_on_model (known finding RR1: uneven across the 2^32 wrap for n=3).",
                  POOL_NOTE + "Guard: legal histories. PARTIAL for concurrency: the cursor is one atomic add (C10 policy Atomic), so distinct consecutive values are assigned under any interleaving; which call observes which value is unordered.", "DESIGN.md 4 C09")
CLAIMED["C10"] = ("locks", "Generic lockset theorem C10_lockset_race_free / C10_table_race_free (Locks/DRF.v: every access follows its field's policy => no race in any consistent execution under the usage contract) instantiated by vm_compute on the access/acquire/block table REGENERATED from the five source files on every run by tools/lockfacts (flow-sensitive must/may-held lock sets, call-graph propagation); failing rows are confirmed with a -race stress harness as failing-input search.",
                  "PARTIAL: the translator and the hand-written Locks/Policy.v are trusted; publication arguments rest on pool invariants; aliasing through interfaces/closures beyond the handled cases, fields of foreign types and happens-before via channels are not seen. The race detector is only the search for a failing input, never the verdict.", "DESIGN.md 4 C10")
CLAIMED["C12"] = ("stream", "unary_transparent for every invoker; for the stream wrapper a verified closed-set checker (Stream/ClosedSet.v, Check.v: check_prog p = true => every run of p, every interleaving/creation outcome/cancellation point, unbounded calls, satisfies the C12 monitor: single creation, first message visible, recv waits then delegates or returns error/ctx end, in-order delegation, no panic, mutex discipline, no lost wake-up, termination) instantiated by vm_compute on the instruction lists REGENERATED from gcp_interceptor.go by tools/streamir on every run; schedule-directed differential testing forces model-enumerated interleavings on the real wrapper.",
                  "PARTIAL tie: streamir (translation, yield placement) and the Sem.v model of sync.Mutex/sync.Cond/goroutines/context are trusted; real scheduler behaviour is sampled via forced schedules; one sender and one receiver (gRPC's contract).", "DESIGN.md 4 C12")
CLAIMED["C15"] = ("gme", "Theorems C15_holds, route_spec, update_pools, update_status_synced, route_total (uses ME cur_member), follows_connectivity over all histories of the Gallina model of GCPMultiEndpoint (reusing the ME model for each MultiEndpoint); differential correspondence with real grpc.ClientConn pools over bufconn.",
                  "Trusted: kernel, extraction, driver, harness. PARTIAL: real connectivity timing ('within bounded time': 3 s polling) and the goroutine census are sampled runtime observations; harness uses recovery = delay = 0 (timers of the other package cannot be replaced), the theorems cover all values.", "DESIGN.md 4 C15")
CLAIMED["C16"] = ("gme", "Theorems C16_holds, update_error_cases, failed_update_identity (in every state), no_route_to_closed_pool, close_releases_all, failed_new_releases_all over all histories incl. every kind of invalid option at every position and dial failures at any dial.",
                  "As C15. PARTIAL: goroutines are a census in the model; the harness compares it with runtime stacks (sampled).", "DESIGN.md 4 C16")

PLANNED = {

}

ENGINES = [
    {"name": "multiendpoint", "path": "coq/ME, harness/multiendpoint, ocaml/me", "serves_properties": ["C13", "C14"],
     "kind_free_text": "hand-written Gallina model of grpcgcp/multiendpoint + theorems; differential correspondence under a fake clock"},
    {"name": "pool", "path": "coq/Pool, harness/pool, ocaml/pool",
     "serves_properties": ["C01", "C02", "C03", "C04", "C05", "C06", "C07", "C08", "C09", "C20"],
     "kind_free_text": "Gallina model of gcpBalancer/gcpPicker (function for function, machine arithmetic explicit), Coq monitors, white-box differential correspondence with virtual clock, goroutine-state-aware blocking picks and a yield gate between critical sections"},
    {"name": "keys", "path": "coq/Keys, harness/keys, ocaml/keys", "serves_properties": ["C11"], "kind_free_text": "model of reflect-based key extraction"},
    {"name": "codec", "path": "coq/Codec, harness/codec, ocaml/codec", "serves_properties": ["C19"], "kind_free_text": "CRC32C + protobuf wire model"},
    {"name": "config", "path": "coq/Config, harness/config, ocaml/config", "serves_properties": ["C17"], "kind_free_text": "ApiConfig/JSON model, protojson modelled"},
    {"name": "gme", "path": "coq/GME, harness/gme, ocaml/gme", "serves_properties": ["C15", "C16"], "kind_free_text": "model of GCPMultiEndpoint on top of the ME model; real ClientConns over bufconn"},
    {"name": "stream", "path": "coq/Stream, tools/streamir, harness/stream, ocaml/stream", "serves_properties": ["C12"], "kind_free_text": "small-step semantics of the stream wrapper, IR regenerated from source, verified closed-set checker, forced schedules"},
    {"name": "locks", "path": "coq/Locks, tools/lockfacts, harness/locks_*", "serves_properties": ["C10", "C06"], "kind_free_text": "lock/access table regenerated from source, generic DRF and deadlock theorems, -race stress as failing-input search"},
    {"name": "prober", "path": "coq/Prober, harness/prober, harness/prober_main, ocaml/prober", "serves_properties": ["C18"], "kind_free_text": "Flocq binary64 / int64 models of the spanner prober helpers"},
]


def chk(pid, engine, text, note, ref):
    return {"property_id": pid, "quick_cmd": "python3 tools/check.py run %s --tier quick" % pid,
            "thorough_cmd": "python3 tools/check.py run %s --tier thorough" % pid,
            "evidence_file": "/verif/evidence/%s.json" % pid,
            "replay_cmd_template": "python3 tools/check.py replay {path}",
            "engine": engine,
            "level_claimed": {"category": "proof", "text": text, "design_ref": ref},
            "level_note": note, "technique": TECH}


def main():
    extra = os.path.join(VERIF, "tools", "manifest_extra.json")
    claimed = dict(CLAIMED)
    planned = dict(PLANNED)
    engines = list(ENGINES)
    if os.path.exists(extra):
        x = json.load(open(extra))
        for pid, v in x.get("claimed", {}).items():
            claimed[pid] = tuple(v)
        for e in x.get("engines", []):
            engines = [g for g in engines if g["name"] != e["name"]] + [e]
    for pid in claimed:
        planned.pop(pid, None)
    m = {
        "version": 1,
        "setup_cmd": "python3 tools/check.py setup",
        "hooks": {"guard": "verif",
                  "enable": "go test -tags verif -overlay <generated overlay.json> -modfile <scratch copy of go.mod>: harness files under /verif/harness (all `//go:build verif`) are added to the package by the overlay, which also substitutes line-preserving copies of gcp_balancer.go/gcp_picker.go with time.Now() -> verifNow() and a verifYield gate; no file in /repo carries hooks",
                  "baseline_off_cmd": "for m in $(cat /w/out/gomods.txt); do MF=$(cd /repo/$m && . /w/out/goenv.sh && gomodflag); (cd /repo/$m && go test $MF -json -vet=off -count=1 -timeout 25m ./...); done",
                  "source_commits": [], "add_only": True},
        "engines": engines,
        "checks": [chk(pid, *claimed[pid]) for pid in sorted(claimed)],
        "not_applicable": [{"property_id": p, "reason": "not claimed in this commit (the technique applies; check still being built): " + r}
                           for p, r in sorted(planned.items())],
        "notes": "See DESIGN.md. Every check: (1) make of the Coq tree + Print Assumptions of Props_<id>.v, (2) the Go harness injected by overlay runs corpus+generated histories/cases on /repo's working tree, (3) the extracted model must accept the traces and Coq-defined monitors run on the implementation's traces (a sample is re-evaluated inside Coq with vm_compute), (4) verdict per DESIGN.md 2.7. Genuine defects found so far are fixed by `fix:` commits in /repo or listed in known_findings.json.",
    }
    json.dump(m, open(os.path.join(VERIF, "MANIFEST.json"), "w"), indent=1)
    print("claimed:", sorted(claimed))


if __name__ == "__main__":
    main()
