#!/usr/bin/env python3
"""Development tool: re-run the quick checks against every kept seeded change (seeded/<id>/patch.diff) on the
current tree and machinery.   seedregress.py [--jobs N] [--only Cxx]   -> seeded/REGRESS.json
For each seed: scratch worktree of /repo HEAD (outside /repo and /verif), git apply (3-way fallback), the quick
check of the first property that caught it originally, VERIF_REPO=<worktree>; expected: exit 1."""
import sys, os, json, subprocess, tempfile, shutil, glob
from concurrent.futures import ThreadPoolExecutor
VERIF = os.path.dirname(os.path.dirname(os.path.abspath(__file__)))

def one(sid):
    d = os.path.join(VERIF, "seeded", sid)
    meta = json.load(open(os.path.join(d, "meta.json")))
    res = meta.get("result", {})
    props = res.get("caught_by") or [meta.get("breaks_property")]
    p = props[0]
    wt = tempfile.mkdtemp(prefix="seedwt-"); os.rmdir(wt)
    out = {"seed": sid, "property": p}
    try:
        subprocess.run("git -C /repo worktree add -q --detach %s HEAD" % wt, shell=True, check=True)
        pf = os.path.join(d, "patch.diff")
        r = subprocess.run("git apply %s || git apply -3 %s" % (pf, pf), shell=True, cwd=wt, stdout=subprocess.PIPE, stderr=subprocess.STDOUT, text=True)
        if r.returncode != 0 or subprocess.run("git diff --name-only --diff-filter=U", shell=True, cwd=wt, stdout=subprocess.PIPE, text=True).stdout.strip():
            out["status"] = "patch no longer applies (the code it changed was rewritten by a later fix)"
            return out
        e = dict(os.environ, VERIF_REPO=wt, VERIF_EVID=os.path.join(wt, ".verif-evidence"))
        r = subprocess.run(["python3", os.path.join(VERIF, "tools", "check.py"), "run", p, "--tier", "quick"], cwd=VERIF, env=e,
                           stdout=subprocess.PIPE, stderr=subprocess.STDOUT, text=True, timeout=3000)
        out["exit"] = r.returncode
        out["status"] = "caught" if r.returncode == 1 else "MISSED"
        out["line"] = ([l for l in r.stdout.split("\n") if l.startswith(p + ":")] or [""])[-1][:300]
    except Exception as ex:
        out["status"] = "error %r" % ex
    finally:
        subprocess.run("git -C /repo worktree remove --force %s" % wt, shell=True)
        shutil.rmtree(wt, ignore_errors=True)
    print(sid, out.get("status"), flush=True)
    return out

def main():
    jobs = int(sys.argv[sys.argv.index("--jobs") + 1]) if "--jobs" in sys.argv else 3
    only = sys.argv[sys.argv.index("--only") + 1] if "--only" in sys.argv else None
    seeds = sorted(os.path.basename(os.path.dirname(m)) for m in glob.glob(os.path.join(VERIF, "seeded", "C*", "meta.json")))
    if only:
        seeds = [s for s in seeds if s.startswith(only)]
    with ThreadPoolExecutor(jobs) as ex:
        res = list(ex.map(one, seeds))
    path = os.path.join(VERIF, "seeded", "REGRESS.json")
    old = json.load(open(path)) if only and os.path.exists(path) else {"results": []}
    keep = [r for r in old["results"] if r["seed"] not in {x["seed"] for x in res}]
    head = subprocess.run("git -C /repo rev-parse --short HEAD", shell=True, stdout=subprocess.PIPE, text=True).stdout.strip()
    json.dump({"repo_head": head, "results": sorted(keep + res, key=lambda r: r["seed"])}, open(path, "w"), indent=1)
    print({s: sum(1 for r in res if r.get("status", "").startswith(s)) for s in ("caught", "MISSED", "patch", "error")})

if __name__ == "__main__":
    main()
