"""Engine for C18 (Spanner prober helpers): two Go packages, one driver.

run_impl runs the harness of package main (spanner_prober: flag variables +
validateFlags), hands every flag set the REAL validateFlags accepted to the
harness of package spanner_prober/prober (URI builders, probeInterval,
ParseProbeType are unexported there) and stitches the two traces: an accepted
`H F ...` line is followed by its `G ...` event line, so that one history is
"what main() does with these flags"."""
import os
import check as C
import engines

VERIF = C.VERIF

TWO53 = 1 << 53


def _int(s, d=None):
    try:
        return int(s)
    except ValueError:
        return d


def nontrivial_c18(lines):
    """backoff: 0 < base < max and retries > 0 (the loop body runs); latency: a
    duration was returned; flags: accepted by the real validateFlags and carried
    through the prober package; URI/interval/probe-type/payload: a value came back."""
    t = lines[0].split(";")
    op, out = t[0].split(), (t[1].split() if len(t) > 1 else [])
    if len(op) < 2 or not out or out[0] in ("panic", "skip", "X"):
        return False
    k = op[1]
    if k == "B":
        b, m, r = _int(op[2]), _int(op[3]), _int(op[4])
        return None not in (b, m, r) and 0 < b < m and r > 0
    if k == "L":
        return out[0] == "ok"
    if k == "F":
        return len(lines) > 1 and lines[1].startswith("G ")
    if k == "T":
        return out[0] == "ok"
    return k in ("U", "I", "P")


class ProberEngine(engines.HistEngine):
    name = "prober"
    pkg_rel = "spanner_prober/prober"
    pkg_main_rel = "spanner_prober"
    harness_dir = "prober"
    harness_main_dir = "prober_main"
    test_name = "TestVerifProber"
    test_main_name = "TestVerifProberMain"
    driver_dir = "prober"
    driver_bin = "prober_driver"
    extract_v = "ExtractPROBER.v"
    coq_dir = "Prober"
    corpus = "prober"
    props = {
        "C18": dict(
            monitor="c18",
            # Pure functions: the monitor is evaluated on the implementation's own outputs, so a change
            # that keeps the property (growth factor 2.5, another error text, a stricter alphabet) only
            # shows up as a divergence from the model in the classes backoff/latency/uri/interval/
            # probe-type/payload/consts/flags. Those are reported (divergences_by_class) but are not
            # a verdict; only an inconsistent main->prober hand-over is.
            rel={"derive"},
            quick=dict(VERIF_N="5000", VERIF_NF="2500", VERIF_MAXPAYLOAD="120"),
            thorough=dict(VERIF_N="400000", VERIF_NF="100000", VERIF_MAXPAYLOAD="2000"),
            nontrivial=nontrivial_c18,
            rule="cases = corpus (incl. the witnesses of the fixed findings B1-B3) + seeded random, boundary-biased. backoff: the call site "
                 "(200ms, 5s, 0..39), 0 <= base <= max <= 2^53 incl. both ends, base = max, retries from {negative, MinInt, 0..130, "
                 "thousands, 2^31, 2^62, MaxInt}, and the rest of int64 (beyond 2^53 where float64 rounds, negative, MinInt64/MaxInt64, "
                 "base > max); every case calls backoff for retries and retries+1. latency: header/"
                 "trailer maps with 0-3 server-timing entries (absent key, nil map, empty list, look-alike keys), numbers with sign, "
                 "leading zeros, '_', letters, spaces, non-ASCII digits, around MaxInt64/10^6 and around 2^63/2^64. flags: nine flag "
                 "values set through the flag package from text (names from the accepted alphabets, with one foreign byte, '/', '..', "
                 "unicode, invalid UTF-8, empty, 3000 bytes; qps text incl. NaN/Inf/0/-0/negative/denormal/around 1e-9 and 1.0842e-10/1000/hex "
                 "floats; ints incl. 0, negative, MinInt64/MaxInt64, malformed); every accepted set is carried through ProberOptions, the URI "
                 "builders, probeInterval and ParseProbeType of package prober. Plus URI builders, probeInterval, ParseProbeType and "
                 "generatePayload on their own. distinct by hash of the input line(s); non-trivial = 0 < base < max with "
                 "at least one retry, i.e. the loop body runs (backoff) / a duration came back (latency) / accepted and carried through (flags) / a value "
                 "came back (others)"),
    }

    def run_impl(self, scratch, env, tag="t", timeout=3000):
        """main-package harness -> derived G lines -> prober-package harness -> stitched trace."""
        trace = os.path.join(scratch, tag + ".trace")
        t_main = os.path.join(scratch, tag + ".main.trace")
        t_prob = os.path.join(scratch, tag + ".prober.trace")
        derived = os.path.join(scratch, tag + ".derived")
        derived_out = os.path.join(scratch, tag + ".derived.out")
        for p in (trace, t_main, t_prob, derived, derived_out):
            if os.path.exists(p):
                os.remove(p)
        e = dict(env)
        e["VERIF_OUT"] = t_main
        rc, out1 = C.run_harness(scratch, self.pkg_main_rel, self.harness_main_dir, self.test_main_name, e, timeout=timeout)
        if rc != 0 or not os.path.exists(t_main):
            return rc or 1, "package main harness:\n" + out1, trace
        main_lines = [l.rstrip("\n") for l in open(t_main) if l.strip()]
        accepted = []
        with open(derived, "w") as f:
            for idx, l in enumerate(main_lines):
                parts = l.split(";")
                op, o = parts[0].split(), parts[1].split() if len(parts) > 1 else []
                if len(op) == 11 and op[:2] == ["H", "F"] and len(o) == 5 and o[3] == "0" and o[4] == "0":
                    # project instance database instance_config <bits of *qps> probe_type
                    f.write("G %s %s %s %s %s %s\n" % (op[2], op[4], op[5], op[6], o[0], op[10]))
                    accepted.append(idx)
        e = dict(env)
        e["VERIF_OUT"] = t_prob
        e["VERIF_DERIVED"] = derived
        e["VERIF_DERIVED_OUT"] = derived_out
        rc, out2 = C.run_harness(scratch, self.pkg_rel, self.harness_dir, self.test_name, e, timeout=timeout)
        if rc != 0 or not os.path.exists(t_prob):
            return rc or 1, "package prober harness:\n" + out2, trace
        g_lines = [l.rstrip("\n") for l in open(derived_out) if l.strip()] if os.path.exists(derived_out) else []
        if len(g_lines) != len(accepted):
            return 1, "derived cases: %d accepted flag sets but %d results" % (len(accepted), len(g_lines)), trace
        after = dict(zip(accepted, g_lines))
        with open(trace, "w") as f:
            for idx, l in enumerate(main_lines):
                f.write(l + "\n")
                if idx in after:
                    f.write(after[idx] + "\n")
            for l in open(t_prob):
                if l.strip():
                    f.write(l)
        dist = ""
        for p in (t_main + ".dist", t_prob + ".dist"):
            if os.path.exists(p):
                dist += open(p).read()
        self.last_distribution = dist
        if tag == "t" and dist:
            # engines.run_property copies props[pid]["rule"] into the evidence after the run:
            # append what the generators actually produced in this run
            P = self.props["C18"]
            P["rule"] = P["rule"].split(" || measured")[0] + " || measured input distribution of this run: " + \
                " ".join(dist.split())
        return 0, out1 + out2 + dist, trace


ENGINE = ProberEngine()

ASSUMPTIONS = {
    "C18": [
        "float64 = IEEE-754 binary64 with round-to-nearest-even as formalised by Flocq 4.1.0; float64(int64) is CVTSQ2SD, "
        "int64(float64) is CVTTSD2SQ (truncation; NaN/out of range -> MinInt64) as the amd64 compiler emits them; on other "
        "architectures the out-of-range result differs (Go leaves it implementation-defined) - after the fixes no theorem "
        "depends on an out-of-range conversion any more (backoff and probeInterval stay inside int64 for all admitted inputs)",
        "the theorems hold for the code after the fixes 76e44a5 (B1), 3d18018 (B2), 30d7568 (B3) with no guard beyond the Go "
        "types: backoff for all int64 base <= max and every retry count, latency for all metadata, interval for every accepted "
        "flag set",
        "metadata.MD is modelled as an association list with unique keys; strconv.ParseInt(s,10,64), strings.HasPrefix/TrimPrefix/"
        "Split, fmt.Sprintf(\"%s\") and the two regular expressions (as byte classes) are modelled, not verified against their Go "
        "sources; they are compared with the real functions on every generated case",
        "parsing of flag text into float64/int is done by the real flag package in the harness and taken as given by the model",
        "SHA-256: the theorem payload_hash is relative to an abstract hash function; the monitor uses an executable Coq SHA-256 "
        "(two FIPS vectors + comparison with crypto/sha256 on every payload case), not proved against a specification",
        "what main() does between validateFlags() and the use of the URIs/interval (ParseProbeType, the ProberOptions literal, "
        "qps: opt.QPS in newSpannerProber) is replicated in harness/prober (callG) because main() itself dials Spanner",
        "the harness does not call backoff with a non-positive base and more than 5000 retries (a tree without fix 76e44a5 would "
        "spin); the theorems cover those inputs",
    ],
}
