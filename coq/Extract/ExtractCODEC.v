(* Extraction of the codec engine (C19).  ExtrOcamlBasic only (bool, option,
   list, prod, unit, sumbool, sumor mapped to OCaml natives); N, positive, nat
   and Byte.byte stay the extracted inductives; no Extract Constant. *)
From Coq Require Extraction ExtrOcamlBasic.
From Coq Require Import Strings.Byte ZArith.
From GV Require Import Codec.Model Codec.Monitors.
Extraction Language OCaml.
(* Z.of_N is extracted only because ocaml/common/conv.ml mentions the type z *)
Extraction "codec_model.ml" Z.of_N byte_of_N Byte.to_N crc32c marshal marshal_ok fields le32 decode_le32
  frame C19_ok C19_fields_ok verify_frame C19_case_ok accept result_eqb bytes_eqb fields_digest field_num
  C19_call_ok C19_seq_ok accept_seq_values seq_stable model_seq.
