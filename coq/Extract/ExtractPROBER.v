(* Extraction of the C18 engine (Spanner prober helpers).  ExtrOcamlBasic only
   (bool, option, list, prod, unit, sumbool, sumor mapped to OCaml natives);
   N, Z, positive, nat and Flocq's binary_float stay the extracted inductives;
   no Extract Constant. *)
From Coq Require Extraction ExtrOcamlBasic.
From GV Require Import Prober.F64 Prober.Model Prober.Sha256 Prober.Monitors.
Extraction Language OCaml.
Extraction "prober_model.ml" case_acc case_mon case_mon_idx case_verdict
  mk_flags backoff parse_latency probe_interval validate_flags build_uris sha256.
