(* Extraction of engine A.  ExtrOcamlBasic only; no Extract Constant. *)
From Coq Require Extraction ExtrOcamlBasic.
From GV Require Import Pool.Model Pool.Observe Pool.Monitors.
Extraction Language OCaml.
Extraction "pool_model.ml" init_bal full_step observe accept run C01_ok C02_ok C03_ok C03R_ok known_RES C03S_ok C03X_ok C09D_ok known_RR2 C09W_ok known_RR1 set_rr C04_ok C05_ok C06_ok C07_ok C08_ok C09_ok C20_ok.
