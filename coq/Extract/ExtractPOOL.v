(* Extraction of engine A.  ExtrOcamlBasic only; no Extract Constant. *)
From Coq Require Extraction ExtrOcamlBasic.
From GV Require Import Pool.Model Pool.Observe Pool.Monitors.
Extraction Language OCaml.
Extraction "pool_model.ml" init_bal full_step observe accept run.
