(* Extraction of engine "keys" (C11).  ExtrOcamlBasic only (bool, option, list,
   prod, unit, sumbool, sumor mapped to OCaml natives); N, positive, nat stay
   the extracted inductives; no Extract Constant. *)
From Coq Require Extraction ExtrOcamlBasic.
From GV Require Import Keys.Model Keys.Spec Keys.Monitors.
From Coq Require Import ZArith.
Extraction Language OCaml.
Extraction "keys_model.ml" getAffinityKeysFromMessage keysFromMessage ref_get_keys to_outcome result_of
  C11_ok C11_total_ok in_model c11_monitor acc_class has_nil_anon_ptr same_result title_ok split_ok title split_dot ascii fanouts
  Z.of_N. (* Z only because ocaml/common/conv.ml mentions the type *)
