(* Extraction of engine D/Config.  ExtrOcamlBasic only (bool, option, list,
   prod, unit, sumbool, sumor mapped to OCaml natives); N, Z, positive, nat,
   ascii and string stay the extracted inductives; no Extract Constant. *)
From Coq Require Extraction ExtrOcamlBasic.
From GV Require Import Config.Model Config.Monitors.
Extraction Language OCaml.
Extraction "config_model.ml" of_json of_json_strict to_json marshal effective method_table lookup
  unresponsive_enabled update shutdown step run_steps gcp_config service_config
  c17 c17core k_PJ1 k_PJ2 k_PJ3 accept_case bal_ok.
