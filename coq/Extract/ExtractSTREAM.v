(* Extraction of engine E (Stream, C12).  ExtrOcamlBasic only; nat stays the
   extracted inductive; no Extract Constant. *)
From Coq Require Extraction ExtrOcamlBasic.
From GV Require Import Stream.Sem Stream.Eq Stream.Monitors Stream.Check Stream.Conc Stream.Unary.
Extraction Language OCaml.
Extraction "stream_model.ml"
  next inits internal label_tid trans_ok state_ok has_internal core_eqb
  conf0 macro site_of stuck_all enabled_step at_streamer newly_parked calls_of
  C12_ok C12_final_ok mon_fail_at mst_init mon_run
  unary_ok unary_accept unary_model.
