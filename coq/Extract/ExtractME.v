(* Extraction of engine B.  ExtrOcamlBasic only (bool, option, list, prod,
   unit, sumbool, sumor mapped to OCaml natives); N, Z, positive, nat stay the
   extracted inductives; no Extract Constant. *)
From Coq Require Extraction ExtrOcamlBasic.
From GV Require Import ME.Model ME.Monitors.
Extraction Language OCaml.
Extraction "me_model.ml" NewMultiEndpoint step legal observe run accept C13_ok C14_ok C14T_ok c13_event c14_event next_list.
