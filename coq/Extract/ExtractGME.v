(* Extraction of engine C (GCPMultiEndpoint) together with engine B's model it
   is built on.  ExtrOcamlBasic only; N, Z, positive, nat stay the extracted
   inductives; no Extract Constant. *)
From Coq Require Extraction ExtrOcamlBasic.
From GV Require Import ME.Model ME.Monitors GME.Model GME.Monitors.
Extraction Language OCaml.
Extraction "gme_model.ml" NewMultiEndpoint step observe gupdate ginit gstep gobserve gtrace gaccept
  C15_ok C16_ok c15_event c16_event check_opts mentioned expected_err gobs_norm.
