(* Boolean equality (sound) and an arbitrary hash for the states of Stream/Sem.v. *)
From Coq Require Import List Bool Arith PArith NArith.
From GV Require Import Stream.Sem.
Import ListNotations.

Definition meth_eqb (a b : meth) : bool :=
  match a, b with
  | MSend, MSend | MRecv, MRecv | MCloseSend, MCloseSend | MHeader, MHeader
  | MTrailer, MTrailer | MContext, MContext => true
  | _, _ => false
  end.

Lemma meth_eqb_sound : forall a b, meth_eqb a b = true -> a = b.
Proof. destruct a, b; simpl; intro H; try reflexivity; discriminate. Qed.

Lemma tid_eqb_sound : forall a b, tid_eqb a b = true -> a = b.
Proof. destruct a, b; simpl; intro H; try reflexivity; discriminate. Qed.

Lemma bool_eqb_sound : forall a b, Bool.eqb a b = true -> a = b.
Proof. intros a b H. apply Bool.eqb_prop. exact H. Qed.

Fixpoint cnd_eqb (a b : cnd) : bool :=
  match a, b with
  | CStreamNil, CStreamNil | CErrSet, CErrSet | CCtxLive, CCtxLive | CWatching, CWatching
  | CCancellable, CCancellable | CLocalErr, CLocalErr | CTrue, CTrue => true
  | CNot x, CNot y => cnd_eqb x y
  | CAnd x1 x2, CAnd y1 y2 => cnd_eqb x1 y1 && cnd_eqb x2 y2
  | COr x1 x2, COr y1 y2 => cnd_eqb x1 y1 && cnd_eqb x2 y2
  | _, _ => false
  end.

Lemma cnd_eqb_sound : forall a b, cnd_eqb a b = true -> a = b.
Proof.
  induction a; destruct b; simpl; intro H; try reflexivity; try discriminate.
  - f_equal. apply IHa. exact H.
  - apply andb_true_iff in H. destruct H. f_equal; [apply IHa1|apply IHa2]; assumption.
  - apply andb_true_iff in H. destruct H. f_equal; [apply IHa1|apply IHa2]; assumption.
Qed.

Definition retk_eqb (a b : retk) : bool :=
  match a, b with
  | RNil, RNil | RLocalErr, RLocalErr | RInitErr, RInitErr | RCtxErr, RCtxErr | RCallCtx, RCallCtx => true
  | _, _ => false
  end.

Lemma retk_eqb_sound : forall a b, retk_eqb a b = true -> a = b.
Proof. destruct a, b; simpl; intro H; try reflexivity; discriminate. Qed.

Fixpoint instr_eqb (a b : instr) : bool :=
  let fix leq (x y : list instr) : bool :=
    match x, y with
    | [], [] => true
    | i :: x', j :: y' => instr_eqb i j && leq x' y'
    | _, _ => false
    end in
  match a, b with
  | ILock, ILock | IUnlock, IUnlock | IBroadcast, IBroadcast | IWait, IWait
  | ISetErr, ISetErr | IClearErr, IClearErr | ILoadErr, ILoadErr | ISetStream, ISetStream
  | ISetWatching, ISetWatching | ISpawn, ISpawn | IAwaitDone, IAwaitDone => true
  | IIf c x, IIf d y => cnd_eqb c d && leq x y
  | IWhile c x, IWhile d y => cnd_eqb c d && leq x y
  | IMkCtx u, IMkCtx v => Bool.eqb u v
  | ICallStreamer u, ICallStreamer v => Bool.eqb u v
  | IReturn r, IReturn q => retk_eqb r q
  | IDelegate m u, IDelegate n v => meth_eqb m n && Bool.eqb u v
  | _, _ => false
  end.

Fixpoint block_eqb (x y : list instr) : bool :=
  match x, y with
  | [], [] => true
  | i :: x', j :: y' => instr_eqb i j && block_eqb x' y'
  | _, _ => false
  end.

Lemma instr_eqb_sound : forall a b, instr_eqb a b = true -> a = b.
Proof.
  fix IH 1.
  assert (L : forall x y,
             (fix leq (x y : list instr) : bool :=
                match x, y with
                | [], [] => true
                | i :: x', j :: y' => instr_eqb i j && leq x' y'
                | _, _ => false
                end) x y = true -> x = y).
  { fix IL 1. intros x y. destruct x as [|i x']; destruct y as [|j y']; intro H;
      try reflexivity; try discriminate.
    apply andb_true_iff in H. destruct H as [H1 H2].
    f_equal; [apply IH; exact H1 | apply IL; exact H2]. }
  intros a b. destruct a; destruct b; simpl; intro H; try reflexivity; try discriminate.
  - apply andb_true_iff in H. destruct H as [H1 H2]. f_equal; [apply cnd_eqb_sound; exact H1 | apply L; exact H2].
  - apply andb_true_iff in H. destruct H as [H1 H2]. f_equal; [apply cnd_eqb_sound; exact H1 | apply L; exact H2].
  - f_equal. apply bool_eqb_sound. exact H.
  - f_equal. apply bool_eqb_sound. exact H.
  - f_equal. apply retk_eqb_sound. exact H.
  - apply andb_true_iff in H. destruct H as [H1 H2]. f_equal; [apply meth_eqb_sound; exact H1 | apply bool_eqb_sound; exact H2].
Qed.

Lemma block_eqb_sound : forall x y, block_eqb x y = true -> x = y.
Proof.
  induction x as [|i x IH]; destruct y as [|j y]; simpl; intro H; try reflexivity; try discriminate.
  apply andb_true_iff in H. destruct H as [H1 H2]. f_equal; [apply instr_eqb_sound; exact H1 | apply IH; exact H2].
Qed.

Definition tstat_eqb (a b : tstat) : bool :=
  match a, b with
  | TIdle, TIdle | TDead, TDead | TFin, TFin => true
  | TRun x, TRun y | TWait x, TWait y | TWoken x, TWoken y => block_eqb x y
  | _, _ => false
  end.

Lemma tstat_eqb_sound : forall a b, tstat_eqb a b = true -> a = b.
Proof.
  destruct a, b; simpl; intro H; try reflexivity; try discriminate; f_equal; apply block_eqb_sound; exact H.
Qed.

Definition ometh_eqb (a b : option meth) : bool :=
  match a, b with
  | None, None => true
  | Some x, Some y => meth_eqb x y
  | _, _ => false
  end.

Definition otid_eqb (a b : option tid) : bool :=
  match a, b with
  | None, None => true
  | Some x, Some y => tid_eqb x y
  | _, _ => false
  end.

Definition thr_eqb (a b : thr) : bool :=
  tstat_eqb (st a) (st b) && ometh_eqb (cm a) (cm b) && Bool.eqb (lerr a) (lerr b) &&
  Bool.eqb (lctx a) (lctx b) && Bool.eqb (lcs a) (lcs b) && Bool.eqb (post a) (post b).

Lemma thr_eqb_sound : forall a b, thr_eqb a b = true -> a = b.
Proof.
  intros [s1 c1 e1 x1 r1 p1] [s2 c2 e2 x2 r2 p2]. unfold thr_eqb. simpl. intro H.
  repeat (apply andb_true_iff in H; destruct H as [H ?]).
  apply tstat_eqb_sound in H. subst.
  assert (c1 = c2).
  { destruct c1, c2; simpl in *; try discriminate; try reflexivity. f_equal. apply meth_eqb_sound. assumption. }
  subst.
  repeat match goal with E : Bool.eqb _ _ = true |- _ => apply bool_eqb_sound in E; subst end.
  reflexivity.
Qed.

Definition core_eqb (a b : core) : bool :=
  (* cheap fields first *)
  Bool.eqb (stream a) (stream b) && Bool.eqb (err a) (err b) && Bool.eqb (watching a) (watching b) &&
  Bool.eqb (cdone a) (cdone b) && Bool.eqb (cancellable a) (cancellable b) && otid_eqb (mu a) (mu b) &&
  Bool.eqb (created a) (created b) && Bool.eqb (anyfail a) (anyfail b) &&
  thr_eqb (th0 a) (th0 b) && thr_eqb (th1 a) (th1 b) && thr_eqb (thw a) (thw b).

Lemma core_eqb_sound : forall a b, core_eqb a b = true -> a = b.
Proof.
  intros [a0 a1 aw as_ ae awt ad ac am acr af] [b0 b1 bw bs be bwt bd bc bm bcr bf].
  unfold core_eqb. simpl. intro H.
  repeat (apply andb_true_iff in H; destruct H as [H ?]).
  repeat match goal with E : thr_eqb _ _ = true |- _ => apply thr_eqb_sound in E; subst end.
  assert (am = bm).
  { destruct am, bm; simpl in *; try discriminate; try reflexivity. f_equal. apply tid_eqb_sound. assumption. }
  subst.
  repeat match goal with E : Bool.eqb _ _ = true |- _ => apply bool_eqb_sound in E; subst end.
  reflexivity.
Qed.

(* ---- hash: any function will do (only speed depends on it) ---- *)
Local Open Scope N_scope.

(* h * 33 + x mod 2^20, with a shift instead of a multiplication (cheap under vm_compute) *)
Definition mix (h x : N) : N := N.land (N.shiftl h 5 + h + x) 1048575.

Definition hb (b : bool) : N := if b then 1 else 0.

Definition hmeth (m : meth) : N :=
  match m with MSend => 1 | MRecv => 2 | MCloseSend => 3 | MHeader => 4 | MTrailer => 5 | MContext => 6 end.

Fixpoint hcnd (c : cnd) : N :=
  match c with
  | CStreamNil => 1 | CErrSet => 2 | CCtxLive => 3 | CWatching => 4 | CCancellable => 5 | CLocalErr => 6 | CTrue => 7
  | CNot a => mix 8 (hcnd a)
  | CAnd a b => mix (mix 9 (hcnd a)) (hcnd b)
  | COr a b => mix (mix 10 (hcnd a)) (hcnd b)
  end.

(* the head constructor and the length are enough to separate continuations of one program well *)
Definition hinstr (i : instr) : N :=
  match i with
  | ILock => 1 | IUnlock => 2 | IBroadcast => 3 | IWait => 4
  | IIf c b => mix (mix 5 (hcnd c)) (N.of_nat (length b))
  | IWhile c b => mix (mix 6 (hcnd c)) (N.of_nat (length b))
  | IMkCtx u => 7 + hb u | ICallStreamer u => 9 + hb u
  | ISetErr => 11 | IClearErr => 12 | ILoadErr => 13 | ISetStream => 14 | ISetWatching => 15
  | ISpawn => 16 | IAwaitDone => 17
  | IReturn r => 18 + match r with RNil => 0 | RLocalErr => 1 | RInitErr => 2 | RCtxErr => 3 | RCallCtx => 4 end
  | IDelegate m u => 24 + 2 * hmeth m + hb u
  end.

Definition hblock (k : list instr) : N :=
  match k with
  | [] => 0
  | i :: r => mix (mix (N.of_nat (length k)) (hinstr i)) (match r with j :: _ => hinstr j | [] => 0 end)
  end.

Definition htstat (s : tstat) : N :=
  match s with
  | TIdle => 1 | TDead => 2 | TFin => 3
  | TRun k => mix 4 (hblock k) | TWait k => mix 5 (hblock k) | TWoken k => mix 6 (hblock k)
  end.

Definition hthr (x : thr) : N :=
  mix (mix (mix (mix (mix (htstat (st x)) (match cm x with None => 0 | Some m => hmeth m end))
                     (hb (lerr x))) (hb (lctx x))) (hb (lcs x))) (hb (post x)).

Definition hcore (s : core) : positive :=
  let flags :=
    hb (stream s) + 2 * hb (err s) + 4 * hb (watching s) + 8 * hb (cdone s) + 16 * hb (cancellable s) +
    32 * hb (created s) + 64 * hb (anyfail s) +
    128 * match mu s with None => 0 | Some T0 => 1 | Some T1 => 2 | Some TW => 3 end in
  N.succ_pos (mix (mix (mix flags (hthr (th0 s))) (hthr (th1 s))) (hthr (thw s))).
