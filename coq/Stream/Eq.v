(* Boolean equality (sound) and an arbitrary hash for the states of Stream/Sem.v. *)
From Coq Require Import List Bool Arith PArith NArith.
From GV Require Import Stream.Sem.
Import ListNotations.

Definition meth_eqb (a b : meth) : bool :=
  match a, b with
  | MSend, MSend | MRecv, MRecv | MCloseSend, MCloseSend | MHeader, MHeader
  | MTrailer, MTrailer | MContext, MContext => true
  | _, _ => false
  end.

Lemma meth_eqb_sound : forall a b, meth_eqb a b = true -> a = b.
Proof. destruct a, b; simpl; intro H; try reflexivity; discriminate. Qed.

Lemma tid_eqb_sound : forall a b, tid_eqb a b = true -> a = b.
Proof. destruct a, b; simpl; intro H; try reflexivity; discriminate. Qed.

Lemma bool_eqb_sound : forall a b, Bool.eqb a b = true -> a = b.
Proof. intros a b H. apply Bool.eqb_prop. exact H. Qed.

Fixpoint cnd_eqb (a b : cnd) : bool :=
  match a, b with
  | CStreamNil, CStreamNil | CErrSet, CErrSet | CCtxLive, CCtxLive | CWatching, CWatching
  | CCancellable, CCancellable | CLocalErr, CLocalErr | CTrue, CTrue => true
  | CNot x, CNot y => cnd_eqb x y
  | CAnd x1 x2, CAnd y1 y2 => cnd_eqb x1 y1 && cnd_eqb x2 y2
  | COr x1 x2, COr y1 y2 => cnd_eqb x1 y1 && cnd_eqb x2 y2
  | _, _ => false
  end.

Lemma cnd_eqb_sound : forall a b, cnd_eqb a b = true -> a = b.
Proof.
  induction a; destruct b; simpl; intro H; try reflexivity; try discriminate.
  - f_equal. apply IHa. exact H.
  - apply andb_true_iff in H. destruct H. f_equal; [apply IHa1|apply IHa2]; assumption.
  - apply andb_true_iff in H. destruct H. f_equal; [apply IHa1|apply IHa2]; assumption.
Qed.

Definition retk_eqb (a b : retk) : bool :=
  match a, b with
  | RNil, RNil | RLocalErr, RLocalErr | RInitErr, RInitErr | RCtxErr, RCtxErr | RCallCtx, RCallCtx => true
  | _, _ => false
  end.

Lemma retk_eqb_sound : forall a b, retk_eqb a b = true -> a = b.
Proof. destruct a, b; simpl; intro H; try reflexivity; discriminate. Qed.

Fixpoint instr_eqb (a b : instr) : bool :=
  let fix leq (x y : list instr) : bool :=
    match x, y with
    | [], [] => true
    | i :: x', j :: y' => instr_eqb i j && leq x' y'
    | _, _ => false
    end in
  match a, b with
  | ILock, ILock | IUnlock, IUnlock | IBroadcast, IBroadcast | IWait, IWait
  | ISetErr, ISetErr | IClearErr, IClearErr | ILoadErr, ILoadErr | ISetStream, ISetStream
  | ISetWatching, ISetWatching | ISpawn, ISpawn | IAwaitDone, IAwaitDone => true
  | IIf c x, IIf d y => cnd_eqb c d && leq x y
  | IWhile c x, IWhile d y => cnd_eqb c d && leq x y
  | IIfElse c x1 x2, IIfElse d y1 y2 => cnd_eqb c d && leq x1 y1 && leq x2 y2
  | IMkCtx u, IMkCtx v => Bool.eqb u v
  | ICallStreamer u, ICallStreamer v => Bool.eqb u v
  | IReturn r, IReturn q => retk_eqb r q
  | IDelegate m u, IDelegate n v => meth_eqb m n && Bool.eqb u v
  | _, _ => false
  end.

Fixpoint block_eqb (x y : list instr) : bool :=
  match x, y with
  | [], [] => true
  | i :: x', j :: y' => instr_eqb i j && block_eqb x' y'
  | _, _ => false
  end.

Lemma instr_eqb_sound : forall a b, instr_eqb a b = true -> a = b.
Proof.
  fix IH 1.
  assert (L : forall x y,
             (fix leq (x y : list instr) : bool :=
                match x, y with
                | [], [] => true
                | i :: x', j :: y' => instr_eqb i j && leq x' y'
                | _, _ => false
                end) x y = true -> x = y).
  { fix IL 1. intros x y. destruct x as [|i x']; destruct y as [|j y']; intro H;
      try reflexivity; try discriminate.
    apply andb_true_iff in H. destruct H as [H1 H2].
    f_equal; [apply IH; exact H1 | apply IL; exact H2]. }
  intros a b. destruct a; destruct b; simpl; intro H; try reflexivity; try discriminate.
  - apply andb_true_iff in H. destruct H as [H1 H2]. f_equal; [apply cnd_eqb_sound; exact H1 | apply L; exact H2].
  - apply andb_true_iff in H. destruct H as [H H3]. apply andb_true_iff in H. destruct H as [H1 H2].
    f_equal; [apply cnd_eqb_sound; exact H1 | apply L; exact H2 | apply L; exact H3].
  - apply andb_true_iff in H. destruct H as [H1 H2]. f_equal; [apply cnd_eqb_sound; exact H1 | apply L; exact H2].
  - f_equal. apply bool_eqb_sound. exact H.
  - f_equal. apply bool_eqb_sound. exact H.
  - f_equal. apply retk_eqb_sound. exact H.
  - apply andb_true_iff in H. destruct H as [H1 H2]. f_equal; [apply meth_eqb_sound; exact H1 | apply bool_eqb_sound; exact H2].
Qed.

Lemma block_eqb_sound : forall x y, block_eqb x y = true -> x = y.
Proof.
  induction x as [|i x IH]; destruct y as [|j y]; simpl; intro H; try reflexivity; try discriminate.
  apply andb_true_iff in H. destruct H as [H1 H2]. f_equal; [apply instr_eqb_sound; exact H1 | apply IH; exact H2].
Qed.

Definition tstat_eqb (a b : tstat) : bool :=
  match a, b with
  | TIdle, TIdle | TDead, TDead | TFin, TFin => true
  | TRun x, TRun y | TWait x, TWait y | TWoken x, TWoken y => block_eqb x y
  | _, _ => false
  end.

Lemma tstat_eqb_sound : forall a b, tstat_eqb a b = true -> a = b.
Proof.
  destruct a, b; simpl; intro H; try reflexivity; try discriminate; f_equal; apply block_eqb_sound; exact H.
Qed.

Definition ometh_eqb (a b : option meth) : bool :=
  match a, b with
  | None, None => true
  | Some x, Some y => meth_eqb x y
  | _, _ => false
  end.

Definition otid_eqb (a b : option tid) : bool :=
  match a, b with
  | None, None => true
  | Some x, Some y => tid_eqb x y
  | _, _ => false
  end.

Definition thr_eqb (a b : thr) : bool :=
  tstat_eqb (st a) (st b) && ometh_eqb (cm a) (cm b) && Bool.eqb (lerr a) (lerr b) &&
  Bool.eqb (lctx a) (lctx b) && Bool.eqb (lcs a) (lcs b) && Bool.eqb (post a) (post b).

Lemma thr_eqb_sound : forall a b, thr_eqb a b = true -> a = b.
Proof.
  intros [s1 c1 e1 x1 r1 p1] [s2 c2 e2 x2 r2 p2]. unfold thr_eqb. simpl. intro H.
  repeat (apply andb_true_iff in H; destruct H as [H ?]).
  apply tstat_eqb_sound in H. subst.
  assert (c1 = c2).
  { destruct c1, c2; simpl in *; try discriminate; try reflexivity. f_equal. apply meth_eqb_sound. assumption. }
  subst.
  repeat match goal with E : Bool.eqb _ _ = true |- _ => apply bool_eqb_sound in E; subst end.
  reflexivity.
Qed.

Definition core_eqb (a b : core) : bool :=
  (* cheap fields first *)
  Bool.eqb (stream a) (stream b) && Bool.eqb (err a) (err b) && Bool.eqb (watching a) (watching b) &&
  Bool.eqb (cdone a) (cdone b) && Bool.eqb (cancellable a) (cancellable b) && otid_eqb (mu a) (mu b) &&
  Bool.eqb (created a) (created b) && Bool.eqb (anyfail a) (anyfail b) &&
  thr_eqb (th0 a) (th0 b) && thr_eqb (th1 a) (th1 b) && thr_eqb (thw a) (thw b).

Lemma core_eqb_sound : forall a b, core_eqb a b = true -> a = b.
Proof.
  intros [a0 a1 aw as_ ae awt ad ac am acr af] [b0 b1 bw bs be bwt bd bc bm bcr bf].
  unfold core_eqb. simpl. intro H.
  repeat (apply andb_true_iff in H; destruct H as [H ?]).
  repeat match goal with E : thr_eqb _ _ = true |- _ => apply thr_eqb_sound in E; subst end.
  assert (am = bm).
  { destruct am, bm; simpl in *; try discriminate; try reflexivity. f_equal. apply tid_eqb_sound. assumption. }
  subst.
  repeat match goal with E : Bool.eqb _ _ = true |- _ => apply bool_eqb_sound in E; subst end.
  reflexivity.
Qed.

(* ---- hash: any function will do (only speed depends on it).  The key is built
   by concatenating small bit strings: no arithmetic, cheap under vm_compute. ---- *)
Local Open Scope positive_scope.

(* the bits of a (without its leading 1) in front of b *)
Fixpoint papp (a b : positive) : positive :=
  match a with xH => b | xO a' => xO (papp a' b) | xI a' => xI (papp a' b) end.

Definition pb (v : bool) (p : positive) : positive := if v then xI p else xO p.

Definition hmeth (m : meth) : positive :=
  match m with MSend => 9 | MRecv => 10 | MCloseSend => 11 | MHeader => 12 | MTrailer => 13 | MContext => 14 end.

Fixpoint hcnd (c : cnd) : positive :=
  match c with
  | CStreamNil => 16 | CErrSet => 17 | CCtxLive => 18 | CWatching => 19 | CCancellable => 20 | CLocalErr => 21 | CTrue => 22
  | CNot a => papp 23 (hcnd a)
  | CAnd a b => papp 24 (papp (hcnd a) (hcnd b))
  | COr a b => papp 25 (papp (hcnd a) (hcnd b))
  end.

(* head constructor (+ condition and body length for if/for) *)
Definition hinstr (i : instr) : positive :=
  match i with
  | ILock => 32 | IUnlock => 33 | IBroadcast => 34 | IWait => 35
  | IIf c b => papp 36 (papp (hcnd c) (Pos.of_succ_nat (length b)))
  | IWhile c b => papp 37 (papp (hcnd c) (Pos.of_succ_nat (length b)))
  | IIfElse c a b => papp 58 (papp (hcnd c) (papp (Pos.of_succ_nat (length a)) (Pos.of_succ_nat (length b))))
  | IMkCtx u => pb u 38 | ICallStreamer u => pb u 39
  | ISetErr => 40 | IClearErr => 41 | ILoadErr => 42 | ISetStream => 43 | ISetWatching => 44
  | ISpawn => 45 | IAwaitDone => 46
  | IReturn r => match r with RNil => 47 | RLocalErr => 48 | RInitErr => 49 | RCtxErr => 50 | RCallCtx => 51 end
  | IDelegate m u => pb u (papp 52 (hmeth m))
  end.

(* length and the first two instructions separate the continuations of one program well *)
Definition hblock (k : list instr) (p : positive) : positive :=
  match k with
  | [] => xO p
  | i :: r => papp (Pos.of_succ_nat (length k))
                   (papp (hinstr i) (match r with j :: _ => papp (hinstr j) p | [] => xI p end))
  end.

Definition htstat (s : tstat) (p : positive) : positive :=
  match s with
  | TIdle => papp 8 p | TDead => papp 9 p | TFin => papp 10 p
  | TRun k => papp 11 (hblock k p) | TWait k => papp 12 (hblock k p) | TWoken k => papp 13 (hblock k p)
  end.

Definition hthr (x : thr) (p : positive) : positive :=
  htstat (st x)
    (papp (match cm x with None => 8 | Some m => hmeth m end)
          (pb (lerr x) (pb (lctx x) (pb (lcs x) (pb (post x) p))))).

Definition hcore (s : core) : positive :=
  pb (stream s) (pb (err s) (pb (watching s) (pb (cdone s) (pb (cancellable s) (pb (created s) (pb (anyfail s)
    (papp (match mu s with None => 4 | Some T0 => 5 | Some T1 => 6 | Some TW => 7 end)
          (hthr (th0 s) (hthr (th1 s) (hthr (thw s) 1)))))))))).
