(* C12 - Interceptors: transparent, and streams are created once on first send.
   Statements only; the proofs are in Unary.v, Check.v, ConcProofs.v, RefProofs.v. *)
From Coq Require Import List Bool Arith.
From GV Require Import Stream.Sem Stream.Eq Stream.ClosedSet Stream.Monitors Stream.Check Stream.Conc
  Stream.ConcProofs Stream.Unary Stream.RefIR Stream.RefProofs.
Import ListNotations.

(* ---- unary interceptor, for every invoker ---- *)
Theorem C12_unary_transparent :
  forall (methodT msgT ccT optT errT : Type) (inv : invoker methodT msgT ccT optT errT) c m req reply cc opts,
  exists c',
    unary methodT msgT ccT optT errT c m req reply cc inv opts = inv c' m req reply cc opts /\
    (forall k, k <> KGcp -> c' k = c k) /\
    c' KGcp = Some (CGcp msgT req reply).
Proof. exact unary_transparent. Qed.

Theorem C12_unary_monitor : forall u keys, In KGcp keys -> unary_ok u (unary_model u keys) = true.
Proof. exact unary_model_ok. Qed.

(* ---- stream wrapper: any program that passes the verified closed-set check ---- *)
Theorem C12_stream_generic : forall P, check_prog P = true ->
  forall c, crun P c -> C12_ok (c_log c) = true.
Proof. exact C12_holds. Qed.

Theorem C12_stream_final_generic : forall P, check_prog P = true ->
  forall c, crun P c -> has_internal P (c_s c) = false -> C12_final_ok (c_log c) (stuck_all c) = true.
Proof. exact C12_final_holds. Qed.

Theorem C12_macro_steps_are_runs : forall P c ch c' b, crun P c -> macro P c ch = Some (c', b) -> crun P c'.
Proof. exact macro_crun. Qed.

(* ---- the reference program (the source with proposed_fixes/stream_S1..S3) ---- *)
Theorem C12_stream : forall c, crun the_prog c -> C12_ok (c_log c) = true.
Proof. exact ref_C12_holds. Qed.

Theorem C12_stream_final : forall c, crun the_prog c -> has_internal the_prog (c_s c) = false ->
  C12_final_ok (c_log c) (stuck_all c) = true.
Proof. exact ref_C12_final_holds. Qed.

Theorem C12_single_creation : forall s, reachable the_prog s ->
  forall t wm ok s', In (LCreate t wm ok, s') (next the_prog s) -> created s = false.
Proof. exact ref_single_creation. Qed.

Theorem C12_first_message_visible : forall s, reachable the_prog s ->
  forall t wm ok s', In (LCreate t wm ok, s') (next the_prog s) ->
    wm = true /\ exists p, a_open (amon s) t = Some (MSend, p).
Proof. exact ref_first_message_visible. Qed.

Theorem C12_recv_waits_then_delegates : forall s, reachable the_prog s -> forall t,
  (forall m same s', In (LDeleg t m same, s') (next the_prog s) ->
     created s = true /\ same = true /\ exists p, a_open (amon s) t = Some (m, p)) /\
  (forall r v s', In (LRet t r v, s') (next the_prog s) -> is_user t = true ->
     exists m, a_open (amon s) t = Some (m, false) /\ ret_allowed (amon s) m v = true).
Proof. exact ref_recv_waits_then_delegates. Qed.

Theorem C12_delegation_in_order : forall s, reachable the_prog s -> forall t m,
  cm (get_thr s t) = Some m -> post (get_thr s t) = true -> is_user t = true ->
  (forall r v s', ~ In (LRet t r v, s') (next the_prog s)) /\
  (forall m' same s', In (LDeleg t m' same, s') (next the_prog s) -> m' = m /\ same = true).
Proof. exact ref_delegation_in_order. Qed.

Theorem C12_no_method_panics : forall s, reachable the_prog s ->
  forall t w s', ~ In (LPanic t w, s') (next the_prog s).
Proof. exact ref_no_method_panics. Qed.

Theorem C12_mutex_discipline : forall s, reachable the_prog s ->
  (forall t s', ~ In (LForeignUnlock t, s') (next the_prog s)) /\
  (forall t s', ~ In (LPanic t WUnlockUnlocked, s') (next the_prog s)) /\
  (forall t r v s', In (LRet t r v, s') (next the_prog s) -> holds s t = false) /\
  (forall t m same s', In (LDeleg t m same, s') (next the_prog s) -> holds s t = false).
Proof. exact ref_mutex_discipline. Qed.

Theorem C12_no_lost_wakeup : forall s, reachable the_prog s -> has_internal the_prog s = false ->
  forall t k, st (get_thr s t) = TWait k ->
    stream s = false /\ err s = false /\ cdone s = false /\ stuck_ok (amon s) (StuckWait t) = true.
Proof. exact ref_no_lost_wakeup. Qed.

Theorem C12_no_deadlock : forall s, reachable the_prog s -> has_internal the_prog s = false ->
  forall t, match st (get_thr s t) with
            | TIdle | TFin | TWait _ => True
            | TRun (IAwaitDone :: _) => cdone s = false
            | _ => False
            end.
Proof. exact ref_no_deadlock. Qed.

Theorem C12_calls_terminate : exists bound : core -> nat,
  forall s, reachable the_prog s -> forall n, ipath core label (next the_prog) internal s n -> n <= bound s.
Proof. exact ref_internal_steps_bounded. Qed.

Print Assumptions C12_unary_transparent.
Print Assumptions C12_unary_monitor.
Print Assumptions C12_stream_generic.
Print Assumptions C12_stream_final_generic.
Print Assumptions C12_macro_steps_are_runs.
Print Assumptions C12_stream.
Print Assumptions C12_stream_final.
Print Assumptions C12_single_creation.
Print Assumptions C12_first_message_visible.
Print Assumptions C12_recv_waits_then_delegates.
Print Assumptions C12_delegation_in_order.
Print Assumptions C12_no_method_panics.
Print Assumptions C12_mutex_discipline.
Print Assumptions C12_no_lost_wakeup.
Print Assumptions C12_no_deadlock.
Print Assumptions C12_calls_terminate.

(* ---- non-vacuity: the monitor accepts a real run and refuses the known defects ---- *)
(* receiver first, creation fails, retry succeeds, both delegate *)
Example good_run : C12_final_ok
  [ECall T1 MRecv 1; ECall T0 MSend 1; ECreate T0 (Some 1) 0 false; ERet T0 (VErr 0); ERet T1 (VErr 0);
   ECall T0 MSend 2; ECreate T0 (Some 2) 1 true; EDeleg T0 MSend 2; ECall T1 MRecv 2; EDeleg T1 MRecv 2] [] = true.
Proof. vm_compute. reflexivity. Qed.

Example waiting_without_send_is_fine : C12_final_ok [ECall T1 MRecv 1] [StuckWait T1] = true.
Proof. vm_compute. reflexivity. Qed.

(* S1: Header before the first SendMsg panics *)
Example bad_S1 : C12_ok [ECall T0 MHeader 0; EPanic T0] = false.
Proof. vm_compute. reflexivity. Qed.

(* S2: RecvMsg still waiting after the context ended *)
Example bad_S2 : C12_final_ok [ECall T1 MRecv 1; ECancel] [StuckWait T1] = false.
Proof. vm_compute. reflexivity. Qed.

(* S3: RecvMsg issued after the successful retry returns the first attempt's error *)
Example bad_S3 : C12_ok
  [ECall T0 MSend 1; ECreate T0 (Some 1) 0 false; ERet T0 (VErr 0); ECall T0 MSend 2; ECreate T0 (Some 2) 1 true;
   EDeleg T0 MSend 2; ECall T1 MRecv 1; ERet T1 (VErr 0)] = false.
Proof. vm_compute. reflexivity. Qed.

Example bad_second_creation : C12_ok
  [ECall T0 MSend 1; ECreate T0 (Some 1) 0 true; EDeleg T0 MSend 1; ECall T0 MSend 2; ECreate T0 (Some 2) 1 true] = false.
Proof. vm_compute. reflexivity. Qed.

Example bad_message_not_in_ctx : C12_ok [ECall T0 MSend 1; ECreate T0 None 0 true] = false.
Proof. vm_compute. reflexivity. Qed.

Example bad_other_message_in_ctx : C12_ok [ECall T0 MSend 1; ECreate T0 (Some 2) 0 true] = false.
Proof. vm_compute. reflexivity. Qed.

Example bad_lost_wakeup : C12_final_ok
  [ECall T1 MRecv 1; ECall T0 MSend 1; ECreate T0 (Some 1) 0 true; EDeleg T0 MSend 1] [StuckWait T1] = false.
Proof. vm_compute. reflexivity. Qed.

Example bad_recv_without_stream : C12_ok [ECall T1 MRecv 1; ERet T1 VNil] = false.
Proof. vm_compute. reflexivity. Qed.

Example bad_changed_argument : C12_ok
  [ECall T0 MSend 1; ECreate T0 (Some 1) 0 true; EDeleg T0 MSend 2] = false.
Proof. vm_compute. reflexivity. Qed.

(* the unary monitor refuses a swapped request/reply, a dropped option, a lost context value *)
Definition ucase : ucall :=
  {| u_ctx := [(KUser 3, UVal 7)]; u_method := 1; u_req := 2; u_reply := 4; u_cc := 0; u_opts := [5; 6]; u_err := 1 |}.
Example unary_good : unary_ok ucase (unary_model ucase [KGcp; KUser 3; KUser 9]) = true.
Proof. vm_compute. reflexivity. Qed.
Example unary_bad_swapped : unary_ok ucase
  {| s_called := 1; s_method := 1; s_req := 2; s_reply := 4; s_cc := 0; s_opts := [5; 6];
     s_values := [(KGcp, Some (UGcp 4 2)); (KUser 3, Some (UVal 7))]; s_ret := 1 |} = false.
Proof. vm_compute. reflexivity. Qed.
Example unary_bad_opts : unary_ok ucase
  {| s_called := 1; s_method := 1; s_req := 2; s_reply := 4; s_cc := 0; s_opts := [];
     s_values := [(KGcp, Some (UGcp 2 4)); (KUser 3, Some (UVal 7))]; s_ret := 1 |} = false.
Proof. vm_compute. reflexivity. Qed.
Example unary_bad_ctx : unary_ok ucase
  {| s_called := 1; s_method := 1; s_req := 2; s_reply := 4; s_cc := 0; s_opts := [5; 6];
     s_values := [(KGcp, None); (KUser 3, Some (UVal 7))]; s_ret := 1 |} = false.
Proof. vm_compute. reflexivity. Qed.
