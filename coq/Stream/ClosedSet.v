(* A verified closed-set checker for finite labelled transition systems, proved
   once for any system with a sound boolean state equality.

   closed_sound : if a finite set S (hash buckets in a PositiveMap; the hash
     function is arbitrary - nothing is assumed about it) contains the initial
     states, is closed under `next` (boolean check), every member satisfies the
     boolean P and every transition leaving a member satisfies the boolean Q,
     then every reachable state is in S, satisfies P, and all its transitions
     satisfy Q.
   rank_sound : if moreover a function rank : state -> nat strictly decreases
     along every `internal` transition leaving a member of S, then every path
     of internal transitions from a reachable state s has at most rank s steps
     (termination of the internal steps under every schedule).
   The set S and the rank are computed by `explore` / `ranks` below, but nothing
   about those two functions is trusted: only their results are checked.   *)
From Coq Require Import List Bool Arith PArith FMapPositive Lia.
Import ListNotations.

Section TS.
  Variables (state label : Type).
  Variable next : state -> list (label * state).
  Variable inits : list state.
  Variable eqb : state -> state -> bool.
  Hypothesis eqb_sound : forall a b, eqb a b = true -> a = b.
  Variable hash : state -> positive.

  Inductive reach : state -> Prop :=
  | reach_init : forall s, In s inits -> reach s
  | reach_step : forall s l s', reach s -> In (l, s') (next s) -> reach s'.

  Definition table := PositiveMap.t (list state).

  Definition bucket (m : table) (h : positive) : list state :=
    match PositiveMap.find h m with Some b => b | None => [] end.

  Definition mem (m : table) (s : state) : bool := existsb (eqb s) (bucket m (hash s)).

  Definition members (m : table) : list state :=
    flat_map snd (PositiveMap.elements m).

  Lemma mem_sound : forall m s, mem m s = true -> In s (members m).
  Proof.
    unfold mem, bucket, members. intros m s H.
    destruct (PositiveMap.find (hash s) m) as [b|] eqn:F; [|discriminate].
    apply existsb_exists in H. destruct H as [y [Hy E]].
    apply eqb_sound in E. subst y.
    apply in_flat_map. exists (hash s, b). split; [|exact Hy].
    apply PositiveMap.elements_correct. exact F.
  Qed.

  Variable P : state -> bool.
  Variable Q : state -> label -> state -> bool.

  Definition check_state (m : table) (s : state) : bool :=
    P s && forallb (fun ls => mem m (snd ls) && Q s (fst ls) (snd ls)) (next s).

  Definition closed_ok (m : table) : bool :=
    forallb (mem m) inits && forallb (check_state m) (members m).

  Theorem closed_sound : forall m, closed_ok m = true ->
    forall s, reach s ->
      In s (members m) /\ P s = true /\
      forall l s', In (l, s') (next s) -> Q s l s' = true.
  Proof.
    intros m H. unfold closed_ok in H. apply andb_true_iff in H. destruct H as [HI HC].
    rewrite forallb_forall in HI, HC.
    assert (A : forall s, In s (members m) ->
              P s = true /\ forall l s', In (l, s') (next s) -> In s' (members m) /\ Q s l s' = true).
    { intros s Hs. specialize (HC s Hs). unfold check_state in HC.
      apply andb_true_iff in HC. destruct HC as [HP HN]. split; [exact HP|].
      intros l s' Hin. rewrite forallb_forall in HN. specialize (HN (l, s') Hin). simpl in HN.
      apply andb_true_iff in HN. destruct HN as [HM HQ]. split; [apply mem_sound; exact HM | exact HQ]. }
    assert (B : forall s, reach s -> In s (members m)).
    { intros s R. induction R as [s Hs | s l s' R IH Hin].
      - apply mem_sound. apply HI. exact Hs.
      - destruct (A s IH) as [_ HN]. destruct (HN l s' Hin) as [HM _]. exact HM. }
    intros s R. pose proof (B s R) as Hs. destruct (A s Hs) as [HP HN].
    split; [exact Hs|]. split; [exact HP|]. intros l s' Hin. destruct (HN l s' Hin) as [_ HQ]. exact HQ.
  Qed.

  (* ---- termination of internal steps ---- *)
  Variable internal : label -> bool.
  Variable rank : state -> nat.

  Definition rank_ok (m : table) : bool :=
    forallb (fun s => forallb (fun ls => negb (internal (fst ls)) || (rank (snd ls) <? rank s)) (next s))
            (members m).

  (* ipath s n : there is a path of n internal steps starting in s *)
  Inductive ipath : state -> nat -> Prop :=
  | ipath_nil : forall s, ipath s 0
  | ipath_cons : forall s l s' n, In (l, s') (next s) -> internal l = true -> ipath s' n -> ipath s (S n).

  Theorem rank_sound : forall m, closed_ok m = true -> rank_ok m = true ->
    forall s, reach s -> forall n, ipath s n -> n <= rank s.
  Proof.
    intros m HC HR s R n Hp. revert R.
    induction Hp as [s | s l s' n Hin Hint Hp IH]; intro R; [lia|].
    pose proof (closed_sound m HC s R) as [Hs _].
    unfold rank_ok in HR. rewrite forallb_forall in HR. specialize (HR s Hs).
    rewrite forallb_forall in HR. specialize (HR (l, s') Hin). simpl in HR.
    rewrite Hint in HR. simpl in HR. apply Nat.ltb_lt in HR.
    assert (R' : reach s') by (eapply reach_step; eauto).
    specialize (IH R'). lia.
  Qed.

  (* ---- untrusted helpers: exploration and ranks ---- *)
  Definition insert (m : table) (s : state) : table :=
    PositiveMap.add (hash s) (s :: bucket m (hash s)) m.

  Fixpoint add_new (m : table) (l : list state) (acc : list state) : table * list state :=
    match l with
    | [] => (m, acc)
    | s :: r => if mem m s then add_new m r acc else add_new (insert m s) r (s :: acc)
    end.

  (* breadth-first: `frontier` holds states already inserted but not expanded *)
  Fixpoint explore (fuel : nat) (m : table) (frontier : list state) : table * bool :=
    match fuel with
    | 0 => (m, match frontier with [] => true | _ => false end)
    | S f =>
        match frontier with
        | [] => (m, true)
        | _ =>
            let '(m', fr') :=
              fold_left (fun acc s => add_new (fst acc) (map snd (next s)) (snd acc)) frontier (m, []) in
            explore f m' fr'
        end
    end.

  Definition explore_all (fuel : nat) : table * bool :=
    let '(m0, fr0) := add_new (PositiveMap.empty _) inits [] in explore fuel m0 fr0.

  (* rank table: longest internal path, by depth-first search with memo *)
  Definition rtable := PositiveMap.t (list (state * nat)).

  Definition rfind (r : rtable) (s : state) : option nat :=
    match PositiveMap.find (hash s) r with
    | Some b => match find (fun p => eqb s (fst p)) b with Some p => Some (snd p) | None => None end
    | None => None
    end.

  Definition rset (r : rtable) (s : state) (n : nat) : rtable :=
    let b := match PositiveMap.find (hash s) r with Some b => b | None => [] end in
    PositiveMap.add (hash s) ((s, n) :: b) r.

  Definition rank_of (r : rtable) (s : state) : nat :=
    match rfind r s with Some n => n | None => 0 end.

  Fixpoint dfs (fuel : nat) (r : rtable) (s : state) : rtable * nat :=
    match rfind r s with
    | Some n => (r, n)
    | None =>
        match fuel with
        | 0 => (r, 0)
        | S f =>
            (* provisional entry: a cycle comes back to it and the check fails later *)
            let r0 := rset r s 0 in
            let '(r1, best) :=
              fold_left (fun acc ls =>
                           if internal (fst ls) then
                             let '(r', n) := dfs f (fst acc) (snd ls) in (r', Nat.max (snd acc) (S n))
                           else acc)
                        (next s) (r0, 0) in
            (rset r1 s best, best)
        end
    end.

  Definition ranks (fuel : nat) (m : table) : rtable :=
    fold_left (fun r s => fst (dfs fuel r s)) (members m) (PositiveMap.empty _).

  Definition count_transitions (m : table) : nat :=
    fold_left (fun n s => n + length (next s)) (members m) 0.
End TS.
