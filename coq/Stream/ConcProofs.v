(* From the checked core system to the logs: for ANY program P that passes the
   verified closed-set check, the monitor C12_ok accepts the event log of every
   concrete run (every interleaving, every creation outcome, every argument,
   cancellation anywhere, call sequences of any length). *)
From Coq Require Import List Bool Arith Lia.
From GV Require Import Stream.Sem Stream.Eq Stream.ClosedSet Stream.Monitors Stream.Check Stream.Conc.
Import ListNotations.

Lemma mon_run_app : forall es1 es2 ms,
  mon_run ms (es1 ++ es2) = match mon_run ms es1 with Some ms' => mon_run ms' es2 | None => None end.
Proof.
  induction es1 as [|e r IH]; intros es2 ms; simpl; [reflexivity|].
  destruct (mon_step ms e); [apply IH | reflexivity].
Qed.

Lemma crun_reachable : forall P c, crun P c -> reachable P (c_s c).
Proof.
  intros P c H. induction H as [canc | c l s' a H IH Hin].
  - apply reach_init. simpl. destruct canc; auto.
  - unfold apply. destruct (emit (c_s c) (c_d c) l a) as [evs d']. simpl.
    eapply reach_step; eauto.
Qed.

Definition args_agree (ms : mst) (d : deco) : Prop :=
  m_arg0 ms = d_arg0 d /\ m_arg1 ms = d_arg1 d.

Lemma args_agree_t : forall ms d t, args_agree ms d -> m_arg ms t = d_arg d t.
Proof. intros ms d t [A B]. destruct t; simpl; auto. Qed.

Lemma eqb_S_false : forall n, Nat.eqb (S n) n = false.
Proof. intro n. apply Nat.eqb_neq. lia. Qed.

(* one concrete step, given that the core step is accepted by the abstract monitor *)
Lemma step_sim : forall s d l s' a ms,
  astep (amon s) l = Some (amon s') ->
  m_a ms = amon s -> args_agree ms d ->
  exists ms', mon_run ms (fst (emit s d l a)) = Some ms' /\
              m_a ms' = amon s' /\ args_agree ms' (snd (emit s d l a)).
Proof.
  intros s d l s' a ms HA Hm Hd.
  destruct l as [t m | t | t wm ok | t m same | t r v | t w | t | t | ].
  - (* LCall *)
    cbn [emit fst snd mon_run]. unfold mon_step. cbn [abs_event]. rewrite Hm, HA.
    eexists. split; [reflexivity|]. destruct Hd as [D0 D1].
    destruct t; unfold args_agree; simpl; auto.
  - (* LTau *)
    cbn [astep] in HA. inversion HA as [HA']. cbn [emit fst snd mon_run].
    exists ms. split; [reflexivity|]. split; [congruence|].
    destruct Hd as [D0 D1]. destruct (head_instr s t) as [[]|]; unfold args_agree;
      try (split; assumption); destruct t; simpl; auto.
  - (* LCreate *)
    cbn [emit fst snd mon_run]. unfold mon_step. cbn [abs_event].
    assert (E : (match (if wm then Some (d_arg d t) else None) with
                 | Some a0 => Nat.eqb a0 (m_arg ms t) | None => false end) = wm).
    { destruct wm; [|reflexivity]. rewrite (args_agree_t ms d t Hd). apply Nat.eqb_refl. }
    rewrite E, Hm, HA. eexists. split; [reflexivity|]. split; [reflexivity|].
    destruct Hd as [D0 D1]. destruct ok; destruct t; unfold args_agree; simpl; auto.
  - (* LDeleg *)
    cbn [emit fst snd mon_run]. unfold mon_step. cbn [abs_event].
    assert (E : Nat.eqb (if same then d_arg d t else S (d_arg d t)) (m_arg ms t) = same).
    { rewrite (args_agree_t ms d t Hd). destruct same; [apply Nat.eqb_refl | apply eqb_S_false]. }
    rewrite E, Hm, HA. eexists. split; [reflexivity|]. split; [reflexivity|]. exact Hd.
  - (* LRet *)
    cbn [emit fst snd]. destruct (is_user t) eqn:U.
    + cbn [mon_run]. unfold mon_step. cbn [abs_event].
      assert (K : kind_of (ret_val d t r v) = Some v) by (destruct v; reflexivity).
      rewrite K, Hm.
      assert (HA' : astep (amon s) (LRet t RNil v) = Some (amon s')) by exact HA.
      rewrite HA'. eexists. split; [reflexivity|]. split; [reflexivity|]. exact Hd.
    + destruct t; try discriminate. cbn [astep] in HA. destruct v; try discriminate.
      inversion HA. cbn [mon_run]. exists ms. split; [reflexivity|]. split; [congruence | exact Hd].
  - cbn [astep] in HA. discriminate.
  - cbn [astep] in HA. discriminate.
  - cbn [astep] in HA. discriminate.
  - (* LCancel *)
    cbn [emit fst snd mon_run]. unfold mon_step. cbn [abs_event]. rewrite Hm.
    assert (HA' : astep (amon s) LCancel = Some (amon s')) by exact HA.
    rewrite HA'. eexists. split; [reflexivity|]. split; [reflexivity|]. exact Hd.
Qed.

Section Checked.
  Variable P : prog.
  Hypothesis CK : check_prog P = true.

  Lemma crun_inv : forall c, crun P c ->
    exists ms, mon_run mst_init (c_log c) = Some ms /\ m_a ms = amon (c_s c) /\ args_agree ms (c_d c).
  Proof.
    intros c H. induction H as [canc | c l s' a H IH Hin].
    - exists mst_init. simpl. split; [reflexivity|]. split; [reflexivity|]. split; reflexivity.
    - destruct IH as [ms [R [Hm Hd]]].
      destruct (every_step_ok P CK (c_s c) (crun_reachable P c H) l s' Hin) as [HA _].
      destruct (step_sim (c_s c) (c_d c) l s' a ms HA Hm Hd) as [ms' [R' [Hm' Hd']]].
      exists ms'. unfold apply. destruct (emit (c_s c) (c_d c) l a) as [evs d'] eqn:E. simpl in *.
      rewrite mon_run_app, R. auto.
  Qed.

  (* C12 (stream part) over every run *)
  Theorem C12_holds : forall c, crun P c -> C12_ok (c_log c) = true.
  Proof.
    intros c H. destruct (crun_inv c H) as [ms [R _]]. unfold C12_ok. rewrite R. reflexivity.
  Qed.

  (* and when no internal step is left, whoever still waits has nothing to wait for *)
  Theorem C12_final_holds : forall c, crun P c -> has_internal P (c_s c) = false ->
    C12_final_ok (c_log c) (stuck_all c) = true.
  Proof.
    intros c H Hq. destruct (crun_inv c H) as [ms [R [Hm _]]]. unfold C12_final_ok. rewrite R.
    pose proof (crun_reachable P c H) as RS.
    assert (G : forall t, forallb (stuck_ok (m_a ms)) (stuck_of c t) = true).
    { intro t. pose proof (rest_all P CK (c_s c) RS Hq t) as Hr.
      unfold stuck_of, site_of. unfold rest_ok in Hr.
      destruct (st (get_thr (c_s c) t)) as [|k|k|k| |] eqn:ST; try reflexivity; try discriminate.
      - destruct k as [|i k]; [discriminate|]. destruct i; try discriminate.
        cbn [site_of_instr]. apply negb_true_iff in Hr. rewrite Hr. reflexivity.
      - apply andb_true_iff in Hr. destruct Hr as [_ Hr]. rewrite Hm.
        destruct t; cbn [forallb]; try (rewrite Hr; reflexivity).
        simpl in Hr. discriminate. }
    unfold stuck_all. rewrite !forallb_app, !G. reflexivity.
  Qed.
End Checked.

(* ---- the macro steps forced by the harness are runs in the above sense ---- *)
Lemma thr_next_in : forall P s t x, In x (thr_next P s t) -> In x (next P s).
Proof.
  intros P s t x H. unfold next. destruct t.
  - apply in_or_app. left. exact H.
  - apply in_or_app. right. apply in_or_app. left. exact H.
  - apply in_or_app. right. apply in_or_app. right. apply in_or_app. left. exact H.
Qed.

Lemma pick_in : forall P s t ok l s', pick P s t ok = Some (l, s') -> In (l, s') (next P s).
Proof.
  intros P s t ok l s' H. apply (thr_next_in P s t). unfold pick in H.
  destruct (st (get_thr s t)); try discriminate;
    destruct (thr_next P s t) as [|x [|y [|z r]]]; try discriminate;
    try (inversion H; subst; simpl; auto; fail);
    try (destruct ok; inversion H; subst; simpl; auto).
Qed.

Lemma settle_crun : forall P f c t, crun P c -> crun P (fst (settle P f c t)).
Proof.
  induction f as [|f IH]; intros c t H; simpl; [exact H|].
  destruct (is_mid (c_s c) t); [|exact H].
  destruct (pick P (c_s c) t true) as [[l s']|] eqn:E; [|exact H].
  apply IH. apply crun_step; [exact H | eapply pick_in; exact E].
Qed.

Theorem macro_crun : forall P c ch c' b, crun P c -> macro P c ch = Some (c', b) -> crun P c'.
Proof.
  intros P c ch c' b H M. destruct ch as [t m a | t ok | ]; unfold macro in M.
  - destruct (st (get_thr (c_s c) t)) eqn:ST; try discriminate.
    destruct (is_user t && existsb (meth_eqb m) (calls_of t)) eqn:E; [|discriminate].
    apply andb_true_iff in E. destruct E as [_ E]. apply existsb_exists in E.
    destruct E as [m' [Hin Em]]. apply meth_eqb_sound in Em. subst m'.
    assert (X : settle P settle_fuel (apply c (LCall t m) (start_call P (c_s c) t m) a) t = (c', b))
      by congruence.
    replace c' with (fst (settle P settle_fuel (apply c (LCall t m) (start_call P (c_s c) t m) a) t))
      by (rewrite X; reflexivity).
    apply settle_crun. apply crun_step; [exact H|].
    apply (thr_next_in P (c_s c) t). unfold thr_next. rewrite ST.
    apply in_map_iff. exists m. auto.
  - destruct (pick P (c_s c) t ok) as [[l s']|] eqn:E; [|discriminate].
    assert (X : settle P settle_fuel (apply c l s' 0) t = (c', b)) by congruence.
    replace c' with (fst (settle P settle_fuel (apply c l s' 0) t)) by (rewrite X; reflexivity).
    apply settle_crun. apply crun_step; [exact H | eapply pick_in; exact E].
  - destruct (env_next (c_s c)) as [|[l s'] r] eqn:E; [discriminate|].
    assert (X : apply c l s' 0 = c') by congruence. rewrite <- X. apply crun_step; [exact H|].
    unfold next. apply in_or_app. right. apply in_or_app. right. apply in_or_app. right.
    rewrite E. simpl. auto.
Qed.
