(* Engine E (Stream), property C12: small-step semantics of gcpClientStream
   (grpcgcp/gcp_interceptor.go).

   Three threads - sender T0, receiver T1 and the context watcher TW (the
   goroutine started by waitForStream) - run instruction lists over a shared
   store: the embedded stream (present or not), initStreamErr (set or not), the
   `watching` flag, the mutex (holder), the condition variable (threads in the
   wait set) and the call's context (ended or not).  Definitions only; the
   instruction lists of the methods are NOT in this file: they are regenerated
   from the Go source by tools/streamir (StreamIR.v; reference copy RefIR.v).

   sync.Cond: Wait = atomically release the mutex and join the wait set; a
   Broadcast moves every member of the wait set to "woken"; a woken thread has
   to re-acquire the mutex before it continues.  (A Broadcast with an empty
   wait set is lost - that is the point of no_lost_wakeup.)                *)
From Coq Require Import List Bool Arith.
Import ListNotations.

Inductive meth := MSend | MRecv | MCloseSend | MHeader | MTrailer | MContext.
Inductive tid := T0 | T1 | TW.

(* conditions that occur in `if` / `for` headers *)
Inductive cnd :=
| CStreamNil        (* cs.ClientStream == nil *)
| CErrSet           (* cs.initStreamErr != nil *)
| CCtxLive          (* cs.ctx.Err() == nil *)
| CWatching         (* cs.watching *)
| CCancellable      (* cs.ctx.Done() != nil *)
| CLocalErr         (* err != nil  (the local variable) *)
| CTrue
| CNot (c : cnd)
| CAnd (a b : cnd)
| COr (a b : cnd).

(* what a `return` that is not a delegation hands back *)
Inductive retk :=
| RNil              (* nil / (nil) *)
| RLocalErr         (* the local err *)
| RInitErr          (* cs.initStreamErr, read at the return *)
| RCtxErr           (* status.FromContextError(cs.ctx.Err()).Err() *)
| RCallCtx.         (* cs.ctx *)

Inductive instr :=
| ILock                         (* cs.Lock() *)
| IUnlock                       (* cs.Unlock() *)
| IBroadcast                    (* cs.cond.Broadcast() *)
| IWait                         (* cs.cond.Wait() *)
| IIf (c : cnd) (b : list instr)
| IIfElse (c : cnd) (a b : list instr)   (* if c { a } else { b }, neither branch ending the call *)
| IWhile (c : cnd) (b : list instr)
| IMkCtx (withmsg : bool)       (* ctx := context.WithValue(cs.ctx, gcpKey, &gcpContext{reqMsg: m}) *)
| ICallStreamer (localctx : bool) (* realCS, err := cs.streamer(ctx | cs.ctx, ...) *)
| ISetErr                       (* cs.initStreamErr = err *)
| IClearErr                     (* cs.initStreamErr = nil *)
| ILoadErr                      (* err := cs.initStreamErr *)
| ISetStream                    (* cs.ClientStream = realCS *)
| ISetWatching                  (* cs.watching = true *)
| ISpawn                        (* go cs.wakeOnCtxDone() *)
| IAwaitDone                    (* <-cs.ctx.Done() *)
| IReturn (r : retk)
| IDelegate (m : meth) (sameargs : bool).   (* return cs.ClientStream.M(args) *)

Record prog := {
  p_send : list instr; p_recv : list instr; p_close : list instr;
  p_header : list instr; p_trailer : list instr; p_context : list instr;
  p_watch : list instr }.

Definition body (P : prog) (m : meth) : list instr :=
  match m with
  | MSend => p_send P | MRecv => p_recv P | MCloseSend => p_close P
  | MHeader => p_header P | MTrailer => p_trailer P | MContext => p_context P
  end.

Inductive tstat :=
| TIdle                       (* between calls / watcher not started *)
| TRun (k : list instr)       (* running, k = what is left of the call *)
| TWait (k : list instr)      (* in the wait set of the condition variable *)
| TWoken (k : list instr)     (* woken, has to re-acquire the mutex *)
| TDead                       (* panicked *)
| TFin.                       (* watcher: returned *)

Record thr := {
  st : tstat;
  cm : option meth;     (* the call in progress *)
  lerr : bool;          (* local err != nil *)
  lctx : bool;          (* local ctx carries this call's message *)
  lcs : bool;           (* local realCS != nil *)
  post : bool }.        (* ghost: this call started after a successful creation *)

Definition idle_thr : thr :=
  {| st := TIdle; cm := None; lerr := false; lctx := false; lcs := false; post := false |}.

Record core := {
  th0 : thr; th1 : thr; thw : thr;
  stream : bool;        (* cs.ClientStream != nil *)
  err : bool;           (* cs.initStreamErr != nil *)
  watching : bool;
  cdone : bool;         (* the call's context ended *)
  cancellable : bool;   (* cs.ctx.Done() != nil (constant) *)
  mu : option tid;      (* holder of the mutex *)
  created : bool;       (* ghost: a creation succeeded *)
  anyfail : bool }.     (* ghost: a creation failed *)

Definition init_core (canc : bool) : core :=
  {| th0 := idle_thr; th1 := idle_thr; thw := idle_thr; stream := false; err := false;
     watching := false; cdone := false; cancellable := canc; mu := None;
     created := false; anyfail := false |}.

Definition get_thr (s : core) (t : tid) : thr :=
  match t with T0 => th0 s | T1 => th1 s | TW => thw s end.

Definition set_thr (s : core) (t : tid) (x : thr) : core :=
  match t with
  | T0 => {| th0 := x; th1 := th1 s; thw := thw s; stream := stream s; err := err s; watching := watching s;
             cdone := cdone s; cancellable := cancellable s; mu := mu s; created := created s; anyfail := anyfail s |}
  | T1 => {| th0 := th0 s; th1 := x; thw := thw s; stream := stream s; err := err s; watching := watching s;
             cdone := cdone s; cancellable := cancellable s; mu := mu s; created := created s; anyfail := anyfail s |}
  | TW => {| th0 := th0 s; th1 := th1 s; thw := x; stream := stream s; err := err s; watching := watching s;
             cdone := cdone s; cancellable := cancellable s; mu := mu s; created := created s; anyfail := anyfail s |}
  end.

Definition set_st (x : thr) (v : tstat) : thr :=
  {| st := v; cm := cm x; lerr := lerr x; lctx := lctx x; lcs := lcs x; post := post x |}.
Definition set_lerr (x : thr) (v : bool) : thr :=
  {| st := st x; cm := cm x; lerr := v; lctx := lctx x; lcs := lcs x; post := post x |}.
Definition set_lctx (x : thr) (v : bool) : thr :=
  {| st := st x; cm := cm x; lerr := lerr x; lctx := v; lcs := lcs x; post := post x |}.
Definition set_lcs (x : thr) (v : bool) : thr :=
  {| st := st x; cm := cm x; lerr := lerr x; lctx := lctx x; lcs := v; post := post x |}.

Definition set_stream (s : core) (v : bool) : core :=
  {| th0 := th0 s; th1 := th1 s; thw := thw s; stream := v; err := err s; watching := watching s;
     cdone := cdone s; cancellable := cancellable s; mu := mu s; created := created s; anyfail := anyfail s |}.
Definition set_err (s : core) (v : bool) : core :=
  {| th0 := th0 s; th1 := th1 s; thw := thw s; stream := stream s; err := v; watching := watching s;
     cdone := cdone s; cancellable := cancellable s; mu := mu s; created := created s; anyfail := anyfail s |}.
Definition set_watching (s : core) (v : bool) : core :=
  {| th0 := th0 s; th1 := th1 s; thw := thw s; stream := stream s; err := err s; watching := v;
     cdone := cdone s; cancellable := cancellable s; mu := mu s; created := created s; anyfail := anyfail s |}.
Definition set_cdone (s : core) (v : bool) : core :=
  {| th0 := th0 s; th1 := th1 s; thw := thw s; stream := stream s; err := err s; watching := watching s;
     cdone := v; cancellable := cancellable s; mu := mu s; created := created s; anyfail := anyfail s |}.
Definition set_mu (s : core) (v : option tid) : core :=
  {| th0 := th0 s; th1 := th1 s; thw := thw s; stream := stream s; err := err s; watching := watching s;
     cdone := cdone s; cancellable := cancellable s; mu := v; created := created s; anyfail := anyfail s |}.
Definition set_ghost (s : core) (c f : bool) : core :=
  {| th0 := th0 s; th1 := th1 s; thw := thw s; stream := stream s; err := err s; watching := watching s;
     cdone := cdone s; cancellable := cancellable s; mu := mu s; created := c; anyfail := f |}.

Definition tid_eqb (a b : tid) : bool :=
  match a, b with T0, T0 | T1, T1 | TW, TW => true | _, _ => false end.

Definition holds (s : core) (t : tid) : bool :=
  match mu s with Some h => tid_eqb h t | None => false end.

Fixpoint eval (s : core) (x : thr) (c : cnd) : bool :=
  match c with
  | CStreamNil => negb (stream s)
  | CErrSet => err s
  | CCtxLive => negb (cdone s)
  | CWatching => watching s
  | CCancellable => cancellable s
  | CLocalErr => lerr x
  | CTrue => true
  | CNot a => negb (eval s x a)
  | CAnd a b => eval s x a && eval s x b
  | COr a b => eval s x a || eval s x b
  end.

(* the class of value a non-delegating return hands back *)
Inductive rvk :=
| KNil          (* nil *)
| KErr          (* a stream-creation error *)
| KCtxErr       (* the status error of the ended context *)
| KCallCtx.     (* cs.ctx *)

Inductive why := WNilStream | WUnlockUnlocked | WWaitUnlocked.

Inductive label :=
| LCall (t : tid) (m : meth)
| LTau (t : tid)
| LCreate (t : tid) (withmsg ok : bool)
| LDeleg (t : tid) (m : meth) (same : bool)
| LRet (t : tid) (r : retk) (v : rvk)
| LPanic (t : tid) (w : why)      (* Go panics / dies *)
| LForeignUnlock (t : tid)        (* Unlock of a mutex held by another thread (Go allows it) *)
| LUnsupported (t : tid)          (* outside the model: a second watcher goroutine *)
| LCancel.

Definition wake (x : thr) : thr :=
  match st x with TWait k => set_st x (TWoken k) | _ => x end.

Definition wake_all (s : core) : core :=
  set_thr (set_thr (set_thr s T0 (wake (th0 s))) T1 (wake (th1 s))) TW (wake (thw s)).

Definition ret_value (s : core) (x : thr) (r : retk) : rvk :=
  match r with
  | RNil => KNil
  | RLocalErr => if lerr x then KErr else KNil
  | RInitErr => if err s then KErr else KNil
  | RCtxErr => if cdone s then KCtxErr else KNil   (* FromContextError(nil).Err() = nil *)
  | RCallCtx => KCallCtx
  end.

(* end of a call: the thread is idle again, locals are forgotten *)
Definition finish (t : tid) : thr :=
  match t with
  | TW => {| st := TFin; cm := None; lerr := false; lctx := false; lcs := false; post := false |}
  | _ => idle_thr
  end.

(* one step of thread t whose status is TRun (i :: k) *)
Definition exec (P : prog) (s : core) (t : tid) (x : thr) (i : instr) (k : list instr)
  : list (label * core) :=
  let cont := fun (s' : core) (x' : thr) => set_thr s' t (set_st x' (TRun k)) in
  match i with
  | ILock =>
      match mu s with
      | None => [(LTau t, cont (set_mu s (Some t)) x)]
      | Some _ => []
      end
  | IUnlock =>
      match mu s with
      | None => [(LPanic t WUnlockUnlocked, set_thr s t (set_st x TDead))]
      | Some h => if tid_eqb h t then [(LTau t, cont (set_mu s None) x)]
                  else [(LForeignUnlock t, cont (set_mu s None) x)]
      end
  | IBroadcast => [(LTau t, cont (wake_all s) x)]
  | IWait =>
      if holds s t then [(LTau t, set_thr (set_mu s None) t (set_st x (TWait k)))]
      else [(LPanic t WWaitUnlocked, set_thr s t (set_st x TDead))]
  | IIf c b =>
      [(LTau t, set_thr s t (set_st x (TRun (if eval s x c then b ++ k else k))))]
  | IIfElse c a b =>
      [(LTau t, set_thr s t (set_st x (TRun (if eval s x c then a ++ k else b ++ k))))]
  | IWhile c b =>
      [(LTau t, set_thr s t (set_st x (TRun (if eval s x c then b ++ IWhile c b :: k else k))))]
  | IMkCtx wm => [(LTau t, cont s (set_lctx x wm))]
  | ICallStreamer lc =>
      let wm := lc && lctx x in
      [(LCreate t wm true, cont (set_ghost s true (anyfail s)) (set_lcs (set_lerr x false) true));
       (LCreate t wm false, cont (set_ghost s (created s) true) (set_lcs (set_lerr x true) false))]
  | ISetErr => [(LTau t, cont (set_err s (lerr x)) x)]
  | IClearErr => [(LTau t, cont (set_err s false) x)]
  | ILoadErr => [(LTau t, cont s (set_lerr x (err s)))]
  | ISetStream => [(LTau t, cont (set_stream s (lcs x)) x)]
  | ISetWatching => [(LTau t, cont (set_watching s true) x)]
  | ISpawn =>
      match st (thw s), t with
      | TIdle, T0 | TIdle, T1 => [(LTau t, set_thr (cont s x) TW (set_st (thw s) (TRun (p_watch P))))]
      | _, _ => [(LUnsupported t, set_thr s t (set_st x TDead))]
      end
  | IAwaitDone => if cdone s then [(LTau t, cont s x)] else []
  | IReturn r => [(LRet t r (ret_value s x r), set_thr s t (finish t))]
  | IDelegate m same =>
      if stream s then [(LDeleg t m same, set_thr s t (finish t))]
      else [(LPanic t WNilStream, set_thr s t (set_st x TDead))]
  end.

(* which calls a thread may issue (gRPC: one sending and one receiving goroutine) *)
Definition calls_of (t : tid) : list meth :=
  match t with
  | T0 => [MSend; MCloseSend; MHeader; MTrailer; MContext]
  | T1 => [MRecv; MHeader; MTrailer; MContext]
  | TW => []
  end.

Definition start_call (P : prog) (s : core) (t : tid) (m : meth) : core :=
  set_thr s t {| st := TRun (body P m); cm := Some m; lerr := false; lctx := false; lcs := false;
                 post := created s |}.

Definition thr_next (P : prog) (s : core) (t : tid) : list (label * core) :=
  let x := get_thr s t in
  match st x with
  | TIdle => map (fun m => (LCall t m, start_call P s t m)) (calls_of t)
  | TRun [] => [(LRet t RNil KNil, set_thr s t (finish t))]       (* falling off the end of a body *)
  | TRun (i :: k) => exec P s t x i k
  | TWoken k =>
      match mu s with
      | None => [(LTau t, set_thr (set_mu s (Some t)) t (set_st x (TRun k)))]
      | Some _ => []
      end
  | TWait _ | TDead | TFin => []
  end.

Definition env_next (s : core) : list (label * core) :=
  if cancellable s && negb (cdone s) then [(LCancel, set_cdone s true)] else [].

Definition next (P : prog) (s : core) : list (label * core) :=
  thr_next P s T0 ++ thr_next P s T1 ++ thr_next P s TW ++ env_next s.

Definition inits : list core := [init_core false; init_core true].

(* steps that are neither the start of a new call nor the environment *)
Definition internal (l : label) : bool :=
  match l with LCall _ _ | LCancel => false | _ => true end.

Definition label_tid (l : label) : option tid :=
  match l with
  | LCall t _ | LTau t | LCreate t _ _ | LDeleg t _ _ | LRet t _ _ | LPanic t _
  | LForeignUnlock t | LUnsupported t => Some t
  | LCancel => None
  end.
