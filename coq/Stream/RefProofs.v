(* The closed-set check of the reference program (RefIR.v) and the theorems of
   Check.v / ConcProofs.v instantiated with it.  The same file with
   `the_prog` taken from the regenerated StreamIR.v is compiled on every run of
   the check (tools/eng_stream.py writes it into a scratch directory). *)
From Coq Require Import List Bool.
From GV Require Import Stream.Sem Stream.Eq Stream.ClosedSet Stream.Monitors Stream.Check Stream.Conc
  Stream.ConcProofs Stream.RefIR.
Import ListNotations.

Lemma ref_checked : check_prog the_prog = true.
Proof. vm_cast_no_check (eq_refl true). Qed.

Definition ref_reachable := reachable the_prog.

Theorem ref_single_creation : forall s, ref_reachable s ->
  forall t wm ok s', In (LCreate t wm ok, s') (next the_prog s) -> created s = false.
Proof. exact (single_creation the_prog ref_checked). Qed.

Theorem ref_first_message_visible : forall s, ref_reachable s ->
  forall t wm ok s', In (LCreate t wm ok, s') (next the_prog s) ->
    wm = true /\ exists p, a_open (amon s) t = Some (MSend, p).
Proof. exact (first_message_visible the_prog ref_checked). Qed.

Theorem ref_recv_waits_then_delegates : forall s, ref_reachable s -> forall t,
  (forall m same s', In (LDeleg t m same, s') (next the_prog s) ->
     created s = true /\ same = true /\ exists p, a_open (amon s) t = Some (m, p)) /\
  (forall r v s', In (LRet t r v, s') (next the_prog s) -> is_user t = true ->
     exists m, a_open (amon s) t = Some (m, false) /\ ret_allowed (amon s) m v = true).
Proof. exact (recv_waits_then_delegates the_prog ref_checked). Qed.

Theorem ref_delegation_in_order : forall s, ref_reachable s -> forall t m,
  cm (get_thr s t) = Some m -> post (get_thr s t) = true -> is_user t = true ->
  (forall r v s', ~ In (LRet t r v, s') (next the_prog s)) /\
  (forall m' same s', In (LDeleg t m' same, s') (next the_prog s) -> m' = m /\ same = true).
Proof. exact (delegation_in_order the_prog ref_checked). Qed.

Theorem ref_no_method_panics : forall s, ref_reachable s ->
  forall t w s', ~ In (LPanic t w, s') (next the_prog s).
Proof. exact (no_method_panics the_prog ref_checked). Qed.

Theorem ref_mutex_discipline : forall s, ref_reachable s ->
  (forall t s', ~ In (LForeignUnlock t, s') (next the_prog s)) /\
  (forall t s', ~ In (LPanic t WUnlockUnlocked, s') (next the_prog s)) /\
  (forall t r v s', In (LRet t r v, s') (next the_prog s) -> holds s t = false) /\
  (forall t m same s', In (LDeleg t m same, s') (next the_prog s) -> holds s t = false).
Proof. exact (mutex_discipline the_prog ref_checked). Qed.

Theorem ref_no_lost_wakeup : forall s, ref_reachable s -> has_internal the_prog s = false ->
  forall t k, st (get_thr s t) = TWait k ->
    stream s = false /\ err s = false /\ cdone s = false /\ stuck_ok (amon s) (StuckWait t) = true.
Proof. exact (no_lost_wakeup the_prog ref_checked). Qed.

Theorem ref_no_deadlock : forall s, ref_reachable s -> has_internal the_prog s = false ->
  forall t, match st (get_thr s t) with
            | TIdle | TFin | TWait _ => True
            | TRun (IAwaitDone :: _) => cdone s = false
            | _ => False
            end.
Proof. exact (no_deadlock the_prog ref_checked). Qed.

(* every schedule runs out of internal steps (no call spins, every woken RecvMsg
   gets to its return or back into a legitimate wait) *)
Theorem ref_internal_steps_bounded : exists bound : core -> nat,
  forall s, ref_reachable s -> forall n, ipath core label (next the_prog) internal s n -> n <= bound s.
Proof. exact (internal_steps_bounded the_prog ref_checked). Qed.

(* the monitor accepts the log of every run, and the end of every run *)
Theorem ref_C12_holds : forall c, crun the_prog c -> C12_ok (c_log c) = true.
Proof. exact (C12_holds the_prog ref_checked). Qed.

Theorem ref_C12_final_holds : forall c, crun the_prog c -> has_internal the_prog (c_s c) = false ->
  C12_final_ok (c_log c) (stuck_all c) = true.
Proof. exact (C12_final_holds the_prog ref_checked). Qed.
