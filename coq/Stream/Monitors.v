(* Property C12 (stream part) as a monitor automaton.

   astep  : the monitor over labels of the core system (Stream/Sem.v);
   event  : what the harness can observe of the REAL gcpClientStream (calls,
            returns, streamer calls with the message seen in their context,
            calls that reached the fake underlying stream, panics, cancellation);
   C12_ok : the same monitor run over such an event list - it abstracts each
            event to a label (abs_event) and feeds it to astep.
   No proofs in this file. *)
From Coq Require Import List Bool Arith.
From GV Require Import Stream.Sem Stream.Eq.
Import ListNotations.

(* ---- monitor state ---- *)
Record ams := {
  a_created : bool;                     (* a creation succeeded *)
  a_anyfail : bool;                     (* a creation failed *)
  a_done : bool;                        (* the context ended *)
  a_open0 : option (meth * bool);       (* sender: call in progress, started after the creation? *)
  a_open1 : option (meth * bool) }.     (* receiver *)

Definition ams_init : ams :=
  {| a_created := false; a_anyfail := false; a_done := false; a_open0 := None; a_open1 := None |}.

Definition a_open (a : ams) (t : tid) : option (meth * bool) :=
  match t with T0 => a_open0 a | T1 => a_open1 a | TW => None end.

Definition a_set_open (a : ams) (t : tid) (v : option (meth * bool)) : ams :=
  match t with
  | T0 => {| a_created := a_created a; a_anyfail := a_anyfail a; a_done := a_done a; a_open0 := v; a_open1 := a_open1 a |}
  | T1 => {| a_created := a_created a; a_anyfail := a_anyfail a; a_done := a_done a; a_open0 := a_open0 a; a_open1 := v |}
  | TW => a
  end.

(* which value may a call of m that does not reach the stream hand back, and when *)
Definition ret_allowed (a : ams) (m : meth) (v : rvk) : bool :=
  match m, v with
  | MSend, KErr => a_anyfail a                           (* the creation error *)
  | MRecv, KErr | MHeader, KErr => a_anyfail a           (* the creation error *)
  | MRecv, KCtxErr | MHeader, KCtxErr => a_done a        (* the call's context ended *)
  | MCloseSend, KNil | MTrailer, KNil => true            (* nothing to close / no trailer yet *)
  | MContext, KCallCtx => true
  | _, _ => false
  end.

Definition is_user (t : tid) : bool := match t with TW => false | _ => true end.

Definition astep (a : ams) (l : label) : option ams :=
  match l with
  | LTau _ => Some a
  | LCancel =>
      Some {| a_created := a_created a; a_anyfail := a_anyfail a; a_done := true;
              a_open0 := a_open0 a; a_open1 := a_open1 a |}
  | LCall t m =>
      match a_open a t with
      | None => if is_user t then Some (a_set_open a t (Some (m, a_created a))) else None
      | Some _ => None
      end
  | LCreate t wm ok =>
      (* single_creation; first_message_visible: triggered by a SendMsg whose message is in the context *)
      match a_open a t with
      | Some (MSend, p) =>
          if negb (a_created a) && wm then
            Some {| a_created := ok; a_anyfail := a_anyfail a || negb ok; a_done := a_done a;
                    a_open0 := a_open0 a; a_open1 := a_open1 a |}
          else None
      | _ => None
      end
  | LDeleg t m same =>
      (* reaches the stream only once it exists, same method, same arguments *)
      match a_open a t with
      | Some (m', _) => if a_created a && same && meth_eqb m m' then Some (a_set_open a t None) else None
      | None => None
      end
  | LRet t _ v =>
      match t with
      | TW => match v with KNil => Some a | _ => None end
      | _ =>
          match a_open a t with
          | Some (m, p) => if negb p && ret_allowed a m v then Some (a_set_open a t None) else None
          | None => None
          end
      end
  | LPanic _ _ | LForeignUnlock _ | LUnsupported _ => None
  end.

(* the monitor state as a projection of a core state *)
Definition amon (s : core) : ams :=
  let o := fun x : thr => match cm x with Some m => Some (m, post x) | None => None end in
  {| a_created := created s; a_anyfail := anyfail s; a_done := cdone s;
     a_open0 := o (th0 s); a_open1 := o (th1 s) |}.

Definition obool_eqb (a b : option (meth * bool)) : bool :=
  match a, b with
  | None, None => true
  | Some (m, p), Some (n, q) => meth_eqb m n && Bool.eqb p q
  | _, _ => false
  end.

Definition ams_eqb (a b : ams) : bool :=
  Bool.eqb (a_created a) (a_created b) && Bool.eqb (a_anyfail a) (a_anyfail b) &&
  Bool.eqb (a_done a) (a_done b) && obool_eqb (a_open0 a) (a_open0 b) && obool_eqb (a_open1 a) (a_open1 b).

(* ---- observable events ---- *)
Inductive rval :=
| VNil
| VErr (attempt : nat)       (* the error the streamer returned at that attempt *)
| VCtxErr
| VCallCtx
| VOther.                    (* anything else (implementation traces only) *)

Inductive event :=
| ECall (t : tid) (m : meth) (arg : nat)
| ECreate (t : tid) (ctxmsg : option nat) (attempt : nat) (ok : bool)   (* the streamer was called *)
| EDeleg (t : tid) (m : meth) (arg : nat)      (* method m of the underlying stream was called with arg *)
| ERet (t : tid) (v : rval)                    (* a call returned without reaching the stream *)
| EPanic (t : tid)
| EBad (t : tid)
| ECancel.

Definition kind_of (v : rval) : option rvk :=
  match v with
  | VNil => Some KNil | VErr _ => Some KErr | VCtxErr => Some KCtxErr | VCallCtx => Some KCallCtx
  | VOther => None
  end.

Record mst := { m_a : ams; m_arg0 : nat; m_arg1 : nat }.

Definition mst_init : mst := {| m_a := ams_init; m_arg0 := 0; m_arg1 := 0 |}.

Definition m_arg (ms : mst) (t : tid) : nat :=
  match t with T0 => m_arg0 ms | T1 => m_arg1 ms | TW => 0 end.

Definition set_arg (ms : mst) (t : tid) (v : nat) : mst :=
  match t with
  | T0 => {| m_a := m_a ms; m_arg0 := v; m_arg1 := m_arg1 ms |}
  | T1 => {| m_a := m_a ms; m_arg0 := m_arg0 ms; m_arg1 := v |}
  | TW => ms
  end.

Definition with_a (ms : mst) (a : ams) : mst := {| m_a := a; m_arg0 := m_arg0 ms; m_arg1 := m_arg1 ms |}.

(* the label an event stands for, given the arguments of the calls in progress *)
Definition abs_event (ms : mst) (e : event) : option label :=
  match e with
  | ECall t m _ => Some (LCall t m)
  | ECreate t cmsg _ ok =>
      Some (LCreate t (match cmsg with Some a => Nat.eqb a (m_arg ms t) | None => false end) ok)
  | EDeleg t m a => Some (LDeleg t m (Nat.eqb a (m_arg ms t)))
  | ERet t v => match kind_of v with Some k => Some (LRet t RNil k) | None => None end
  | EPanic t => Some (LPanic t WNilStream)
  | EBad t => Some (LUnsupported t)
  | ECancel => Some LCancel
  end.

Definition mon_step (ms : mst) (e : event) : option mst :=
  match abs_event ms e with
  | None => None
  | Some l =>
      match astep (m_a ms) l with
      | None => None
      | Some a' =>
          Some (match e with
                | ECall t _ arg => set_arg (with_a ms a') t arg
                | _ => with_a ms a'
                end)
      end
  end.

Fixpoint mon_run (ms : mst) (es : list event) : option mst :=
  match es with
  | [] => Some ms
  | e :: r => match mon_step ms e with Some ms' => mon_run ms' r | None => None end
  end.

(* index of the first event the monitor refuses *)
Fixpoint mon_fail_at (ms : mst) (es : list event) (i : nat) : option nat :=
  match es with
  | [] => None
  | e :: r => match mon_step ms e with Some ms' => mon_fail_at ms' r (S i) | None => Some i end
  end.

Definition C12_ok (es : list event) : bool :=
  match mon_run mst_init es with Some _ => true | None => false end.

(* ---- end of a run: a call that never returned ---- *)
Inductive stuck := StuckWait (t : tid) | StuckOther (t : tid).

(* A call may still be blocked in Wait at the end of a run (nothing enabled any
   more) only if there is nothing to be woken for: no stream was created, no
   creation failed, the context is alive. *)
Definition stuck_ok (a : ams) (x : stuck) : bool :=
  match x with
  | StuckWait t =>
      match a_open a t with
      | Some (m, _) => negb (a_created a) && negb (a_anyfail a) && negb (a_done a)
      | None => false
      end
  | StuckOther _ => false
  end.

Definition C12_final_ok (es : list event) (xs : list stuck) : bool :=
  match mon_run mst_init es with
  | Some ms => forallb (stuck_ok (m_a ms)) xs
  | None => false
  end.

(* ---- unary interceptor: what a capturing invoker observed ---- *)
Inductive ukey := KGcp | KUser (n : nat).
Inductive uval := UVal (n : nat) | UGcp (req reply : nat).

Definition ukey_eqb (a b : ukey) : bool :=
  match a, b with
  | KGcp, KGcp => true
  | KUser x, KUser y => Nat.eqb x y
  | _, _ => false
  end.

Definition uval_eqb (a b : uval) : bool :=
  match a, b with
  | UVal x, UVal y => Nat.eqb x y
  | UGcp a1 a2, UGcp b1 b2 => Nat.eqb a1 b1 && Nat.eqb a2 b2
  | _, _ => false
  end.

Definition ouval_eqb (a b : option uval) : bool :=
  match a, b with
  | None, None => true
  | Some x, Some y => uval_eqb x y
  | _, _ => false
  end.

(* identities (numbers) of the objects handed to the interceptor *)
Record ucall := {
  u_ctx : list (ukey * uval);     (* the caller's context, innermost binding first *)
  u_method : nat; u_req : nat; u_reply : nat; u_cc : nat; u_opts : list nat;
  u_err : nat }.                  (* what the invoker will return *)

(* what the invoker received, the probed context values, and what the interceptor returned *)
Record useen := {
  s_called : nat;                 (* number of invoker calls *)
  s_method : nat; s_req : nat; s_reply : nat; s_cc : nat; s_opts : list nat;
  s_values : list (ukey * option uval);   (* ctx.Value(k) for the probed keys *)
  s_ret : nat }.

Fixpoint lookup (c : list (ukey * uval)) (k : ukey) : option uval :=
  match c with
  | [] => None
  | (k', v) :: r => if ukey_eqb k' k then Some v else lookup r k
  end.

Fixpoint list_nat_eqb (a b : list nat) : bool :=
  match a, b with
  | [], [] => true
  | x :: a', y :: b' => Nat.eqb x y && list_nat_eqb a' b'
  | _, _ => false
  end.

Definition unary_ok (c : ucall) (o : useen) : bool :=
  Nat.eqb (s_called o) 1 &&
  Nat.eqb (s_method o) (u_method c) && Nat.eqb (s_req o) (u_req c) && Nat.eqb (s_reply o) (u_reply c) &&
  Nat.eqb (s_cc o) (u_cc c) && list_nat_eqb (s_opts o) (u_opts c) && Nat.eqb (s_ret o) (u_err c) &&
  forallb (fun kv =>
             match fst kv with
             | KGcp => ouval_eqb (snd kv) (Some (UGcp (u_req c) (u_reply c)))
             | k => ouval_eqb (snd kv) (lookup (u_ctx c) k)
             end) (s_values o) &&
  existsb (fun kv => ukey_eqb (fst kv) KGcp) (s_values o).
