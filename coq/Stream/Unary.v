(* GCPUnaryClientInterceptor (grpcgcp/gcp_interceptor.go:41-57):
     gcpCtx := &gcpContext{reqMsg: req, replyMsg: reply}
     ctx = context.WithValue(ctx, gcpKey, gcpCtx)
     return invoker(ctx, method, req, reply, cc, opts...)
   A context is what Value() answers; WithValue shadows one key.            *)
From Coq Require Import List Bool Arith.
From GV Require Import Stream.Monitors.
Import ListNotations.

Section Unary.
  (* opaque things the interceptor only passes on *)
  Variables (methodT msgT ccT optT errT : Type).

  Inductive cval := CUser (v : nat) | CGcp (req reply : msgT).
  Definition context := ukey -> option cval.

  Definition with_value (c : context) (k : ukey) (v : cval) : context :=
    fun k' => if ukey_eqb k' k then Some v else c k'.

  Definition invoker := context -> methodT -> msgT -> msgT -> ccT -> list optT -> errT.

  Definition unary (c : context) (m : methodT) (req reply : msgT) (cc : ccT) (inv : invoker)
             (opts : list optT) : errT :=
    inv (with_value c KGcp (CGcp req reply)) m req reply cc opts.

  Lemma ukey_eqb_refl : forall k, ukey_eqb k k = true.
  Proof. destruct k; simpl; [reflexivity | apply Nat.eqb_refl]. Qed.

  Lemma ukey_eqb_eq : forall a b, ukey_eqb a b = true -> a = b.
  Proof.
    destruct a, b; simpl; intro H; try reflexivity; try discriminate.
    apply Nat.eqb_eq in H. subst. reflexivity.
  Qed.

  (* transparent for every invoker: the invoker is called exactly once (the call
     IS the result), with the same method, request, reply, connection and
     options; its error is returned; the context it sees answers every key other
     than gcpKey like the caller's, and gcpKey with exactly {req, reply} *)
  Theorem unary_transparent : forall (inv : invoker) c m req reply cc opts,
    exists c',
      unary c m req reply cc inv opts = inv c' m req reply cc opts /\
      (forall k, k <> KGcp -> c' k = c k) /\
      c' KGcp = Some (CGcp req reply).
  Proof.
    intros inv c m req reply cc opts. exists (with_value c KGcp (CGcp req reply)).
    split; [reflexivity|]. split.
    - intros k Hk. unfold with_value. destruct (ukey_eqb k KGcp) eqn:E; [|reflexivity].
      apply ukey_eqb_eq in E. contradiction.
    - unfold with_value. simpl. reflexivity.
  Qed.
End Unary.

(* ---- the executable instance the harness is compared with: identities are
   numbers, the invoker records what it was given ---- *)
Definition ctx_of (l : list (ukey * uval)) : context nat :=
  fun k => match lookup l k with
           | Some (UVal n) => Some (CUser nat n)
           | Some (UGcp a b) => Some (CGcp nat a b)
           | None => None
           end.

Definition uval_of (v : option (cval nat)) : option uval :=
  match v with
  | Some (CUser _ n) => Some (UVal n)
  | Some (CGcp _ a b) => Some (UGcp a b)
  | None => None
  end.

(* capturing invoker: returns everything it saw, probing the context at `keys` *)
Definition capture (keys : list ukey) (e : nat) : invoker nat nat nat nat useen :=
  fun c m req reply cc opts =>
    {| s_called := 1; s_method := m; s_req := req; s_reply := reply; s_cc := cc; s_opts := opts;
       s_values := map (fun k => (k, uval_of (c k))) keys; s_ret := e |}.

Definition unary_model (u : ucall) (keys : list ukey) : useen :=
  unary nat nat nat nat useen (ctx_of (u_ctx u)) (u_method u) (u_req u) (u_reply u) (u_cc u)
        (capture keys (u_err u)) (u_opts u).

Fixpoint useen_values_eqb (a b : list (ukey * option uval)) : bool :=
  match a, b with
  | [], [] => true
  | (k, v) :: a', (k', v') :: b' => ukey_eqb k k' && ouval_eqb v v' && useen_values_eqb a' b'
  | _, _ => false
  end.

(* accept: the implementation's observation equals the model's *)
Definition unary_accept (u : ucall) (o : useen) : bool :=
  let mo := unary_model u (map fst (s_values o)) in
  Nat.eqb (s_called o) (s_called mo) && Nat.eqb (s_method o) (s_method mo) &&
  Nat.eqb (s_req o) (s_req mo) && Nat.eqb (s_reply o) (s_reply mo) && Nat.eqb (s_cc o) (s_cc mo) &&
  list_nat_eqb (s_opts o) (s_opts mo) && Nat.eqb (s_ret o) (s_ret mo) &&
  useen_values_eqb (s_values o) (s_values mo).

Lemma list_nat_eqb_refl : forall l, list_nat_eqb l l = true.
Proof. induction l; simpl; [reflexivity|]. rewrite Nat.eqb_refl. exact IHl. Qed.

Lemma uval_eqb_refl : forall v, uval_eqb v v = true.
Proof. destruct v; simpl; rewrite ?Nat.eqb_refl; reflexivity. Qed.

Lemma ouval_eqb_refl : forall v, ouval_eqb v v = true.
Proof. destruct v; simpl; [apply uval_eqb_refl | reflexivity]. Qed.

(* the model satisfies the monitor whenever gcpKey is among the probed keys and
   the caller's own context does not already use gcpKey (the key type is private
   to the package, so no caller can) *)
Theorem unary_model_ok : forall u keys,
  In KGcp keys ->
  unary_ok u (unary_model u keys) = true.
Proof.
  intros u keys Hin. unfold unary_ok, unary_model, unary, capture. simpl.
  rewrite !Nat.eqb_refl, list_nat_eqb_refl. simpl.
  apply andb_true_iff. split.
  - apply forallb_forall. intros [k v] Hkv. apply in_map_iff in Hkv.
    destruct Hkv as [k0 [E _]]. inversion E; subst k v; clear E. simpl.
    destruct k0 as [|n].
    + unfold with_value. simpl. rewrite !Nat.eqb_refl. reflexivity.
    + unfold with_value. simpl. unfold ctx_of.
      destruct (lookup (u_ctx u) (KUser n)) as [[x|a b]|]; simpl; rewrite ?Nat.eqb_refl; reflexivity.
  - apply existsb_exists. exists (KGcp, uval_of (with_value nat (ctx_of (u_ctx u)) KGcp (CGcp nat (u_req u) (u_reply u)) KGcp)).
    split; [|reflexivity]. apply in_map_iff. exists KGcp. auto.
Qed.
