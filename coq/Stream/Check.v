(* The property C12 (stream part) as boolean checks on the core transition
   system of Stream/Sem.v, the instantiation of the closed-set checker, and the
   core-level theorems that follow from `check_prog P = true` for ANY program P
   (the regenerated StreamIR.v as well as the reference RefIR.v).           *)
From Coq Require Import List Bool Arith PArith FMapPositive.
From GV Require Import Stream.Sem Stream.Eq Stream.ClosedSet.
Import ListNotations.

(* ---- step-local checks (the source state and the label) ---- *)
Definition is_waiter (m : meth) : bool :=
  match m with MRecv | MHeader => true | _ => false end.

(* a return that does not delegate: which value may a call of m hand back, and when *)
Definition ret_ok (s : core) (x : thr) (m : meth) (r : retk) : bool :=
  negb (post x) &&             (* a call started after the creation has to reach the stream *)
  match m, r with
  | MSend, RLocalErr => lerr x && anyfail s                       (* the creation error *)
  | MRecv, RLocalErr | MHeader, RLocalErr => lerr x && anyfail s  (* the creation error *)
  | MRecv, RInitErr | MHeader, RInitErr => err s && anyfail s     (* (read at the return) *)
  | MRecv, RCtxErr | MHeader, RCtxErr => cdone s                  (* the context ended *)
  | MCloseSend, RNil | MTrailer, RNil => true
  | MContext, RCallCtx => true
  | _, _ => false
  end.

Definition label_ok (s : core) (l : label) : bool :=
  match l with
  | LCall _ _ | LTau _ | LCancel => true
  | LCreate t wm _ =>
      negb (created s)                                  (* single_creation *)
      && wm                                             (* first_message_visible *)
      && match cm (get_thr s t) with Some MSend => true | _ => false end
  | LDeleg t m same =>
      stream s && same && negb (holds s t)
      && match cm (get_thr s t) with Some m' => meth_eqb m m' | None => false end
  | LRet t r =>
      negb (holds s t)                                  (* no return with the mutex held *)
      && match cm (get_thr s t) with
         | Some m => ret_ok s (get_thr s t) m r
         | None => match t, r with TW, RNil => true | _, _ => false end
         end
  | LPanic _ _ | LForeignUnlock _ | LUnsupported _ => false
  end.

Definition trans_ok (s : core) (l : label) (_ : core) : bool := label_ok s l.

(* ---- state check: no lost wake-up, no deadlock ---- *)
Definition has_internal (P : prog) (s : core) : bool :=
  existsb (fun ls => internal (fst ls)) (next P s).

(* may the thread rest in this status when nothing internal can happen any more? *)
Definition rest_ok (s : core) (x : thr) : bool :=
  match st x with
  | TIdle | TFin => true
  | TWait _ => negb (stream s) && negb (err s) && negb (cdone s)   (* nothing to be woken for *)
  | TRun (IAwaitDone :: _) => negb (cdone s)
  | TRun _ | TWoken _ => false                                     (* blocked on the mutex for good *)
  | TDead => false
  end.

Definition state_ok (P : prog) (s : core) : bool :=
  has_internal P s || (rest_ok s (th0 s) && rest_ok s (th1 s) && rest_ok s (thw s)).

(* ---- the checker, instantiated ---- *)
Definition tbl := table core.

Definition explore_prog (P : prog) (fuel : nat) : tbl * bool :=
  explore_all core label (next P) inits core_eqb hcore fuel.

Definition rank_tbl (P : prog) (m : tbl) : rtable core :=
  ranks core label (next P) core_eqb hcore internal 400 m.

Definition check_table (P : prog) (m : tbl) (r : rtable core) : bool :=
  closed_ok core label (next P) inits core_eqb hcore (state_ok P) trans_ok m &&
  rank_ok core label (next P) internal (rank_of core core_eqb hcore r) m.

Definition check_prog (P : prog) : bool :=
  let '(m, done) := explore_prog P 400 in
  done && check_table P m (rank_tbl P m).

Definition count_states (P : prog) : nat :=
  length (members core (fst (explore_prog P 400))).
Definition count_trans (P : prog) : nat :=
  count_transitions core label (next P) (fst (explore_prog P 400)).
Definition max_rank (P : prog) : nat :=
  let m := fst (explore_prog P 400) in
  let r := rank_tbl P m in
  fold_left (fun n s => Nat.max n (rank_of core core_eqb hcore r s)) (members core m) 0.

Definition reachable (P : prog) : core -> Prop := reach core label (next P) inits.

Section Checked.
  Variable P : prog.
  Hypothesis CK : check_prog P = true.

  Lemma tables : exists m r,
      closed_ok core label (next P) inits core_eqb hcore (state_ok P) trans_ok m = true /\
      rank_ok core label (next P) internal (rank_of core core_eqb hcore r) m = true.
  Proof.
    unfold check_prog in CK. destruct (explore_prog P 400) as [m d].
    apply andb_true_iff in CK. destruct CK as [_ C2]. unfold check_table in C2.
    apply andb_true_iff in C2. destruct C2 as [A B]. exists m, (rank_tbl P m). split; assumption.
  Qed.

  Theorem every_step_ok : forall s, reachable P s ->
    forall l s', In (l, s') (next P s) -> label_ok s l = true.
  Proof.
    destruct tables as [m [r [A _]]]. intros s R l s' Hin.
    destruct (closed_sound core label (next P) inits core_eqb core_eqb_sound hcore
                           (state_ok P) trans_ok m A s R) as [_ [_ H]].
    exact (H l s' Hin).
  Qed.

  Theorem every_state_ok : forall s, reachable P s -> state_ok P s = true.
  Proof.
    destruct tables as [m [r [A _]]]. intros s R.
    destruct (closed_sound core label (next P) inits core_eqb core_eqb_sound hcore
                           (state_ok P) trans_ok m A s R) as [_ [H _]].
    exact H.
  Qed.

  (* every schedule runs out of internal steps: a bound that depends on the state only *)
  Theorem internal_steps_bounded : exists bound : core -> nat,
    forall s, reachable P s -> forall n, ipath core label (next P) internal s n -> n <= bound s.
  Proof.
    destruct tables as [m [r [A B]]]. exists (rank_of core core_eqb hcore r).
    exact (rank_sound core label (next P) inits core_eqb core_eqb_sound hcore
                      (state_ok P) trans_ok internal _ m A B).
  Qed.

  (* ---- the named properties, core level ---- *)
  Theorem single_creation : forall s, reachable P s ->
    forall t wm ok s', In (LCreate t wm ok, s') (next P s) -> created s = false.
  Proof.
    intros s R t wm ok s' Hin. pose proof (every_step_ok s R _ _ Hin) as H. simpl in H.
    apply andb_true_iff in H. destruct H as [H _]. apply andb_true_iff in H. destruct H as [H _].
    apply negb_true_iff in H. exact H.
  Qed.

  Theorem first_message_visible : forall s, reachable P s ->
    forall t wm ok s', In (LCreate t wm ok, s') (next P s) ->
      wm = true /\ cm (get_thr s t) = Some MSend.
  Proof.
    intros s R t wm ok s' Hin. pose proof (every_step_ok s R _ _ Hin) as H. simpl in H.
    apply andb_true_iff in H. destruct H as [H H2]. apply andb_true_iff in H. destruct H as [_ H1].
    split; [exact H1|]. destruct (cm (get_thr s t)) as [[]|]; try discriminate. reflexivity.
  Qed.

  Theorem recv_waits_then_delegates : forall s, reachable P s ->
    forall t x, get_thr s t = x -> cm x = Some MRecv ->
      (forall m same s', In (LDeleg t m same, s') (next P s) -> stream s = true /\ m = MRecv /\ same = true) /\
      (forall r s', In (LRet t r, s') (next P s) ->
         post x = false /\
         ((r = RLocalErr /\ lerr x = true /\ anyfail s = true) \/
          (r = RInitErr /\ err s = true /\ anyfail s = true) \/
          (r = RCtxErr /\ cdone s = true))).
  Proof.
    intros s R t x Hx Hm. split.
    - intros m same s' Hin. pose proof (every_step_ok s R _ _ Hin) as H. simpl in H.
      rewrite Hx, Hm in H.
      repeat (apply andb_true_iff in H; destruct H as [H ?]).
      split; [exact H|]. split; [apply meth_eqb_sound; assumption | assumption].
    - intros r s' Hin. pose proof (every_step_ok s R _ _ Hin) as H. simpl in H.
      rewrite Hx, Hm in H. apply andb_true_iff in H. destruct H as [_ H]. unfold ret_ok in H.
      apply andb_true_iff in H. destruct H as [Hp H]. apply negb_true_iff in Hp. split; [exact Hp|].
      destruct r; try discriminate.
      + left. apply andb_true_iff in H. destruct H. auto.
      + right; left. apply andb_true_iff in H. destruct H. auto.
      + right; right. auto.
  Qed.

  (* once created, a call cannot end without reaching the stream, and reaches it unchanged *)
  Theorem delegation_in_order : forall s, reachable P s -> forall t,
      (forall r s', In (LRet t r, s') (next P s) -> cm (get_thr s t) <> None -> post (get_thr s t) = false) /\
      (forall m same s', In (LDeleg t m same, s') (next P s) ->
         cm (get_thr s t) = Some m /\ same = true /\ stream s = true).
  Proof.
    intros s R t. split.
    - intros r s' Hin Hc. pose proof (every_step_ok s R _ _ Hin) as H. simpl in H.
      apply andb_true_iff in H. destruct H as [_ H].
      destruct (cm (get_thr s t)) as [m|]; [|congruence].
      unfold ret_ok in H. apply andb_true_iff in H. destruct H as [H _]. apply negb_true_iff in H. exact H.
    - intros m same s' Hin. pose proof (every_step_ok s R _ _ Hin) as H. simpl in H.
      repeat (apply andb_true_iff in H; destruct H as [H ?]).
      destruct (cm (get_thr s t)) as [m'|]; [|discriminate].
      match goal with E : meth_eqb _ _ = true |- _ => apply meth_eqb_sound in E; subst end. auto.
  Qed.

  Theorem no_method_panics : forall s, reachable P s ->
    forall t w s', ~ In (LPanic t w, s') (next P s).
  Proof.
    intros s R t w s' Hin. pose proof (every_step_ok s R _ _ Hin) as H. simpl in H. discriminate.
  Qed.

  Theorem mutex_discipline : forall s, reachable P s ->
    (forall t s', ~ In (LForeignUnlock t, s') (next P s)) /\
    (forall t s', ~ In (LPanic t WUnlockUnlocked, s') (next P s)) /\
    (forall t r s', In (LRet t r, s') (next P s) -> holds s t = false) /\
    (forall t m same s', In (LDeleg t m same, s') (next P s) -> holds s t = false).
  Proof.
    intros s R. repeat split.
    - intros t s' Hin. pose proof (every_step_ok s R _ _ Hin) as H. simpl in H. discriminate.
    - intros t s' Hin. pose proof (every_step_ok s R _ _ Hin) as H. simpl in H. discriminate.
    - intros t r s' Hin. pose proof (every_step_ok s R _ _ Hin) as H. simpl in H.
      apply andb_true_iff in H. destruct H as [H _]. apply negb_true_iff in H. exact H.
    - intros t m same s' Hin. pose proof (every_step_ok s R _ _ Hin) as H. simpl in H.
      repeat (apply andb_true_iff in H; destruct H as [H ?]).
      match goal with E : negb (holds s t) = true |- _ => apply negb_true_iff in E; exact E end.
  Qed.

  (* When no internal step is possible any more (which every schedule reaches after
     at most `bound s` internal steps), a thread still in the wait set has nothing
     to be woken for: no stream, no creation error, context alive.  So a wake-up
     is never lost, and nobody is blocked on the mutex. *)
  Theorem no_lost_wakeup : forall s, reachable P s -> has_internal P s = false ->
    forall t k, st (get_thr s t) = TWait k ->
      stream s = false /\ err s = false /\ cdone s = false.
  Proof.
    intros s R Hq t k Hw. pose proof (every_state_ok s R) as H. unfold state_ok in H.
    rewrite Hq in H. simpl in H.
    apply andb_true_iff in H. destruct H as [H Hc]. apply andb_true_iff in H. destruct H as [Ha Hb].
    assert (G : rest_ok s (get_thr s t) = true) by (destruct t; assumption).
    unfold rest_ok in G. rewrite Hw in G.
    apply andb_true_iff in G. destruct G as [G G3]. apply andb_true_iff in G. destruct G as [G1 G2].
    apply negb_true_iff in G1, G2, G3. auto.
  Qed.

  Theorem no_deadlock : forall s, reachable P s -> has_internal P s = false ->
    forall t, match st (get_thr s t) with
              | TIdle | TFin | TWait _ => True
              | TRun (IAwaitDone :: _) => cdone s = false
              | _ => False
              end.
  Proof.
    intros s R Hq t. pose proof (every_state_ok s R) as H. unfold state_ok in H.
    rewrite Hq in H. simpl in H.
    apply andb_true_iff in H. destruct H as [H Hc]. apply andb_true_iff in H. destruct H as [Ha Hb].
    assert (G : rest_ok s (get_thr s t) = true) by (destruct t; assumption).
    unfold rest_ok in G. destruct (st (get_thr s t)) as [|k|k|k| |]; try exact I; try discriminate.
    destruct k as [|i k]; [discriminate|]. destruct i; try discriminate.
    apply negb_true_iff in G. exact G.
  Qed.
End Checked.
