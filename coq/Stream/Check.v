(* The property C12 (stream part) as boolean checks on the core transition
   system of Stream/Sem.v, the instantiation of the closed-set checker, and the
   core-level theorems that follow from `check_prog P = true` for ANY program P
   (the regenerated StreamIR.v as well as the reference RefIR.v).           *)
From Coq Require Import List Bool Arith PArith FMapPositive.
From GV Require Import Stream.Sem Stream.Eq Stream.ClosedSet Stream.Monitors.
Import ListNotations.

(* ---- step-local checks ----
   The monitor automaton of Monitors.v accepts the label in the monitor state
   `amon s` that the source state projects to, and the target state projects to
   the monitor's next state; plus the mutex discipline (not observable from
   outside, so not part of the monitor). *)
Definition mutex_ok (s : core) (l : label) : bool :=
  match l with
  | LRet t _ _ | LDeleg t _ _ => negb (holds s t)     (* no return with the mutex held *)
  | _ => true                                          (* bad unlocks are labels the monitor refuses *)
  end.

Definition trans_ok (s : core) (l : label) (s' : core) : bool :=
  mutex_ok s l &&
  match astep (amon s) l with
  | Some a' => ams_eqb a' (amon s')
  | None => false
  end.

(* ---- state check: no lost wake-up, no deadlock ---- *)
Definition has_internal (P : prog) (s : core) : bool :=
  existsb (fun ls => internal (fst ls)) (next P s).

(* may thread t rest in its status when nothing internal can happen any more? *)
Definition rest_ok (s : core) (t : tid) : bool :=
  match st (get_thr s t) with
  | TIdle | TFin => true
  | TWait _ =>
      (* nothing to be woken for - in terms of the store and in terms of the monitor *)
      negb (stream s) && negb (err s) && negb (cdone s) && stuck_ok (amon s) (StuckWait t)
  | TRun (IAwaitDone :: _) => negb (cdone s)
  | TRun _ | TWoken _ => false                                     (* blocked on the mutex for good *)
  | TDead => false
  end.

Definition state_ok (P : prog) (s : core) : bool :=
  has_internal P s || (rest_ok s T0 && rest_ok s T1 && rest_ok s TW).

(* ---- the checker, instantiated ---- *)
Definition tbl := table core.

Definition explore_prog (P : prog) (fuel : nat) : tbl * bool :=
  explore_all core label (next P) inits core_eqb hcore fuel.

Definition rank_tbl (P : prog) (m : tbl) : rtable core :=
  ranks core label (next P) core_eqb hcore internal 400 m.

Definition check_table (P : prog) (m : tbl) (r : rtable core) : bool :=
  closed_ok core label (next P) inits core_eqb hcore (state_ok P) trans_ok m &&
  rank_ok core label (next P) internal (rank_of core core_eqb hcore r) m.

Definition check_prog (P : prog) : bool :=
  let '(m, done) := explore_prog P 400 in
  done && check_table P m (rank_tbl P m).

Definition count_states (P : prog) : nat :=
  length (members core (fst (explore_prog P 400))).
Definition count_trans (P : prog) : nat :=
  count_transitions core label (next P) (fst (explore_prog P 400)).
Definition max_rank (P : prog) : nat :=
  let m := fst (explore_prog P 400) in
  let r := rank_tbl P m in
  fold_left (fun n s => Nat.max n (rank_of core core_eqb hcore r s)) (members core m) 0.

Definition reachable (P : prog) : core -> Prop := reach core label (next P) inits.

Lemma obool_eqb_sound : forall a b, obool_eqb a b = true -> a = b.
Proof.
  intros [[m p]|] [[n q]|]; simpl; intro H; try reflexivity; try discriminate.
  apply andb_true_iff in H. destruct H as [H1 H2].
  apply meth_eqb_sound in H1. apply Bool.eqb_prop in H2. subst. reflexivity.
Qed.

Lemma ams_eqb_sound : forall a b, ams_eqb a b = true -> a = b.
Proof.
  intros [a1 a2 a3 a4 a5] [b1 b2 b3 b4 b5]. unfold ams_eqb. simpl. intro H.
  repeat (apply andb_true_iff in H; destruct H as [H ?]).
  repeat match goal with E : obool_eqb _ _ = true |- _ => apply obool_eqb_sound in E; subst end.
  repeat match goal with E : Bool.eqb _ _ = true |- _ => apply Bool.eqb_prop in E; subst end.
  reflexivity.
Qed.

Section Checked.
  Variable P : prog.
  Hypothesis CK : check_prog P = true.

  Lemma tables : exists m r,
      closed_ok core label (next P) inits core_eqb hcore (state_ok P) trans_ok m = true /\
      rank_ok core label (next P) internal (rank_of core core_eqb hcore r) m = true.
  Proof.
    unfold check_prog in CK. destruct (explore_prog P 400) as [m d].
    apply andb_true_iff in CK. destruct CK as [_ C2]. unfold check_table in C2.
    apply andb_true_iff in C2. destruct C2 as [A B]. exists m, (rank_tbl P m). split; assumption.
  Qed.

  Theorem every_step_ok : forall s, reachable P s ->
    forall l s', In (l, s') (next P s) ->
      astep (amon s) l = Some (amon s') /\ mutex_ok s l = true.
  Proof.
    destruct tables as [m [r [A _]]]. intros s R l s' Hin.
    destruct (closed_sound core label (next P) inits core_eqb core_eqb_sound hcore
                           (state_ok P) trans_ok m A s R) as [_ [_ H]].
    specialize (H l s' Hin). unfold trans_ok in H. apply andb_true_iff in H. destruct H as [H1 H2].
    split; [|exact H1].
    destruct (astep (amon s) l) as [a'|]; [|discriminate]. apply ams_eqb_sound in H2. congruence.
  Qed.

  Theorem every_state_ok : forall s, reachable P s -> state_ok P s = true.
  Proof.
    destruct tables as [m [r [A _]]]. intros s R.
    destruct (closed_sound core label (next P) inits core_eqb core_eqb_sound hcore
                           (state_ok P) trans_ok m A s R) as [_ [H _]].
    exact H.
  Qed.

  (* every schedule runs out of internal steps: a bound that depends on the state only *)
  Theorem internal_steps_bounded : exists bound : core -> nat,
    forall s, reachable P s -> forall n, ipath core label (next P) internal s n -> n <= bound s.
  Proof.
    destruct tables as [m [r [A B]]]. exists (rank_of core core_eqb hcore r).
    exact (rank_sound core label (next P) inits core_eqb core_eqb_sound hcore
                      (state_ok P) trans_ok internal _ m A B).
  Qed.

  Lemma open_of : forall s t, is_user t = true ->
    a_open (amon s) t = match cm (get_thr s t) with Some m => Some (m, post (get_thr s t)) | None => None end.
  Proof. intros s t H. destruct t; simpl in *; try reflexivity; discriminate. Qed.

  (* ---- the named properties, core level ---- *)
  Theorem single_creation : forall s, reachable P s ->
    forall t wm ok s', In (LCreate t wm ok, s') (next P s) -> created s = false.
  Proof.
    intros s R t wm ok s' Hin. destruct (every_step_ok s R _ _ Hin) as [H _]. cbn [astep] in H.
    destruct (a_open (amon s) t) as [[[] p]|]; try discriminate.
    destruct (negb (a_created (amon s)) && wm) eqn:E; [|discriminate].
    apply andb_true_iff in E. destruct E as [E _]. apply negb_true_iff in E. exact E.
  Qed.

  Theorem first_message_visible : forall s, reachable P s ->
    forall t wm ok s', In (LCreate t wm ok, s') (next P s) ->
      wm = true /\ exists p, a_open (amon s) t = Some (MSend, p).
  Proof.
    intros s R t wm ok s' Hin. destruct (every_step_ok s R _ _ Hin) as [H _]. cbn [astep] in H.
    destruct (a_open (amon s) t) as [[[] p]|]; try discriminate.
    destruct (negb (a_created (amon s)) && wm) eqn:E; [|discriminate].
    apply andb_true_iff in E. destruct E as [_ E]. split; [exact E|]. exists p. reflexivity.
  Qed.

  (* a RecvMsg (or any call) reaches the stream only once it exists; otherwise it
     returns the creation error (one was seen) or the context error (it ended) *)
  Theorem recv_waits_then_delegates : forall s, reachable P s -> forall t,
      (forall m same s', In (LDeleg t m same, s') (next P s) ->
         created s = true /\ same = true /\ exists p, a_open (amon s) t = Some (m, p)) /\
      (forall r v s', In (LRet t r v, s') (next P s) -> is_user t = true ->
         exists m, a_open (amon s) t = Some (m, false) /\ ret_allowed (amon s) m v = true).
  Proof.
    intros s R t. split.
    - intros m same s' Hin. destruct (every_step_ok s R _ _ Hin) as [H _]. cbn [astep] in H.
      destruct (a_open (amon s) t) as [[m' p]|]; [|discriminate].
      destruct (a_created (amon s) && same && meth_eqb m m') eqn:E; [|discriminate].
      apply andb_true_iff in E. destruct E as [E E3]. apply andb_true_iff in E. destruct E as [E1 E2].
      apply meth_eqb_sound in E3. subst m'. split; [exact E1|]. split; [exact E2|]. exists p. reflexivity.
    - intros r v s' Hin Hu. destruct (every_step_ok s R _ _ Hin) as [H _]. cbn [astep] in H.
      destruct t; try discriminate.
      + destruct (a_open (amon s) T0) as [[m p]|]; [|discriminate].
        destruct (negb p && ret_allowed (amon s) m v) eqn:E; [|discriminate].
        apply andb_true_iff in E. destruct E as [E1 E2]. apply negb_true_iff in E1. subst p.
        exists m. auto.
      + destruct (a_open (amon s) T1) as [[m p]|]; [|discriminate].
        destruct (negb p && ret_allowed (amon s) m v) eqn:E; [|discriminate].
        apply andb_true_iff in E. destruct E as [E1 E2]. apply negb_true_iff in E1. subst p.
        exists m. auto.
  Qed.

  (* a call started after the creation cannot end without reaching the stream
     (the `false` above is its started-after-creation flag), and what reaches the
     stream is the call's own method with its own arguments; each thread runs its
     calls one after the other, so the order per thread is the program order *)
  Theorem delegation_in_order : forall s, reachable P s -> forall t m,
      cm (get_thr s t) = Some m -> post (get_thr s t) = true -> is_user t = true ->
      (forall r v s', ~ In (LRet t r v, s') (next P s)) /\
      (forall m' same s', In (LDeleg t m' same, s') (next P s) -> m' = m /\ same = true).
  Proof.
    intros s R t m Hm Hp Hu. pose proof (open_of s t Hu) as Ho. rewrite Hm, Hp in Ho. split.
    - intros r v s' Hin. destruct (recv_waits_then_delegates s R t) as [_ H].
      destruct (H r v s' Hin Hu) as [m0 [E _]]. rewrite Ho in E. discriminate.
    - intros m' same s' Hin. destruct (recv_waits_then_delegates s R t) as [H _].
      destruct (H m' same s' Hin) as [_ [E [p E2]]]. rewrite Ho in E2. inversion E2. auto.
  Qed.

  Theorem no_method_panics : forall s, reachable P s ->
    forall t w s', ~ In (LPanic t w, s') (next P s).
  Proof.
    intros s R t w s' Hin. destruct (every_step_ok s R _ _ Hin) as [H _]. simpl in H. discriminate.
  Qed.

  Theorem mutex_discipline : forall s, reachable P s ->
    (forall t s', ~ In (LForeignUnlock t, s') (next P s)) /\
    (forall t s', ~ In (LPanic t WUnlockUnlocked, s') (next P s)) /\
    (forall t r v s', In (LRet t r v, s') (next P s) -> holds s t = false) /\
    (forall t m same s', In (LDeleg t m same, s') (next P s) -> holds s t = false).
  Proof.
    intros s R. repeat split.
    - intros t s' Hin. destruct (every_step_ok s R _ _ Hin) as [H _]. simpl in H. discriminate.
    - intros t s' Hin. destruct (every_step_ok s R _ _ Hin) as [H _]. simpl in H. discriminate.
    - intros t r v s' Hin. destruct (every_step_ok s R _ _ Hin) as [_ H]. simpl in H.
      apply negb_true_iff in H. exact H.
    - intros t m same s' Hin. destruct (every_step_ok s R _ _ Hin) as [_ H]. simpl in H.
      apply negb_true_iff in H. exact H.
  Qed.

  (* When no internal step is possible any more (which every schedule reaches after
     at most `bound s` internal steps), a thread still in the wait set has nothing
     to be woken for: no stream, no creation error, context alive.  So a wake-up
     is never lost, and nobody is blocked on the mutex. *)
  Lemma rest_all : forall s, reachable P s -> has_internal P s = false -> forall t, rest_ok s t = true.
  Proof.
    intros s R Hq t. pose proof (every_state_ok s R) as H. unfold state_ok in H.
    rewrite Hq in H. simpl in H.
    apply andb_true_iff in H. destruct H as [H Hc]. apply andb_true_iff in H. destruct H as [Ha Hb].
    destruct t; assumption.
  Qed.

  Theorem no_lost_wakeup : forall s, reachable P s -> has_internal P s = false ->
    forall t k, st (get_thr s t) = TWait k ->
      stream s = false /\ err s = false /\ cdone s = false /\ stuck_ok (amon s) (StuckWait t) = true.
  Proof.
    intros s R Hq t k Hw. pose proof (rest_all s R Hq t) as G.
    unfold rest_ok in G. rewrite Hw in G.
    repeat (apply andb_true_iff in G; destruct G as [G ?]).
    repeat match goal with E : negb _ = true |- _ => apply negb_true_iff in E end. auto.
  Qed.

  Theorem no_deadlock : forall s, reachable P s -> has_internal P s = false ->
    forall t, match st (get_thr s t) with
              | TIdle | TFin | TWait _ => True
              | TRun (IAwaitDone :: _) => cdone s = false
              | _ => False
              end.
  Proof.
    intros s R Hq t. pose proof (rest_all s R Hq t) as G.
    unfold rest_ok in G. destruct (st (get_thr s t)) as [|k|k|k| |]; try exact I; try discriminate.
    destruct k as [|i k]; [discriminate|]. destruct i; try discriminate.
    apply negb_true_iff in G. exact G.
  Qed.
End Checked.
