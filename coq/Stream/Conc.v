(* Concrete runs: the core system of Sem.v decorated with what is unbounded -
   the arguments of the calls, the number of creation attempts, which attempt's
   error sits in initStreamErr - and with the log of observable events.
   `macro` runs a thread from one yield point (Lock, Unlock, Wait, re-lock after
   a wake-up, Broadcast, the streamer call, a delegation, <-ctx.Done(), the start
   of a call) to the next; it is what the schedule-directed harness forces on the
   real code, one goroutine at a time.   Definitions only (proofs: ConcProofs.v). *)
From Coq Require Import List Bool Arith.
From GV Require Import Stream.Sem Stream.Eq Stream.Monitors.
Import ListNotations.

Record deco := {
  d_arg0 : nat; d_arg1 : nat;        (* argument of the call in progress *)
  d_lerr0 : nat; d_lerr1 : nat;      (* which attempt's error the local err holds *)
  d_errid : nat;                     (* which attempt's error initStreamErr holds *)
  d_attempts : nat }.                (* streamer calls so far *)

Definition deco0 : deco :=
  {| d_arg0 := 0; d_arg1 := 0; d_lerr0 := 0; d_lerr1 := 0; d_errid := 0; d_attempts := 0 |}.

Definition d_arg (d : deco) (t : tid) : nat :=
  match t with T0 => d_arg0 d | T1 => d_arg1 d | TW => 0 end.
Definition d_lerr (d : deco) (t : tid) : nat :=
  match t with T0 => d_lerr0 d | T1 => d_lerr1 d | TW => 0 end.

Definition set_darg (d : deco) (t : tid) (v : nat) : deco :=
  match t with
  | T0 => {| d_arg0 := v; d_arg1 := d_arg1 d; d_lerr0 := d_lerr0 d; d_lerr1 := d_lerr1 d; d_errid := d_errid d; d_attempts := d_attempts d |}
  | T1 => {| d_arg0 := d_arg0 d; d_arg1 := v; d_lerr0 := d_lerr0 d; d_lerr1 := d_lerr1 d; d_errid := d_errid d; d_attempts := d_attempts d |}
  | TW => d
  end.
Definition set_dlerr (d : deco) (t : tid) (v : nat) : deco :=
  match t with
  | T0 => {| d_arg0 := d_arg0 d; d_arg1 := d_arg1 d; d_lerr0 := v; d_lerr1 := d_lerr1 d; d_errid := d_errid d; d_attempts := d_attempts d |}
  | T1 => {| d_arg0 := d_arg0 d; d_arg1 := d_arg1 d; d_lerr0 := d_lerr0 d; d_lerr1 := v; d_errid := d_errid d; d_attempts := d_attempts d |}
  | TW => d
  end.
Definition set_errid (d : deco) (v : nat) : deco :=
  {| d_arg0 := d_arg0 d; d_arg1 := d_arg1 d; d_lerr0 := d_lerr0 d; d_lerr1 := d_lerr1 d; d_errid := v; d_attempts := d_attempts d |}.
Definition bump_attempts (d : deco) : deco :=
  {| d_arg0 := d_arg0 d; d_arg1 := d_arg1 d; d_lerr0 := d_lerr0 d; d_lerr1 := d_lerr1 d; d_errid := d_errid d; d_attempts := S (d_attempts d) |}.

Definition head_instr (s : core) (t : tid) : option instr :=
  match st (get_thr s t) with TRun (i :: _) => Some i | _ => None end.

Definition ret_val (d : deco) (t : tid) (r : retk) (v : rvk) : rval :=
  match v with
  | KNil => VNil
  | KErr => VErr (match r with RLocalErr => d_lerr d t | _ => d_errid d end)
  | KCtxErr => VCtxErr
  | KCallCtx => VCallCtx
  end.

(* events and decoration update of one core transition labelled l that leaves s;
   a = argument of the call (LCall only) *)
Definition emit (s : core) (d : deco) (l : label) (a : nat) : list event * deco :=
  match l with
  | LCall t m => ([ECall t m a], set_darg d t a)
  | LTau t =>
      ([], match head_instr s t with
           | Some ISetErr => set_errid d (d_lerr d t)
           | Some ILoadErr => set_dlerr d t (d_errid d)
           | _ => d
           end)
  | LCreate t wm ok =>
      ([ECreate t (if wm then Some (d_arg d t) else None) (d_attempts d) ok],
       bump_attempts (if ok then d else set_dlerr d t (d_attempts d)))
  | LDeleg t m same => ([EDeleg t m (if same then d_arg d t else S (d_arg d t))], d)
  | LRet t r v => (if is_user t then [ERet t (ret_val d t r v)] else [], d)
  | LPanic t _ => ([EPanic t], d)
  | LForeignUnlock t | LUnsupported t => ([EBad t], d)
  | LCancel => ([ECancel], d)
  end.

Record conf := { c_s : core; c_d : deco; c_log : list event }.

Definition conf0 (canc : bool) : conf := {| c_s := init_core canc; c_d := deco0; c_log := [] |}.

Definition apply (c : conf) (l : label) (s' : core) (a : nat) : conf :=
  let '(evs, d') := emit (c_s c) (c_d c) l a in
  {| c_s := s'; c_d := d'; c_log := c_log c ++ evs |}.

(* all concrete runs: any interleaving, any creation outcome, any argument, cancellation anywhere *)
Inductive crun (P : prog) : conf -> Prop :=
| crun_init : forall canc, crun P (conf0 canc)
| crun_step : forall c l s' a, crun P c -> In (l, s') (next P (c_s c)) -> crun P (apply c l s' a).

(* ---- macro steps ---- *)
Inductive site :=
| SIdle | SLock | SUnlock | SBroadcast | SWait | SStreamer | SDelegate | SAwait
| SRelock | SInWait | SDead | SFin | SMid.

Definition site_of_instr (i : instr) : site :=
  match i with
  | ILock => SLock | IUnlock => SUnlock | IBroadcast => SBroadcast | IWait => SWait
  | ICallStreamer _ => SStreamer | IDelegate _ _ => SDelegate | IAwaitDone => SAwait
  | _ => SMid
  end.

Definition site_of (s : core) (t : tid) : site :=
  match st (get_thr s t) with
  | TIdle => SIdle
  | TRun [] => SMid
  | TRun (i :: _) => site_of_instr i
  | TWait _ => SInWait
  | TWoken _ => SRelock
  | TDead => SDead
  | TFin => SFin
  end.

Definition is_mid (s : core) (t : tid) : bool :=
  match site_of s t with SMid => true | _ => false end.

(* the successor of thread t; `ok` selects the outcome of a streamer call *)
Definition pick (P : prog) (s : core) (t : tid) (ok : bool) : option (label * core) :=
  match st (get_thr s t) with
  | TIdle => None
  | _ =>
      match thr_next P s t with
      | [x] => Some x
      | [x; y] => Some (if ok then x else y)
      | _ => None
      end
  end.

(* run the instructions of t that are not yield points *)
Fixpoint settle (P : prog) (fuel : nat) (c : conf) (t : tid) : conf * bool :=
  match fuel with
  | 0 => (c, false)
  | S f =>
      if is_mid (c_s c) t then
        match pick P (c_s c) t true with
        | Some (l, s') => settle P f (apply c l s' 0) t
        | None => (c, true)
        end
      else (c, true)
  end.

Inductive choice :=
| ChCall (t : tid) (m : meth) (a : nat)
| ChStep (t : tid) (ok : bool)
| ChCancel.

Definition settle_fuel := 200.

(* None: the choice is not enabled; the bool says whether the thread settled within the fuel *)
Definition macro (P : prog) (c : conf) (ch : choice) : option (conf * bool) :=
  match ch with
  | ChCall t m a =>
      match st (get_thr (c_s c) t) with
      | TIdle =>
          if is_user t && existsb (meth_eqb m) (calls_of t)
          then Some (settle P settle_fuel (apply c (LCall t m) (start_call P (c_s c) t m) a) t)
          else None
      | _ => None
      end
  | ChStep t ok =>
      match pick P (c_s c) t ok with
      | Some (l, s') => Some (settle P settle_fuel (apply c l s' 0) t)
      | None => None
      end
  | ChCancel =>
      match env_next (c_s c) with
      | (l, s') :: _ => Some (apply c l s' 0, true)
      | [] => None
      end
  end.

(* does the step that `ChStep t ok` would take call the streamer? (the oracle is consumed then) *)
Definition at_streamer (c : conf) (t : tid) : bool :=
  match site_of (c_s c) t with SStreamer => true | _ => false end.

Definition enabled_step (P : prog) (c : conf) (t : tid) : bool :=
  match pick P (c_s c) t true with Some _ => true | None => false end.

(* threads whose status a step changed from in-the-wait-set to woken, or that were spawned *)
Definition newly_parked (c c' : conf) (t : tid) : bool :=
  match site_of (c_s c) t, site_of (c_s c') t with
  | SInWait, SRelock => true
  | SIdle, SAwait => match t with TW => true | _ => false end
  | _, _ => false
  end.

(* end of a run: threads that are neither idle nor finished *)
Definition stuck_of (c : conf) (t : tid) : list stuck :=
  match site_of (c_s c) t with
  | SIdle | SFin => []
  | SInWait => match t with TW => [StuckOther t] | _ => [StuckWait t] end
  | SAwait => if cdone (c_s c) then [StuckOther t] else []
  | _ => [StuckOther t]
  end.

Definition stuck_all (c : conf) : list stuck := stuck_of c T0 ++ stuck_of c T1 ++ stuck_of c TW.
