(* C11: affinity-key extraction is total and follows the dotted field path.
   Statements only; the proofs are in Keys/Proofs.v. *)
From GV Require Import Keys.Model Keys.Spec Keys.Monitors Keys.Proofs.
Open Scope N_scope.

(* never panics, for every value and every locator *)
Theorem C11_keys_total : forall v loc, getAffinityKeysFromMessage loc v <> Panic.
Proof. exact keys_total. Qed.
Print Assumptions C11_keys_total.

(* the traversal itself never panics (the recover() of the wrapper is not what
   makes the function total on values without embedded fields) *)
Theorem C11_traversal_total : forall path start v, (start <= length path)%nat ->
  keysFromMessage v path start <> Panic.
Proof. exact kfm_total. Qed.
Print Assumptions C11_traversal_total.

(* equality with the declarative reference traversal *)
Theorem C11_keys_spec : forall v loc,
  getAffinityKeysFromMessage loc v = to_outcome (ref_get_keys loc v).
Proof. exact keys_spec. Qed.
Print Assumptions C11_keys_spec.

(* the property statement, literally *)
Theorem C11_statement : forall v loc,
  (exists ks, getAffinityKeysFromMessage loc v = Ok ks /\ Extracts v (split_dot loc) ks) \/
  (exists ks, getAffinityKeysFromMessage loc v = Err ks /\ ~ exists ks', Extracts v (split_dot loc) ks').
Proof. exact c11_statement. Qed.
Print Assumptions C11_statement.

Theorem C11_ref_keys_ok_iff : forall path v ks, ref_keys path v = ROk ks <-> Extracts v path ks.
Proof. exact ref_keys_ok_iff. Qed.
Print Assumptions C11_ref_keys_ok_iff.

Theorem C11_ref_keys_err_iff : forall path v,
  is_err (ref_keys path v) = true <-> ~ exists ks, Extracts v path ks.
Proof. exact ref_keys_err_iff. Qed.
Print Assumptions C11_ref_keys_err_iff.

(* strings.Split never returns an empty slice: `len(names) == 0` is dead *)
Theorem C11_split_nonempty : forall s, split_dot s <> [].
Proof. exact split_nonempty. Qed.
Print Assumptions C11_split_nonempty.

Theorem C11_split_characterised : forall l, l <> [] -> Forall (fun seg => ~ In dot seg) l ->
  split_dot (join_dot l) = l.
Proof. exact split_join. Qed.
Print Assumptions C11_split_characterised.

Theorem C11_join_split : forall s, join_dot (split_dot s) = s.
Proof. exact join_split. Qed.
Print Assumptions C11_join_split.

(* clause by clause *)
Theorem C11_fanout_in_order : forall v fs seg rest elems kss,
  as_message v = Some fs -> field_named (title seg) fs = Some (VSlice elems) ->
  Forall2 (fun e ks => ref_keys rest e = ROk ks) elems kss ->
  ref_keys (seg :: rest) v = ROk (concat kss).
Proof. exact c11_fanout_in_order. Qed.
Print Assumptions C11_fanout_in_order.

Theorem C11_first_error_wins : forall pre kss p post,
  Forall2 (fun r ks => r = ROk ks) pre kss ->
  collect (pre ++ RErr p :: post) = RErr (concat kss).
Proof. exact collect_first_err. Qed.
Print Assumptions C11_first_error_wins.

Theorem C11_empty_repeated : forall v fs seg rest,
  as_message v = Some fs -> field_named (title seg) fs = Some (VSlice []) ->
  ref_keys (seg :: rest) v = ROk [].
Proof. exact c11_empty_repeated. Qed.
Print Assumptions C11_empty_repeated.

Theorem C11_empty_repeated_contributes_nothing : forall rs1 rs2,
  collect (rs1 ++ ROk [] :: rs2) = collect (rs1 ++ rs2).
Proof. exact c11_empty_repeated_contributes_nothing. Qed.
Print Assumptions C11_empty_repeated_contributes_nothing.

Theorem C11_nested : forall v fs seg rest f,
  as_message v = Some fs -> field_named (title seg) fs = Some f -> not_repeated f ->
  ref_keys (seg :: rest) v = ref_keys rest f.
Proof. exact c11_nested. Qed.
Print Assumptions C11_nested.

Theorem C11_missing_field : forall v fs seg rest,
  as_message v = Some fs -> field_named (title seg) fs = None -> ref_keys (seg :: rest) v = RErr [].
Proof. exact c11_missing_field. Qed.
Print Assumptions C11_missing_field.

Theorem C11_non_message : forall v seg rest, as_message v = None -> ref_keys (seg :: rest) v = RErr [].
Proof. exact c11_non_message. Qed.
Print Assumptions C11_non_message.

Theorem C11_non_string_leaf : forall v, as_string v = None -> ref_keys [] v = RErr [].
Proof. exact c11_non_string_leaf. Qed.
Print Assumptions C11_non_string_leaf.

Theorem C11_nil_message : forall path,
  ref_keys path VInvalid = RErr [] /\ ref_keys path (VPtr None) = RErr [] /\ ref_keys path (VIface None) = RErr [].
Proof. exact c11_nil_message. Qed.
Print Assumptions C11_nil_message.

Theorem C11_nil_nested_message : forall v fs seg rest,
  as_message v = Some fs ->
  (field_named (title seg) fs = Some (VPtr None) \/ field_named (title seg) fs = Some (VIface None)) ->
  ref_keys (seg :: rest) v = RErr [].
Proof. exact c11_nil_nested_message. Qed.
Print Assumptions C11_nil_nested_message.

Theorem C11_nil_element : forall v fs seg rest elems,
  as_message v = Some fs -> field_named (title seg) fs = Some (VSlice elems) ->
  In (VPtr None) elems -> is_err (ref_keys (seg :: rest) v) = true.
Proof. exact c11_nil_element. Qed.
Print Assumptions C11_nil_element.

Theorem C11_double_indirection : forall path o,
  ref_keys path (VPtr (Some (VPtr o))) = RErr [] /\
  ref_keys path (VIface (Some (VPtr o))) = RErr [] /\
  ref_keys path (VPtr (Some (VIface o))) = RErr [].
Proof. exact c11_double_indirection. Qed.
Print Assumptions C11_double_indirection.

(* the monitor run on implementation traces accepts the model, and accepting
   means the statement *)
Theorem C11_monitor_model : forall v loc,
  C11_ok v loc (result_of (getAffinityKeysFromMessage loc v)) = true.
Proof. exact c11_ok_model. Qed.
Print Assumptions C11_monitor_model.

Theorem C11_monitor_sound : forall v loc r, C11_ok v loc r = true ->
  ir_panic r = false /\
  (ir_err r = true <-> is_err (ref_get_keys loc v) = true) /\
  (ir_err r = false -> ref_get_keys loc v = ROk (ir_keys r)).
Proof. exact c11_ok_sound. Qed.
Print Assumptions C11_monitor_sound.

(* history independence check used on implementation traces: equal results *)
Theorem C11_same_result_eq : forall a b, same_result a b = true <-> a = b.
Proof. exact same_result_eq. Qed.
Print Assumptions C11_same_result_eq.

(* lower-case-initial fields (protobuf's state/sizeCache/unknownFields) cannot
   be reached by any locator *)
Theorem C11_unexported_irrelevant : forall path v w, erase v = erase w -> ref_keys path v = ref_keys path w.
Proof. exact same_after_erase. Qed.
Print Assumptions C11_unexported_irrelevant.

(* ---- non-vacuity ---- *)
From Coq Require Import Strings.String.
Open Scope string_scope.
Definition nf (k : String.string) (rs : list String.string) : gval :=
  VPtr (Some (VStruct [(str "Key", false, VString (str k));
                       (str "RepeatedString", false, VSlice (map (fun s => VString (str s)) rs))])).
Definition sample : gval :=
  VPtr (Some (VStruct [
    (str "Key", false, VString (str "test_key"));
    (str "NestedField", false, nf "nested_key" ["a"; "b"]);
    (str "RepeatedField", false, VSlice [nf "k1" ["x"]; nf "k2" []; nf "k3" ["y"; "z"]]);
    (str "Empty", false, VSlice []);
    (str "NilNested", false, VPtr None);
    (str "WithNil", false, VSlice [nf "k1" []; VPtr None; nf "k3" []]);
    (str "PP", false, VPtr (Some (nf "pp" [])));
    (str "M", false, VMap [(VString (str "a"), VString (str "b"))]);
    (str "I", false, VIface (Some (nf "ik" [])));
    (str "IS", false, VIface (Some (VStruct [(str "Key", false, VString (str "isk"))])));
    (str "N", false, VOther 2)])).

Example ex_key : getAffinityKeysFromMessage (str "key") sample = Ok [str "test_key"].
Proof. vm_compute. reflexivity. Qed.
Example ex_nested : getAffinityKeysFromMessage (str "nestedField.key") sample = Ok [str "nested_key"].
Proof. vm_compute. reflexivity. Qed.
Example ex_repeated : getAffinityKeysFromMessage (str "repeatedField.key") sample = Ok [str "k1"; str "k2"; str "k3"].
Proof. vm_compute. reflexivity. Qed.
Example ex_repeated2 : getAffinityKeysFromMessage (str "repeatedField.repeatedString") sample = Ok [str "x"; str "y"; str "z"].
Proof. vm_compute. reflexivity. Qed.
Example ex_empty : getAffinityKeysFromMessage (str "empty.key") sample = Ok [].
Proof. vm_compute. reflexivity. Qed.
Example ex_nil_nested : getAffinityKeysFromMessage (str "nilNested.key") sample = Err [].
Proof. vm_compute. reflexivity. Qed.
Example ex_partial : getAffinityKeysFromMessage (str "withNil.key") sample = Err [str "k1"].
Proof. vm_compute. reflexivity. Qed.
Example ex_ptrptr : getAffinityKeysFromMessage (str "pP.key") sample = Err [].
Proof. vm_compute. reflexivity. Qed.
Example ex_map : getAffinityKeysFromMessage (str "m.a") sample = Err [].
Proof. vm_compute. reflexivity. Qed.
Example ex_iface_ptr : getAffinityKeysFromMessage (str "i.key") sample = Err [].
Proof. vm_compute. reflexivity. Qed.
Example ex_iface_struct : getAffinityKeysFromMessage (str "iS.key") sample = Ok [str "isk"].
Proof. vm_compute. reflexivity. Qed.
Example ex_missing : getAffinityKeysFromMessage (str "nope") sample = Err [].
Proof. vm_compute. reflexivity. Qed.
Example ex_too_long : getAffinityKeysFromMessage (str "key.key") sample = Err [].
Proof. vm_compute. reflexivity. Qed.
Example ex_too_short : getAffinityKeysFromMessage (str "nestedField") sample = Err [].
Proof. vm_compute. reflexivity. Qed.
Example ex_empty_loc : getAffinityKeysFromMessage (str "") sample = Err [].
Proof. vm_compute. reflexivity. Qed.
Example ex_number : getAffinityKeysFromMessage (str "n") sample = Err [].
Proof. vm_compute. reflexivity. Qed.
Example ex_nil_msg : getAffinityKeysFromMessage (str "key") VInvalid = Err [].
Proof. vm_compute. reflexivity. Qed.
Example ex_title : title (str "affinityKey") = str "AffinityKey" /\ title (str "a-b c_d 1x") = str "A-B C_d 1x".
Proof. vm_compute. split; reflexivity. Qed.
Example ex_split : split_dot (str ".a..b.") = [str ""; str "a"; str ""; str "b"; str ""].
Proof. vm_compute. reflexivity. Qed.
(* a traversal started beyond the end of the path would index out of range *)
Example ex_panic_possible : keysFromMessage sample [str "key"] 2 = Panic.
Proof. vm_compute. reflexivity. Qed.

(* the monitor rejects wrong results *)
Example mon_good : C11_ok sample (str "repeatedField.key") (mkRes false false [str "k1"; str "k2"; str "k3"]) = true.
Proof. vm_compute. reflexivity. Qed.
Example mon_wrong_order : C11_ok sample (str "repeatedField.key") (mkRes false false [str "k2"; str "k1"; str "k3"]) = false.
Proof. vm_compute. reflexivity. Qed.
Example mon_first_only : C11_ok sample (str "repeatedField.key") (mkRes false false [str "k1"]) = false.
Proof. vm_compute. reflexivity. Qed.
Example mon_missed_error : C11_ok sample (str "nilNested.key") (mkRes false false []) = false.
Proof. vm_compute. reflexivity. Qed.
Example mon_spurious_error : C11_ok sample (str "empty.key") (mkRes false true []) = false.
Proof. vm_compute. reflexivity. Qed.
Example mon_panic : C11_ok sample (str "key") (mkRes true false []) = false.
Proof. vm_compute. reflexivity. Qed.
Example mon_partial_keys_ignored : C11_ok sample (str "withNil.key") (mkRes false true []) = true.
Proof. vm_compute. reflexivity. Qed.
Example acc_partial_keys_seen : acc_class sample (str "withNil.key") (mkRes false true []) = Some DErrKeys.
Proof. vm_compute. reflexivity. Qed.
