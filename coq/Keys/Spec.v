(* Engine "keys" (C11): the declarative reference traversal.  Definitions only.

   Vocabulary of the property statement:
   * a MESSAGE is a struct, or a pointer / interface that directly holds a
     struct (one indirection, as generated protobuf code passes messages);
   * a STRING VALUE is a string, or a pointer / interface directly holding one;
   * a path segment `seg` names the field called strings.Title(seg);
   * a REPEATED field is a field of slice kind (arrays and maps are not);
   * everything else (nil, pointer to pointer, interface holding a pointer,
     numbers, maps, arrays, slices that are not fields) is neither. *)
From GV Require Import Keys.Model.
Open Scope N_scope.

Definition deref (v : gval) : gval :=
  match v with
  | VPtr (Some x) | VIface (Some x) => x
  | VPtr None | VIface None => VInvalid
  | _ => v
  end.

Definition as_message (v : gval) : option fields :=
  match deref v with VStruct fs => Some fs | _ => None end.

Definition as_string (v : gval) : option bytes :=
  match deref v with VString s => Some s | _ => None end.

Definition field_named (name : bytes) (fs : fields) : option gval :=
  match name with
  | [] => None
  | _ => option_map snd (find (fun f => bytes_eqb (fst (fst f)) name) fs)
  end.

(* Result of the reference traversal: the keys, or an error together with the
   keys of the completely traversed elements of the OUTERMOST repeated field
   (what the Go function happens to return next to the error). *)
Inductive rres :=
| ROk (keys : list bytes)
| RErr (partial : list bytes).

(* Concatenate in order; the first error wins. *)
Fixpoint collect (rs : list rres) : rres :=
  match rs with
  | [] => ROk []
  | ROk ks :: rest =>
      match collect rest with
      | ROk ks' => ROk (ks ++ ks')
      | RErr ks' => RErr (ks ++ ks')
      end
  | RErr _ :: _ => RErr []
  end.

Fixpoint ref_keys (path : list bytes) (v : gval) : rres :=
  match path with
  | [] =>
      match as_string v with
      | Some s => ROk [s]
      | None => RErr []                      (* ends on a non-string value *)
      end
  | seg :: rest =>
      match as_message v with
      | None => RErr []                      (* nil message / crosses a non-message *)
      | Some fs =>
          match field_named (title seg) fs with
          | None => RErr []                  (* missing field *)
          | Some (VSlice elems) => collect (map (ref_keys rest) elems)   (* fan out, in order *)
          | Some f => ref_keys rest f
          end
      end
  end.

Definition ref_get_keys (locator : bytes) (msg : gval) : rres :=
  ref_keys (split_dot locator) msg.

Definition to_outcome (r : rres) : outcome :=
  match r with ROk ks => Ok ks | RErr ks => Err ks end.

Definition is_err (r : rres) : bool := match r with RErr _ => true | ROk _ => false end.

(* The same thing as a relation that reads like the statement of C11:
   Extracts v path ks  =  "following path from v reaches exactly the string
   values ks, in field order". *)
Definition not_repeated (f : gval) : Prop := forall l, f <> VSlice l.

Inductive Extracts : gval -> list bytes -> list bytes -> Prop :=
| ex_leaf : forall v s,
    as_string v = Some s -> Extracts v [] [s]
| ex_field : forall v fs seg rest f ks,
    as_message v = Some fs -> field_named (title seg) fs = Some f -> not_repeated f ->
    Extracts f rest ks -> Extracts v (seg :: rest) ks
| ex_repeated : forall v fs seg rest elems kss,
    as_message v = Some fs -> field_named (title seg) fs = Some (VSlice elems) ->
    Forall2 (fun e ks => Extracts e rest ks) elems kss ->
    Extracts v (seg :: rest) (concat kss).

(* join with "." (inverse of split_dot) *)
Fixpoint join_dot (l : list bytes) : bytes :=
  match l with
  | [] => []
  | [x] => x
  | x :: r => x ++ dot :: join_dot r
  end.

(* notation helper for examples: the bytes of a Coq string literal *)
From Coq Require Import Strings.String Strings.Ascii.
Definition str (s : string) : bytes := map N_of_ascii (list_ascii_of_string s).
