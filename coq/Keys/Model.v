(* Engine "keys" (property C11): executable model of

     func keysFromMessage(val reflect.Value, path []string, start int) ([]string, error)
     func getAffinityKeysFromMessage(locator string, msg interface{}) ([]string, error)

   of /repo/grpcgcp/gcp_picker.go, AS THE CODE IS.  Go values are modelled as
   `reflect` sees them (type gval); the handful of reflect operations the code
   uses are partial functions (None = reflect panics), so that the absence of
   panics is a theorem about the guards in the code and not an artefact of the
   model.  No proofs in this file. *)
From Coq Require Export List NArith Bool Arith.
Export ListNotations.
Open Scope N_scope.

(* Go strings are byte strings. *)
Definition bytes := list N.

Fixpoint bytes_eqb (a b : bytes) : bool :=
  match a, b with
  | [], [] => true
  | x :: r, y :: s => N.eqb x y && bytes_eqb r s
  | _, _ => false
  end.

(* ------------------------------------------------------------------------ *)
(* A Go value as reflect.Value presents it.
   VInvalid  : the zero reflect.Value (reflect.ValueOf(nil), Elem() of a nil
               pointer/interface, FieldByName miss); Kind() = Invalid.
   VOther k  : any kind that the code never looks into (Bool, Int*, Uint*,
               Float*, Complex*, Chan, Func, UnsafePointer, Uintptr), k is the
               numeric reflect.Kind.
   VPtr/VIface : None = nil.  An interface value holds a non-interface value.
   VStruct   : fields in declaration order: (name, anonymous?, value).  For an
               anonymous (embedded) field the name is the type name, as
               reflect.StructField.Name reports it.
   VMap      : entries in some order (never inspected). *)
Inductive gval : Type :=
| VInvalid
| VString (s : bytes)
| VOther (kind : N)
| VPtr (o : option gval)
| VIface (o : option gval)
| VStruct (fields : list (bytes * bool * gval))
| VSlice (l : list gval)
| VArray (l : list gval)
| VMap (l : list (gval * gval)).

Definition fields := list (bytes * bool * gval).

Inductive kind := KInvalid | KString | KStruct | KSlice | KArray | KMap | KPointer | KInterface | KOther (k : N).

(* reflect.Value.Kind: defined on every Value, including the zero Value. *)
Definition kind_of (v : gval) : kind :=
  match v with
  | VInvalid => KInvalid
  | VString _ => KString
  | VOther k => KOther k
  | VPtr _ => KPointer
  | VIface _ => KInterface
  | VStruct _ => KStruct
  | VSlice _ => KSlice
  | VArray _ => KArray
  | VMap _ => KMap
  end.

Definition is_string (k : kind) : bool := match k with KString => true | _ => false end.
Definition is_struct (k : kind) : bool := match k with KStruct => true | _ => false end.
Definition is_slice (k : kind) : bool := match k with KSlice => true | _ => false end.
Definition is_pointer (k : kind) : bool := match k with KPointer => true | _ => false end.
Definition is_interface (k : kind) : bool := match k with KInterface => true | _ => false end.

(* reflect.Value.Elem: panics unless Kind is Pointer or Interface; on nil it
   returns the zero Value. *)
Definition r_elem (v : gval) : option gval :=
  match v with
  | VPtr (Some x) | VIface (Some x) => Some x
  | VPtr None | VIface None => Some VInvalid
  | _ => None
  end.

(* reflect.Value.String: never panics; for a non-string kind it returns
   "<T Value>", which the code never asks for (placeholder: the empty string). *)
Definition r_string (v : gval) : bytes :=
  match v with VString s => s | _ => [] end.

(* structType.FieldByName (package reflect) without embedded fields: the first field whose
   name equals the argument; the empty name matches nothing. *)
Fixpoint lookup (name : bytes) (fs : fields) : option gval :=
  match fs with
  | [] => None
  | (n, _, v) :: r => if bytes_eqb n name then Some v else lookup name r
  end.

Definition is_empty (b : bytes) : bool := match b with [] => true | _ => false end.

(* reflect.Value.FieldByName: panics unless Kind is Struct; a miss gives the
   zero Value.  Promotion through embedded fields is NOT modelled (see
   Monitors.in_model). *)
Definition r_field_by_name (v : gval) (name : bytes) : option gval :=
  match v with
  | VStruct fs =>
      Some (if is_empty name then VInvalid
            else match lookup name fs with Some f => f | None => VInvalid end)
  | _ => None
  end.

(* The sequence valField.Index(0) .. valField.Index(valField.Len()-1); Len and
   Index panic on kinds other than Slice/Array/String (String not needed). *)
Definition r_elems (v : gval) : option (list gval) :=
  match v with
  | VSlice l | VArray l => Some l
  | _ => None
  end.

(* ------------------------------------------------------------------------ *)
(* strings.Title for ASCII input, byte by byte:
     prev := ' '; Map(func(r) { if isSeparator(prev) { prev = r; return unicode.ToTitle(r) }; prev = r; return r }, s)
   isSeparator: ASCII letters, digits and '_' are not separators, every other
   ASCII character is. *)
Definition in_range (lo hi b : N) : bool := (lo <=? b) && (b <=? hi).
Definition is_lower (b : N) : bool := in_range 97 122 b.
Definition is_upper (b : N) : bool := in_range 65 90 b.
Definition is_digit (b : N) : bool := in_range 48 57 b.
Definition is_separator (b : N) : bool :=
  negb (is_digit b || is_lower b || is_upper b || (b =? 95)).
Definition to_title (b : N) : N := if is_lower b then b - 32 else b.

Fixpoint title_from (prev : N) (s : bytes) : bytes :=
  match s with
  | [] => []
  | c :: r => (if is_separator prev then to_title c else c) :: title_from c r
  end.

Definition title (s : bytes) : bytes := title_from 32 s.

(* strings.Split(s, "."): Count(s, ".")+1 pieces. *)
Definition dot : N := 46.

Fixpoint split_dot (s : bytes) : list bytes :=
  match s with
  | [] => [[]]
  | c :: r =>
      if c =? dot then [] :: split_dot r
      else match split_dot r with
           | h :: t => (c :: h) :: t
           | [] => [[c]]
           end
  end.

(* ------------------------------------------------------------------------ *)
(* ([]string, error) or a panic.  Err carries the first return value too. *)
Inductive outcome :=
| Ok (keys : list bytes)
| Err (keys : list bytes)
| Panic.

(*  keys := []string{}
    for i := 0; i < valField.Len(); i++ {
        kk, err := keysFromMessage(valField.Index(i), path, start+1)
        if err != nil { return keys, err }
        keys = append(keys, kk...)
    }
    return keys, nil                                                         *)
Fixpoint kfm_loop (f : gval -> outcome) (elems : list gval) (keys : list bytes) : outcome :=
  match elems with
  | [] => Ok keys
  | e :: r =>
      match f e with
      | Ok kk => kfm_loop f r (keys ++ kk)
      | Err _ => Err keys
      | Panic => Panic
      end
  end.

(* keysFromMessage; `fuel` bounds the recursion depth for Coq's sake only:
   each recursive call increases `start`, see keysFromMessage below and
   Proofs.kfm_total (running out of fuel would be reported as Panic). *)
Fixpoint kfm (fuel : nat) (val : gval) (path : list bytes) (start : nat) : outcome :=
  match fuel with
  | O => Panic
  | S fuel' =>
    (* if val.Kind() == reflect.Pointer || val.Kind() == reflect.Interface { val = val.Elem() } *)
    match (if is_pointer (kind_of val) || is_interface (kind_of val) then r_elem val else Some val) with
    | None => Panic
    | Some val =>
      (* if len(path) == start *)
      if Nat.eqb (length path) start then
        if negb (is_string (kind_of val)) then Err [] else Ok [r_string val]
      else if negb (is_struct (kind_of val)) then Err []
      else
        (* path[start] *)
        match nth_error path start with
        | None => Panic
        | Some seg =>
          match r_field_by_name val (title seg) with
          | None => Panic
          | Some valField =>
            if negb (is_slice (kind_of valField)) then kfm fuel' valField path (S start)
            else match r_elems valField with
                 | None => Panic
                 | Some elems => kfm_loop (fun e => kfm fuel' e path (S start)) elems []
                 end
          end
        end
    end
  end.

Definition keysFromMessage (val : gval) (path : list bytes) (start : nat) : outcome :=
  kfm (S (length path - start)) val path start.

(* msg is reflect.ValueOf(msg): VInvalid for a nil interface.
     defer func() { if r := recover(); r != nil { affinityKeys, err = nil, fmt.Errorf(...) } }()
   turns a panic of the traversal into (nil, error). *)
Definition recovered (o : outcome) : outcome :=
  match o with
  | Panic => Err []
  | _ => o
  end.

Definition getAffinityKeysFromMessage (locator : bytes) (msg : gval) : outcome :=
  let names := split_dot locator in
  if Nat.eqb (length names) 0 then Err []
  else recovered (keysFromMessage msg names 0).
