(* Engine "keys" (C11): theorems.  Everything is for ALL values and ALL
   locators/paths: the recursion of the code is on the path (start grows by one
   per call), so the proofs go by induction on the path / the fuel, with the
   value generalised; no bound on the depth or width of the value. *)
From GV Require Import Keys.Model Keys.Spec Keys.Monitors.
From Coq Require Import Lia.
Open Scope N_scope.

(* ------------------------------------------------------------------------ *)
(* bytes *)
Lemma bytes_eqb_refl : forall a, bytes_eqb a a = true.
Proof. induction a; simpl; auto. rewrite N.eqb_refl; auto. Qed.

Lemma bytes_eqb_eq : forall a b, bytes_eqb a b = true <-> a = b.
Proof.
  induction a; destruct b; simpl; split; intros H; try congruence; auto.
  - apply andb_true_iff in H. destruct H as [H1 H2]. apply N.eqb_eq in H1. apply IHa in H2. congruence.
  - inversion H; subst. rewrite N.eqb_refl. simpl. apply IHa; auto.
Qed.

Lemma keys_eqb_refl : forall a, keys_eqb a a = true.
Proof. induction a; simpl; auto. rewrite bytes_eqb_refl; auto. Qed.

Lemma keys_eqb_eq : forall a b, keys_eqb a b = true <-> a = b.
Proof.
  induction a; destruct b; simpl; split; intros H; try congruence; auto.
  - apply andb_true_iff in H. destruct H as [H1 H2]. apply bytes_eqb_eq in H1. apply IHa in H2. congruence.
  - inversion H; subst. rewrite bytes_eqb_refl. simpl. apply IHa; auto.
Qed.

(* ------------------------------------------------------------------------ *)
(* strings.Split(s, ".") *)
Theorem split_nonempty : forall s, split_dot s <> [].
Proof.
  induction s; simpl; try congruence.
  destruct (a =? dot); try congruence.
  destruct (split_dot s); congruence.
Qed.

Lemma split_length_pos : forall s, Nat.eqb (length (split_dot s)) 0 = false.
Proof. intros s. pose proof (split_nonempty s). destruct (split_dot s); simpl; congruence. Qed.

Theorem join_split : forall s, join_dot (split_dot s) = s.
Proof.
  induction s; simpl; auto.
  destruct (a =? dot) eqn:E.
  - apply N.eqb_eq in E; subst.
    pose proof (split_nonempty s) as NE.
    destruct (split_dot s) eqn:S; try congruence.
    simpl in *. rewrite IHs. reflexivity.
  - pose proof (split_nonempty s) as NE.
    destruct (split_dot s) as [|h t] eqn:S; try congruence.
    destruct t; simpl in *; rewrite <- IHs; reflexivity.
Qed.

Theorem split_no_dot : forall s, Forall (fun seg => ~ In dot seg) (split_dot s).
Proof.
  induction s; simpl.
  - constructor; auto.
  - destruct (a =? dot) eqn:E.
    + constructor; auto.
    + destruct (split_dot s) as [|h t]; inversion IHs; subst; constructor; auto.
      * simpl. intros [H|H]; try contradiction. subst. rewrite N.eqb_refl in E. discriminate.
      * simpl. intros [H|H]; auto. subst. rewrite N.eqb_refl in E. discriminate.
Qed.

Lemma split_single : forall x, ~ In dot x -> split_dot x = [x].
Proof.
  induction x; intros Hx; cbn [split_dot]; auto.
  destruct (a =? dot) eqn:E.
  - apply N.eqb_eq in E. subst. exfalso. apply Hx. left; auto.
  - rewrite IHx; auto. intros H; apply Hx; right; auto.
Qed.

Lemma split_app_dot : forall x rest, ~ In dot x -> split_dot (x ++ dot :: rest) = x :: split_dot rest.
Proof.
  induction x; intros rest Hx.
  - cbn [app split_dot]. rewrite N.eqb_refl. reflexivity.
  - cbn [app split_dot]. destruct (a =? dot) eqn:E.
    + apply N.eqb_eq in E. subst. exfalso. apply Hx. left; auto.
    + rewrite IHx; auto. intros H; apply Hx; right; auto.
Qed.

(* split_dot is the only function with these two properties *)
Theorem split_join : forall l, l <> [] -> Forall (fun seg => ~ In dot seg) l -> split_dot (join_dot l) = l.
Proof.
  induction l as [|x r IH]; intros NE F; try congruence.
  inversion F as [|? ? Hx Hr]; subst.
  destruct r as [|y r'].
  - cbn [join_dot]. apply split_single; auto.
  - change (join_dot (x :: y :: r')) with (x ++ dot :: join_dot (y :: r')).
    rewrite split_app_dot by auto. rewrite IH; auto. congruence.
Qed.

Theorem split_count : forall s, length (split_dot s) = S (count_occ N.eq_dec s dot).
Proof.
  induction s; simpl; auto.
  destruct (a =? dot) eqn:E.
  - apply N.eqb_eq in E. subst. destruct (N.eq_dec dot dot); try congruence. simpl. rewrite IHs. reflexivity.
  - destruct (N.eq_dec a dot) as [e|e]; [subst; rewrite N.eqb_refl in E; discriminate|].
    pose proof (split_nonempty s). destruct (split_dot s); try congruence. simpl in *. auto.
Qed.

(* ------------------------------------------------------------------------ *)
(* strings.Title *)
Lemma title_from_length : forall s p, length (title_from p s) = length s.
Proof. induction s; simpl; auto. Qed.

Theorem title_length : forall s, length (title s) = length s.
Proof. intros; apply title_from_length. Qed.

Lemma to_title_not_lower : forall c, is_lower (to_title c) = false.
Proof.
  intros c. unfold to_title. destruct (is_lower c) eqn:E; auto.
  unfold is_lower, in_range in *. apply andb_true_iff in E. destruct E as [E1 E2].
  apply N.leb_le in E1. apply N.leb_le in E2.
  apply andb_false_iff. left. apply N.leb_gt. lia.
Qed.

(* the first byte of a titled segment is never a lower-case ASCII letter:
   fields whose names start with a..z cannot be named by any locator *)
Theorem title_first_not_lower : forall s c r, title s = c :: r -> is_lower c = false.
Proof.
  intros s c r H. destruct s; simpl in H; try discriminate.
  unfold title in H. simpl in H. inversion H. apply to_title_not_lower.
Qed.

Theorem title_idempotent_upper : forall c r, is_upper c = true ->
  exists r', title (c :: r) = c :: r'.
Proof.
  intros c r H. unfold title. simpl. exists (title_from c r).
  unfold to_title. destruct (is_lower c) eqn:E; auto.
  unfold is_lower, is_upper, in_range in *.
  apply andb_true_iff in E. apply andb_true_iff in H. destruct E as [E1 E2]. destruct H as [H1 H2].
  apply N.leb_le in E1. apply N.leb_le in H2. lia.
Qed.

(* ------------------------------------------------------------------------ *)
(* model lookup = spec lookup *)
Lemma lookup_find : forall name fs,
  lookup name fs = option_map snd (find (fun f => bytes_eqb (fst (fst f)) name) fs).
Proof.
  induction fs as [|[[n a] x] r IH]; simpl; auto.
  destruct (bytes_eqb n name); simpl; auto.
Qed.

Lemma field_by_name_spec : forall fs name,
  r_field_by_name (VStruct fs) name =
  Some (match field_named name fs with Some f => f | None => VInvalid end).
Proof.
  intros fs name. unfold r_field_by_name, field_named.
  destruct name; simpl; auto. rewrite lookup_find. reflexivity.
Qed.

(* the guarded Elem() of the code is `deref` *)
Lemma elem_step : forall v,
  (if is_pointer (kind_of v) || is_interface (kind_of v) then r_elem v else Some v) = Some (deref v).
Proof. destruct v as [| | |[x|]|[x|]| | | |]; simpl; reflexivity. Qed.

Lemma ref_keys_invalid : forall p, ref_keys p VInvalid = RErr [].
Proof. destruct p; reflexivity. Qed.

(* ------------------------------------------------------------------------ *)
(* the loop of the code = collect *)
Definition prepend (acc : list bytes) (r : rres) : rres :=
  match r with ROk ks => ROk (acc ++ ks) | RErr ks => RErr (acc ++ ks) end.

Lemma prepend_nil : forall r, prepend [] r = r.
Proof. destruct r; reflexivity. Qed.

Lemma loop_collect : forall (f : gval -> outcome) (g : gval -> rres) elems acc,
  (forall e, In e elems -> f e = to_outcome (g e)) ->
  kfm_loop f elems acc = to_outcome (prepend acc (collect (map g elems))).
Proof.
  induction elems as [|e r IH]; intros acc H; simpl.
  - rewrite app_nil_r. reflexivity.
  - rewrite (H e) by (left; auto).
    destruct (g e) as [kk|kk]; simpl.
    + rewrite IH by (intros; apply H; right; auto).
      destruct (collect (map g r)); simpl; rewrite app_assoc; reflexivity.
    + rewrite app_nil_r. reflexivity.
Qed.

Lemma skipn_nth : forall (A : Type) (l : list A) n, (n < length l)%nat ->
  exists x, nth_error l n = Some x /\ skipn n l = x :: skipn (S n) l.
Proof.
  induction l; intros n H; simpl in H; try lia.
  destruct n; simpl.
  - eexists; split; eauto.
  - apply IHl. lia.
Qed.

(* keysFromMessage(val, path, start) is the reference traversal of path[start:] *)
Theorem kfm_spec : forall fuel path start v,
  (start <= length path)%nat -> (length path - start < fuel)%nat ->
  kfm fuel v path start = to_outcome (ref_keys (skipn start path) v).
Proof.
  induction fuel as [|fuel IH]; intros path start v Hs Hf; try lia.
  cbn [kfm]. rewrite elem_step.
  destruct (Nat.eqb (length path) start) eqn:E.
  - apply Nat.eqb_eq in E. subst start. rewrite skipn_all. simpl.
    unfold as_string. destruct (deref v); simpl; reflexivity.
  - apply Nat.eqb_neq in E.
    destruct (skipn_nth _ path start) as [seg [Hn Hk]]; try lia.
    rewrite Hk. cbn [ref_keys]. unfold as_message.
    destruct (deref v) as [| | | | |fs| | |] eqn:D; try reflexivity.
    cbn [kind_of is_struct negb]. rewrite Hn. rewrite field_by_name_spec.
    destruct (field_named (title seg) fs) as [f|].
    + destruct f; cbn [kind_of is_slice negb r_elems]; try (apply IH; lia).
      rewrite (loop_collect _ (ref_keys (skipn (S start) path))).
      * rewrite prepend_nil. reflexivity.
      * intros e _. apply IH; lia.
    + cbn [kind_of is_slice negb]. rewrite IH by lia. rewrite ref_keys_invalid. reflexivity.
Qed.

Theorem keysFromMessage_spec : forall path start v, (start <= length path)%nat ->
  keysFromMessage v path start = to_outcome (ref_keys (skipn start path) v).
Proof. intros. unfold keysFromMessage. apply kfm_spec; lia. Qed.

(* The guards of the code suffice: on values without embedded fields (all the
   model covers) the traversal itself never panics and never runs out of
   fuel, so the deferred recover() is not exercised. *)
Theorem kfm_total : forall path start v, (start <= length path)%nat ->
  keysFromMessage v path start <> Panic.
Proof.
  intros. rewrite keysFromMessage_spec by auto. destruct (ref_keys _ _); simpl; congruence.
Qed.

Theorem recover_unused : forall path start v, (start <= length path)%nat ->
  recovered (keysFromMessage v path start) = keysFromMessage v path start.
Proof.
  intros. pose proof (kfm_total path start v H). destruct (keysFromMessage v path start); simpl; congruence.
Qed.

(* ------------------------------------------------------------------------ *)
(* MAIN THEOREMS *)
Theorem keys_spec : forall v loc,
  getAffinityKeysFromMessage loc v = to_outcome (ref_get_keys loc v).
Proof.
  intros. unfold getAffinityKeysFromMessage, ref_get_keys.
  rewrite split_length_pos.
  rewrite recover_unused by lia.
  rewrite keysFromMessage_spec by lia. reflexivity.
Qed.

Theorem keys_total : forall v loc, getAffinityKeysFromMessage loc v <> Panic.
Proof. intros. rewrite keys_spec. destruct (ref_get_keys loc v); simpl; congruence. Qed.

(* the `len(names) == 0` branch of the wrapper is dead code *)
Theorem empty_locator_branch_dead : forall v loc,
  getAffinityKeysFromMessage loc v = recovered (keysFromMessage v (split_dot loc) 0).
Proof. intros. unfold getAffinityKeysFromMessage. rewrite split_length_pos. reflexivity. Qed.

(* ------------------------------------------------------------------------ *)
(* The monitors accept the model. *)
Theorem c11_ok_model : forall v loc,
  C11_ok v loc (result_of (getAffinityKeysFromMessage loc v)) = true.
Proof.
  intros. rewrite keys_spec. unfold C11_ok.
  destruct (ref_get_keys loc v); simpl; auto. apply keys_eqb_refl.
Qed.

Theorem c11_monitor_model : forall v loc,
  c11_monitor v loc (result_of (getAffinityKeysFromMessage loc v)) = true.
Proof.
  intros. unfold c11_monitor. destruct (in_model v loc).
  - apply c11_ok_model.
  - pose proof (keys_total v loc). unfold C11_total_ok.
    destruct (getAffinityKeysFromMessage loc v); simpl; congruence.
Qed.

Theorem acc_class_model : forall v loc,
  acc_class v loc (result_of (getAffinityKeysFromMessage loc v)) = None.
Proof.
  intros. unfold acc_class. destruct (getAffinityKeysFromMessage loc v); simpl; auto;
  rewrite keys_eqb_refl; reflexivity.
Qed.

(* the model is a function of (locator, value) only: trivially history independent *)
Theorem same_result_model : forall v loc,
  same_result (result_of (getAffinityKeysFromMessage loc v)) (result_of (getAffinityKeysFromMessage loc v)) = true.
Proof.
  intros. unfold same_result. rewrite !Bool.eqb_reflx, keys_eqb_refl. reflexivity.
Qed.

Theorem same_result_eq : forall a b, same_result a b = true <-> a = b.
Proof.
  intros [p1 e1 k1] [p2 e2 k2]. unfold same_result. simpl. split.
  - intros H. apply andb_true_iff in H. destruct H as [H H3]. apply andb_true_iff in H. destruct H as [H1 H2].
    apply Bool.eqb_prop in H1. apply Bool.eqb_prop in H2. apply keys_eqb_eq in H3. congruence.
  - intros H. inversion H; subst. rewrite !Bool.eqb_reflx, keys_eqb_refl. reflexivity.
Qed.

(* Soundness of the monitor: whatever result it accepts satisfies the
   statement of C11 literally. *)
Theorem c11_ok_sound : forall v loc r, C11_ok v loc r = true ->
  ir_panic r = false /\
  (ir_err r = true <-> is_err (ref_get_keys loc v) = true) /\
  (ir_err r = false -> ref_get_keys loc v = ROk (ir_keys r)).
Proof.
  intros v loc r H. unfold C11_ok in H. apply andb_true_iff in H. destruct H as [H1 H2].
  apply negb_true_iff in H1. split; auto.
  destruct (ref_get_keys loc v) as [ks|ks]; simpl.
  - apply andb_true_iff in H2. destruct H2 as [H2 H3]. apply negb_true_iff in H2. apply keys_eqb_eq in H3.
    subst. split; [split; congruence | auto].
  - split; [tauto | congruence].
Qed.

(* ------------------------------------------------------------------------ *)
(* The clauses of the property statement, one by one (about the reference
   traversal; they transfer to the model through keys_spec). *)

(* collect: all succeed -> concatenation in order *)
Lemma collect_all_ok : forall rs kss,
  Forall2 (fun r ks => r = ROk ks) rs kss -> collect rs = ROk (concat kss).
Proof. induction 1; simpl; auto. subst. rewrite IHForall2. reflexivity. Qed.

Lemma collect_ok_inv : forall rs ks, collect rs = ROk ks ->
  exists kss, Forall2 (fun r ks => r = ROk ks) rs kss /\ ks = concat kss.
Proof.
  induction rs as [|r rs IH]; simpl; intros ks H.
  - inversion H. exists []. split; constructor.
  - destruct r as [k|k]; try discriminate.
    destruct (collect rs) as [k'|k'] eqn:C; try discriminate. inversion H; subst.
    destruct (IH k' eq_refl) as [kss [F E]]. exists (k :: kss). split.
    + constructor; auto.
    + simpl. congruence.
Qed.

(* first error wins; the keys next to it are those of the elements before it *)
Lemma collect_first_err : forall pre kss p post,
  Forall2 (fun r ks => r = ROk ks) pre kss ->
  collect (pre ++ RErr p :: post) = RErr (concat kss).
Proof.
  induction 1; simpl; auto. subst. rewrite IHForall2. reflexivity.
Qed.

Lemma collect_err_iff : forall rs, is_err (collect rs) = true <-> exists r, In r rs /\ is_err r = true.
Proof.
  induction rs as [|r rs IH]; simpl.
  - split; [discriminate | intros [r [[] _]]].
  - destruct r as [k|k]; simpl.
    + destruct (collect rs) eqn:C; simpl in *.
      * split; [discriminate|]. intros [r [[H|H] E]]; [subst; discriminate|].
        apply IH. exists r; auto.
      * split; auto. intros _. destruct IH as [IH _]. destruct (IH eq_refl) as [r [H E]]. exists r; auto.
    + split; auto. intros _. exists (RErr k); auto.
Qed.

(* "fanning out over every element of every repeated field on the way", "in field order" *)
Theorem c11_fanout : forall v fs seg rest elems,
  as_message v = Some fs -> field_named (title seg) fs = Some (VSlice elems) ->
  ref_keys (seg :: rest) v = collect (map (ref_keys rest) elems).
Proof. intros. simpl. rewrite H, H0. reflexivity. Qed.

Theorem c11_fanout_in_order : forall v fs seg rest elems kss,
  as_message v = Some fs -> field_named (title seg) fs = Some (VSlice elems) ->
  Forall2 (fun e ks => ref_keys rest e = ROk ks) elems kss ->
  ref_keys (seg :: rest) v = ROk (concat kss).
Proof.
  intros. rewrite (c11_fanout v fs seg rest elems) by auto.
  apply collect_all_ok. clear - H1. induction H1; simpl; constructor; auto.
Qed.

(* "an empty repeated field contributes no keys" *)
Theorem c11_empty_repeated : forall v fs seg rest,
  as_message v = Some fs -> field_named (title seg) fs = Some (VSlice []) ->
  ref_keys (seg :: rest) v = ROk [].
Proof. intros. rewrite (c11_fanout v fs seg rest []) by auto. reflexivity. Qed.

Theorem c11_empty_repeated_contributes_nothing : forall rs1 rs2,
  collect (rs1 ++ ROk [] :: rs2) = collect (rs1 ++ rs2).
Proof.
  induction rs1 as [|r rs1 IH]; intros; simpl.
  - destruct (collect rs2); reflexivity.
  - destruct r; auto. rewrite IH. reflexivity.
Qed.

(* through nested messages and pointers *)
Theorem c11_nested : forall v fs seg rest f,
  as_message v = Some fs -> field_named (title seg) fs = Some f -> not_repeated f ->
  ref_keys (seg :: rest) v = ref_keys rest f.
Proof.
  intros. simpl. rewrite H, H0. destruct f; auto. exfalso. eapply H1; eauto.
Qed.

Theorem c11_pointer_transparent : forall path x,
  (forall y, x <> VPtr y) -> (forall y, x <> VIface y) ->
  ref_keys path (VPtr (Some x)) = ref_keys path x /\ ref_keys path (VIface (Some x)) = ref_keys path x.
Proof.
  intros path x H1 H2.
  assert (D : deref x = x).
  { destruct x as [| | |o|o| | | |]; auto; [destruct (H1 o) | destruct (H2 o)]; reflexivity. }
  destruct path; simpl; unfold as_string, as_message; simpl; rewrite D; auto.
Qed.

(* "a path that names a missing field ... is an error" *)
Theorem c11_missing_field : forall v fs seg rest,
  as_message v = Some fs -> field_named (title seg) fs = None ->
  ref_keys (seg :: rest) v = RErr [].
Proof. intros. simpl. rewrite H, H0. reflexivity. Qed.

(* "crosses a non-message value" *)
Theorem c11_non_message : forall v seg rest,
  as_message v = None -> ref_keys (seg :: rest) v = RErr [].
Proof. intros. simpl. rewrite H. reflexivity. Qed.

(* "ends on a non-string value" *)
Theorem c11_non_string_leaf : forall v, as_string v = None -> ref_keys [] v = RErr [].
Proof. intros. simpl. rewrite H. reflexivity. Qed.

Theorem c11_string_leaf : forall v s, as_string v = Some s -> ref_keys [] v = ROk [s].
Proof. intros. simpl. rewrite H. reflexivity. Qed.

(* "a nil message ... is an error": nil interface (reflect.ValueOf(nil)), nil
   pointer, nil interface-typed field *)
Theorem c11_nil_message : forall path,
  ref_keys path VInvalid = RErr [] /\ ref_keys path (VPtr None) = RErr [] /\ ref_keys path (VIface None) = RErr [].
Proof. destruct path; repeat split; reflexivity. Qed.

(* "... or nil nested message is an error" *)
Theorem c11_nil_nested_message : forall v fs seg rest,
  as_message v = Some fs ->
  (field_named (title seg) fs = Some (VPtr None) \/ field_named (title seg) fs = Some (VIface None)) ->
  ref_keys (seg :: rest) v = RErr [].
Proof.
  intros v fs seg rest H [H0|H0]; simpl; rewrite H, H0; destruct rest; reflexivity.
Qed.

(* a nil element of a repeated message field makes the whole extraction an error *)
Theorem c11_nil_element : forall v fs seg rest elems,
  as_message v = Some fs -> field_named (title seg) fs = Some (VSlice elems) ->
  In (VPtr None) elems -> is_err (ref_keys (seg :: rest) v) = true.
Proof.
  intros. rewrite (c11_fanout v fs seg rest elems) by auto.
  apply collect_err_iff. exists (RErr []). split; auto.
  apply in_map_iff. exists (VPtr None). split; auto. destruct rest; reflexivity.
Qed.

(* only one indirection is a message: pointer to pointer, interface holding a
   pointer, and everything that is not a struct/string are errors everywhere *)
Theorem c11_double_indirection : forall path o,
  ref_keys path (VPtr (Some (VPtr o))) = RErr [] /\
  ref_keys path (VIface (Some (VPtr o))) = RErr [] /\
  ref_keys path (VPtr (Some (VIface o))) = RErr [].
Proof. destruct path; repeat split; reflexivity. Qed.

Theorem c11_opaque_kinds : forall path v,
  (exists k, v = VOther k) \/ (exists l, v = VMap l) \/ (exists l, v = VArray l) \/ (exists l, v = VSlice l) ->
  ref_keys path v = RErr [].
Proof.
  intros path v [[k H]|[[l H]|[[l H]|[l H]]]]; subst; destruct path; reflexivity.
Qed.

(* ------------------------------------------------------------------------ *)
(* ref_keys and the relation Extracts *)
Theorem extracts_ref_keys : forall path v ks, Extracts v path ks -> ref_keys path v = ROk ks.
Proof.
  induction path as [|seg rest IH]; intros v ks H; inversion H; subst.
  - simpl. rewrite H0. reflexivity.
  - rewrite (c11_nested v fs seg rest f) by auto. apply IH; auto.
  - apply (c11_fanout_in_order v fs seg rest elems kss); auto.
    clear - H6 IH. induction H6; constructor; auto.
Qed.

Theorem ref_keys_extracts : forall path v ks, ref_keys path v = ROk ks -> Extracts v path ks.
Proof.
  induction path as [|seg rest IH]; intros v ks H; simpl in H.
  - destruct (as_string v) eqn:A; inversion H. apply ex_leaf; auto.
  - destruct (as_message v) as [fs|] eqn:A; try discriminate.
    destruct (field_named (title seg) fs) as [f|] eqn:F; try discriminate.
    assert (NR : forall f', (forall l, f' <> VSlice l) -> field_named (title seg) fs = Some f' ->
                 ref_keys rest f' = ROk ks -> Extracts v (seg :: rest) ks).
    { intros f' N F' R. eapply ex_field; eauto. }
    destruct f; try (eapply NR; [ | exact F | exact H ]; intros; congruence).
    destruct (collect_ok_inv _ _ H) as [kss [F2 E]]. subst ks.
    eapply ex_repeated; eauto.
    clear - F2 IH. revert kss F2. induction l; intros kss F2; inversion F2; subst; constructor; auto.
Qed.

Theorem ref_keys_ok_iff : forall path v ks, ref_keys path v = ROk ks <-> Extracts v path ks.
Proof. split; [apply ref_keys_extracts | apply extracts_ref_keys]. Qed.

Theorem extracts_functional : forall path v k1 k2, Extracts v path k1 -> Extracts v path k2 -> k1 = k2.
Proof.
  intros. apply extracts_ref_keys in H. apply extracts_ref_keys in H0. congruence.
Qed.

Theorem ref_keys_err_iff : forall path v,
  is_err (ref_keys path v) = true <-> ~ exists ks, Extracts v path ks.
Proof.
  intros. split.
  - intros E [ks H]. apply extracts_ref_keys in H. rewrite H in E. discriminate.
  - intros N. destruct (ref_keys path v) eqn:R; auto.
    exfalso. apply N. exists keys. apply ref_keys_extracts; auto.
Qed.

(* The statement of C11 for the model of the code: for every value and every
   locator, no panic, and either an error (exactly when the path does not
   lead to string values) or exactly the keys the path leads to, in order. *)
Theorem c11_statement : forall v loc,
  (exists ks, getAffinityKeysFromMessage loc v = Ok ks /\ Extracts v (split_dot loc) ks) \/
  (exists ks, getAffinityKeysFromMessage loc v = Err ks /\ ~ exists ks', Extracts v (split_dot loc) ks').
Proof.
  intros. rewrite keys_spec. unfold ref_get_keys.
  destruct (ref_keys (split_dot loc) v) eqn:R; simpl.
  - left. exists keys. split; auto. apply ref_keys_extracts; auto.
  - right. exists partial. split; auto. apply ref_keys_err_iff. rewrite R. reflexivity.
Qed.

(* ------------------------------------------------------------------------ *)
(* Fields whose name starts with a lower-case ASCII letter are irrelevant
   (justifies that the harness does not dump the contents of protobuf's
   internal `state` field of an already used message). *)
Definition lower_initial (n : bytes) : bool :=
  match n with c :: _ => is_lower c | [] => false end.

Fixpoint erase (v : gval) : gval :=
  match v with
  | VPtr (Some x) => VPtr (Some (erase x))
  | VIface (Some x) => VIface (Some (erase x))
  | VStruct fs => VStruct (map (fun f => match f with
                                         | (n, a, x) => (n, a, if lower_initial n then VInvalid else erase x)
                                         end) fs)
  | VSlice l => VSlice (map erase l)
  | _ => v
  end.

Lemma title_not_lower_initial : forall seg n, lower_initial n = true -> bytes_eqb n (title seg) = false.
Proof.
  intros seg n H. destruct (bytes_eqb n (title seg)) eqn:E; auto.
  apply bytes_eqb_eq in E. subst. destruct (title seg) eqn:T; simpl in H; try discriminate.
  apply title_first_not_lower in T. congruence.
Qed.

Lemma field_named_erase : forall seg fs,
  field_named (title seg)
    (map (fun f => match f with (n, a, x) => (n, a, if lower_initial n then VInvalid else erase x) end) fs)
  = option_map erase (field_named (title seg) fs).
Proof.
  intros seg fs. unfold field_named. destruct (title seg) eqn:T; auto. rewrite <- T.
  induction fs as [|[[nm a] x] r IH]; simpl; auto.
  destruct (bytes_eqb nm (title seg)) eqn:E; simpl; auto.
  destruct (lower_initial nm) eqn:L; auto.
  rewrite title_not_lower_initial in E; auto. discriminate.
Qed.

Lemma deref_erase : forall v, deref (erase v) = erase (deref v).
Proof. destruct v as [| | |[x|]|[x|]| | | |]; reflexivity. Qed.

Theorem erase_irrelevant : forall path v, ref_keys path (erase v) = ref_keys path v.
Proof.
  induction path as [|seg rest IH]; intros v; simpl; unfold as_string, as_message; rewrite deref_erase.
  - destruct (deref v) as [| | |[x|]|[x|]| | | |]; reflexivity.
  - destruct (deref v) as [| | |[x|]|[x|]|fs| | |]; simpl; try reflexivity.
    rewrite field_named_erase. destruct (field_named (title seg) fs) as [f|]; simpl; auto.
    destruct f as [| | |[x|]|[x|]|ffs|l| |]; try reflexivity.
    + apply (IH (VPtr (Some x))).
    + apply (IH (VIface (Some x))).
    + apply (IH (VStruct ffs)).
    + simpl. rewrite map_map. f_equal. apply map_ext. intros; apply IH.
Qed.

Theorem same_after_erase : forall path v w, erase v = erase w -> ref_keys path v = ref_keys path w.
Proof. intros. rewrite <- (erase_irrelevant path v), <- (erase_irrelevant path w). congruence. Qed.
