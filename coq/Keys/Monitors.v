(* Engine "keys" (C11): the property as boolean functions over what the
   harness observes of the REAL getAffinityKeysFromMessage: the input (value
   dumped structurally, locator bytes) and the result (panicked?, error?, the
   returned keys).  The monitor compares with the SPEC (Spec.ref_get_keys), not
   with the step-by-step model, so it stays meaningful when model and code
   diverge; `acc_class` separately compares with the model. *)
From GV Require Import Keys.Model Keys.Spec.
Open Scope N_scope.

Record impl_result := mkRes { ir_panic : bool; ir_err : bool; ir_keys : list bytes }.

Definition result_of (o : outcome) : impl_result :=
  match o with
  | Ok ks => mkRes false false ks
  | Err ks => mkRes false true ks
  | Panic => mkRes true false []
  end.

Fixpoint keys_eqb (a b : list bytes) : bool :=
  match a, b with
  | [], [] => true
  | x :: r, y :: s => bytes_eqb x y && keys_eqb r s
  | _, _ => false
  end.

(* C11: no panic; an error exactly when the reference traversal says so;
   otherwise exactly the reference keys in order.  (The keys returned NEXT TO
   an error are not part of the property - no caller reads them - and are
   compared only by acc_class below.) *)
Definition C11_ok (v : gval) (loc : bytes) (r : impl_result) : bool :=
  negb (ir_panic r) &&
  match ref_get_keys loc v with
  | ROk ks => negb (ir_err r) && keys_eqb ks (ir_keys r)
  | RErr _ => ir_err r
  end.

(* The totality half alone. *)
Definition C11_total_ok (r : impl_result) : bool := negb (ir_panic r).

(* ---- what the model covers ---- *)
(* no anonymous (embedded) struct field anywhere in the value *)
Fixpoint no_anon (v : gval) : bool :=
  match v with
  | VPtr (Some x) | VIface (Some x) => no_anon x
  | VStruct fs => forallb (fun f => match f with (_, a, x) => negb a && no_anon x end) fs
  | VSlice l | VArray l => forallb no_anon l
  | VMap l => forallb (fun p => match p with (k, x) => no_anon k && no_anon x end) l
  | _ => true
  end.

Definition ascii (s : bytes) : bool := forallb (fun b => b <? 128) s.

Definition in_model (v : gval) (loc : bytes) : bool := no_anon v && ascii loc.

(* Monitor printed as m:c11: the full property inside the model's domain, the
   totality half outside it. *)
Definition c11_monitor (v : gval) (loc : bytes) (r : impl_result) : bool :=
  if in_model v loc then C11_ok v loc r else C11_total_ok r.

(* ---- correspondence model / implementation ---- *)
Inductive divclass := DPanic | DError | DKeys | DErrKeys.

Definition acc_class (v : gval) (loc : bytes) (r : impl_result) : option divclass :=
  match getAffinityKeysFromMessage loc v with
  | Panic => if ir_panic r then None else Some DPanic
  | Ok ks =>
      if ir_panic r then Some DPanic
      else if ir_err r then Some DError
      else if keys_eqb ks (ir_keys r) then None else Some DKeys
  | Err ks =>
      if ir_panic r then Some DPanic
      else if negb (ir_err r) then Some DError
      else if keys_eqb ks (ir_keys r) then None else Some DErrKeys
  end.

(* ---- statistics flag: the value contains a struct with a nil embedded
   pointer field (the shape behind finding K11EMB: reflect panics with
   "indirection through nil pointer to embedded struct" when a locator names a
   field promoted through it; fixed by the recover() in the wrapper) ---- *)
Fixpoint has_nil_anon_ptr (v : gval) : bool :=
  match v with
  | VPtr (Some x) | VIface (Some x) => has_nil_anon_ptr x
  | VStruct fs =>
      existsb (fun f => match f with
                        | (_, a, x) => (a && match x with VPtr None => true | _ => false end) || has_nil_anon_ptr x
                        end) fs
  | VSlice l | VArray l => existsb has_nil_anon_ptr l
  | VMap l => existsb (fun p => match p with (k, x) => has_nil_anon_ptr k || has_nil_anon_ptr x end) l
  | _ => false
  end.

(* ---- history independence: the function is pure, so two calls with equal
   inputs made at different points of a process must return equal results
   (checked by the driver on every pair of equal inputs of a run, also where
   the model makes no claim) ---- *)
Definition same_result (a b : impl_result) : bool :=
  Bool.eqb (ir_panic a) (ir_panic b) && Bool.eqb (ir_err a) (ir_err b) && keys_eqb (ir_keys a) (ir_keys b).

(* ---- direct checks of the two modelled library functions ---- *)
Definition title_ok (input output : bytes) : bool := bytes_eqb (title input) output.
Definition split_ok (input : bytes) (output : list bytes) : bool := keys_eqb (split_dot input) output.

(* ---- statistics used by the driver (non-triviality of a case) ---- *)
(* number of repeated fields the reference traversal fans out over *)
Fixpoint fanouts (path : list bytes) (v : gval) : nat :=
  match path with
  | [] => 0
  | seg :: rest =>
      match as_message v with
      | None => 0
      | Some fs =>
          match field_named (title seg) fs with
          | Some (VSlice elems) => S (fold_right (fun e n => fanouts rest e + n)%nat 0%nat elems)
          | Some f => fanouts rest f
          | None => 0
          end
      end
  end.
