(* Executable model of the Spanner prober helpers AS THEY ARE in /repo
   (with the fixes 30d7568, 3d18018, 76e44a5 of findings B3, B2, B1):
     spanner_prober/prober/proberlib.go   backoff, URI builders, probeInterval,
                                          ParseProbeType, generatePayload
     spanner_prober/prober/interceptors.go parseT4T7Latency
     spanner_prober/main.go               validateFlags
   No proofs in this file.  int64 values are Z with explicit wrap-around,
   float64 is Flocq binary64 (F64.v), Go strings are lists of bytes (N). *)
From Coq Require Import ZArith NArith List Bool.
From GV Require Import Prober.F64.
Import ListNotations.
Open Scope Z_scope.

Definition bytes := list N.

Fixpoint bytes_eqb (a b : bytes) : bool :=
  match a, b with
  | [], [] => true
  | x :: r, y :: s => N.eqb x y && bytes_eqb r s
  | _, _ => false
  end.

(* ------------------------------------------------------------------------ *)
(** * backoff (proberlib.go, after fix 76e44a5)

    func backoff(baseDelay, maxDelay time.Duration, retries int) time.Duration {
        backoff, max := float64(baseDelay), float64(maxDelay)
        for backoff > 0 && backoff < max && retries > 0 { backoff = backoff * 1.5; retries-- }
        if backoff >= max { return maxDelay }
        if d := time.Duration(backoff); d > baseDelay { return d }
        return baseDelay
    }                                                                          *)

(* one evaluation of the loop condition (with retries > 0 known) and body *)
Definition bo_step (mx b : f64) : option f64 :=
  if f64_gt b f64_zero && f64_lt b mx then Some (f64_mul b f64_1_5) else None.

(* at most n trips through the loop (n = retries when retries > 0) *)
Fixpoint bo_iter (mx : f64) (n : nat) (b : f64) : f64 :=
  match n with
  | O => b
  | S k => match bo_step mx b with Some b' => bo_iter mx k b' | None => b end
  end.

(* The same iteration counted by a binary positive, leaving as soon as the loop
   condition fails, so that retries = 2^62 is executable.  (value, stopped) *)
Fixpoint bo_iter_pos (mx : f64) (p : positive) (b : f64) : f64 * bool :=
  match p with
  | xH => match bo_step mx b with Some b' => (b', false) | None => (b, true) end
  | xO q =>
      let '(b1, st) := bo_iter_pos mx q b in
      if st then (b1, true) else bo_iter_pos mx q b1
  | xI q =>
      match bo_step mx b with
      | None => (b, true)
      | Some b' =>
          let '(b1, st) := bo_iter_pos mx q b' in
          if st then (b1, true) else bo_iter_pos mx q b1
      end
  end.

(* the three return statements; base, mx are the int64 arguments, m = float64(mx) *)
Definition bo_final (base mx : Z) (m b : f64) : Z :=
  if f64_ge b m then mx
  else let d := f64_to_int64 b in if d >? base then d else base.

(* base, mx: int64 nanoseconds; retries: Go int (a non-positive count means the
   loop body never runs) *)
Definition backoff (base mx retries : Z) : Z :=
  let b0 := f64_of_int base in
  let m := f64_of_int mx in
  let b := match retries with Zpos p => fst (bo_iter_pos m p b0) | _ => b0 end in
  bo_final base mx m b.

(* reference formulation by recursion on a unary count; Backoff.v proves
   backoff = backoff_nat *)
Definition backoff_nat (base mx retries : Z) : Z :=
  let m := f64_of_int mx in
  bo_final base mx m (bo_iter m (Z.to_nat retries) (f64_of_int base)).

(* constants of proberlib.go *)
Definition base_lro_retry_delay : Z := 200 * 1000000.
Definition max_lro_retry_delay : Z := 5 * 1000000000.

(* ------------------------------------------------------------------------ *)
(** * strconv.ParseInt(s, 10, 64) on byte strings *)

Inductive perr := ESyntax | ERange.
Inductive pres := POk (z : Z) | PErr (e : perr).

Definition is_digit (c : N) : bool := (N.leb 48 c) && (N.leb c 57).
Definition digit_val (c : N) : Z := Z.of_N c - 48.
Definition max_u64 : Z := two64 - 1.
Definition cutoff10 : Z := max_u64 / 10 + 1.

(* the loop of ParseUint for base 10, bitSize 64, base0 = false: every byte
   that is not 0-9 (letters, '_', sign, space, ...) is a syntax error; an
   overflow is reported at the digit where it happens, before later bytes are
   looked at *)
Fixpoint parse_uint10 (s : bytes) (n : Z) : pres :=
  match s with
  | [] => POk n
  | c :: r =>
      if is_digit c then
        if cutoff10 <=? n then PErr ERange
        else
          let n1 := n * 10 + digit_val c in
          if max_u64 <? n1 then PErr ERange else parse_uint10 r n1
      else PErr ESyntax
  end.

Definition parse_int10 (s : bytes) : pres :=
  match s with
  | [] => PErr ESyntax
  | c :: r =>
      let neg := N.eqb c 45 in
      let body := if N.eqb c 43 || N.eqb c 45 then r else s in
      match body with
      | [] => PErr ESyntax
      | _ =>
          match parse_uint10 body 0 with
          | PErr e => PErr e
          | POk un =>
              if negb neg && (two63 <=? un) then PErr ERange
              else if neg && (two63 <? un) then PErr ERange
              else POk (if neg then - un else un)
          end
      end
  end.

(* ------------------------------------------------------------------------ *)
(** * parseT4T7Latency (interceptors.go, after fix 3d18018) *)

(* metadata.MD = map[string][]string; a map has one entry per key, the harness
   prints each map as an association list *)
Definition md := list (bytes * list bytes).

Fixpoint md_get (k : bytes) (m : md) : list bytes :=
  match m with
  | [] => []
  | (k', v) :: r => if bytes_eqb k k' then v else md_get k r
  end.

(* const serverTimingKey = "server-timing" *)
Definition server_timing_key : bytes :=
  [115; 101; 114; 118; 101; 114; 45; 116; 105; 109; 105; 110; 103]%N.
(* const gfeT4T7prefix = "gfet4t7; dur=" *)
Definition gfe_prefix : bytes :=
  [103; 102; 101; 116; 52; 116; 55; 59; 32; 100; 117; 114; 61]%N.

(* strings.HasPrefix + strings.TrimPrefix *)
Fixpoint strip_prefix (p s : bytes) : option bytes :=
  match p with
  | [] => Some s
  | x :: p' =>
      match s with
      | [] => None
      | y :: s' => if N.eqb x y then strip_prefix p' s' else None
      end
  end.

Inductive lres :=
| LOk (d : Z)            (* (d, nil) *)
| LNotFound              (* "server-timing headers not found" *)
| LNoEntry               (* "no gfe latency response available" *)
| LParse (e : perr)      (* "failed to parse gfe latency: <strconv error>" *)
| LDurRange.             (* "failed to parse gfe latency: <n>ms is out of range" (fix 3d18018) *)

Definition millisecond : Z := 1000000.
(* const maxDurationMillis = int64(math.MaxInt64 / time.Millisecond) *)
Definition max_duration_millis : Z := max_int64 / millisecond.

Fixpoint scan_entries (es : list bytes) : lres :=
  match es with
  | [] => LNoEntry
  | e :: r =>
      match strip_prefix gfe_prefix e with
      | None => scan_entries r
      | Some t =>
          match parse_int10 t with
          | PErr x => LParse x
          | POk ms =>
              if (max_duration_millis <? ms) || (ms <? - max_duration_millis) then LDurRange
              else LOk (wrap64 (ms * millisecond))
          end
      end
  end.

Definition parse_latency (headers trailers : md) : lres :=
  match md_get server_timing_key headers with
  | (_ :: _) as hv => scan_entries hv
  | [] =>
      match md_get server_timing_key trailers with
      | (_ :: _) as tv => scan_entries tv
      | [] => LNotFound
      end
  end.

(* ------------------------------------------------------------------------ *)
(** * ParseProbeType (proberlib.go:629) *)

Inductive probe := PNoop | PStaleRead | PStrongQuery | PStaleQuery | PDml | PReadWrite.

Definition s_noop : bytes := [110; 111; 111; 112]%N.
Definition s_stale_read : bytes := [115; 116; 97; 108; 101; 95; 114; 101; 97; 100]%N.
Definition s_strong_query : bytes :=
  [115; 116; 114; 111; 110; 103; 95; 113; 117; 101; 114; 121]%N.
Definition s_stale_query : bytes := [115; 116; 97; 108; 101; 95; 113; 117; 101; 114; 121]%N.
Definition s_dml : bytes := [100; 109; 108]%N.
Definition s_read_write : bytes := [114; 101; 97; 100; 95; 119; 114; 105; 116; 101]%N.

Definition parse_probe_type (t : bytes) : option probe :=
  if bytes_eqb t s_noop then Some PNoop
  else if bytes_eqb t s_stale_read then Some PStaleRead
  else if bytes_eqb t s_strong_query then Some PStrongQuery
  else if bytes_eqb t s_stale_query then Some PStaleQuery
  else if bytes_eqb t s_dml then Some PDml
  else if bytes_eqb t s_read_write then Some PReadWrite
  else None.

(* the name() method of the returned Probe *)
Definition probe_name (p : probe) : bytes :=
  match p with
  | PNoop => s_noop | PStaleRead => s_stale_read | PStrongQuery => s_strong_query
  | PStaleQuery => s_stale_query | PDml => s_dml | PReadWrite => s_read_write
  end.

(* ------------------------------------------------------------------------ *)
(** * validateFlags (main.go, after fix 30d7568) *)

Definition is_alnum (c : N) : bool :=
  (N.leb 97 c && N.leb c 122) || (N.leb 65 c && N.leb c 90) || (N.leb 48 c && N.leb c 57).
(* [-_:.a-zA-Z0-9] *)
Definition in_project_class (c : N) : bool :=
  N.eqb c 45 || N.eqb c 95 || N.eqb c 58 || N.eqb c 46 || is_alnum c.
(* [-_.a-zA-Z0-9] *)
Definition in_instdb_class (c : N) : bool :=
  N.eqb c 45 || N.eqb c 95 || N.eqb c 46 || is_alnum c.

(* regexp `^[-_:.a-zA-Z0-9]*$` / `^[-_.a-zA-Z0-9]*$` with MatchString: without the
   (?m) flag, ^ and $ match only at the two ends of the text, so the whole
   string must consist of class members; the classes are ASCII, a byte >= 0x80
   (part of a multi-byte rune or invalid UTF-8, decoded as U+FFFD) never
   matches *)
Definition re_project (s : bytes) : bool := forallb in_project_class s.
Definition re_instdb (s : bytes) : bool := forallb in_instdb_class s.

Record flags := mkFlags {
  fl_project : bytes;
  fl_ops_project : bytes;
  fl_instance : bytes;
  fl_database : bytes;
  fl_instance_config : bytes;
  fl_qps : f64;
  fl_num_rows : Z;
  fl_payload_size : Z;
  fl_probe_type : bytes
}.

(* the errors in the order validateFlags appends them, as bit numbers *)
Inductive ferr :=
| FEqps | FEnumRows | FEpayloadSize | FEproject | FEopsProject
| FEinstance | FEdatabase | FEinstanceConfig | FEprobeType.

Definition ferr_bit (e : ferr) : Z :=
  match e with
  | FEqps => 1 | FEnumRows => 2 | FEpayloadSize => 4 | FEproject => 8
  | FEopsProject => 16 | FEinstance => 32 | FEdatabase => 64
  | FEinstanceConfig => 128 | FEprobeType => 256
  end.

Definition err_if (b : bool) (e : ferr) : list ferr := if b then [e] else [].

Definition validate_flags (f : flags) : list ferr :=
  (* if !( *qps >= minQPS && *qps <= 1000) *)
  err_if (negb (f64_ge (fl_qps f) f64_min_qps && f64_le (fl_qps f) f64_1000)) FEqps
  ++ err_if (fl_num_rows f <=? 0) FEnumRows
  ++ err_if (fl_payload_size f <=? 0) FEpayloadSize
  ++ err_if (negb (re_project (fl_project f))) FEproject
  ++ err_if (negb (re_project (fl_ops_project f))) FEopsProject
  ++ err_if (negb (re_instdb (fl_instance f))) FEinstance
  ++ err_if (negb (re_instdb (fl_database f))) FEdatabase
  ++ err_if (negb (re_instdb (fl_instance_config f))) FEinstanceConfig
  ++ err_if (match parse_probe_type (fl_probe_type f) with None => true | Some _ => false end)
       FEprobeType.

Definition flags_accepted (f : flags) : bool :=
  match validate_flags f with [] => true | _ => false end.

Definition err_mask (l : list ferr) : Z := fold_right (fun e a => ferr_bit e + a) 0 l.

(* ------------------------------------------------------------------------ *)
(** * URI builders (proberlib.go:259-293): fmt.Sprintf with %s = concatenation *)

Definition slash : N := 47%N.
Definition lit_projects : bytes := [112; 114; 111; 106; 101; 99; 116; 115; 47]%N.   (* "projects/" *)
Definition lit_instances : bytes := [47; 105; 110; 115; 116; 97; 110; 99; 101; 115; 47]%N. (* "/instances/" *)
Definition lit_instance_configs : bytes :=
  [47; 105; 110; 115; 116; 97; 110; 99; 101; 67; 111; 110; 102; 105; 103; 115; 47]%N.  (* "/instanceConfigs/" *)
Definition lit_databases : bytes := [47; 100; 97; 116; 97; 98; 97; 115; 101; 115; 47]%N. (* "/databases/" *)
(* the literal segments *)
Definition seg_projects : bytes := [112; 114; 111; 106; 101; 99; 116; 115]%N.
Definition seg_instances : bytes := [105; 110; 115; 116; 97; 110; 99; 101; 115]%N.
Definition seg_instance_configs : bytes :=
  [105; 110; 115; 116; 97; 110; 99; 101; 67; 111; 110; 102; 105; 103; 115]%N.
Definition seg_databases : bytes := [100; 97; 116; 97; 98; 97; 115; 101; 115]%N.

Definition project_uri (p : bytes) : bytes := lit_projects ++ p.
Definition instance_uri (p i : bytes) : bytes := lit_projects ++ p ++ lit_instances ++ i.
Definition instance_config_uri (p c : bytes) : bytes :=
  lit_projects ++ p ++ lit_instance_configs ++ c.
Definition database_uri (p i d : bytes) : bytes :=
  lit_projects ++ p ++ lit_instances ++ i ++ lit_databases ++ d.
Definition instance_name (i : bytes) : bytes := i.
Definition database_name (d : bytes) : bytes := d.

Record uris := mkUris {
  u_project : bytes;          (* projectURI() *)
  u_instance : bytes;         (* instanceURI() *)
  u_instance_config : bytes;  (* instanceConfigURI() *)
  u_database : bytes;         (* databaseURI() *)
  u_instance_name : bytes;    (* instanceName() *)
  u_database_name : bytes     (* databaseName() *)
}.

Definition build_uris (p i d c : bytes) : uris :=
  mkUris (project_uri p) (instance_uri p i) (instance_config_uri p c) (database_uri p i d)
         (instance_name i) (database_name d).

(* strings.Split(s, "/") *)
Fixpoint split_on (c : N) (s : bytes) : list bytes :=
  match s with
  | [] => [[]]
  | x :: r =>
      if N.eqb x c then [] :: split_on c r
      else match split_on c r with
           | h :: t => (x :: h) :: t
           | [] => [[x]]
           end
  end.

(* ------------------------------------------------------------------------ *)
(** * probeInterval (proberlib.go:556):
      time.Duration(float64(time.Second) / p.qps)                           *)
Definition probe_interval (qps : f64) : Z := f64_to_int64 (f64_div f64_second qps).

(* ------------------------------------------------------------------------ *)
(** * generatePayload (proberlib.go:48): size random bytes and their SHA-256.
    The hash function is a parameter here; Sha256.v supplies the concrete one
    used by the monitors.  rnd is what math/rand delivers. *)
Section Payload.
  Variable H : bytes -> bytes.

  (* make([]byte, size) panics for a negative size: None *)
  Definition generate_payload (rnd : nat -> N) (size : Z) : option (bytes * bytes) :=
    if size <? 0 then None
    else let p := map rnd (seq 0 (Z.to_nat size)) in Some (p, H p).
End Payload.
