(* Property C18 (Spanner prober helpers): the statements, each discharged by a
   lemma of Backoff.v / Latency.v / Flags.v, with their assumptions printed.
   The theorems about float64 code (backoff, probe_interval) go through Flocq's
   Bmult_correct / Bdiv_correct / round_le and therefore depend on the real-
   number axioms of Coq's standard library; everything else is closed. *)
From Coq Require Import ZArith NArith List Bool.
From GV Require Import Prober.F64 Prober.Model Prober.Sha256 Prober.Monitors.
From GV Require Import Prober.Backoff Prober.Latency Prober.Flags.
Import ListNotations.
Open Scope Z_scope.

(* ------------------------------------------------------------------ backoff *)
Theorem backoff_bounds :
  forall base mx retries : Z,
  0 <= base -> base <= mx -> mx <= 2 ^ 53 ->
  base <= backoff base mx retries <= mx.
Proof. exact backoff_bounds_thm. Qed.
Print Assumptions backoff_bounds.

Theorem backoff_monotone :
  forall base mx r1 r2 : Z,
  0 <= base -> base <= mx -> mx <= 2 ^ 53 -> r1 <= r2 ->
  backoff base mx r1 <= backoff base mx r2.
Proof. exact backoff_monotone_thm. Qed.
Print Assumptions backoff_monotone.

(* the executable loop (binary counter, early exit) is the loop of the Go code
   counted in unary, for every retries *)
Theorem backoff_loop_faithful :
  forall base mx retries : Z, backoff base mx retries = backoff_nat base mx retries.
Proof. exact backoff_eq_nat. Qed.
Print Assumptions backoff_loop_faithful.

Theorem backoff_monitor_on_model :
  forall base mx retries : Z,
  backoff_guard base mx = true ->
  c18_backoff base mx retries (Some (backoff base mx retries))
              (Some (backoff base mx (wrap64 (retries + 1)))) = true.
Proof. exact c18_backoff_on_model. Qed.
Print Assumptions backoff_monitor_on_model.

(* the only call site in the prober: 200ms, 5s *)
Theorem backoff_call_site :
  forall r1 r2 : Z, r1 <= r2 ->
  base_lro_retry_delay <= backoff base_lro_retry_delay max_lro_retry_delay r1 /\
  backoff base_lro_retry_delay max_lro_retry_delay r1
    <= backoff base_lro_retry_delay max_lro_retry_delay r2 /\
  backoff base_lro_retry_delay max_lro_retry_delay r2 <= max_lro_retry_delay.
Proof. exact backoff_call_site_thm. Qed.
Print Assumptions backoff_call_site.

(* finding B1 *)
Theorem backoff_bounds_refuted :
  (let b := 2 ^ 53 + 1 in b <= b /\ backoff b b 0 < b) /\
  (-2 <= 5 /\ backoff (-2) 5 1 = -3 /\ backoff (-2) 5 1 < -2).
Proof. exact (conj backoff_bounds_refuted_rounding backoff_bounds_refuted_negative). Qed.
Print Assumptions backoff_bounds_refuted.

Theorem backoff_monotone_refuted : backoff (-2) 5 1 < backoff (-2) 5 0.
Proof. exact backoff_monotone_refuted_negative. Qed.
Print Assumptions backoff_monotone_refuted.

(* ------------------------------------------------------------------ latency *)
Theorem latency_total : forall h t, exists r, parse_latency h t = r.
Proof. exact latency_total_thm. Qed.
Print Assumptions latency_total.

Theorem latency_header_first :
  forall h,
  (md_get server_timing_key h <> [] ->
   forall t1 t2, parse_latency h t1 = parse_latency h t2) /\
  (md_get server_timing_key h = [] ->
   forall t, parse_latency h t = parse_latency [] t).
Proof. exact latency_header_first_thm. Qed.
Print Assumptions latency_header_first.

Theorem latency_first_entry :
  forall pre e post txt,
  Forall (fun x => strip_prefix gfe_prefix x = None) pre ->
  strip_prefix gfe_prefix e = Some txt ->
  scan_entries (pre ++ e :: post) = entry_result txt.
Proof. exact latency_first_entry_thm. Qed.
Print Assumptions latency_first_entry.

Theorem latency_shape :
  forall h t,
  parse_latency h t =
  match timing_values h t with
  | [] => LNotFound
  | vs => match first_gfe vs with
          | None => LNoEntry
          | Some txt => entry_result txt
          end
  end.
Proof. exact latency_structure. Qed.
Print Assumptions latency_shape.

Theorem parse_int_spec :
  forall s, match dec_spec s with
            | Some z => parse_int10 s = POk z
            | None => exists e, parse_int10 s = PErr e
            end.
Proof. exact parse_int10_spec. Qed.
Print Assumptions parse_int_spec.

Theorem latency_error_when_absent_or_malformed :
  forall h t,
  (timing_values h t = [] -> parse_latency h t = LNotFound) /\
  (timing_values h t <> [] -> first_gfe (timing_values h t) = None -> parse_latency h t = LNoEntry) /\
  (forall txt, first_gfe (timing_values h t) = Some txt -> dec_spec txt = None ->
               exists e, parse_latency h t = LParse e).
Proof. exact latency_error_thm. Qed.
Print Assumptions latency_error_when_absent_or_malformed.

Theorem latency_value :
  forall h t txt ms,
  first_gfe (timing_values h t) = Some txt -> dec_spec txt = Some ms ->
  Z.abs ms <= max_int64 / 1000000 ->
  parse_latency h t = LOk (ms * 1000000).
Proof. exact latency_value_thm. Qed.
Print Assumptions latency_value.

Theorem latency_monitor_on_model :
  forall h t, k_B2 h t = false -> c18_latency h t (OLres (parse_latency h t)) = true.
Proof. exact c18_latency_on_model. Qed.
Print Assumptions latency_monitor_on_model.

(* finding B2 *)
Theorem latency_value_beyond_guard_refuted :
  dec_spec [57; 57; 57; 57; 57; 57; 57; 57; 57; 57; 57; 57; 57; 57; 57; 57]%N = Some 9999999999999999 /\
  parse_latency [(server_timing_key, [b2_entry])] [] = LOk 1864712049422024128 /\
  1864712049422024128 <> 9999999999999999 * 1000000 /\
  1864712049422024128 / (3600 * 1000000000) = 517975.
Proof. exact latency_value_refuted. Qed.
Print Assumptions latency_value_beyond_guard_refuted.

(* ------------------------------------------------------------------ flags *)
Theorem flags_uri_segments :
  forall f, flags_accepted f = true ->
  let p := fl_project f in let i := fl_instance f in
  let d := fl_database f in let c := fl_instance_config f in
  split_on slash (project_uri p) = [seg_projects; p] /\
  split_on slash (instance_uri p i) = [seg_projects; p; seg_instances; i] /\
  split_on slash (instance_config_uri p c) = [seg_projects; p; seg_instance_configs; c] /\
  split_on slash (database_uri p i d) = [seg_projects; p; seg_instances; i; seg_databases; d] /\
  instance_name i = i /\ database_name d = d.
Proof. exact flags_uri_segments_thm. Qed.
Print Assumptions flags_uri_segments.

Theorem flags_probe_type_parsable :
  forall f, flags_accepted f = true -> exists p, parse_probe_type (fl_probe_type f) = Some p.
Proof. exact flags_probe_type_parsable_thm. Qed.
Print Assumptions flags_probe_type_parsable.

(* guard: 0x1.dcd6500000001p-34 <= qps <= 1000 *)
Theorem interval_positive :
  forall q, interval_guard q = true -> 0 < probe_interval q.
Proof. exact interval_positive_cor. Qed.
Print Assumptions interval_positive.

Theorem interval_range :
  forall q, interval_guard q = true -> 1000000 <= probe_interval q <= below_two63.
Proof. exact interval_positive_thm. Qed.
Print Assumptions interval_range.

(* what validate_flags accepts is inside that guard or matches B3's trigger *)
Theorem flags_interval_guard_or_B3 :
  forall f, flags_accepted f = true -> k_B3 (fl_qps f) = false -> interval_guard (fl_qps f) = true.
Proof. exact accepted_guard_or_B3. Qed.
Print Assumptions flags_interval_guard_or_B3.

Theorem flags_monitor_on_model :
  forall f qb, fl_qps f = f64_of_bits qb ->
  k_B3 (fl_qps f) = false ->
  let errs := validate_flags f in
  let o := FErrs (Z.of_nat (length errs)) (err_mask errs) in
  let gi := ginput_of f qb in
  c18_flags f qb o (if impl_accepted o then Some (gi, model_gobs gi) else None) = true.
Proof. exact c18_flags_on_model. Qed.
Print Assumptions flags_monitor_on_model.

(* finding B3: qps = NaN, 1e-10 and the float just below the guard are accepted *)
Theorem interval_positive_refuted_unguarded :
  (flags_accepted (b3_flags 9221120237041090560) = true /\
   probe_interval (f64_of_bits 9221120237041090560) = min_int64) /\
  (flags_accepted (b3_flags 4457293557087583675) = true /\
   probe_interval (f64_of_bits 4457293557087583675) = min_int64) /\
  (flags_accepted (b3_flags (qps_min_bits - 1)) = true /\
   probe_interval (f64_of_bits (qps_min_bits - 1)) = min_int64 /\
   probe_interval qps_min = below_two63) /\
  min_int64 < 0.
Proof. exact interval_positive_refuted. Qed.
Print Assumptions interval_positive_refuted_unguarded.

(* the float constants written out in F64.v are the conversions of the Go constants *)
Theorem float_constants_faithful :
  Flocq.IEEE754.BinarySingleNaN.B2SF f64_1000 = Flocq.IEEE754.BinarySingleNaN.B2SF (f64_of_int 1000) /\
  Flocq.IEEE754.BinarySingleNaN.B2SF f64_second = Flocq.IEEE754.BinarySingleNaN.B2SF (f64_of_int 1000000000) /\
  Flocq.IEEE754.BinarySingleNaN.B2SF f64_1_5 =
    Flocq.IEEE754.BinarySingleNaN.B2SF
      (Flocq.IEEE754.BinarySingleNaN.binary_normalize 53 1024 _ _ Flocq.IEEE754.BinarySingleNaN.mode_NE 3 (-1) false).
Proof. exact consts_are_conversions. Qed.
Print Assumptions float_constants_faithful.

(* ------------------------------------------------------------------ payload *)
Theorem payload_hash :
  forall (H : bytes -> bytes) rnd size p h,
  generate_payload H rnd size = Some (p, h) ->
  h = H p /\ Z.of_nat (length p) = size.
Proof. exact payload_hash_thm. Qed.
Print Assumptions payload_hash.

(* ------------------------------------------------------------------ examples
   non-vacuity, and the monitors reject bad observations *)
Example ex_backoff_callsite :
  map (backoff base_lro_retry_delay max_lro_retry_delay) [0; 1; 2; 7; 8; 100] =
  [200000000; 300000000; 450000000; 3417187500; 5000000000; 5000000000].
Proof. vm_compute. reflexivity. Qed.

Example ex_backoff_huge_retries : backoff 1 (2 ^ 53) (2 ^ 62) = 2 ^ 53.
Proof. vm_compute. reflexivity. Qed.

Example ex_monitor_rejects_low :
  c18_backoff 200000000 5000000000 3 (Some 199999999) (Some 675000000) = false.
Proof. vm_compute. reflexivity. Qed.

Example ex_monitor_rejects_unclamped :
  c18_backoff 200000000 5000000000 8 (Some 5125781250) (Some 5125781250) = false.
Proof. vm_compute. reflexivity. Qed.

Example ex_monitor_rejects_decreasing :
  c18_backoff 200000000 5000000000 1 (Some 300000000) (Some 200000000) = false.
Proof. vm_compute. reflexivity. Qed.

Example ex_monitor_fails_on_B1 :
  let b := 2 ^ 53 + 1 in
  c18_backoff b b 0 (Some (backoff b b 0)) (Some (backoff b b 1)) = false /\ k_B1 b b = true.
Proof. vm_compute. split; reflexivity. Qed.

(* "gfet4t7; dur=250" in the header, "gfet4t7; dur=9" in the trailer *)
Definition ex_h : md := [(server_timing_key, [[120]%N; gfe_prefix ++ [50; 53; 48]%N; gfe_prefix ++ [55]%N])].
Definition ex_t : md := [(server_timing_key, [gfe_prefix ++ [57]%N])].

Example ex_latency : parse_latency ex_h ex_t = LOk 250000000.
Proof. vm_compute. reflexivity. Qed.

Example ex_latency_monitor_rejects_trailer_first :
  c18_latency ex_h ex_t (OLres (LOk 9000000)) = false.
Proof. vm_compute. reflexivity. Qed.

Example ex_latency_monitor_rejects_microseconds :
  c18_latency ex_h ex_t (OLres (LOk 250000)) = false.
Proof. vm_compute. reflexivity. Qed.

Example ex_latency_monitor_rejects_panic : c18_latency ex_h ex_t OLpanic = false.
Proof. vm_compute. reflexivity. Qed.

Example ex_latency_monitor_fails_on_B2 :
  let h := [(server_timing_key, [b2_entry])] in
  c18_latency h [] (OLres (parse_latency h [])) = false /\ k_B2 h [] = true.
Proof. vm_compute. split; reflexivity. Qed.

(* an accepted flag set; and an injected segment makes the monitor fail *)
Definition ex_flags : flags :=
  mk_flags [97; 58; 98]%N [] [105]%N [100]%N [99]%N 4607182418800017408 1 1 s_dml.

Example ex_flags_accepted :
  validate_flags ex_flags = [] /\
  probe_interval (fl_qps ex_flags) = 1000000000 /\
  case_mon (KFlags ex_flags 4607182418800017408 (FErrs 0 0)
              (Some (ginput_of ex_flags 4607182418800017408,
                     model_gobs (ginput_of ex_flags 4607182418800017408)))) = true.
Proof. vm_compute. repeat split; reflexivity. Qed.

Example ex_flags_monitor_rejects_injection :
  let bad := mk_flags [97; 47; 98]%N [] [105]%N [100]%N [99]%N 4607182418800017408 1 1 s_dml in
  validate_flags bad = [FEproject] /\
  case_mon (KFlags bad 4607182418800017408 (FErrs 0 0)
              (Some (ginput_of bad 4607182418800017408,
                     model_gobs (ginput_of bad 4607182418800017408)))) = false.
Proof. vm_compute. split; reflexivity. Qed.

Example ex_flags_monitor_fails_on_B3 :
  let f := b3_flags 9221120237041090560 in
  case_mon (KFlags f 9221120237041090560 (FErrs 0 0)
              (Some (ginput_of f 9221120237041090560, model_gobs (ginput_of f 9221120237041090560)))) = false
  /\ k_B3 (fl_qps f) = true.
Proof. vm_compute. split; reflexivity. Qed.

Example ex_payload_monitor :
  case_mon (KPayload 3 (Some ([97; 98; 99]%N, sha256 [97; 98; 99]%N, sha256 [97; 98; 99]%N))) = true /\
  case_mon (KPayload 3 (Some ([97; 98; 99]%N, sha256 [97; 98; 100]%N, sha256 [97; 98; 99]%N))) = false.
Proof. vm_compute. split; reflexivity. Qed.
