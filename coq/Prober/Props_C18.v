(* Property C18 (Spanner prober helpers), for the code after the fixes of the
   findings B1 (76e44a5), B2 (3d18018), B3 (30d7568): the statements, each
   discharged by a lemma of Backoff.v / Latency.v / Flags.v, with their
   assumptions printed.  No theorem needs a guard beyond the Go types any more.
   The theorems about float64 code (backoff, probe_interval) go through Flocq's
   Bmult_correct / Bdiv_correct / round_le and therefore depend on the real-
   number axioms of Coq's standard library; everything else is closed. *)
From Coq Require Import ZArith NArith List Bool.
From GV Require Import Prober.F64 Prober.Model Prober.Sha256 Prober.Monitors.
From GV Require Import Prober.Backoff Prober.Latency Prober.Flags.
Import ListNotations.
Open Scope Z_scope.

(* ------------------------------------------------------------------ backoff *)
(* base, max: any int64 values with base <= max; retries: any integer *)
Theorem backoff_bounds :
  forall base mx retries : Z,
  in_int64 base = true -> in_int64 mx = true -> base <= mx ->
  base <= backoff base mx retries <= mx.
Proof. exact backoff_bounds_thm. Qed.
Print Assumptions backoff_bounds.

Theorem backoff_monotone :
  forall base mx r1 r2 : Z,
  in_int64 base = true -> in_int64 mx = true -> base <= mx -> r1 <= r2 ->
  backoff base mx r1 <= backoff base mx r2.
Proof. exact backoff_monotone_thm. Qed.
Print Assumptions backoff_monotone.

(* the executable loop (binary counter, early exit) is the loop of the Go code
   counted in unary, for every retries *)
Theorem backoff_loop_faithful :
  forall base mx retries : Z, backoff base mx retries = backoff_nat base mx retries.
Proof. exact backoff_eq_nat. Qed.
Print Assumptions backoff_loop_faithful.

Theorem backoff_monitor_on_model :
  forall base mx retries : Z,
  in_int64 base = true -> in_int64 mx = true ->
  c18_backoff base mx retries (Some (backoff base mx retries))
              (Some (backoff base mx (wrap64 (retries + 1)))) = true.
Proof. exact c18_backoff_on_model. Qed.
Print Assumptions backoff_monitor_on_model.

(* the only call site in the prober: 200ms, 5s *)
Theorem backoff_call_site :
  forall r1 r2 : Z, r1 <= r2 ->
  base_lro_retry_delay <= backoff base_lro_retry_delay max_lro_retry_delay r1 /\
  backoff base_lro_retry_delay max_lro_retry_delay r1
    <= backoff base_lro_retry_delay max_lro_retry_delay r2 /\
  backoff base_lro_retry_delay max_lro_retry_delay r2 <= max_lro_retry_delay.
Proof. exact backoff_call_site_thm. Qed.
Print Assumptions backoff_call_site.

(* the inputs of the former finding B1 *)
Theorem backoff_former_B1 :
  (let b := 2 ^ 53 + 1 in backoff b b 0 = b) /\
  backoff (-2) 5 0 = -2 /\ backoff (-2) 5 1 = -2 /\
  backoff max_int64 max_int64 0 = max_int64 /\
  backoff (2 ^ 53 + 1) (2 ^ 53 + 3) 0 = 2 ^ 53 + 1 /\
  backoff (2 ^ 53 + 1) (2 ^ 53 + 3) 1 = 2 ^ 53 + 3 /\
  backoff 0 10 (2 ^ 62) = 0 /\ backoff min_int64 max_int64 (2 ^ 62) = min_int64.
Proof. exact backoff_former_B1_inputs. Qed.
Print Assumptions backoff_former_B1.

(* ------------------------------------------------------------------ latency *)
Theorem latency_total : forall h t, exists r, parse_latency h t = r.
Proof. exact latency_total_thm. Qed.
Print Assumptions latency_total.

Theorem latency_header_first :
  forall h,
  (md_get server_timing_key h <> [] ->
   forall t1 t2, parse_latency h t1 = parse_latency h t2) /\
  (md_get server_timing_key h = [] ->
   forall t, parse_latency h t = parse_latency [] t).
Proof. exact latency_header_first_thm. Qed.
Print Assumptions latency_header_first.

Theorem latency_first_entry :
  forall pre e post txt,
  Forall (fun x => strip_prefix gfe_prefix x = None) pre ->
  strip_prefix gfe_prefix e = Some txt ->
  scan_entries (pre ++ e :: post) = entry_result txt.
Proof. exact latency_first_entry_thm. Qed.
Print Assumptions latency_first_entry.

Theorem latency_shape :
  forall h t,
  parse_latency h t =
  match timing_values h t with
  | [] => LNotFound
  | vs => match first_gfe vs with
          | None => LNoEntry
          | Some txt => entry_result txt
          end
  end.
Proof. exact latency_structure. Qed.
Print Assumptions latency_shape.

Theorem parse_int_spec :
  forall s, match dec_spec s with
            | Some z => parse_int10 s = POk z
            | None => exists e, parse_int10 s = PErr e
            end.
Proof. exact parse_int10_spec. Qed.
Print Assumptions parse_int_spec.

Theorem latency_error_when_absent_or_malformed :
  forall h t,
  (timing_values h t = [] -> parse_latency h t = LNotFound) /\
  (timing_values h t <> [] -> first_gfe (timing_values h t) = None -> parse_latency h t = LNoEntry) /\
  (forall txt, first_gfe (timing_values h t) = Some txt -> dec_spec txt = None ->
               exists e, parse_latency h t = LParse e) /\
  (forall txt ms, first_gfe (timing_values h t) = Some txt -> dec_spec txt = Some ms ->
                  max_int64 / 1000000 < Z.abs ms -> parse_latency h t = LDurRange).
Proof. exact latency_error_thm. Qed.
Print Assumptions latency_error_when_absent_or_malformed.

(* unconditional: ms milliseconds exactly, or an error when that is no Duration *)
Theorem latency_value :
  forall h t txt ms,
  first_gfe (timing_values h t) = Some txt -> dec_spec txt = Some ms ->
  parse_latency h t =
  if Z.abs ms <=? max_int64 / 1000000 then LOk (ms * 1000000) else LDurRange.
Proof. exact latency_value_thm. Qed.
Print Assumptions latency_value.

Theorem latency_no_wrap :
  forall h t d, parse_latency h t = LOk d ->
  exists txt ms, first_gfe (timing_values h t) = Some txt /\ dec_spec txt = Some ms /\
                 d = ms * 1000000 /\ in_int64 d = true.
Proof. exact latency_no_wrap_thm. Qed.
Print Assumptions latency_no_wrap.

Theorem latency_monitor_on_model :
  forall h t, c18_latency h t (OLres (parse_latency h t)) = true.
Proof. exact c18_latency_on_model. Qed.
Print Assumptions latency_monitor_on_model.

(* the input of the former finding B2 *)
Theorem latency_former_B2 :
  dec_spec [57; 57; 57; 57; 57; 57; 57; 57; 57; 57; 57; 57; 57; 57; 57; 57]%N = Some 9999999999999999 /\
  parse_latency [(server_timing_key, [b2_entry])] [] = LDurRange /\
  wrap64 (9999999999999999 * 1000000) = 1864712049422024128 /\
  c18_latency [(server_timing_key, [b2_entry])] [] (OLres (LOk 1864712049422024128)) = false.
Proof. exact latency_former_B2_input. Qed.
Print Assumptions latency_former_B2.

(* ------------------------------------------------------------------ flags *)
Theorem flags_uri_segments :
  forall f, flags_accepted f = true ->
  let p := fl_project f in let i := fl_instance f in
  let d := fl_database f in let c := fl_instance_config f in
  split_on slash (project_uri p) = [seg_projects; p] /\
  split_on slash (instance_uri p i) = [seg_projects; p; seg_instances; i] /\
  split_on slash (instance_config_uri p c) = [seg_projects; p; seg_instance_configs; c] /\
  split_on slash (database_uri p i d) = [seg_projects; p; seg_instances; i; seg_databases; d] /\
  instance_name i = i /\ database_name d = d.
Proof. exact flags_uri_segments_thm. Qed.
Print Assumptions flags_uri_segments.

Theorem flags_probe_type_parsable :
  forall f, flags_accepted f = true -> exists p, parse_probe_type (fl_probe_type f) = Some p.
Proof. exact flags_probe_type_parsable_thm. Qed.
Print Assumptions flags_probe_type_parsable.

(* unconditional: every accepted flag set has a positive probe interval *)
Theorem interval_positive :
  forall f, flags_accepted f = true ->
  1000000 <= probe_interval (fl_qps f) <= below_two63.
Proof. exact interval_positive_accepted. Qed.
Print Assumptions interval_positive.

(* probeInterval on its own: the exact domain 0x1.dcd6500000001p-34 <= qps <= 1000 *)
Theorem interval_range_tight :
  forall q, interval_guard q = true -> 1000000 <= probe_interval q <= below_two63.
Proof. exact interval_positive_thm. Qed.
Print Assumptions interval_range_tight.

Theorem flags_accepted_in_tight_guard :
  forall f, flags_accepted f = true -> interval_guard (fl_qps f) = true.
Proof. exact accepted_interval_guard. Qed.
Print Assumptions flags_accepted_in_tight_guard.

Theorem flags_monitor_on_model :
  forall f qb, fl_qps f = f64_of_bits qb ->
  let errs := validate_flags f in
  let o := FErrs (Z.of_nat (length errs)) (err_mask errs) in
  let gi := ginput_of f qb in
  c18_flags f qb o (if impl_accepted o then Some (gi, model_gobs gi) else None) = true.
Proof. exact c18_flags_on_model. Qed.
Print Assumptions flags_monitor_on_model.

(* the inputs of the former finding B3 *)
Theorem flags_former_B3 :
  validate_flags (b3_flags 9221120237041090560) = [FEqps] /\
  validate_flags (b3_flags 4457293557087583675) = [FEqps] /\
  validate_flags (b3_flags (qps_min_bits - 1)) = [FEqps] /\
  probe_interval (f64_of_bits 9221120237041090560) = min_int64 /\
  probe_interval (f64_of_bits (qps_min_bits - 1)) = min_int64 /\
  probe_interval qps_min = below_two63 /\
  validate_flags (b3_flags f64_min_qps_bits) = [] /\
  probe_interval (f64_of_bits f64_min_qps_bits) = 1000000000000000000 /\
  validate_flags (b3_flags (f64_min_qps_bits - 1)) = [FEqps] /\
  case_mon (b3_prefix_case 9221120237041090560) = false /\
  case_mon (b3_prefix_case 4457293557087583675) = false.
Proof. exact flags_former_B3_inputs. Qed.
Print Assumptions flags_former_B3.

(* the float constants written out in F64.v are the conversions of the Go constants *)
Theorem float_constants_faithful :
  Flocq.IEEE754.BinarySingleNaN.B2SF f64_1000 = Flocq.IEEE754.BinarySingleNaN.B2SF (f64_of_int 1000) /\
  Flocq.IEEE754.BinarySingleNaN.B2SF f64_second = Flocq.IEEE754.BinarySingleNaN.B2SF (f64_of_int 1000000000) /\
  Flocq.IEEE754.BinarySingleNaN.B2SF f64_1_5 =
    Flocq.IEEE754.BinarySingleNaN.B2SF
      (Flocq.IEEE754.BinarySingleNaN.binary_normalize 53 1024 _ _ Flocq.IEEE754.BinarySingleNaN.mode_NE 3 (-1) false) /\
  Flocq.IEEE754.BinarySingleNaN.B2SF f64_min_qps = Flocq.IEEE754.BinarySingleNaN.B2SF (f64_of_bits f64_min_qps_bits).
Proof. exact consts_are_conversions. Qed.
Print Assumptions float_constants_faithful.

(* ------------------------------------------------------------------ payload *)
Theorem payload_hash :
  forall (H : bytes -> bytes) rnd size p h,
  generate_payload H rnd size = Some (p, h) ->
  h = H p /\ Z.of_nat (length p) = size.
Proof. exact payload_hash_thm. Qed.
Print Assumptions payload_hash.

(* ------------------------------------------------------------------ examples
   non-vacuity, and the monitors reject bad observations *)
Example ex_backoff_callsite :
  map (backoff base_lro_retry_delay max_lro_retry_delay) [0; 1; 2; 7; 8; 100] =
  [200000000; 300000000; 450000000; 3417187500; 5000000000; 5000000000].
Proof. vm_compute. reflexivity. Qed.

Example ex_backoff_huge_retries : backoff 1 (2 ^ 53) (2 ^ 62) = 2 ^ 53.
Proof. vm_compute. reflexivity. Qed.

Example ex_monitor_rejects_low :
  c18_backoff 200000000 5000000000 3 (Some 199999999) (Some 675000000) = false.
Proof. vm_compute. reflexivity. Qed.

Example ex_monitor_rejects_unclamped :
  c18_backoff 200000000 5000000000 8 (Some 5125781250) (Some 5125781250) = false.
Proof. vm_compute. reflexivity. Qed.

Example ex_monitor_rejects_decreasing :
  c18_backoff 200000000 5000000000 1 (Some 300000000) (Some 200000000) = false.
Proof. vm_compute. reflexivity. Qed.

(* the pre-fix outputs on the B1 witnesses are rejected by the monitor *)
Example ex_monitor_rejects_prefix_B1 :
  let b := 2 ^ 53 + 1 in
  c18_backoff b b 0 (Some (2 ^ 53)) (Some (2 ^ 53)) = false /\
  c18_backoff (-2) 5 0 (Some (-2)) (Some (-3)) = false /\
  c18_backoff max_int64 max_int64 0 (Some min_int64) (Some min_int64) = false /\
  (* ... and the outputs of the fixed code are accepted *)
  c18_backoff b b 0 (Some (backoff b b 0)) (Some (backoff b b 1)) = true /\
  c18_backoff (-2) 5 0 (Some (backoff (-2) 5 0)) (Some (backoff (-2) 5 1)) = true.
Proof. vm_compute. repeat split; reflexivity. Qed.

(* "gfet4t7; dur=250" in the header, "gfet4t7; dur=9" in the trailer *)
Definition ex_h : md := [(server_timing_key, [[120]%N; gfe_prefix ++ [50; 53; 48]%N; gfe_prefix ++ [55]%N])].
Definition ex_t : md := [(server_timing_key, [gfe_prefix ++ [57]%N])].

Example ex_latency : parse_latency ex_h ex_t = LOk 250000000.
Proof. vm_compute. reflexivity. Qed.

Example ex_latency_monitor_rejects_trailer_first :
  c18_latency ex_h ex_t (OLres (LOk 9000000)) = false.
Proof. vm_compute. reflexivity. Qed.

Example ex_latency_monitor_rejects_microseconds :
  c18_latency ex_h ex_t (OLres (LOk 250000)) = false.
Proof. vm_compute. reflexivity. Qed.

Example ex_latency_monitor_rejects_panic : c18_latency ex_h ex_t OLpanic = false.
Proof. vm_compute. reflexivity. Qed.

Example ex_latency_monitor_on_former_B2 :
  let h := [(server_timing_key, [b2_entry])] in
  c18_latency h [] (OLres (LOk 1864712049422024128)) = false /\
  c18_latency h [] (OLres (parse_latency h [])) = true.
Proof. vm_compute. split; reflexivity. Qed.

(* an accepted flag set; and an injected segment makes the monitor fail *)
Definition ex_flags : flags :=
  mk_flags [97; 58; 98]%N [] [105]%N [100]%N [99]%N 4607182418800017408 1 1 s_dml.

Example ex_flags_accepted :
  validate_flags ex_flags = [] /\
  probe_interval (fl_qps ex_flags) = 1000000000 /\
  case_mon (KFlags ex_flags 4607182418800017408 (FErrs 0 0)
              (Some (ginput_of ex_flags 4607182418800017408,
                     model_gobs (ginput_of ex_flags 4607182418800017408)))) = true.
Proof. vm_compute. repeat split; reflexivity. Qed.

Example ex_flags_monitor_rejects_injection :
  let bad := mk_flags [97; 47; 98]%N [] [105]%N [100]%N [99]%N 4607182418800017408 1 1 s_dml in
  validate_flags bad = [FEproject] /\
  case_mon (KFlags bad 4607182418800017408 (FErrs 0 0)
              (Some (ginput_of bad 4607182418800017408,
                     model_gobs (ginput_of bad 4607182418800017408)))) = false.
Proof. vm_compute. split; reflexivity. Qed.

Example ex_flags_monitor_on_former_B3 :
  let f := b3_flags 9221120237041090560 in
  case_mon (b3_prefix_case 9221120237041090560) = false /\
  case_mon (KFlags f 9221120237041090560 (FErrs 1 1) None) = true /\
  case_acc (KFlags f 9221120237041090560 (FErrs 1 1) None) = None.
Proof. vm_compute. repeat split; reflexivity. Qed.

Example ex_payload_monitor :
  case_mon (KPayload 3 (Some ([97; 98; 99]%N, sha256 [97; 98; 99]%N, sha256 [97; 98; 99]%N))) = true /\
  case_mon (KPayload 3 (Some ([97; 98; 99]%N, sha256 [97; 98; 100]%N, sha256 [97; 98; 99]%N))) = false.
Proof. vm_compute. split; reflexivity. Qed.
