(* Proofs about validate_flags (after fix 30d7568), the URI builders,
   ParseProbeType, probe_interval and generate_payload. *)
From Coq Require Import ZArith NArith Reals Lia Lra Bool List.
From Flocq Require Import Core.Core IEEE754.BinarySingleNaN.
From GV Require Import Prober.F64 Prober.F64Facts Prober.Model Prober.Monitors.
Import ListNotations.
Open Scope Z_scope.

(* ------------------------------------------------------------------------ *)
(** * strings.Split on "/" *)

Lemma split_on_nonempty : forall c s, split_on c s <> [].
Proof.
  intros c s. induction s as [|x r IH]; simpl; [discriminate |].
  destruct (N.eqb x c); [discriminate |].
  destruct (split_on c r); [contradiction | discriminate].
Qed.

Lemma split_on_notin : forall c a, ~ In c a -> split_on c a = [a].
Proof.
  intros c a. induction a as [|x r IH]; intro H; simpl; [reflexivity |].
  destruct (N.eqb x c) eqn:E.
  - apply N.eqb_eq in E. exfalso. apply H. left. exact E.
  - rewrite IH by (intro; apply H; now right). reflexivity.
Qed.

Lemma split_on_app :
  forall c a r, ~ In c a -> split_on c (a ++ c :: r) = a :: split_on c r.
Proof.
  intros c a r. induction a as [|x a IH]; intro H; simpl.
  - rewrite N.eqb_refl. reflexivity.
  - destruct (N.eqb x c) eqn:E.
    + apply N.eqb_eq in E. exfalso. apply H. left. exact E.
    + rewrite IH by (intro; apply H; now right). reflexivity.
Qed.

(* ------------------------------------------------------------------------ *)
(** * The accepted alphabets exclude '/' *)

Definition noslash (s : bytes) : bool := forallb (fun x => negb (N.eqb x slash)) s.

Lemma noslash_notin : forall s, noslash s = true -> ~ In slash s.
Proof.
  intros s H I. unfold noslash in H. rewrite forallb_forall in H.
  specialize (H _ I). rewrite N.eqb_refl in H. discriminate.
Qed.

Lemma project_class_noslash : forall c, in_project_class c = true -> N.eqb c slash = false.
Proof.
  intros c H. apply N.eqb_neq. intro E. subst c. vm_compute in H. discriminate.
Qed.

Lemma instdb_class_noslash : forall c, in_instdb_class c = true -> N.eqb c slash = false.
Proof.
  intros c H. apply N.eqb_neq. intro E. subst c. vm_compute in H. discriminate.
Qed.

Lemma re_project_noslash : forall s, re_project s = true -> noslash s = true.
Proof.
  intros s H. unfold re_project in H. unfold noslash. rewrite forallb_forall in *.
  intros x I. rewrite (project_class_noslash x (H x I)). reflexivity.
Qed.

Lemma re_instdb_noslash : forall s, re_instdb s = true -> noslash s = true.
Proof.
  intros s H. unfold re_instdb in H. unfold noslash. rewrite forallb_forall in *.
  intros x I. rewrite (instdb_class_noslash x (H x I)). reflexivity.
Qed.

(* ':' is the only difference between the two classes *)
Lemma instdb_class_project_class : forall c, in_instdb_class c = true -> in_project_class c = true.
Proof.
  intros c. unfold in_instdb_class, in_project_class.
  destruct (N.eqb c 45), (N.eqb c 95), (N.eqb c 58), (N.eqb c 46), (is_alnum c); simpl; congruence.
Qed.

(* ------------------------------------------------------------------------ *)
(** * The four resource names split into exactly the expected segments *)

Lemma uris_split :
  forall p i d c,
  noslash p = true -> noslash i = true -> noslash d = true -> noslash c = true ->
  split_on slash (project_uri p) = [seg_projects; p] /\
  split_on slash (instance_uri p i) = [seg_projects; p; seg_instances; i] /\
  split_on slash (instance_config_uri p c) = [seg_projects; p; seg_instance_configs; c] /\
  split_on slash (database_uri p i d) = [seg_projects; p; seg_instances; i; seg_databases; d].
Proof.
  intros p i d c Hp Hi Hd Hc.
  apply noslash_notin in Hp, Hi, Hd, Hc.
  assert (S1 : ~ In slash seg_projects) by (apply noslash_notin; reflexivity).
  assert (S2 : ~ In slash seg_instances) by (apply noslash_notin; reflexivity).
  assert (S3 : ~ In slash seg_instance_configs) by (apply noslash_notin; reflexivity).
  assert (S4 : ~ In slash seg_databases) by (apply noslash_notin; reflexivity).
  repeat split.
  - change (project_uri p) with (seg_projects ++ slash :: p).
    rewrite split_on_app by assumption. rewrite split_on_notin by assumption. reflexivity.
  - change (instance_uri p i)
      with (seg_projects ++ slash :: (p ++ slash :: (seg_instances ++ slash :: i))).
    rewrite !split_on_app by assumption. rewrite split_on_notin by assumption. reflexivity.
  - change (instance_config_uri p c)
      with (seg_projects ++ slash :: (p ++ slash :: (seg_instance_configs ++ slash :: c))).
    rewrite !split_on_app by assumption. rewrite split_on_notin by assumption. reflexivity.
  - change (database_uri p i d)
      with (seg_projects ++ slash :: (p ++ slash :: (seg_instances ++ slash ::
             (i ++ slash :: (seg_databases ++ slash :: d))))).
    rewrite !split_on_app by assumption. rewrite split_on_notin by assumption. reflexivity.
Qed.

(* ------------------------------------------------------------------------ *)
(** * What acceptance by validate_flags means *)

Lemma err_if_app_nil : forall b e l, err_if b e ++ l = [] -> b = false /\ l = [].
Proof. intros [|] e l H; simpl in H; [discriminate | auto]. Qed.

Lemma accepted_inv :
  forall f, flags_accepted f = true ->
  (f64_ge (fl_qps f) f64_min_qps && f64_le (fl_qps f) f64_1000) = true /\
  0 < fl_num_rows f /\ 0 < fl_payload_size f /\
  re_project (fl_project f) = true /\ re_project (fl_ops_project f) = true /\
  re_instdb (fl_instance f) = true /\ re_instdb (fl_database f) = true /\
  re_instdb (fl_instance_config f) = true /\
  exists p, parse_probe_type (fl_probe_type f) = Some p.
Proof.
  intros f H. unfold flags_accepted in H.
  destruct (validate_flags f) eqn:V; [clear H | discriminate].
  unfold validate_flags in V.
  apply err_if_app_nil in V. destruct V as [V1 V].
  apply err_if_app_nil in V. destruct V as [V2 V].
  apply err_if_app_nil in V. destruct V as [V3 V].
  apply err_if_app_nil in V. destruct V as [V4 V].
  apply err_if_app_nil in V. destruct V as [V5 V].
  apply err_if_app_nil in V. destruct V as [V6 V].
  apply err_if_app_nil in V. destruct V as [V7 V].
  apply err_if_app_nil in V. destruct V as [V8 V].
  rewrite <- (app_nil_r (err_if _ FEprobeType)) in V.
  apply err_if_app_nil in V. destruct V as [V9 _].
  apply Z.leb_gt in V2, V3. apply negb_false_iff in V1, V4, V5, V6, V7, V8.
  repeat split; try assumption.
  destruct (parse_probe_type (fl_probe_type f)) as [p|]; [now exists p | discriminate].
Qed.

Theorem flags_uri_segments_thm :
  forall f, flags_accepted f = true ->
  let p := fl_project f in let i := fl_instance f in
  let d := fl_database f in let c := fl_instance_config f in
  split_on slash (project_uri p) = [seg_projects; p] /\
  split_on slash (instance_uri p i) = [seg_projects; p; seg_instances; i] /\
  split_on slash (instance_config_uri p c) = [seg_projects; p; seg_instance_configs; c] /\
  split_on slash (database_uri p i d) = [seg_projects; p; seg_instances; i; seg_databases; d] /\
  instance_name i = i /\ database_name d = d.
Proof.
  intros f H p i d c. destruct (accepted_inv f H) as (_ & _ & _ & Hp & _ & Hi & Hd & Hc & _).
  destruct (uris_split p i d c (re_project_noslash _ Hp) (re_instdb_noslash _ Hi)
              (re_instdb_noslash _ Hd) (re_instdb_noslash _ Hc)) as (A & B & C & D).
  repeat split; assumption.
Qed.

Lemma bytes_eqb_refl : forall a, bytes_eqb a a = true.
Proof. induction a as [|x r IH]; simpl; [reflexivity | now rewrite N.eqb_refl, IH]. Qed.

Lemma list_bytes_eqb_refl : forall l, list_bytes_eqb l l = true.
Proof. induction l as [|x r IH]; simpl; [reflexivity | now rewrite bytes_eqb_refl, IH]. Qed.

(* the monitor clause, on the model's own URIs *)
Theorem flags_uri_monitor_thm :
  forall f, flags_accepted f = true ->
  uris_split_ok (fl_project f) (fl_instance f) (fl_database f) (fl_instance_config f)
    (build_uris (fl_project f) (fl_instance f) (fl_database f) (fl_instance_config f)) = true.
Proof.
  intros f H. destruct (flags_uri_segments_thm f H) as (A & B & C & D & _ & _).
  unfold uris_split_ok, build_uris. simpl u_project. simpl u_instance. simpl u_instance_config.
  simpl u_database. simpl u_instance_name. simpl u_database_name.
  rewrite A, B, C, D. unfold instance_name, database_name.
  rewrite !list_bytes_eqb_refl, !bytes_eqb_refl. reflexivity.
Qed.

Theorem flags_probe_type_parsable_thm :
  forall f, flags_accepted f = true -> exists p, parse_probe_type (fl_probe_type f) = Some p.
Proof. intros f H. apply (accepted_inv f H). Qed.

(* ------------------------------------------------------------------------ *)
(** * probe_interval *)

Lemma qps_min_sf :
  BinarySingleNaN.B2SF qps_min = SpecFloat.S754_finite false 8388608000000001 (-86).
Proof. vm_compute. reflexivity. Qed.

Lemma qps_min_val :
  fin qps_min = true /\
  b2r qps_min = (8388608000000001 * / 77371252455336267181195264)%R.
Proof.
  generalize qps_min_sf. destruct qps_min as [s | s | | s m e B]; simpl; intro H; try discriminate.
  inversion H; subst. split; [reflexivity |].
  unfold F2R. simpl. reflexivity.
Qed.

Lemma second_val : fin f64_second = true /\ b2r f64_second = 1000000000%R.
Proof. split; [reflexivity |]. unfold f64_second, BinarySingleNaN.B2R, F2R. simpl. lra. Qed.

Lemma thousand_val : fin f64_1000 = true /\ b2r f64_1000 = 1000%R.
Proof. split; [reflexivity |]. unfold f64_1000, BinarySingleNaN.B2R, F2R. simpl. lra. Qed.

(* the explicit constants are what the conversions from the Go integer constants give *)
Lemma consts_are_conversions :
  BinarySingleNaN.B2SF f64_1000 = BinarySingleNaN.B2SF (f64_of_int 1000) /\
  BinarySingleNaN.B2SF f64_second = BinarySingleNaN.B2SF (f64_of_int 1000000000) /\
  BinarySingleNaN.B2SF f64_1_5 =
    BinarySingleNaN.B2SF (BinarySingleNaN.binary_normalize 53 1024 _ _ mode_NE 3 (-1) false) /\
  BinarySingleNaN.B2SF f64_min_qps = BinarySingleNaN.B2SF (f64_of_bits f64_min_qps_bits).
Proof. vm_compute. repeat split; reflexivity. Qed.

(* 2^63 - 1024, the largest binary64 below 2^63 *)
Definition below_two63 : Z := 9223372036854774784.

Lemma format_below_two63 : generic_format radix2 fexp64 (IZR below_two63).
Proof.
  replace (IZR below_two63) with (F2R (Float radix2 9007199254740991 10)).
  2:{ unfold F2R, below_two63. simpl. lra. }
  apply generic_format_F2R. intros _. unfold cexp, SpecFloat.fexp, SpecFloat.emin. simpl Fexp.
  assert (Hm : (mag radix2 (F2R (Float radix2 9007199254740991 10)) <= 63)%Z).
  { apply mag_le_bpow.
    - unfold F2R. simpl. lra.
    - unfold F2R. simpl. rewrite Rabs_pos_eq by lra. lra. }
  lia.
Qed.

Lemma guard_finite :
  forall q, interval_guard q = true ->
  fin q = true /\ (b2r qps_min <= b2r q <= 1000)%R.
Proof.
  intros q G. unfold interval_guard in G. apply andb_true_iff in G. destruct G as [G1 G2].
  destruct qps_min_val as [Fm Vm]. destruct thousand_val as [Ft Vt].
  assert (Fq : fin q = true).
  { destruct q as [s | s | | s m e B]; try reflexivity.
    - (* infinity *) destruct s.
      + exfalso. revert G1. generalize qps_min_sf.
        unfold f64_le, BinarySingleNaN.Bcompare. intros ->. simpl. discriminate.
      + exfalso. revert G2. unfold f64_le. vm_compute. discriminate.
    - (* nan *) exfalso. revert G2. unfold f64_le. vm_compute. discriminate. }
  split; [exact Fq |].
  rewrite (f64_le_spec _ _ Fm Fq) in G1. rewrite (f64_le_spec _ _ Fq Ft) in G2.
  destruct (Rle_bool_spec (b2r qps_min) (b2r q)); [| discriminate].
  destruct (Rle_bool_spec (b2r q) (b2r f64_1000)); [| discriminate].
  rewrite Vt in *. split; assumption.
Qed.

Theorem interval_positive_thm :
  forall q, interval_guard q = true ->
  1000000 <= probe_interval q <= below_two63.
Proof.
  intros q G. destruct (guard_finite q G) as [Fq [Lq Uq]].
  destruct qps_min_val as [_ Vm]. rewrite Vm in Lq.
  destruct second_val as [Fs Vs].
  assert (Qpos : (0 < b2r q)%R) by lra.
  set (x := (1000000000 / b2r q)%R).
  assert (Xlo : (1000000 <= x)%R).
  { apply Rmult_le_reg_r with (b2r q); [exact Qpos |].
    unfold x, Rdiv. rewrite Rmult_assoc, Rinv_l by lra. lra. }
  assert (Xhi : (x <= IZR below_two63)%R).
  { apply Rmult_le_reg_r with (b2r q); [exact Qpos |].
    unfold x, Rdiv. rewrite Rmult_assoc, Rinv_l by lra. unfold below_two63.
    lra. }
  assert (Rlo : (1000000 <= rnd64 x)%R).
  { rewrite <- (round_generic radix2 fexp64 (round_mode mode_NE) 1000000).
    - apply round_le; auto with typeclass_instances.
    - apply (format_int53 1000000). simpl. lia. }
  assert (Rhi : (rnd64 x <= IZR below_two63)%R).
  { rewrite <- (round_generic radix2 fexp64 (round_mode mode_NE) (IZR below_two63)).
    - apply round_le; auto with typeclass_instances.
    - apply format_below_two63. }
  generalize (Bdiv_correct 53 1024 _ _ mode_NE f64_second q ltac:(lra)).
  rewrite Vs. fold x.
  rewrite Rlt_bool_true.
  2:{ rewrite Rabs_pos_eq by lra. apply Rle_lt_trans with (1 := Rhi).
      apply Rlt_trans with (IZR (2 ^ 63)). { apply IZR_lt. unfold below_two63. lia. }
      change (2 ^ 63)%Z with (Zpower radix2 63). rewrite IZR_Zpower by lia. apply bpow_lt. lia. }
  intros (A & B & _).
  unfold probe_interval. fold (f64_div f64_second q) in A, B.
  assert (Ff : fin (f64_div f64_second q) = true) by (rewrite B; exact Fs).
  apply (to_int64_bounds (f64_div f64_second q) 1000000 below_two63 Ff); try reflexivity.
  rewrite A. split; assumption.
Qed.

Corollary interval_positive_cor : forall q, interval_guard q = true -> 0 < probe_interval q.
Proof. intros q G. pose proof (interval_positive_thm q G). lia. Qed.

Lemma min_qps_val :
  fin f64_min_qps = true /\
  b2r f64_min_qps = (4835703278458517 * / 4835703278458516698824704)%R.
Proof. split; [reflexivity |]. unfold f64_min_qps, BinarySingleNaN.B2R, F2R. simpl. reflexivity. Qed.

(* every qps that validate_flags lets through is inside the exact guard *)
Theorem accepted_interval_guard :
  forall f, flags_accepted f = true -> interval_guard (fl_qps f) = true.
Proof.
  intros f H. destruct (accepted_inv f H) as (Q & _). clear H.
  apply andb_true_iff in Q. destruct Q as [Q1 Q2].
  destruct qps_min_val as [Fm Vm]. destruct thousand_val as [Ft Vt].
  destruct min_qps_val as [Fn Vn].
  set (q := fl_qps f) in *.
  assert (Fq : fin q = true).
  { destruct q as [s | s | | s m e B]; try reflexivity.
    - destruct s.
      + exfalso. revert Q1. unfold f64_ge. vm_compute. discriminate.
      + exfalso. revert Q2. unfold f64_le. vm_compute. discriminate.
    - exfalso. revert Q1. unfold f64_ge. vm_compute. discriminate. }
  unfold interval_guard.
  rewrite (f64_ge_spec _ _ Fq Fn) in Q1. rewrite (f64_le_spec _ _ Fq Ft) in Q2.
  rewrite (f64_le_spec _ _ Fm Fq), (f64_le_spec _ _ Fq Ft).
  rewrite Vt, Vn in *.
  destruct (Rle_bool_spec (4835703278458517 * / 4835703278458516698824704) (b2r q)) as [L |]; [| discriminate].
  destruct (Rle_bool_spec (b2r q) 1000) as [U |]; [| discriminate].
  rewrite Vm.
  destruct (Rle_bool_spec (8388608000000001 * / 77371252455336267181195264) (b2r q)); [reflexivity | lra].
Qed.

Theorem interval_positive_accepted :
  forall f, flags_accepted f = true ->
  1000000 <= probe_interval (fl_qps f) <= below_two63.
Proof. intros f H. apply interval_positive_thm. now apply accepted_interval_guard. Qed.

(* the flags clause of the monitor holds for the model, for every flag set *)
Theorem c18_flags_on_model :
  forall f qb, fl_qps f = f64_of_bits qb ->
  let errs := validate_flags f in
  let o := FErrs (Z.of_nat (length errs)) (err_mask errs) in
  let gi := ginput_of f qb in
  c18_flags f qb o (if impl_accepted o then Some (gi, model_gobs gi) else None) = true.
Proof.
  intros f qb Eq errs o gi. unfold c18_flags. subst o gi.
  destruct (impl_accepted (FErrs (Z.of_nat (length errs)) (err_mask errs))) eqn:A; [| reflexivity].
  assert (Acc : flags_accepted f = true).
  { unfold impl_accepted in A. apply andb_true_iff in A. destruct A as [A _].
    apply Z.eqb_eq in A. unfold flags_accepted. fold errs. destruct errs; [reflexivity | simpl in A; lia]. }
  assert (GE : ginput_eqb (ginput_of f qb) (ginput_of f qb) = true).
  { unfold ginput_eqb. rewrite !bytes_eqb_refl, Z.eqb_refl. reflexivity. }
  rewrite GE. simpl andb. unfold c18_accepted_ok, model_gobs.
  unfold ginput_of. simpl gi_project. simpl gi_instance. simpl gi_database.
  simpl gi_instance_config. simpl gi_qps_bits. simpl gi_probe_type.
  rewrite (flags_uri_monitor_thm f Acc). rewrite <- Eq.
  pose proof (interval_positive_accepted f Acc) as P.
  replace (0 <? probe_interval (fl_qps f)) with true by (symmetry; apply Z.ltb_lt; lia).
  destruct (flags_probe_type_parsable_thm f Acc) as [p ->]. reflexivity.
Qed.

(* ---- the inputs of the former finding B3 (fixed by 30d7568) ---- *)
Definition b3_flags (qps_bits : Z) : flags :=
  mk_flags [97]%N [] [97]%N [97]%N [97]%N qps_bits 1 1 s_noop.

(* what the pre-fix code answered for such a flag set: accepted, interval = MinInt64 *)
Definition b3_prefix_case (qps_bits : Z) : pcase :=
  let f := b3_flags qps_bits in
  let gi := ginput_of f qps_bits in
  KFlags f qps_bits (FErrs 0 0)
    (Some (gi, GOut (build_uris (gi_project gi) (gi_instance gi) (gi_database gi) (gi_instance_config gi))
                    min_int64 (Some s_noop))).

Theorem flags_former_B3_inputs :
  (* qps = NaN, 1e-10, the float just below the exact guard: now rejected *)
  validate_flags (b3_flags 9221120237041090560) = [FEqps] /\
  validate_flags (b3_flags 4457293557087583675) = [FEqps] /\
  validate_flags (b3_flags (qps_min_bits - 1)) = [FEqps] /\
  (* probe_interval itself is unchanged *)
  probe_interval (f64_of_bits 9221120237041090560) = min_int64 /\
  probe_interval (f64_of_bits (qps_min_bits - 1)) = min_int64 /\
  probe_interval qps_min = below_two63 /\
  (* the boundary of the new test: minQPS = 1e-9 is accepted (10^18 ns), the float below is not *)
  validate_flags (b3_flags f64_min_qps_bits) = [] /\
  probe_interval (f64_of_bits f64_min_qps_bits) = 1000000000000000000 /\
  validate_flags (b3_flags (f64_min_qps_bits - 1)) = [FEqps] /\
  (* the pre-fix outputs are rejected by the monitor *)
  case_mon (b3_prefix_case 9221120237041090560) = false /\
  case_mon (b3_prefix_case 4457293557087583675) = false.
Proof. vm_compute. repeat split; reflexivity. Qed.

(* ------------------------------------------------------------------------ *)
(** * generatePayload, relative to the hash function *)
Section PayloadProofs.
  Variable H : bytes -> bytes.

  Theorem payload_hash_thm :
    forall rnd size p h,
    generate_payload H rnd size = Some (p, h) ->
    h = H p /\ Z.of_nat (length p) = size.
  Proof.
    intros rnd size p h G. unfold generate_payload in G.
    destruct (size <? 0) eqn:E; [discriminate |]. apply Z.ltb_ge in E.
    inversion G; subst. split; [reflexivity |].
    rewrite map_length, seq_length. lia.
  Qed.

  Theorem payload_total_thm :
    forall rnd size, 0 <= size -> exists p, generate_payload H rnd size = Some (p, H p).
  Proof.
    intros rnd size Hs. unfold generate_payload.
    replace (size <? 0) with false by (symmetry; apply Z.ltb_ge; lia).
    eexists; reflexivity.
  Qed.
End PayloadProofs.
