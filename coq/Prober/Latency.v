(* Proofs about Model.parse_latency (parseT4T7Latency after fix 3d18018) and
   Model.parse_int10 (strconv.ParseInt(s, 10, 64)). *)
From Coq Require Import ZArith NArith Lia Bool List.
From GV Require Import Prober.F64 Prober.Model Prober.Monitors.
Import ListNotations.
Open Scope Z_scope.

(* case analysis on every integer comparison in the goal *)
Ltac zcases :=
  repeat match goal with
         | |- context [Z.leb ?a ?b] => destruct (Z.leb_spec a b)
         | |- context [Z.ltb ?a ?b] => destruct (Z.ltb_spec a b)
         end; cbn [orb andb negb].

(* ------------------------------------------------------------------------ *)
(** * What a decimal int64 literal is, independently of the parsing loop *)

Fixpoint digits_val (ds : bytes) (acc : Z) : Z :=
  match ds with
  | [] => acc
  | c :: r => digits_val r (acc * 10 + digit_val c)
  end.

(* optional sign, at least one digit, nothing else, value inside int64 *)
Definition dec_spec (s : bytes) : option Z :=
  match s with
  | [] => None
  | c :: r =>
      let neg := N.eqb c 45 in
      let body := if N.eqb c 43 || N.eqb c 45 then r else s in
      match body with
      | [] => None
      | _ =>
          if forallb is_digit body then
            let v := digits_val body 0 in
            let z := if neg then - v else v in
            if in_int64 z then Some z else None
          else None
      end
  end.

Lemma digit_val_range : forall c, is_digit c = true -> 0 <= digit_val c <= 9.
Proof.
  intros c H. unfold is_digit in H. apply andb_true_iff in H. destruct H as [A B].
  apply N.leb_le in A, B. unfold digit_val. lia.
Qed.

Lemma digits_val_ge :
  forall ds acc, 0 <= acc -> forallb is_digit ds = true -> acc <= digits_val ds acc.
Proof.
  induction ds as [|c r IH]; intros acc H0 Hd; simpl in *.
  - lia.
  - apply andb_true_iff in Hd. destruct Hd as [Hc Hr].
    pose proof (digit_val_range c Hc).
    specialize (IH (acc * 10 + digit_val c) ltac:(lia) Hr). lia.
Qed.

(* the loop of ParseUint computes the value, or reports the overflow;
   stated for accumulators inside uint64, which is all the loop ever sees *)
Lemma parse_uint10_digits :
  forall ds n, 0 <= n <= max_u64 -> forallb is_digit ds = true ->
  parse_uint10 ds n =
  if digits_val ds n <=? max_u64 then POk (digits_val ds n) else PErr ERange.
Proof.
  induction ds as [|c r IH]; intros n Hn Hd; simpl in *.
  - replace (n <=? max_u64) with true by (symmetry; apply Z.leb_le; lia). reflexivity.
  - apply andb_true_iff in Hd. destruct Hd as [Hc Hr]. rewrite Hc.
    pose proof (digit_val_range c Hc) as Hdv.
    unfold cutoff10, max_u64, two64 in *.
    change (18446744073709551616 - 1) with 18446744073709551615 in *.
    change (18446744073709551615 / 10 + 1) with 1844674407370955162.
    destruct (1844674407370955162 <=? n) eqn:Ec.
    + apply Z.leb_le in Ec.
      pose proof (digits_val_ge r (n * 10 + digit_val c) ltac:(lia) Hr).
      replace (digits_val r (n * 10 + digit_val c) <=? 18446744073709551615) with false
        by (symmetry; apply Z.leb_gt; lia).
      reflexivity.
    + apply Z.leb_gt in Ec.
      destruct (18446744073709551615 <? n * 10 + digit_val c) eqn:Eo.
      * apply Z.ltb_lt in Eo.
        pose proof (digits_val_ge r (n * 10 + digit_val c) ltac:(lia) Hr).
        replace (digits_val r (n * 10 + digit_val c) <=? 18446744073709551615) with false
          by (symmetry; apply Z.leb_gt; lia).
        reflexivity.
      * apply Z.ltb_ge in Eo. apply IH; [lia | exact Hr].
Qed.

(* anything that is not a digit makes it an error *)
Lemma parse_uint10_nondigit :
  forall ds n, forallb is_digit ds = false -> exists e, parse_uint10 ds n = PErr e.
Proof.
  induction ds as [|c r IH]; intros n Hd; simpl in *.
  - discriminate.
  - destruct (is_digit c) eqn:Hc; simpl in Hd.
    + destruct (cutoff10 <=? n); [eexists; reflexivity |].
      destruct (max_u64 <? n * 10 + digit_val c); [eexists; reflexivity |].
      apply IH. exact Hd.
    + eexists; reflexivity.
Qed.

(* parse_int10 accepts exactly the decimal int64 literals, with their value *)
Theorem parse_int10_spec :
  forall s, match dec_spec s with
            | Some z => parse_int10 s = POk z
            | None => exists e, parse_int10 s = PErr e
            end.
Proof.
  intros [|c r]; simpl.
  - eexists; reflexivity.
  - set (neg := N.eqb c 45).
    set (body := if N.eqb c 43 || neg then r else c :: r).
    destruct body as [|b0 br] eqn:Eb.
    + eexists; reflexivity.
    + rewrite <- Eb.
      destruct (forallb is_digit body) eqn:Hd.
      * rewrite (parse_uint10_digits body 0) by (unfold max_u64, two64; try exact Hd; lia).
        set (v := digits_val body 0).
        assert (Hv : 0 <= v) by (apply (digits_val_ge body 0); [lia | exact Hd]).
        unfold in_int64, min_int64, max_int64, max_u64, two63, two64.
        destruct neg; cbn [negb andb];
          repeat match goal with
                 | |- context [Z.leb ?a ?b] => destruct (Z.leb_spec a b)
                 | |- context [Z.ltb ?a ?b] => destruct (Z.ltb_spec a b)
                 end; cbn [andb];
          try reflexivity; try (eexists; reflexivity); exfalso; lia.
      * destruct (parse_uint10_nondigit body 0 Hd) as [e He]. rewrite He.
        eexists; reflexivity.
Qed.

Corollary parse_int10_ok_iff : forall s z, parse_int10 s = POk z <-> dec_spec s = Some z.
Proof.
  intros s z. pose proof (parse_int10_spec s) as H. destruct (dec_spec s) as [z'|].
  - rewrite H. split; intro E; inversion E; reflexivity.
  - destruct H as [e He]. rewrite He. split; discriminate.
Qed.

(* '_' is not accepted in base 10, neither are spaces or letters *)
Example parse_int10_underscore : parse_int10 [49; 95; 48; 48; 48]%N = PErr ESyntax.
Proof. reflexivity. Qed.
Example parse_int10_min : parse_int10 [45; 57; 50; 50; 51; 51; 55; 50; 48; 51; 54; 56; 53; 52; 55; 55; 53; 56; 48; 56]%N
                          = POk min_int64.
Proof. reflexivity. Qed.
Example parse_int10_max1 : parse_int10 [57; 50; 50; 51; 51; 55; 50; 48; 51; 54; 56; 53; 52; 55; 55; 53; 56; 48; 56]%N
                           = PErr ERange.
Proof. reflexivity. Qed.

(* ------------------------------------------------------------------------ *)
(** * parse_latency *)

Definition entry_result (txt : bytes) : lres :=
  match parse_int10 txt with
  | POk ms =>
      if (max_duration_millis <? ms) || (ms <? - max_duration_millis) then LDurRange
      else LOk (wrap64 (ms * millisecond))
  | PErr x => LParse x
  end.

(* the structure of the function: which list, which entry, what value *)
Theorem latency_structure :
  forall h t,
  parse_latency h t =
  match timing_values h t with
  | [] => LNotFound
  | vs => match first_gfe vs with
          | None => LNoEntry
          | Some txt => entry_result txt
          end
  end.
Proof.
  intros h t. unfold parse_latency, timing_values.
  assert (S : forall es, scan_entries es =
                         match first_gfe es with None => LNoEntry | Some txt => entry_result txt end).
  { induction es as [|e r IH]; cbn [scan_entries first_gfe]; [reflexivity |].
    destruct (strip_prefix gfe_prefix e); [reflexivity | exact IH]. }
  destruct (md_get server_timing_key h) as [|x xs].
  - destruct (md_get server_timing_key t) as [|y ys]; [reflexivity | apply S].
  - apply S.
Qed.

Theorem latency_total_thm : forall h t, exists r, parse_latency h t = r.
Proof. intros h t. eexists. reflexivity. Qed.

(* a non-empty server-timing header decides alone; otherwise the trailer does *)
Theorem latency_header_first_thm :
  forall h,
  (md_get server_timing_key h <> [] ->
   forall t1 t2, parse_latency h t1 = parse_latency h t2) /\
  (md_get server_timing_key h = [] ->
   forall t, parse_latency h t = parse_latency [] t).
Proof.
  intro h. split.
  - intros NE t1 t2. unfold parse_latency.
    destruct (md_get server_timing_key h); [contradiction | reflexivity].
  - intros E t. unfold parse_latency. rewrite E. reflexivity.
Qed.

(* entries without the prefix are skipped, the first one with it decides,
   whatever follows is ignored *)
Theorem latency_first_entry_thm :
  forall pre e post txt,
  Forall (fun x => strip_prefix gfe_prefix x = None) pre ->
  strip_prefix gfe_prefix e = Some txt ->
  scan_entries (pre ++ e :: post) = entry_result txt.
Proof.
  intros pre e post txt Hpre He. induction Hpre as [|x l Hx _ IH]; cbn [app scan_entries].
  - rewrite He. reflexivity.
  - rewrite Hx. exact IH.
Qed.

(* strip_prefix is HasPrefix + TrimPrefix *)
Lemma strip_prefix_spec : forall p s t, strip_prefix p s = Some t <-> s = p ++ t.
Proof.
  induction p as [|x p IH]; intros s t; simpl.
  - split; intro H; [now inversion H | now subst].
  - destruct s as [|y s]; [split; discriminate |].
    destruct (N.eqb x y) eqn:E.
    + apply N.eqb_eq in E. subst y. rewrite IH. split; intro H; [now subst | now inversion H].
    + apply N.eqb_neq in E. split; [discriminate | intro H; inversion H; congruence].
Qed.

Theorem latency_error_thm :
  forall h t,
  (* no server-timing values at all *)
  (timing_values h t = [] -> parse_latency h t = LNotFound) /\
  (* values, but none is a gfet4t7 entry *)
  (timing_values h t <> [] -> first_gfe (timing_values h t) = None -> parse_latency h t = LNoEntry) /\
  (* the first gfet4t7 entry is not a decimal int64 *)
  (forall txt, first_gfe (timing_values h t) = Some txt -> dec_spec txt = None ->
               exists e, parse_latency h t = LParse e) /\
  (* it is one, but that many milliseconds are not a time.Duration *)
  (forall txt ms, first_gfe (timing_values h t) = Some txt -> dec_spec txt = Some ms ->
                  max_int64 / 1000000 < Z.abs ms -> parse_latency h t = LDurRange).
Proof.
  intros h t. rewrite latency_structure. repeat split.
  - intros ->. reflexivity.
  - intros NE F. destruct (timing_values h t); [contradiction | now rewrite F].
  - intros txt F D. destruct (timing_values h t) as [|v vs]; [discriminate |].
    rewrite F. unfold entry_result.
    pose proof (parse_int10_spec txt) as P. rewrite D in P. destruct P as [e ->]. now exists e.
  - intros txt ms F D G. destruct (timing_values h t) as [|v vs]; [discriminate |].
    rewrite F. unfold entry_result.
    pose proof (parse_int10_spec txt) as P. rewrite D in P. rewrite P.
    unfold max_duration_millis, millisecond, max_int64, two63 in *.
    change ((9223372036854775808 - 1) / 1000000) with 9223372036854 in *.
    zcases; try reflexivity; exfalso; lia.
Qed.

(* the value: exactly ms milliseconds whenever that is a time.Duration *)
Theorem latency_value_thm :
  forall h t txt ms,
  first_gfe (timing_values h t) = Some txt -> dec_spec txt = Some ms ->
  parse_latency h t =
  if Z.abs ms <=? max_int64 / 1000000 then LOk (ms * 1000000) else LDurRange.
Proof.
  intros h t txt ms F D. rewrite latency_structure.
  destruct (timing_values h t) as [|v vs]; [discriminate |].
  rewrite F. unfold entry_result.
  pose proof (parse_int10_spec txt) as P. rewrite D in P. rewrite P.
  unfold max_duration_millis, wrap64, millisecond, two63, two64, max_int64, two63 in *.
  change ((9223372036854775808 - 1) / 1000000) with 9223372036854 in *.
  zcases; try reflexivity; try (exfalso; lia).
  f_equal. rewrite Z.mod_small by lia. lia.
Qed.

(* a returned duration is never a wrapped-around product *)
Theorem latency_no_wrap_thm :
  forall h t d, parse_latency h t = LOk d ->
  exists txt ms, first_gfe (timing_values h t) = Some txt /\ dec_spec txt = Some ms /\
                 d = ms * 1000000 /\ in_int64 d = true.
Proof.
  intros h t d H. rewrite latency_structure in H.
  destruct (timing_values h t) as [|v vs]; [discriminate |].
  destruct (first_gfe (v :: vs)) as [txt|] eqn:F; [| discriminate].
  unfold entry_result in H. destruct (parse_int10 txt) as [ms|e] eqn:P; [| discriminate].
  apply parse_int10_ok_iff in P.
  destruct ((max_duration_millis <? ms) || (ms <? - max_duration_millis)) eqn:R; [discriminate |].
  apply orb_false_iff in R. destruct R as [R1 R2]. apply Z.ltb_ge in R1, R2.
  inversion H; subst d. exists txt, ms. repeat split; try assumption.
  - unfold max_duration_millis, wrap64, millisecond, two63, two64, max_int64, two63 in *.
    change ((9223372036854775808 - 1) / 1000000) with 9223372036854 in *.
    rewrite Z.mod_small by lia. lia.
  - unfold max_duration_millis, wrap64, millisecond, in_int64, min_int64, max_int64, two63, two64 in *.
    change ((9223372036854775808 - 1) / 1000000) with 9223372036854 in *.
    rewrite Z.mod_small by lia. apply andb_true_iff. split; apply Z.leb_le; lia.
Qed.

(* on its own outputs the model satisfies the monitor, for all metadata *)
Theorem c18_latency_on_model :
  forall h t, c18_latency h t (OLres (parse_latency h t)) = true.
Proof.
  intros h t. unfold c18_latency, latency_spec. rewrite latency_structure.
  destruct (timing_values h t) as [|v vs] eqn:TV.
  - simpl. reflexivity.
  - destruct (first_gfe (v :: vs)) as [txt|]; [| reflexivity].
    unfold entry_result. destruct (parse_int10 txt) as [ms | e]; [| reflexivity].
    unfold max_duration_millis, wrap64, millisecond, in_int64, min_int64, max_int64, two63, two64.
    change ((9223372036854775808 - 1) / 1000000) with 9223372036854.
    zcases; try reflexivity; try (exfalso; lia).
    rewrite Z.mod_small by lia. apply Z.eqb_eq. lia.
Qed.

(* ---- the input of the former finding B2 (fixed by 3d18018) ---- *)
(* "gfet4t7; dur=9999999999999999" *)
Definition b2_entry : bytes :=
  gfe_prefix ++ [57; 57; 57; 57; 57; 57; 57; 57; 57; 57; 57; 57; 57; 57; 57; 57]%N.

Theorem latency_former_B2_input :
  dec_spec [57; 57; 57; 57; 57; 57; 57; 57; 57; 57; 57; 57; 57; 57; 57; 57]%N = Some 9999999999999999 /\
  parse_latency [(server_timing_key, [b2_entry])] [] = LDurRange /\
  (* the pre-fix answer, 9999999999999999 * 10^6 wrapped into int64, is rejected by the monitor *)
  wrap64 (9999999999999999 * 1000000) = 1864712049422024128 /\
  c18_latency [(server_timing_key, [b2_entry])] [] (OLres (LOk 1864712049422024128)) = false.
Proof. vm_compute. repeat split; reflexivity. Qed.
