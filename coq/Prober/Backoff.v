(* Proofs about Model.backoff (the code after fix 76e44a5): bounds and
   monotonicity in the retry count for every retry count and every pair of
   int64 values base <= max; no further guard is needed. *)
From Coq Require Import ZArith Reals Lia Lra Bool Arith.
From Flocq Require Import Core.Core IEEE754.BinarySingleNaN.
From GV Require Import Prober.F64 Prober.F64Facts Prober.Model Prober.Monitors.

Open Scope Z_scope.

(* ------------------------------------------------------------------------ *)
(** The positive-counted loop with early exit is the unary-counted loop. *)

Lemma bo_iter_stop : forall mx n b, bo_step mx b = None -> bo_iter mx n b = b.
Proof. intros mx [|n] b H; simpl; [reflexivity | now rewrite H]. Qed.

Lemma bo_iter_add :
  forall mx n k b, bo_iter mx (n + k) b = bo_iter mx k (bo_iter mx n b).
Proof.
  intros mx n. induction n as [|n IH]; intros k b; simpl.
  - reflexivity.
  - destruct (bo_step mx b) as [b'|] eqn:E.
    + apply IH.
    + symmetry. now apply bo_iter_stop.
Qed.

Lemma bo_iter_S :
  forall mx n b,
  bo_iter mx (S n) b = match bo_step mx b with Some b' => bo_iter mx n b' | None => b end.
Proof. reflexivity. Qed.

Lemma bo_iter_pos_spec :
  forall mx p b,
  fst (bo_iter_pos mx p b) = bo_iter mx (Pos.to_nat p) b /\
  (snd (bo_iter_pos mx p b) = true -> bo_step mx (fst (bo_iter_pos mx p b)) = None).
Proof.
  intros mx p. induction p as [q IH | q IH |]; intro b.
  - (* xI *)
    rewrite Pos2Nat.inj_xI.
    replace (2 * Pos.to_nat q)%nat with (Pos.to_nat q + Pos.to_nat q)%nat by lia.
    rewrite bo_iter_S. simpl bo_iter_pos.
    destruct (bo_step mx b) as [b'|] eqn:E.
    + destruct (IH b') as [I1 I2]. destruct (bo_iter_pos mx q b') as [b1 st] eqn:E1.
      simpl in I1, I2.
      rewrite bo_iter_add, <- I1.
      destruct st.
      * simpl. split; [| auto]. symmetry. apply bo_iter_stop. auto.
      * destruct (IH b1) as [J1 J2]. split; [exact J1 | exact J2].
    + simpl. split; [reflexivity | intros _; exact E].
  - (* xO *)
    rewrite Pos2Nat.inj_xO.
    replace (2 * Pos.to_nat q)%nat with (Pos.to_nat q + Pos.to_nat q)%nat by lia.
    simpl bo_iter_pos.
    destruct (IH b) as [I1 I2]. destruct (bo_iter_pos mx q b) as [b1 st] eqn:E1.
    simpl in I1, I2.
    rewrite bo_iter_add, <- I1.
    destruct st.
    + simpl. split; [| auto]. symmetry. apply bo_iter_stop. auto.
    + destruct (IH b1) as [J1 J2]. split; [exact J1 | exact J2].
  - (* xH *)
    simpl. destruct (bo_step mx b) as [b'|] eqn:E; simpl.
    + split; [reflexivity | discriminate].
    + split; [reflexivity | intros _; exact E].
Qed.

Lemma backoff_eq_nat : forall base mx retries, backoff base mx retries = backoff_nat base mx retries.
Proof.
  intros base mx retries. unfold backoff, backoff_nat.
  destruct retries as [|p|p]; simpl Z.to_nat; try reflexivity.
  rewrite (proj1 (bo_iter_pos_spec _ p _)). reflexivity.
Qed.

(* one more retry = one more evaluation of the loop condition at the end *)
Lemma bo_iter_S_end :
  forall mx n b,
  bo_iter mx (S n) b =
  match bo_step mx (bo_iter mx n b) with Some b' => b' | None => bo_iter mx n b end.
Proof.
  intros mx n b. replace (S n) with (n + 1)%nat by lia. rewrite bo_iter_add. reflexivity.
Qed.

(* ------------------------------------------------------------------------ *)
(** Floating-point part: every int64 base <= max. *)
Section Guarded.
  Variables base mx : Z.
  Hypothesis Hg : backoff_guard base mx = true.

  Let Hib : in_int64 base = true.
  Proof. unfold backoff_guard in Hg. apply andb_true_iff in Hg. destruct Hg as [H _]. apply andb_true_iff in H. tauto. Qed.
  Let Him : in_int64 mx = true.
  Proof. unfold backoff_guard in Hg. apply andb_true_iff in Hg. destruct Hg as [H _]. apply andb_true_iff in H. tauto. Qed.
  Let Hbm : base <= mx.
  Proof. unfold backoff_guard in Hg. apply andb_true_iff in Hg. destruct Hg as [_ H]. now apply Z.leb_le. Qed.

  Let m := f64_of_int mx.
  Let b0 := f64_of_int base.

  Lemma m_round : b2r m = rnd64 (IZR mx) /\ fin m = true /\ (Rabs (b2r m) <= IZR (2 ^ 63))%R.
  Proof. apply f64_of_int_round. exact Him. Qed.

  Lemma b0_round : b2r b0 = rnd64 (IZR base) /\ fin b0 = true /\ (Rabs (b2r b0) <= IZR (2 ^ 63))%R.
  Proof. apply f64_of_int_round. exact Hib. Qed.

  Lemma in_int64_bounds : forall z, in_int64 z = true -> min_int64 <= z <= max_int64.
  Proof.
    intros z H. unfold in_int64 in H. apply andb_true_iff in H. destruct H as [A B].
    apply Z.leb_le in A, B. lia.
  Qed.

  (* float64(base) >= -2^63 *)
  Lemma b0_lower : (IZR min_int64 <= b2r b0)%R.
  Proof.
    destruct b0_round as (E & _ & _). rewrite E.
    rewrite <- (round_generic radix2 fexp64 (round_mode mode_NE) (IZR min_int64)).
    - apply round_le; auto with typeclass_instances. apply IZR_le.
      apply (in_int64_bounds base Hib).
    - change min_int64 with (- 2 ^ 63)%Z. rewrite opp_IZR. apply generic_format_opp. apply format_two63.
  Qed.

  (* loop invariant *)
  Definition Inv (b : f64) : Prop := fin b = true /\ (b2r b0 <= b2r b)%R.

  Lemma inv_b0 : Inv b0.
  Proof. destruct b0_round as (_ & F & _). split; [exact F | apply Rle_refl]. Qed.

  Lemma step_spec :
    forall b b', fin b = true -> bo_step m b = Some b' ->
    (0 < b2r b < b2r m)%R /\ fin b' = true /\ (b2r b <= b2r b')%R.
  Proof.
    intros b b' Fb S. unfold bo_step in S.
    destruct m_round as (_ & Fm & Am).
    destruct (f64_gt b f64_zero) eqn:G; [| discriminate].
    destruct (f64_lt b m) eqn:L; [| discriminate]. simpl in S. injection S as <-.
    rewrite (f64_gt_spec b f64_zero Fb eq_refl) in G.
    rewrite (f64_lt_spec b m Fb Fm) in L.
    change (b2r f64_zero) with 0%R in G.
    destruct (Rlt_bool_spec 0 (b2r b)) as [Pos | _]; [| discriminate].
    destruct (Rlt_bool_spec (b2r b) (b2r m)) as [Lt | _]; [| discriminate].
    assert (R : (0 <= b2r b <= IZR (2 ^ 63))%R).
    { split; [lra |]. apply Rle_trans with (2 := Am).
      apply Rle_trans with (b2r m); [lra | apply Rle_abs]. }
    destruct (mul15_correct b Fb R) as (F' & _ & Le).
    repeat split; assumption.
  Qed.

  Lemma step_none_stays :
    forall b, fin b = true -> (b2r m <= b2r b)%R -> bo_step m b = None.
  Proof.
    intros b Fb H. unfold bo_step. destruct m_round as (_ & Fm & _).
    rewrite (f64_lt_spec b m Fb Fm).
    destruct (Rlt_bool_spec (b2r b) (b2r m)); [lra |]. now rewrite andb_false_r.
  Qed.

  Lemma iter_inv : forall n b, Inv b -> Inv (bo_iter m n b) /\ (b2r b <= b2r (bo_iter m n b))%R.
  Proof.
    induction n as [|n IH]; intros b I; simpl.
    - split; [exact I | apply Rle_refl].
    - destruct (bo_step m b) as [b'|] eqn:E.
      + destruct I as [Fb Lb]. destruct (step_spec b b' Fb E) as (_ & F' & L).
        assert (I' : Inv b') by (split; [exact F' | lra]).
        destruct (IH b' I') as [I'' L']. split; [exact I'' | lra].
      + split; [exact I | apply Rle_refl].
  Qed.

  (* the result when the loop left the float at b *)
  Lemma final_cases :
    forall b, Inv b ->
    ((b2r m <= b2r b)%R /\ bo_final base mx m b = mx) \/
    ((b2r b < b2r m)%R /\ bo_final base mx m b = Z.max (Ztrunc (b2r b)) base /\
     Ztrunc (b2r b) <= mx).
  Proof.
    intros b [Fb Lb]. destruct m_round as (Em & Fm & _). unfold bo_final.
    rewrite (f64_ge_spec b m Fb Fm).
    destruct (Rle_bool_spec (b2r m) (b2r b)) as [Ge | Lt].
    - left. split; [exact Ge | reflexivity].
    - right. split; [exact Lt |].
      assert (Ub : (b2r b <= IZR mx)%R) by (apply float_lt_round_le; rewrite <- Em; exact Lt).
      assert (Lb' : (IZR min_int64 <= b2r b)%R) by (apply Rle_trans with (1 := b0_lower); exact Lb).
      destruct (to_int64_bounds b min_int64 mx Fb eq_refl Him (conj Lb' Ub)) as [T [_ U]].
      rewrite T in *. split; [| exact U].
      destruct (Ztrunc (b2r b) >? base) eqn:C.
      + apply Z.gtb_lt in C. lia.
      + rewrite Z.gtb_ltb in C. apply Z.ltb_ge in C. lia.
  Qed.

  Definition final (n : nat) : Z := bo_final base mx m (bo_iter m n b0).

  Lemma final_bounds : forall n, base <= final n <= mx.
  Proof.
    intro n. destruct (iter_inv n b0 inv_b0) as [I _]. unfold final.
    destruct (final_cases _ I) as [[_ ->] | (_ & -> & U)]; lia.
  Qed.

  Lemma final_mono_S : forall n, final n <= final (S n).
  Proof.
    intro n. pose proof (final_bounds (S n)) as BS. unfold final in *.
    rewrite bo_iter_S_end in *. destruct (iter_inv n b0 inv_b0) as [I _].
    destruct (bo_step m (bo_iter m n b0)) as [b'|] eqn:E; [| lia].
    destruct I as [Fx Lx]. destruct (step_spec _ _ Fx E) as ([_ Lt] & F' & Le).
    assert (I' : Inv b') by (split; [exact F' | lra]).
    destruct (final_cases _ (conj Fx Lx)) as [[Ge _] | (_ & -> & U)]; [lra |].
    destruct (final_cases _ I') as [[_ ->] | (_ & -> & U')].
    - lia.
    - pose proof (Ztrunc_le _ _ Le). lia.
  Qed.

  Lemma final_mono : forall n k, (n <= k)%nat -> final n <= final k.
  Proof.
    intros n k H. induction H as [|k H IH]; [lia |].
    apply Z.le_trans with (1 := IH). apply final_mono_S.
  Qed.

  Lemma backoff_bounds_guarded : forall retries, base <= backoff base mx retries <= mx.
  Proof.
    intro retries. rewrite backoff_eq_nat. unfold backoff_nat.
    apply (final_bounds (Z.to_nat retries)).
  Qed.

  Lemma backoff_monotone_guarded :
    forall r1 r2, r1 <= r2 -> backoff base mx r1 <= backoff base mx r2.
  Proof.
    intros r1 r2 H. rewrite !backoff_eq_nat. unfold backoff_nat.
    apply (final_mono (Z.to_nat r1) (Z.to_nat r2)). lia.
  Qed.
End Guarded.

(* ------------------------------------------------------------------------ *)
(** The statements of Props_C18.v *)

Lemma guard_of : forall base mx, in_int64 base = true -> in_int64 mx = true -> base <= mx ->
  backoff_guard base mx = true.
Proof.
  intros base mx A B C. unfold backoff_guard. rewrite A, B. simpl. now apply Z.leb_le.
Qed.

Theorem backoff_bounds_thm :
  forall base mx retries : Z,
  in_int64 base = true -> in_int64 mx = true -> base <= mx ->
  base <= backoff base mx retries <= mx.
Proof.
  intros base mx retries A B C. apply backoff_bounds_guarded. now apply guard_of.
Qed.

Theorem backoff_monotone_thm :
  forall base mx r1 r2 : Z,
  in_int64 base = true -> in_int64 mx = true -> base <= mx -> r1 <= r2 ->
  backoff base mx r1 <= backoff base mx r2.
Proof.
  intros base mx r1 r2 A B C H. apply backoff_monotone_guarded; [now apply guard_of | exact H].
Qed.

(* the monitor agrees with the theorems: on the model's own outputs it holds
   for all int64 arguments *)
Theorem c18_backoff_on_model :
  forall base mx retries : Z,
  in_int64 base = true -> in_int64 mx = true ->
  c18_backoff base mx retries (Some (backoff base mx retries))
              (Some (backoff base mx (wrap64 (retries + 1)))) = true.
Proof.
  intros base mx retries A B. unfold c18_backoff.
  destruct (base <=? mx) eqn:C; [| reflexivity]. apply Z.leb_le in C.
  pose proof (guard_of base mx A B C) as G.
  pose proof (backoff_bounds_guarded base mx G retries) as [P1 P2].
  pose proof (backoff_bounds_guarded base mx G (wrap64 (retries + 1))) as [Q1 Q2].
  rewrite !andb_true_iff. repeat split; try (apply Z.leb_le; assumption).
  destruct (retries <? max_int64) eqn:L; [| reflexivity].
  apply Z.ltb_lt in L. apply Z.leb_le. apply backoff_monotone_guarded; [exact G |].
  (* below MaxInt64, retries+1 either does not wrap or retries < MinInt64 (not a Go int) *)
  unfold wrap64, two63, two64, max_int64, two63 in *.
  destruct (Z_le_gt_dec (- 9223372036854775808) retries).
  - rewrite Z.mod_small by lia. lia.
  - pose proof (Z.mod_pos_bound (retries + 1 + 9223372036854775808) 18446744073709551616 ltac:(lia)). lia.
Qed.

(* the only call site: backoff(baseLRORetryDelay, maxLRORetryDelay, retries) *)
Theorem backoff_call_site_thm :
  forall r1 r2 : Z, r1 <= r2 ->
  base_lro_retry_delay <= backoff base_lro_retry_delay max_lro_retry_delay r1 /\
  backoff base_lro_retry_delay max_lro_retry_delay r1
    <= backoff base_lro_retry_delay max_lro_retry_delay r2 /\
  backoff base_lro_retry_delay max_lro_retry_delay r2 <= max_lro_retry_delay.
Proof.
  intros r1 r2 H.
  assert (G : backoff_guard base_lro_retry_delay max_lro_retry_delay = true) by reflexivity.
  pose proof (backoff_bounds_guarded _ _ G r1). pose proof (backoff_bounds_guarded _ _ G r2).
  pose proof (backoff_monotone_guarded _ _ G r1 r2 H). lia.
Qed.

(* ---- the inputs of the former finding B1 (fixed by 76e44a5) ---- *)
Theorem backoff_former_B1_inputs :
  (let b := 2 ^ 53 + 1 in backoff b b 0 = b) /\
  backoff (-2) 5 0 = -2 /\ backoff (-2) 5 1 = -2 /\
  backoff max_int64 max_int64 0 = max_int64 /\
  backoff (2 ^ 53 + 1) (2 ^ 53 + 3) 0 = 2 ^ 53 + 1 /\
  backoff (2 ^ 53 + 1) (2 ^ 53 + 3) 1 = 2 ^ 53 + 3 /\
  (* a zero or negative base no longer spins: 2^62 retries are immediate *)
  backoff 0 10 (2 ^ 62) = 0 /\ backoff min_int64 max_int64 (2 ^ 62) = min_int64.
Proof. vm_compute. repeat split; reflexivity. Qed.
