(* Proofs about Model.backoff: bounds and monotonicity in the retry count for
   every retry count under the guard 0 <= base <= max <= 2^53, and the
   counterexamples outside the guard (finding B1). *)
From Coq Require Import ZArith Reals Lia Lra Bool Arith.
From Flocq Require Import Core.Core IEEE754.BinarySingleNaN.
From GV Require Import Prober.F64 Prober.F64Facts Prober.Model Prober.Monitors.

Open Scope Z_scope.

(* ------------------------------------------------------------------------ *)
(** The positive-counted loop with early exit is the unary-counted loop. *)

Lemma bo_iter_stop : forall mx n b, bo_step mx b = None -> bo_iter mx n b = b.
Proof. intros mx [|n] b H; simpl; [reflexivity | now rewrite H]. Qed.

Lemma bo_iter_add :
  forall mx n k b, bo_iter mx (n + k) b = bo_iter mx k (bo_iter mx n b).
Proof.
  intros mx n. induction n as [|n IH]; intros k b; simpl.
  - reflexivity.
  - destruct (bo_step mx b) as [b'|] eqn:E.
    + apply IH.
    + symmetry. now apply bo_iter_stop.
Qed.

Lemma bo_iter_S :
  forall mx n b,
  bo_iter mx (S n) b = match bo_step mx b with Some b' => bo_iter mx n b' | None => b end.
Proof. reflexivity. Qed.

Lemma bo_iter_pos_spec :
  forall mx p b,
  fst (bo_iter_pos mx p b) = bo_iter mx (Pos.to_nat p) b /\
  (snd (bo_iter_pos mx p b) = true -> bo_step mx (fst (bo_iter_pos mx p b)) = None).
Proof.
  intros mx p. induction p as [q IH | q IH |]; intro b.
  - (* xI *)
    rewrite Pos2Nat.inj_xI.
    replace (2 * Pos.to_nat q)%nat with (Pos.to_nat q + Pos.to_nat q)%nat by lia.
    rewrite bo_iter_S. simpl bo_iter_pos.
    destruct (bo_step mx b) as [b'|] eqn:E.
    + destruct (IH b') as [I1 I2]. destruct (bo_iter_pos mx q b') as [b1 st] eqn:E1.
      simpl in I1, I2.
      rewrite bo_iter_add, <- I1.
      destruct st.
      * simpl. split; [| auto]. symmetry. apply bo_iter_stop. auto.
      * destruct (IH b1) as [J1 J2]. split; [exact J1 | exact J2].
    + simpl. split; [reflexivity | intros _; exact E].
  - (* xO *)
    rewrite Pos2Nat.inj_xO.
    replace (2 * Pos.to_nat q)%nat with (Pos.to_nat q + Pos.to_nat q)%nat by lia.
    simpl bo_iter_pos.
    destruct (IH b) as [I1 I2]. destruct (bo_iter_pos mx q b) as [b1 st] eqn:E1.
    simpl in I1, I2.
    rewrite bo_iter_add, <- I1.
    destruct st.
    + simpl. split; [| auto]. symmetry. apply bo_iter_stop. auto.
    + destruct (IH b1) as [J1 J2]. split; [exact J1 | exact J2].
  - (* xH *)
    simpl. destruct (bo_step mx b) as [b'|] eqn:E; simpl.
    + split; [reflexivity | discriminate].
    + split; [reflexivity | intros _; exact E].
Qed.

Lemma backoff_eq_nat : forall base mx retries, backoff base mx retries = backoff_nat base mx retries.
Proof.
  intros base mx retries. unfold backoff, backoff_nat.
  destruct retries as [|p|p]; simpl Z.to_nat; try reflexivity.
  rewrite (proj1 (bo_iter_pos_spec _ p _)). reflexivity.
Qed.

(* one more retry = one more evaluation of the loop condition at the end *)
Lemma bo_iter_S_end :
  forall mx n b,
  bo_iter mx (S n) b =
  match bo_step mx (bo_iter mx n b) with Some b' => b' | None => bo_iter mx n b end.
Proof.
  intros mx n b. replace (S n) with (n + 1)%nat by lia. rewrite bo_iter_add. reflexivity.
Qed.

(* ------------------------------------------------------------------------ *)
(** Floating-point part, under the guard. *)
Section Guarded.
  Variables base mx : Z.
  Hypothesis Hg : backoff_guard base mx = true.

  Let Hb0 : 0 <= base. Proof. unfold backoff_guard in Hg. apply andb_true_iff in Hg. destruct Hg as [H _]. apply andb_true_iff in H. destruct H as [H _]. now apply Z.leb_le. Qed.
  Let Hbm : base <= mx. Proof. unfold backoff_guard in Hg. apply andb_true_iff in Hg. destruct Hg as [H _]. apply andb_true_iff in H. destruct H as [_ H]. now apply Z.leb_le. Qed.
  Let Hm53 : mx <= 2 ^ 53. Proof. unfold backoff_guard in Hg. apply andb_true_iff in Hg. destruct Hg as [_ H]. now apply Z.leb_le. Qed.

  Let m := f64_of_int mx.
  Let b0 := f64_of_int base.

  Lemma m_exact : b2r m = IZR mx /\ fin m = true.
  Proof. apply f64_of_int_exact. lia. Qed.

  Lemma b0_exact : b2r b0 = IZR base /\ fin b0 = true.
  Proof. apply f64_of_int_exact. lia. Qed.

  (* loop invariant *)
  Definition Inv (b : f64) : Prop := fin b = true /\ (IZR base <= b2r b)%R.

  Lemma inv_b0 : Inv b0.
  Proof. destruct b0_exact as [E F]. split; [exact F | rewrite E; apply Rle_refl]. Qed.

  Lemma step_inv :
    forall b b', Inv b -> bo_step m b = Some b' -> Inv b' /\ (b2r b <= b2r b')%R.
  Proof.
    intros b b' [Fb Lb] S. unfold bo_step in S.
    destruct (f64_lt b m) eqn:L; [| discriminate]. injection S as <-.
    destruct m_exact as [Em Fm].
    rewrite (f64_lt_spec b m Fb Fm) in L.
    destruct (Rlt_bool_spec (b2r b) (b2r m)) as [Lt | _]; [| discriminate].
    assert (R : (0 <= b2r b <= IZR (2 ^ 53))%R).
    { split.
      - apply Rle_trans with (2 := Lb). now apply IZR_le.
      - apply Rle_trans with (IZR mx). rewrite <- Em. lra. now apply IZR_le. }
    destruct (mul15_correct b Fb R) as (F' & _ & Le).
    split; [split; [exact F' | lra] | exact Le].
  Qed.

  Lemma iter_inv : forall n b, Inv b -> Inv (bo_iter m n b) /\ (b2r b <= b2r (bo_iter m n b))%R.
  Proof.
    induction n as [|n IH]; intros b I; simpl.
    - split; [exact I | apply Rle_refl].
    - destruct (bo_step m b) as [b'|] eqn:E.
      + destruct (step_inv b b' I E) as [I' L]. destruct (IH b' I') as [I'' L'].
        split; [exact I'' | lra].
      + split; [exact I | apply Rle_refl].
  Qed.

  (* after the clamp *)
  Lemma clamp_inv :
    forall b, Inv b ->
    fin (bo_clamp m b) = true /\ (IZR base <= b2r (bo_clamp m b) <= IZR mx)%R /\
    b2r (bo_clamp m b) = Rmin (b2r b) (IZR mx).
  Proof.
    intros b [Fb Lb]. destruct m_exact as [Em Fm]. unfold bo_clamp.
    rewrite (f64_gt_spec b m Fb Fm). rewrite Em.
    destruct (Rlt_bool_spec (IZR mx) (b2r b)) as [Gt | Le].
    - split; [exact Fm |]. rewrite Em. split.
      + split; [now apply IZR_le | apply Rle_refl].
      + rewrite Rmin_right; lra.
    - split; [exact Fb |]. split; [lra |]. rewrite Rmin_left; lra.
  Qed.

  Lemma in_int64_base : in_int64 base = true.
  Proof. unfold in_int64, min_int64, max_int64, two63. apply andb_true_iff; split; apply Z.leb_le; lia. Qed.
  Lemma in_int64_mx : in_int64 mx = true.
  Proof. unfold in_int64, min_int64, max_int64, two63. apply andb_true_iff; split; apply Z.leb_le; lia. Qed.

  Definition final (n : nat) : Z := f64_to_int64 (bo_clamp m (bo_iter m n b0)).

  Lemma final_spec :
    forall n, final n = Ztrunc (Rmin (b2r (bo_iter m n b0)) (IZR mx)) /\ base <= final n <= mx.
  Proof.
    intro n. destruct (iter_inv n b0 inv_b0) as [I _].
    destruct (clamp_inv _ I) as (F & R & E).
    destruct (to_int64_bounds _ base mx F in_int64_base in_int64_mx R) as [T B].
    unfold final. rewrite <- E. split; [exact T | exact B].
  Qed.

  Lemma final_mono_S : forall n, final n <= final (S n).
  Proof.
    intro n. rewrite (proj1 (final_spec n)), (proj1 (final_spec (S n))).
    apply Ztrunc_le. apply Rle_min_compat_r.
    rewrite bo_iter_S_end. destruct (iter_inv n b0 inv_b0) as [I _].
    destruct (bo_step m (bo_iter m n b0)) as [b'|] eqn:E.
    - apply (step_inv _ _ I E).
    - apply Rle_refl.
  Qed.

  Lemma final_mono : forall n k, (n <= k)%nat -> final n <= final k.
  Proof.
    intros n k H. induction H as [|k H IH]; [lia |].
    apply Z.le_trans with (1 := IH). apply final_mono_S.
  Qed.

  Lemma backoff_bounds_guarded : forall retries, base <= backoff base mx retries <= mx.
  Proof.
    intro retries. rewrite backoff_eq_nat. unfold backoff_nat.
    apply (proj2 (final_spec (Z.to_nat retries))).
  Qed.

  Lemma backoff_monotone_guarded :
    forall r1 r2, r1 <= r2 -> backoff base mx r1 <= backoff base mx r2.
  Proof.
    intros r1 r2 H. rewrite !backoff_eq_nat. unfold backoff_nat.
    apply (final_mono (Z.to_nat r1) (Z.to_nat r2)). lia.
  Qed.
End Guarded.

(* ------------------------------------------------------------------------ *)
(** The statements of Props_C18.v *)

Theorem backoff_bounds_thm :
  forall base mx retries : Z,
  0 <= base -> base <= mx -> mx <= 2 ^ 53 ->
  base <= backoff base mx retries <= mx.
Proof.
  intros base mx retries H0 H1 H2. apply backoff_bounds_guarded.
  unfold backoff_guard, two53. rewrite !andb_true_iff. repeat split; apply Z.leb_le; lia.
Qed.

Theorem backoff_monotone_thm :
  forall base mx r1 r2 : Z,
  0 <= base -> base <= mx -> mx <= 2 ^ 53 -> r1 <= r2 ->
  backoff base mx r1 <= backoff base mx r2.
Proof.
  intros base mx r1 r2 H0 H1 H2 H. apply backoff_monotone_guarded; [| exact H].
  unfold backoff_guard, two53. rewrite !andb_true_iff. repeat split; apply Z.leb_le; lia.
Qed.

(* the monitor agrees with the theorems: on the model's own outputs it holds
   for every input inside the guard *)
Theorem c18_backoff_on_model :
  forall base mx retries : Z,
  backoff_guard base mx = true ->
  c18_backoff base mx retries (Some (backoff base mx retries))
              (Some (backoff base mx (wrap64 (retries + 1)))) = true.
Proof.
  intros base mx retries G. unfold c18_backoff.
  assert (G' := G). unfold backoff_guard in G'. rewrite !andb_true_iff in G'.
  destruct G' as [[A B] C]. rewrite B.
  pose proof (backoff_bounds_guarded base mx G retries) as [P1 P2].
  pose proof (backoff_bounds_guarded base mx G (wrap64 (retries + 1))) as [Q1 Q2].
  rewrite !andb_true_iff. repeat split; try (apply Z.leb_le; assumption).
  destruct (retries <? max_int64) eqn:L; [| reflexivity].
  apply Z.ltb_lt in L. apply Z.leb_le. apply backoff_monotone_guarded; [exact G |].
  (* below MaxInt64, retries+1 either does not wrap or retries < MinInt64 (not a Go int) *)
  unfold wrap64, two63, two64, max_int64, two63 in *.
  destruct (Z_le_gt_dec (- 9223372036854775808) retries).
  - rewrite Z.mod_small by lia. lia.
  - pose proof (Z.mod_pos_bound (retries + 1 + 9223372036854775808) 18446744073709551616 ltac:(lia)). lia.
Qed.

(* the only call site: backoff(baseLRORetryDelay, maxLRORetryDelay, retries) *)
Theorem backoff_call_site_thm :
  forall r1 r2 : Z, r1 <= r2 ->
  base_lro_retry_delay <= backoff base_lro_retry_delay max_lro_retry_delay r1 /\
  backoff base_lro_retry_delay max_lro_retry_delay r1
    <= backoff base_lro_retry_delay max_lro_retry_delay r2 /\
  backoff base_lro_retry_delay max_lro_retry_delay r2 <= max_lro_retry_delay.
Proof.
  intros r1 r2 H.
  assert (G : backoff_guard base_lro_retry_delay max_lro_retry_delay = true) by reflexivity.
  pose proof (backoff_bounds_guarded _ _ G r1). pose proof (backoff_bounds_guarded _ _ G r2).
  pose proof (backoff_monotone_guarded _ _ G r1 r2 H). lia.
Qed.

(* ---- finding B1: outside the guard both claims fail ---- *)
Theorem backoff_bounds_refuted_rounding :
  let b := 2 ^ 53 + 1 in b <= b /\ backoff b b 0 < b.
Proof. vm_compute. split; [discriminate | reflexivity]. Qed.

Theorem backoff_bounds_refuted_negative :
  -2 <= 5 /\ backoff (-2) 5 1 = -3 /\ backoff (-2) 5 1 < -2.
Proof. vm_compute. repeat split; discriminate. Qed.

Theorem backoff_monotone_refuted_negative :
  backoff (-2) 5 1 < backoff (-2) 5 0.
Proof. vm_compute. reflexivity. Qed.
