(* SHA-256 (FIPS 180-4) over lists of bytes, executable; used as the concrete
   hash function in the payload monitor.  It is checked against Go's
   crypto/sha256 on every payload case (the harness prints an independent
   digest) and on the two standard test vectors below; it is NOT proved
   against a specification. *)
From Coq Require Import NArith List.
Import ListNotations.
Open Scope N_scope.

Definition mask32 : N := 4294967295.
Definition add32 (a b : N) : N := N.land (a + b) mask32.
Definition not32 (x : N) : N := N.lxor x mask32.
Definition rotr (n x : N) : N := N.lor (N.shiftr x n) (N.land (N.shiftl x (32 - n)) mask32).
Definition ch (x y z : N) : N := N.lxor (N.land x y) (N.land (not32 x) z).
Definition maj (x y z : N) : N := N.lxor (N.lxor (N.land x y) (N.land x z)) (N.land y z).
Definition bsig0 (x : N) : N := N.lxor (N.lxor (rotr 2 x) (rotr 13 x)) (rotr 22 x).
Definition bsig1 (x : N) : N := N.lxor (N.lxor (rotr 6 x) (rotr 11 x)) (rotr 25 x).
Definition ssig0 (x : N) : N := N.lxor (N.lxor (rotr 7 x) (rotr 18 x)) (N.shiftr x 3).
Definition ssig1 (x : N) : N := N.lxor (N.lxor (rotr 17 x) (rotr 19 x)) (N.shiftr x 10).

Definition sha_k : list N :=
  [1116352408; 1899447441; 3049323471; 3921009573; 961987163; 1508970993; 2453635748;
   2870763221; 3624381080; 310598401; 607225278; 1426881987; 1925078388; 2162078206;
   2614888103; 3248222580; 3835390401; 4022224774; 264347078; 604807628; 770255983;
   1249150122; 1555081692; 1996064986; 2554220882; 2821834349; 2952996808; 3210313671;
   3336571891; 3584528711; 113926993; 338241895; 666307205; 773529912; 1294757372;
   1396182291; 1695183700; 1986661051; 2177026350; 2456956037; 2730485921; 2820302411;
   3259730800; 3345764771; 3516065817; 3600352804; 4094571909; 275423344; 430227734;
   506948616; 659060556; 883997877; 958139571; 1322822218; 1537002063; 1747873779;
   1955562222; 2024104815; 2227730452; 2361852424; 2428436474; 2756734187; 3204031479;
   3329325298].

Definition sha_h0 : list N :=
  [1779033703; 3144134277; 1013904242; 2773480762; 1359893119; 2600822924; 528734635;
   1541459225].

Record st8 := mkSt { sa : N; sb : N; sc : N; sd : N; se : N; sf : N; sg : N; sh : N }.

Definition round (s : st8) (k w : N) : st8 :=
  let t1 := add32 (add32 (add32 (sh s) (bsig1 (se s))) (add32 (ch (se s) (sf s) (sg s)) k)) w in
  let t2 := add32 (bsig0 (sa s)) (maj (sa s) (sb s) (sc s)) in
  mkSt (add32 t1 t2) (sa s) (sb s) (sc s) (add32 (sd s) t1) (se s) (sf s) (sg s).

(* w holds W[t] .. W[t+15]; W[t+16] = ssig1 W[t+14] + W[t+9] + ssig0 W[t+1] + W[t] *)
Definition window_next (w : list N) : N :=
  add32 (add32 (ssig1 (nth 14 w 0)) (nth 9 w 0)) (add32 (ssig0 (nth 1 w 0)) (nth 0 w 0)).

Fixpoint rounds (ks : list N) (w : list N) (s : st8) : st8 :=
  match ks with
  | [] => s
  | k :: ks' =>
      match w with
      | [] => s
      | wt :: wrest => rounds ks' (wrest ++ [window_next w]) (round s k wt)
      end
  end.

(* big-endian 32-bit words of a block *)
Fixpoint words_of (b : list N) : list N :=
  match b with
  | b0 :: b1 :: b2 :: b3 :: r =>
      (N.shiftl b0 24 + N.shiftl b1 16 + N.shiftl b2 8 + b3) :: words_of r
  | _ => []
  end.

Definition compress (s : st8) (block : list N) : st8 :=
  let r := rounds sha_k (words_of block) s in
  mkSt (add32 (sa s) (sa r)) (add32 (sb s) (sb r)) (add32 (sc s) (sc r)) (add32 (sd s) (sd r))
       (add32 (se s) (se r)) (add32 (sf s) (sf r)) (add32 (sg s) (sg r)) (add32 (sh s) (sh r)).

Fixpoint blocks (n : nat) (msg : list N) (s : st8) : st8 :=
  match n with
  | O => s
  | S k => blocks k (skipn 64 msg) (compress s (firstn 64 msg))
  end.

Definition be_bytes (nbytes : nat) (x : N) : list N :=
  map (fun i => N.land (N.shiftr x (8 * N.of_nat (nbytes - 1 - i))) 255) (seq 0 nbytes).

Definition pad (msg : list N) : list N :=
  let l := N.of_nat (length msg) in
  let zeros := N.to_nat ((119 - l mod 64) mod 64) in
  msg ++ [128] ++ repeat 0 zeros ++ be_bytes 8 (8 * l).

Definition sha256 (msg : list N) : list N :=
  let p := pad msg in
  let s0 := mkSt (nth 0 sha_h0 0) (nth 1 sha_h0 0) (nth 2 sha_h0 0) (nth 3 sha_h0 0)
                 (nth 4 sha_h0 0) (nth 5 sha_h0 0) (nth 6 sha_h0 0) (nth 7 sha_h0 0) in
  let s := blocks (Nat.div (length p) 64) p s0 in
  flat_map (be_bytes 4) [sa s; sb s; sc s; sd s; se s; sf s; sg s; sh s].

(* FIPS 180-4 test vectors: "" and "abc" *)
Example sha256_empty :
  sha256 [] = [227; 176; 196; 66; 152; 252; 28; 20; 154; 251; 244; 200; 153; 111; 185; 36; 39; 174; 65; 228; 100; 155; 147; 76; 164; 149; 153; 27; 120; 82; 184; 85].
Proof. vm_compute. reflexivity. Qed.

Example sha256_abc :
  sha256 [97; 98; 99] = [186; 120; 22; 191; 143; 1; 207; 234; 65; 65; 64; 222; 93; 174; 34; 35; 176; 3; 97; 163; 150; 23; 122; 156; 180; 16; 255; 97; 242; 0; 21; 173].
Proof. vm_compute. reflexivity. Qed.
