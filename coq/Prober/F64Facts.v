(* Facts about the binary64 operations of F64.v, derived from Flocq's
   correctness theorems (Bmult_correct, Bdiv_correct, binary_normalize_correct,
   Bcompare_correct, Btrunc_correct). *)
From Coq Require Import ZArith Reals Lia Lra Bool.
From Flocq Require Import Core.Core IEEE754.BinarySingleNaN.
From GV Require Import Prober.F64.

Open Scope R_scope.

Notation fexp64 := (SpecFloat.fexp 53 1024).
Notation rnd64 := (round radix2 fexp64 (round_mode mode_NE)).
Notation fin := (@BinarySingleNaN.is_finite 53 1024).
Notation b2r := (@BinarySingleNaN.B2R 53 1024).

Global Instance fexp64_valid : Valid_exp fexp64 := FLT_exp_valid (SpecFloat.emin 53 1024) 53.
Global Instance fexp64_monotone : Monotone_exp fexp64 := FLT_exp_monotone (SpecFloat.emin 53 1024) 53.

Lemma bpow1024_big : IZR (2 ^ 60) < bpow radix2 1024.
Proof.
  change (2 ^ 60)%Z with (Zpower radix2 60). rewrite IZR_Zpower by lia.
  apply bpow_lt. lia.
Qed.

Lemma bpow1024_big64 : IZR (2 ^ 64) < bpow radix2 1024.
Proof.
  change (2 ^ 64)%Z with (Zpower radix2 64). rewrite IZR_Zpower by lia.
  apply bpow_lt. lia.
Qed.

Lemma format_two63 : generic_format radix2 fexp64 (IZR (2 ^ 63)).
Proof.
  change (2 ^ 63)%Z with (Zpower radix2 63). rewrite IZR_Zpower by lia.
  apply generic_format_bpow. unfold SpecFloat.fexp, SpecFloat.emin. simpl. lia.
Qed.

Lemma format_b2r : forall f : f64, generic_format radix2 fexp64 (b2r f).
Proof. intro f. apply generic_format_B2R. Qed.

(* integers up to 2^53 in magnitude are binary64 numbers *)
Lemma format_int53 :
  forall z : Z, (Z.abs z <= 2 ^ 53)%Z -> generic_format radix2 fexp64 (IZR z).
Proof.
  intros z Hz.
  assert (Hb : bpow radix2 53 = IZR (2 ^ 53)).
  { change (2 ^ 53)%Z with (Zpower radix2 53). rewrite IZR_Zpower by lia. reflexivity. }
  destruct (Z.eq_dec (Z.abs z) (2 ^ 53)) as [E | NE].
  - assert (Hp : generic_format radix2 fexp64 (bpow radix2 53)).
    { apply generic_format_bpow. unfold SpecFloat.fexp, SpecFloat.emin. simpl. lia. }
    destruct (Z.abs_eq_or_opp z) as [A | A]; rewrite A in E.
    + rewrite E, <- Hb. exact Hp.
    + assert (z = (- 2 ^ 53)%Z) by lia. subst z.
      rewrite opp_IZR, <- Hb. apply generic_format_opp. exact Hp.
  - assert (Hx : F2R (Float radix2 z 0) = IZR z) by (unfold F2R; simpl; ring).
    rewrite <- Hx.
    apply generic_format_F2R. intros Hnz. simpl in Hnz.
    unfold cexp, SpecFloat.fexp, SpecFloat.emin.
    assert (Hm : (mag radix2 (F2R (Float radix2 z 0)) <= 53)%Z).
    { rewrite Hx. apply mag_le_bpow.
      - intro H0. apply eq_IZR in H0. contradiction.
      - rewrite Hb, <- abs_IZR. apply IZR_lt. lia. }
    simpl Fexp. lia.
Qed.

Lemma f64_of_int_exact :
  forall z : Z, (Z.abs z <= 2 ^ 53)%Z ->
  b2r (f64_of_int z) = IZR z /\ fin (f64_of_int z) = true.
Proof.
  intros z Hz. unfold f64_of_int.
  generalize (binary_normalize_correct 53 1024 _ _ mode_NE z 0 false).
  cbv zeta.
  assert (Hx : F2R (Float radix2 z 0) = IZR z) by (unfold F2R; simpl; ring).
  rewrite Hx.
  rewrite round_generic; auto with typeclass_instances.
  2: now apply format_int53.
  rewrite Rlt_bool_true.
  - intros (H1 & H2 & _). auto.
  - rewrite <- abs_IZR. apply Rle_lt_trans with (IZR (2 ^ 53)).
    + now apply IZR_le.
    + apply Rlt_trans with (IZR (2 ^ 60)). apply IZR_lt; lia. apply bpow1024_big.
Qed.

(* float64(z) for every int64 z: the correctly rounded value, finite, |.| <= 2^63 *)
Lemma f64_of_int_round :
  forall z : Z, in_int64 z = true ->
  b2r (f64_of_int z) = rnd64 (IZR z) /\ fin (f64_of_int z) = true /\
  Rabs (b2r (f64_of_int z)) <= IZR (2 ^ 63).
Proof.
  intros z Hz. unfold f64_of_int.
  assert (Hr : (Z.abs z <= 2 ^ 63)%Z).
  { unfold in_int64, min_int64, max_int64, two63 in Hz. apply andb_true_iff in Hz.
    destruct Hz as [A B]. apply Z.leb_le in A, B. lia. }
  generalize (binary_normalize_correct 53 1024 _ _ mode_NE z 0 false).
  cbv zeta.
  assert (Hx : F2R (Float radix2 z 0) = IZR z) by (unfold F2R; simpl; ring).
  rewrite Hx.
  assert (Hb : Rabs (rnd64 (IZR z)) <= IZR (2 ^ 63)).
  { apply abs_round_le_generic; auto with typeclass_instances.
    - apply format_two63.
    - rewrite <- abs_IZR. now apply IZR_le. }
  rewrite Rlt_bool_true.
  - intros (H1 & H2 & _). rewrite H1. auto.
  - apply Rle_lt_trans with (1 := Hb).
    apply Rlt_trans with (IZR (2 ^ 64)). apply IZR_lt; lia. apply bpow1024_big64.
Qed.

(* a float below the rounding of x is not above x *)
Lemma float_lt_round_le :
  forall (b : f64) (x : R), b2r b < rnd64 x -> b2r b <= x.
Proof.
  intros b x H. destruct (Rle_or_lt (b2r b) x) as [L | G]; [exact L |].
  exfalso. apply (Rlt_irrefl (b2r b)). apply Rlt_le_trans with (1 := H).
  rewrite <- (round_generic radix2 fexp64 (round_mode mode_NE) (b2r b)) at 1.
  - apply round_le; auto with typeclass_instances. lra.
  - apply format_b2r.
Qed.

Lemma b2r_1_5 : b2r f64_1_5 = 1.5.
Proof. unfold f64_1_5, BinarySingleNaN.B2R, F2R. simpl. lra. Qed.

(* comparisons of finite numbers are comparisons of reals *)
Lemma f64_lt_spec :
  forall a b : f64, fin a = true -> fin b = true ->
  f64_lt a b = Rlt_bool (b2r a) (b2r b).
Proof.
  intros a b Ha Hb. unfold f64_lt. rewrite Bcompare_correct by assumption.
  case Rcompare_spec; intro H; case Rlt_bool_spec; intro H'; try reflexivity; lra.
Qed.

Lemma f64_gt_spec :
  forall a b : f64, fin a = true -> fin b = true ->
  f64_gt a b = Rlt_bool (b2r b) (b2r a).
Proof.
  intros a b Ha Hb. unfold f64_gt. rewrite Bcompare_correct by assumption.
  case Rcompare_spec; intro H; case Rlt_bool_spec; intro H'; try reflexivity; lra.
Qed.

Lemma f64_le_spec :
  forall a b : f64, fin a = true -> fin b = true ->
  f64_le a b = Rle_bool (b2r a) (b2r b).
Proof.
  intros a b Ha Hb. unfold f64_le. rewrite Bcompare_correct by assumption.
  case Rcompare_spec; intro H; case Rle_bool_spec; intro H'; try reflexivity; lra.
Qed.

Lemma f64_ge_spec :
  forall a b : f64, fin a = true -> fin b = true ->
  f64_ge a b = Rle_bool (b2r b) (b2r a).
Proof.
  intros a b Ha Hb. unfold f64_ge. rewrite Bcompare_correct by assumption.
  case Rcompare_spec; intro H; case Rle_bool_spec; intro H'; try reflexivity; lra.
Qed.

(* a finite comparison that says "true" needs finite, ordered arguments on
   the left-hand side at least when the right-hand side is finite *)
Lemma f64_le_finite_l :
  forall a b : f64, fin a = true -> f64_le a b = true -> BinarySingleNaN.is_nan b = false.
Proof.
  intros a b Ha H. destruct b; try reflexivity.
  unfold f64_le, BinarySingleNaN.Bcompare in H. destruct a; simpl in H; discriminate.
Qed.

(* x * 1.5 for 0 <= x <= 2^63 *)
Lemma mul15_correct :
  forall f : f64, fin f = true -> 0 <= b2r f <= IZR (2 ^ 63) ->
  let f' := f64_mul f f64_1_5 in
  fin f' = true /\ b2r f' = rnd64 (b2r f * 1.5) /\ b2r f <= b2r f'.
Proof.
  intros f Hf [H0 H1] f'.
  generalize (Bmult_correct 53 1024 _ _ mode_NE f f64_1_5).
  rewrite b2r_1_5.
  assert (Hle : b2r f <= rnd64 (b2r f * 1.5)).
  { rewrite <- (round_generic radix2 fexp64 (round_mode mode_NE) (b2r f)) at 1.
    - apply round_le; auto with typeclass_instances. lra.
    - apply format_b2r. }
  assert (Hub : rnd64 (b2r f * 1.5) <= IZR (2 ^ 64)).
  { rewrite <- (round_generic radix2 fexp64 (round_mode mode_NE) (IZR (2 ^ 64))).
    - apply round_le; auto with typeclass_instances.
      change (2 ^ 64)%Z with (2 * 2 ^ 63)%Z. rewrite mult_IZR. lra.
    - change (2 ^ 64)%Z with (Zpower radix2 64). rewrite IZR_Zpower by lia.
      apply generic_format_bpow. unfold SpecFloat.fexp, SpecFloat.emin. simpl. lia. }
  rewrite Rlt_bool_true.
  - intros (A & B & _). fold (f64_mul f f64_1_5) in A, B. fold f' in A, B.
    split. { rewrite B, Hf. reflexivity. }
    split. { exact A. }
    rewrite A. exact Hle.
  - rewrite Rabs_pos_eq by lra.
    apply Rle_lt_trans with (1 := Hub). apply bpow1024_big64.
Qed.

(* int64(f) *)
Lemma btrunc_ztrunc : forall f : f64, BinarySingleNaN.Btrunc f = Ztrunc (b2r f).
Proof.
  intro f. apply eq_IZR. rewrite Btrunc_correct by exact prec53_lt_emax.
  apply round_FIX_IZR.
Qed.

Lemma to_int64_trunc :
  forall f : f64, fin f = true -> in_int64 (Ztrunc (b2r f)) = true ->
  f64_to_int64 f = Ztrunc (b2r f).
Proof.
  intros f Hf Hr. destruct f as [s | s | | s m e B]; try discriminate.
  - simpl. rewrite Ztrunc_IZR. reflexivity.
  - unfold f64_to_int64. rewrite btrunc_ztrunc. rewrite Hr. reflexivity.
Qed.

Lemma to_int64_bounds :
  forall (f : f64) (lo hi : Z), fin f = true ->
  in_int64 lo = true -> in_int64 hi = true ->
  IZR lo <= b2r f <= IZR hi ->
  f64_to_int64 f = Ztrunc (b2r f) /\ (lo <= f64_to_int64 f <= hi)%Z.
Proof.
  intros f lo hi Hf Hlo Hhi [H1 H2].
  assert (A : (lo <= Ztrunc (b2r f) <= hi)%Z).
  { split.
    - rewrite <- (Ztrunc_IZR lo). apply Ztrunc_le. exact H1.
    - rewrite <- (Ztrunc_IZR hi). apply Ztrunc_le. exact H2. }
  assert (R : in_int64 (Ztrunc (b2r f)) = true).
  { unfold in_int64 in *. apply andb_true_iff in Hlo. apply andb_true_iff in Hhi.
    destruct Hlo as [L1 L2], Hhi as [U1 U2].
    apply Z.leb_le in L1, L2, U1, U2. apply andb_true_iff. split; apply Z.leb_le; lia. }
  rewrite (to_int64_trunc f Hf R). split; [reflexivity | exact A].
Qed.
