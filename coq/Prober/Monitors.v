(* Property C18 as boolean monitors over what the Go harnesses observe, and the
   comparison of the model's prediction with the observation (acceptance).
   The findings B1, B2, B3 are fixed in /repo; there is no trigger predicate
   left.  No proofs here. *)
From Coq Require Import ZArith NArith List Bool.
From Flocq Require Import IEEE754.BinarySingleNaN.
From GV Require Import Prober.F64 Prober.Model Prober.Sha256.
Import ListNotations.
Open Scope Z_scope.

(* ---------------------------------------------------------------- helpers *)
Fixpoint list_bytes_eqb (a b : list bytes) : bool :=
  match a, b with
  | [], [] => true
  | x :: r, y :: s => bytes_eqb x y && list_bytes_eqb r s
  | _, _ => false
  end.

Definition opt_bytes_eqb (a b : option bytes) : bool :=
  match a, b with
  | None, None => true
  | Some x, Some y => bytes_eqb x y
  | _, _ => false
  end.

Definition optz_eqb (a : option Z) (b : Z) : bool :=
  match a with Some x => x =? b | None => false end.

Definition perr_eqb (a b : perr) : bool :=
  match a, b with ESyntax, ESyntax => true | ERange, ERange => true | _, _ => false end.

Definition lres_eqb (a b : lres) : bool :=
  match a, b with
  | LOk x, LOk y => x =? y
  | LNotFound, LNotFound => true
  | LNoEntry, LNoEntry => true
  | LParse x, LParse y => perr_eqb x y
  | LDurRange, LDurRange => true
  | _, _ => false
  end.

Definition uris_eqb (a b : uris) : bool :=
  bytes_eqb (u_project a) (u_project b) && bytes_eqb (u_instance a) (u_instance b)
  && bytes_eqb (u_instance_config a) (u_instance_config b)
  && bytes_eqb (u_database a) (u_database b)
  && bytes_eqb (u_instance_name a) (u_instance_name b)
  && bytes_eqb (u_database_name a) (u_database_name b).

(* ---------------------------------------------------------------- backoff *)
(* the arguments are Go int64 values *)
Definition backoff_guard (base mx : Z) : bool := in_int64 base && in_int64 mx && (base <=? mx).

(* o1 = backoff(base, max, retries), o2 = backoff(base, max, retries+1) as
   returned by the implementation (None: the call panicked).  The property
   speaks about base <= max. *)
Definition c18_backoff (base mx retries : Z) (o1 o2 : option Z) : bool :=
  match o1, o2 with
  | Some a, Some b =>
      if base <=? mx then
        (base <=? a) && (a <=? mx) && (base <=? b) && (b <=? mx)
        && (if retries <? max_int64 then a <=? b else true)
      else true
  | _, _ => false
  end.

Definition acc_backoff (base mx retries : Z) (o1 o2 : option Z) : bool :=
  optz_eqb o1 (backoff base mx retries)
  && optz_eqb o2 (backoff base mx (wrap64 (retries + 1))).

(* ---------------------------------------------------------------- latency *)
Inductive lobs :=
| OLpanic                 (* the call panicked *)
| OLother                 (* an error the harness could not classify *)
| OLres (r : lres).

Definition timing_values (h t : md) : list bytes :=
  match md_get server_timing_key h with
  | (_ :: _) as v => v
  | [] => md_get server_timing_key t
  end.

(* text after the prefix of the first entry that carries it *)
Fixpoint first_gfe (es : list bytes) : option bytes :=
  match es with
  | [] => None
  | e :: r => match strip_prefix gfe_prefix e with Some t => Some t | None => first_gfe r end
  end.

(* what the property asks for: Some d = "must return d and no error",
   None = "must return an error".  A millisecond count whose duration does not
   fit into an int64 has no correct Duration, so it must be an error. *)
Definition latency_spec (h t : md) : option Z :=
  match first_gfe (timing_values h t) with
  | None => None
  | Some txt =>
      match parse_int10 txt with
      | POk ms => if in_int64 (ms * millisecond) then Some (ms * millisecond) else None
      | PErr _ => None
      end
  end.

Definition c18_latency (h t : md) (o : lobs) : bool :=
  match o with
  | OLpanic => false
  | OLres (LOk d) => match latency_spec h t with Some d' => d =? d' | None => false end
  | OLres _ | OLother => match latency_spec h t with None => true | Some _ => false end
  end.

Definition acc_latency (h t : md) (o : lobs) : bool :=
  match o with OLres r => lres_eqb r (parse_latency h t) | _ => false end.

(* ---------------------------------------------------------------- interval *)
(* smallest float64 q with 1e9/q < 2^63: 0x1.dcd6500000001p-34 *)
Definition qps_min_bits : Z := 4457945039842050049.
Definition qps_min : f64 := f64_of_bits qps_min_bits.

(* the exact domain on which probeInterval is positive and below 2^63:
   guard of the theorem interval_range_tight; validateFlags' minQPS = 1e-9 is
   well inside it *)
Definition interval_guard (qps : f64) : bool := f64_le qps_min qps && f64_le qps f64_1000.

(* ---------------------------------------------------------------- URIs *)
Definition uris_split_ok (p i d c : bytes) (u : uris) : bool :=
  list_bytes_eqb (split_on slash (u_project u)) [seg_projects; p]
  && list_bytes_eqb (split_on slash (u_instance u)) [seg_projects; p; seg_instances; i]
  && list_bytes_eqb (split_on slash (u_instance_config u))
       [seg_projects; p; seg_instance_configs; c]
  && list_bytes_eqb (split_on slash (u_database u))
       [seg_projects; p; seg_instances; i; seg_databases; d]
  && bytes_eqb (u_instance_name u) i && bytes_eqb (u_database_name u) d.

(* ---------------------------------------------------------------- flags *)
(* what the harness of package main prints for one flag set *)
Inductive fobs :=
| FRefused                       (* the flag package refused a value: main() exits in flag.Parse *)
| FPanic
| FErrs (n : Z) (mask : Z).      (* len(errs) and the set of messages *)

(* what main() goes on to compute for an accepted flag set (prober package) *)
Inductive gobs :=
| GPanic
| GOut (u : uris) (interval : Z) (probe : option bytes).

Record ginput := mkGin {
  gi_project : bytes; gi_instance : bytes; gi_database : bytes; gi_instance_config : bytes;
  gi_qps_bits : Z; gi_probe_type : bytes
}.

Definition ginput_of (f : flags) (qps_bits : Z) : ginput :=
  mkGin (fl_project f) (fl_instance f) (fl_database f) (fl_instance_config f) qps_bits
        (fl_probe_type f).

Definition ginput_eqb (a b : ginput) : bool :=
  bytes_eqb (gi_project a) (gi_project b) && bytes_eqb (gi_instance a) (gi_instance b)
  && bytes_eqb (gi_database a) (gi_database b)
  && bytes_eqb (gi_instance_config a) (gi_instance_config b)
  && (gi_qps_bits a =? gi_qps_bits b) && bytes_eqb (gi_probe_type a) (gi_probe_type b).

Definition c18_accepted_ok (gi : ginput) (g : gobs) : bool :=
  match g with
  | GPanic => false
  | GOut u interval probe =>
      uris_split_ok (gi_project gi) (gi_instance gi) (gi_database gi) (gi_instance_config gi) u
      && (0 <? interval)
      && match probe with Some _ => true | None => false end
  end.

Definition impl_accepted (o : fobs) : bool :=
  match o with FErrs n mask => (n =? 0) && (mask =? 0) | _ => false end.

(* a flag set the implementation accepts must lead to well-formed resource
   names, a positive interval and a probe *)
Definition c18_flags (f : flags) (qps_bits : Z) (o : fobs) (g : option (ginput * gobs)) : bool :=
  match o with
  | FPanic => false
  | FRefused => true
  | FErrs _ _ =>
      if impl_accepted o then
        match g with
        | Some (gi, go) => ginput_eqb gi (ginput_of f qps_bits) && c18_accepted_ok gi go
        | None => false
        end
      else true
  end.

Definition model_gobs (gi : ginput) : gobs :=
  GOut (build_uris (gi_project gi) (gi_instance gi) (gi_database gi) (gi_instance_config gi))
       (probe_interval (f64_of_bits (gi_qps_bits gi)))
       (option_map probe_name (parse_probe_type (gi_probe_type gi))).

Definition gobs_eqb (a b : gobs) : bool :=
  match a, b with
  | GOut u1 i1 p1, GOut u2 i2 p2 => uris_eqb u1 u2 && (i1 =? i2) && opt_bytes_eqb p1 p2
  | _, _ => false
  end.

(* ---------------------------------------------------------------- cases *)
Inductive pcase :=
| KBackoff (base mx retries : Z) (o1 o2 : option Z)
| KLatency (h t : md) (o : lobs)
| KUri (p i d c : bytes) (o : option uris)
| KInterval (qps_bits : Z) (o : option Z)
| KProbe (t : bytes) (o : option (option bytes))
| KPayload (size : Z) (o : option (bytes * bytes * bytes))   (* payload, hash, crypto/sha256 *)
| KConsts (key pfx : bytes) (based maxd : Z)
| KFlags (f : flags) (qps_bits : Z) (o : fobs) (g : option (ginput * gobs)).

Inductive dclass :=
| DBackoff | DLatency | DUri | DInterval | DProbeType | DPayload | DConsts | DFlags | DDerive.

Definition mk_div (b : bool) (c : dclass) : option dclass := if b then None else Some c.

(* does the model reproduce the observation?  None = yes *)
Definition case_acc (k : pcase) : option (nat * dclass) :=
  match k with
  | KBackoff base mx r o1 o2 =>
      option_map (pair 0%nat) (mk_div (acc_backoff base mx r o1 o2) DBackoff)
  | KLatency h t o => option_map (pair 0%nat) (mk_div (acc_latency h t o) DLatency)
  | KUri p i d c o =>
      option_map (pair 0%nat)
        (mk_div (match o with Some u => uris_eqb u (build_uris p i d c) | None => false end) DUri)
  | KInterval b o =>
      option_map (pair 0%nat) (mk_div (optz_eqb o (probe_interval (f64_of_bits b))) DInterval)
  | KProbe t o =>
      option_map (pair 0%nat)
        (mk_div (match o with
                 | Some r => opt_bytes_eqb r (option_map probe_name (parse_probe_type t))
                 | None => false
                 end) DProbeType)
  | KPayload size o =>
      option_map (pair 0%nat)
        (mk_div (match o with
                 | None => size <? 0
                 | Some (p, h, _) =>
                     (0 <=? size) && (Z.of_nat (length p) =? size) && bytes_eqb h (sha256 p)
                 end) DPayload)
  | KConsts key pfx based maxd =>
      option_map (pair 0%nat)
        (mk_div (bytes_eqb key server_timing_key && bytes_eqb pfx gfe_prefix
                 && (based =? base_lro_retry_delay) && (maxd =? max_lro_retry_delay)) DConsts)
  | KFlags f qb o g =>
      match o with
      | FRefused => match g with None => None | Some _ => Some (0%nat, DDerive) end
      | FPanic => Some (0%nat, DFlags)
      | FErrs n mask =>
          let errs := validate_flags f in
          if negb ((n =? Z.of_nat (length errs)) && (mask =? err_mask errs)) then Some (0%nat, DFlags)
          else
            match g with
            | None => if impl_accepted o then Some (0%nat, DDerive) else None
            | Some (gi, go) =>
                if negb (impl_accepted o && ginput_eqb gi (ginput_of f qb)) then Some (1%nat, DDerive)
                else
                  match go, model_gobs gi with
                  | GOut u1 i1 p1, GOut u2 i2 p2 =>
                      if negb (uris_eqb u1 u2) then Some (1%nat, DUri)
                      else if negb (i1 =? i2) then Some (1%nat, DInterval)
                      else if negb (opt_bytes_eqb p1 p2) then Some (1%nat, DProbeType)
                      else None
                  | _, _ => Some (1%nat, DDerive)
                  end
            end
      end
  end.

(* the monitor "c18": the clause of the property that applies to this kind of
   case, evaluated on the implementation's outputs *)
Definition case_mon (k : pcase) : bool :=
  match k with
  | KBackoff base mx r o1 o2 => c18_backoff base mx r o1 o2
  | KLatency h t o => c18_latency h t o
  | KUri p i d c o =>
      (* builders alone: for names the two expressions admit *)
      if re_project p && re_instdb i && re_instdb d && re_instdb c then
        match o with Some u => uris_split_ok p i d c u | None => false end
      else true
  | KInterval b o =>
      if interval_guard (f64_of_bits b) then match o with Some z => 0 <? z | None => false end
      else true
  | KProbe t o => match o with Some _ => true | None => false end
  | KPayload size o =>
      (* "generated payloads carry their SHA-256 hash": against this file's
         sha256 and against the digest crypto/sha256 computed in the harness *)
      match o with
      | None => size <? 0
      | Some (p, h, oracle) =>
          (Z.of_nat (length p) =? size) && bytes_eqb h (sha256 p) && bytes_eqb h oracle
      end
  | KConsts _ _ based maxd =>
      (* the one call site, backoff(baseLRORetryDelay, maxLRORetryDelay, retries),
         must lie inside the guard of the theorems *)
      backoff_guard based maxd
  | KFlags f qb o g => c18_flags f qb o g
  end.

(* index of the first failing event of the history (-1 = the H line itself /
   not applicable) *)
Definition case_mon_idx (k : pcase) : Z :=
  match k with
  | KFlags f qb o (Some _) => if case_mon k then -1 else 0
  | _ => -1
  end.

(* everything the driver prints for a case, for the in-Coq cross-check *)
Definition case_verdict (k : pcase) : bool * bool :=
  (match case_acc k with None => true | Some _ => false end, case_mon k).

Definition verdict_eqb (a b : bool * bool) : bool :=
  Bool.eqb (fst a) (fst b) && Bool.eqb (snd a) (snd b).

(* constructor used by the driver and by the generated Cases.v *)
Definition mk_flags (p op i d c : bytes) (qps_bits nrows psize : Z) (pt : bytes) : flags :=
  mkFlags p op i d c (f64_of_bits qps_bits) nrows psize pt.
