(* IEEE-754 binary64 arithmetic as the Go code of spanner_prober uses it on
   amd64, on top of Flocq's BinarySingleNaN (NaN payloads are irrelevant here:
   no float leaves the functions, only int64 values do).  Definitions only. *)
From Coq Require Import ZArith Bool.
From Flocq Require Import IEEE754.BinarySingleNaN IEEE754.Binary IEEE754.Bits Core.Core.

Open Scope Z_scope.

Global Instance prec53_gt_0 : Prec_gt_0 53 := eq_refl.
Global Instance prec53_lt_emax : Prec_lt_emax 53 1024 := eq_refl.

Definition f64 := BinarySingleNaN.binary_float 53 1024.

(* ---- int64 ---- *)
Definition two63 : Z := 9223372036854775808.
Definition two64 : Z := 18446744073709551616.
Definition min_int64 : Z := - two63.
Definition max_int64 : Z := two63 - 1.
Definition in_int64 (z : Z) : bool := (min_int64 <=? z) && (z <=? max_int64).
(* two's-complement wrap-around of a mathematical integer into int64 *)
Definition wrap64 (z : Z) : Z := (z + two63) mod two64 - two63.

(* ---- conversions ---- *)
(* float64(x) for an int64 x: CVTSQ2SD, round to nearest even *)
Definition f64_of_int (z : Z) : f64 :=
  BinarySingleNaN.binary_normalize 53 1024 _ _ mode_NE z 0 false.

(* int64(f) for a float64 f: CVTTSD2SQ truncates toward zero; NaN and values
   outside [-2^63, 2^63) give the "integer indefinite" 0x8000000000000000 *)
Definition f64_to_int64 (f : f64) : Z :=
  match f with
  | BinarySingleNaN.B754_zero _ => 0
  | BinarySingleNaN.B754_infinity _ => min_int64
  | BinarySingleNaN.B754_nan => min_int64
  | BinarySingleNaN.B754_finite _ _ _ _ =>
      let z := BinarySingleNaN.Btrunc f in
      if in_int64 z then z else min_int64
  end.

(* math.Float64frombits *)
Definition f64_of_bits (b : Z) : f64 := Binary.B2BSN 53 1024 (b64_of_bits b).

(* ---- arithmetic and comparisons (Go: *, /, <, >, <=, >=) ---- *)
Definition f64_mul (x y : f64) : f64 := BinarySingleNaN.Bmult mode_NE x y.
Definition f64_div (x y : f64) : f64 := BinarySingleNaN.Bdiv mode_NE x y.
Definition f64_lt (x y : f64) : bool :=
  match BinarySingleNaN.Bcompare x y with Some Lt => true | _ => false end.
Definition f64_gt (x y : f64) : bool :=
  match BinarySingleNaN.Bcompare x y with Some Gt => true | _ => false end.
Definition f64_le (x y : f64) : bool :=
  match BinarySingleNaN.Bcompare x y with Some Lt => true | Some Eq => true | _ => false end.
Definition f64_ge (x y : f64) : bool :=
  match BinarySingleNaN.Bcompare x y with Some Gt => true | Some Eq => true | _ => false end.

Definition f64_zero : f64 := BinarySingleNaN.B754_zero false.
(* the constants of the Go source; all exactly representable *)
Definition f64_1_5 : f64 :=
  @BinarySingleNaN.B754_finite 53 1024 false 6755399441055744 (-52) (eq_refl true).
(* 1000 = 8796093022208000 * 2^-43 *)
Definition f64_1000 : f64 :=
  @BinarySingleNaN.B754_finite 53 1024 false 8796093022208000 (-43) (eq_refl true).
(* const minQPS = 1e-9 (main.go): the float64 nearest to 1e-9,
   4835703278458517 * 2^-82, bits 0x3e112e0be826d695 *)
Definition f64_min_qps_bits : Z := 4472406533629990549.
Definition f64_min_qps : f64 :=
  @BinarySingleNaN.B754_finite 53 1024 false 4835703278458517 (-82) (eq_refl true).
(* float64(time.Second) = 1e9 = 8388608000000000 * 2^-23 *)
Definition f64_second : f64 :=
  @BinarySingleNaN.B754_finite 53 1024 false 8388608000000000 (-23) (eq_refl true).
