(* Table types of the lock-facts translator (tools/lockfacts).  No proofs here. *)
From Coq Require Import String List Bool Arith.
Import ListNotations.

Inductive mode := MR | MW.
Definition held := list (string * mode).
Inductive akind := KRead | KWrite | KCRead | KCWrite.
Inductive ctx := CxCallback | CxPick | CxDone | CxApp | CxTimer | CxMonitor | CxClosure.
(* operation of an access made through sync/atomic (OpPlain: not through sync/atomic) *)
Inductive aop := OpPlain | OpLoad | OpStore | OpStore0 (* Store of the constant 0 *) | OpAdd | OpCAS | OpSwap | OpOther.
Inductive bkind := BChanRecv | BChanSend | BSelect | BCondWait | BSleep | BWait | BExtCall.

(* one read/write of a field of a tracked struct *)
Record site := mkSite {
  s_file : string; s_line : nat; s_func : string;
  s_type : string; s_field : string;
  s_kind : akind;
  s_atomic : bool;          (* through sync/atomic on &x.f *)
  s_fresh : bool;           (* through a local variable bound to a composite literal that has certainly not escaped yet *)
  s_must : held;            (* locks certainly held (intersection over paths and call sites) *)
  s_may : held;             (* locks possibly held *)
  s_released : list string; (* locks certainly acquired and released earlier in the same function *)
  s_ctxs : list ctx;        (* entry-point contexts that reach the function *)
  s_op : aop                (* sync/atomic operation *)
}.

(* one access as executed within ONE execution of a root function (its body and, context-sensitively, its
   callees): which critical-section instances are open there.  A section instance is named by the
   acquisition site "file:line" ("+" appended when a section opened at that site may already have been
   completed earlier in the same execution, e.g. a lock taken inside a loop). *)
Record srow := mkSrow {
  r_root : string;          (* the function whose execution this is *)
  r_file : string; r_line : nat; r_func : string;
  r_type : string; r_field : string;
  r_kind : akind; r_op : aop;
  r_must : held;            (* locks certainly held *)
  r_sec : list (string * list string)   (* lock -> section instances possibly open (empty: none) *)
}.

(* one lock acquisition *)
Record acq := mkAcq {
  a_file : string; a_line : nat; a_func : string;
  a_lock : string; a_mode : mode; a_must : held; a_may : held
}.

(* one potentially blocking operation *)
Record blk := mkBlk {
  b_file : string; b_line : nat; b_func : string;
  b_kind : bkind; b_what : string; b_lock : string (* cond-wait: the lock of the condition variable *);
  b_must : held; b_may : held
}.

(* something the translator could not resolve *)
Record unk := mkUnk { u_file : string; u_line : nat; u_func : string; u_what : string }.

Definition mode_eqb (a b : mode) : bool :=
  match a, b with MR, MR | MW, MW => true | _, _ => false end.

Definition is_write (k : akind) : bool :=
  match k with KWrite | KCWrite => true | _ => false end.

(* does the held set contain lock [l], in W mode if [need_w] *)
Definition holds (h : held) (l : string) (need_w : bool) : bool :=
  existsb (fun p => String.eqb l (fst p) && (if need_w then mode_eqb (snd p) MW else true)) h.

Definition mem_str (x : string) (l : list string) : bool := existsb (String.eqb x) l.

Definition aop_eqb (a b : aop) : bool :=
  match a, b with
  | OpPlain, OpPlain | OpLoad, OpLoad | OpStore, OpStore | OpStore0, OpStore0 | OpAdd, OpAdd
  | OpCAS, OpCAS | OpSwap, OpSwap | OpOther, OpOther => true
  | _, _ => false
  end.

Fixpoint sec_of (l : string) (sec : list (string * list string)) : list string :=
  match sec with
  | [] => []
  | (l', ids) :: r => if String.eqb l l' then ids else sec_of l r
  end.
