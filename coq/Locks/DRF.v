(* Generic lockset theorem: an execution in which every access follows the
   protection policy of its location has no data race.

   Executions are traces (sequentially consistent interleavings) of lock
   acquire/release events on read/write locks, reads/writes/atomic operations on
   locations, thread spawns and generic publication edges.  Happens-before is
   program order + release->later acquire of the same lock (unless both are
   read mode) + spawn + publication.  The serialization of balancer callbacks
   promised by gRPC is modelled as a pseudo lock held in W mode around every
   callback, so it needs no rule of its own. *)
From Coq Require Import List Arith Lia Bool.
From GV Require Import Locks.Tables.
Import ListNotations.

Section DRF.
  Variables thread lockinst loc : Type.
  Variable thread_eq_dec : forall a b : thread, {a = b} + {a <> b}.
  Variable lock_eq_dec : forall a b : lockinst, {a = b} + {a <> b}.

  Inductive event :=
  | EAcq (t : thread) (l : lockinst) (m : mode)
  | ERel (t : thread) (l : lockinst) (m : mode)
  | EAcc (t : thread) (x : loc) (w : bool) (atomic : bool) (fresh : bool)
  | ESpawn (t u : thread)
  | EPub (t : thread) (p : nat)
  | EObs (t : thread) (p : nat).

  Definition trace := list event.
  Definition ev (tr : trace) (i : nat) : option event := nth_error tr i.

  Definition thr (e : event) : thread :=
    match e with
    | EAcq t _ _ | ERel t _ _ | EAcc t _ _ _ _ | ESpawn t _ | EPub t _ | EObs t _ => t
    end.

  (* thread t holds lock l in mode m just before event i *)
  Definition held_at (tr : trace) (i : nat) (t : thread) (l : lockinst) (m : mode) : Prop :=
    exists k, k < i /\ ev tr k = Some (EAcq t l m) /\
              forall r, k < r -> r < i -> ev tr r <> Some (ERel t l m).

  (* read/write lock semantics: an acquisition succeeds only if every other
     holder and the acquirer are in read mode *)
  Definition consistent (tr : trace) : Prop :=
    forall j u l m2, ev tr j = Some (EAcq u l m2) ->
      forall t m1, t <> u -> held_at tr j t l m1 -> m1 = MR /\ m2 = MR.

  Inductive hb (tr : trace) : nat -> nat -> Prop :=
  | hb_po : forall i j e1 e2, i < j -> ev tr i = Some e1 -> ev tr j = Some e2 -> thr e1 = thr e2 -> hb tr i j
  | hb_sync : forall i j t u l m1 m2, i < j -> ev tr i = Some (ERel t l m1) -> ev tr j = Some (EAcq u l m2) ->
                                      (m1 = MW \/ m2 = MW) -> hb tr i j
  | hb_spawn : forall i j t u e, i < j -> ev tr i = Some (ESpawn t u) -> ev tr j = Some e -> thr e = u -> hb tr i j
  | hb_pub : forall i j t u p, i < j -> ev tr i = Some (EPub t p) -> ev tr j = Some (EObs u p) -> hb tr i j
  | hb_trans : forall i j k, hb tr i j -> hb tr j k -> hb tr i k.

  Lemma hb_lt : forall tr i j, hb tr i j -> i < j.
  Proof. induction 1; lia. Qed.

  Definition race (tr : trace) : Prop :=
    exists i j t u x w1 a1 f1 w2 a2 f2,
      i < j /\ ev tr i = Some (EAcc t x w1 a1 f1) /\ ev tr j = Some (EAcc u x w2 a2 f2) /\
      t <> u /\ (w1 = true \/ w2 = true) /\ ~ (a1 = true /\ a2 = true) /\ ~ hb tr i j.

  (* ------------------------------------------------------------------ *)
  (* deciding whether a release occurs in an interval *)

  Definition is_rel (t : thread) (l : lockinst) (m : mode) (o : option event) : bool :=
    match o with
    | Some (ERel t' l' m') =>
        (if thread_eq_dec t t' then true else false) && (if lock_eq_dec l l' then true else false) && mode_eqb m m'
    | _ => false
    end.

  Lemma is_rel_true : forall t l m o, is_rel t l m o = true <-> o = Some (ERel t l m).
  Proof.
    intros t l m o; split.
    - destruct o as [e|]; simpl; try discriminate. destruct e; simpl; try discriminate.
      destruct (thread_eq_dec t t0); simpl; try discriminate.
      destruct (lock_eq_dec l l0); simpl; try discriminate.
      destruct m, m0; simpl; try discriminate; subst; reflexivity.
    - intros ->. simpl. destruct (thread_eq_dec t t); [|congruence].
      destruct (lock_eq_dec l l); [|congruence]. destruct m; reflexivity.
  Qed.

  Lemma rel_in_interval : forall tr t l m a d,
      (exists r, a <= r /\ r < a + d /\ ev tr r = Some (ERel t l m)) \/
      (forall r, a <= r -> r < a + d -> ev tr r <> Some (ERel t l m)).
  Proof.
    intros tr t l m a d. induction d as [|d IH].
    - right. intros r H1 H2. lia.
    - destruct IH as [[r [H1 [H2 H3]]] | IH].
      + left. exists r. repeat split; auto; lia.
      + destruct (is_rel t l m (ev tr (a + d))) eqn:E.
        * left. exists (a + d). apply is_rel_true in E. repeat split; auto; lia.
        * right. intros r H1 H2 H3.
          assert (r = a + d \/ r < a + d) as [-> | Hlt] by lia.
          -- apply is_rel_true in H3. congruence.
          -- exact (IH r H1 Hlt H3).
  Qed.

  Lemma held_at_earlier : forall tr i j t l m k,
      k < i -> i <= j -> ev tr k = Some (EAcq t l m) ->
      (forall r, k < r -> r < j -> ev tr r <> Some (ERel t l m)) ->
      held_at tr i t l m.
  Proof.
    intros tr i j t l m k H1 H2 H3 H4. exists k. repeat split; auto.
    intros r Hr1 Hr2. apply H4; lia.
  Qed.

  (* ------------------------------------------------------------------ *)
  (* the core lemma: two critical sections of the same lock, at least one in
     write mode, are ordered by happens-before *)

  Lemma lock_hb : forall tr i j t u x1 x2 w1 a1 f1 w2 a2 f2 l m1 m2,
      consistent tr -> i < j ->
      ev tr i = Some (EAcc t x1 w1 a1 f1) -> ev tr j = Some (EAcc u x2 w2 a2 f2) ->
      t <> u ->
      held_at tr i t l m1 -> held_at tr j u l m2 ->
      (m1 = MW \/ m2 = MW) ->
      hb tr i j.
  Proof.
    intros tr i j t u x1 x2 w1 a1 f1 w2 a2 f2 l m1 m2 Hc Hij Ei Ej Htu Ht Hu Hm.
    destruct Ht as [k [Hk [Ek Nk]]]. destruct Hu as [k' [Hk' [Ek' Nk']]].
    assert (k' < i \/ k' = i \/ i < k') as [Hlt | [Heq | Hgt]] by lia.
    - (* u acquired before i: both hold the lock at the later of the two acquisitions *)
      exfalso.
      assert (k < k' \/ k = k' \/ k' < k) as [H | [H | H]] by lia.
      + (* at k' (acquire by u) t holds *)
        assert (Hh : held_at tr k' t l m1).
        { exists k. repeat split; auto. intros r R1 R2. apply Nk; lia. }
        destruct (Hc k' u l m2 Ek' t m1 Htu Hh) as [A B]. destruct Hm; congruence.
      + subst k'. rewrite Ek in Ek'. inversion Ek'. congruence.
      + assert (Hh : held_at tr k u l m2).
        { exists k'. repeat split; auto. intros r R1 R2. apply Nk'; lia. }
        assert (Hut : u <> t) by congruence.
        destruct (Hc k t l m1 Ek u m2 Hut Hh) as [A B]. destruct Hm; congruence.
    - subst k'. rewrite Ei in Ek'. discriminate.
    - (* u acquired after i: t must have released in between *)
      destruct (rel_in_interval tr t l m1 i (k' - i)) as [[r [R1 [R2 R3]]] | Hno].
      + assert (r <> i) by (intro; subst r; rewrite Ei in R3; discriminate).
        assert (Hir : i < r) by lia.
        apply hb_trans with r.
        * eapply hb_po; eauto.
        * apply hb_trans with k'.
          -- eapply hb_sync; eauto. lia.
          -- eapply hb_po; eauto.
      + exfalso.
        assert (Hh : held_at tr k' t l m1).
        { exists k. repeat split; auto; try lia. intros r R1 R2 R3.
          assert (r < i \/ i <= r) as [A | A] by lia.
          - exact (Nk r R1 A R3).
          - apply (Hno r A); auto. lia. }
        destruct (Hc k' u l m2 Ek' t m1 Htu Hh) as [A B]. destruct Hm; congruence.
  Qed.

  (* ------------------------------------------------------------------ *)
  (* policies of locations *)

  Inductive lpol := PGuarded | PAtomic | PInit | PLate.
  Variable pol : loc -> lpol.
  Variable guard : loc -> lockinst.   (* the lock instance that owns the location *)

  Definition holds_for (tr : trace) (i : nat) (t : thread) (l : lockinst) (w : bool) : Prop :=
    if w then held_at tr i t l MW else exists m, held_at tr i t l m.

  (* an unlocked read of a published / write-once location must happen after every write by another thread *)
  Definition late (tr : trace) (j : nat) (u : thread) (x : loc) : Prop :=
    forall i t a f, ev tr i = Some (EAcc t x true a f) -> t <> u -> i < j /\ hb tr i j.

  Definition access_ok (tr : trace) (i : nat) : Prop :=
    forall t x w a f, ev tr i = Some (EAcc t x w a f) ->
      match pol x with
      | PGuarded => f = true \/ holds_for tr i t (guard x) w
      | PAtomic => f = true \/ a = true
      | PInit => w = true -> f = true
      | PLate => f = true \/ holds_for tr i t (guard x) w \/ (w = false /\ late tr i t x)
      end.

  (* an access marked fresh is to an object no other thread can reach yet:
     every access to it by another thread comes later and happens-after *)
  Definition fresh_wf (tr : trace) : Prop :=
    forall i t x w a, ev tr i = Some (EAcc t x w a true) ->
      forall j u w' a' f', ev tr j = Some (EAcc u x w' a' f') -> u <> t -> i < j /\ hb tr i j.

  Lemma holds_for_mode : forall tr i t l w, holds_for tr i t l w ->
      exists m, held_at tr i t l m /\ (w = true -> m = MW).
  Proof.
    intros tr i t l [|] H; simpl in H.
    - exists MW; auto.
    - destruct H as [m H]. exists m. split; auto. discriminate.
  Qed.

  Theorem lockset_race_free : forall tr,
      consistent tr -> fresh_wf tr -> (forall i, access_ok tr i) -> ~ race tr.
  Proof.
    intros tr Hc Hf Hok [i [j [t [u [x [w1 [a1 [f1 [w2 [a2 [f2 [Hij [Ei [Ej [Htu [Hw [Ha Hn]]]]]]]]]]]]]]]]].
    assert (Hut : u <> t) by congruence.
    (* freshness of either access orders the pair *)
    assert (F1 : f1 = true -> False).
    { intros ->. destruct (Hf i t x w1 a1 Ei j u w2 a2 f2 Ej Hut) as [_ H]. auto. }
    assert (F2 : f2 = true -> False).
    { intros ->. destruct (Hf j u x w2 a2 Ej i t w1 a1 f1 Ei Htu) as [H _]. lia. }
    assert (L : forall m1 m2, held_at tr i t (guard x) m1 -> held_at tr j u (guard x) m2 -> (m1 = MW \/ m2 = MW) -> False).
    { intros m1 m2 H1 H2 Hm. apply Hn. eapply lock_hb; eauto. }
    pose proof (Hok i t x w1 a1 f1 Ei) as O1. pose proof (Hok j u x w2 a2 f2 Ej) as O2.
    destruct (pol x).
    - (* guarded *)
      destruct O1 as [O1 | O1]; [auto|]. destruct O2 as [O2 | O2]; [auto|].
      apply holds_for_mode in O1. apply holds_for_mode in O2.
      destruct O1 as [m1 [H1 M1]]. destruct O2 as [m2 [H2 M2]].
      apply (L m1 m2 H1 H2). destruct Hw as [-> | ->]; auto.
    - (* atomic *)
      destruct O1 as [O1 | O1]; [auto|]. destruct O2 as [O2 | O2]; [auto|]. auto.
    - (* init-only *)
      destruct Hw as [-> | ->]; auto.
    - (* published / write-once *)
      destruct O1 as [O1 | [O1 | [W1 O1]]]; [auto| |].
      + destruct O2 as [O2 | [O2 | [W2 O2]]]; [auto| |].
        * apply holds_for_mode in O1. apply holds_for_mode in O2.
          destruct O1 as [m1 [H1 M1]]. destruct O2 as [m2 [H2 M2]].
          apply (L m1 m2 H1 H2). destruct Hw as [-> | ->]; auto.
        * (* late read at j: the other access is a write at i *)
          subst w2. destruct Hw as [-> | Hw]; [|discriminate].
          destruct (O2 i t a1 f1 Ei Htu) as [_ H]. auto.
      + (* late read at i, so j is a write, which must precede i *)
        subst w1. destruct Hw as [Hw | ->]; [discriminate|].
        destruct (O1 j u a2 f2 Ej Hut) as [H _]. lia.
  Qed.


  (* ------------------------------------------------------------------ *)
  (* atomicity of a group of accesses made inside ONE critical-section instance *)

  (* event i lies in the section that thread t opened at index k (lock l, mode m) and has not closed up to i *)
  Definition in_section (tr : trace) (k : nat) (t : thread) (l : lockinst) (m : mode) (i : nat) : Prop :=
    k < i /\ ev tr k = Some (EAcq t l m) /\
    forall r, k < r -> r <= i -> ev tr r <> Some (ERel t l m).

  Lemma in_section_earlier : forall tr k t l m i j, in_section tr k t l m j -> k < i -> i <= j -> in_section tr k t l m i.
  Proof.
    intros tr k t l m i j [H1 [H2 H3]] Hk Hij. repeat split; auto. intros r R1 R2. apply H3; lia.
  Qed.

  (* while the section is open, another thread can hold the same lock only if both are readers *)
  Lemma section_exclusive : forall tr k t l m1 j w u m2,
      consistent tr -> in_section tr k t l m1 j -> k < w -> w <= j -> u <> t ->
      held_at tr w u l m2 -> m1 = MR /\ m2 = MR.
  Proof.
    intros tr k t l m1 j w u m2 Hc [Hkj [Ek Nk]] Hkw Hwj Hut [k' [Hk' [Ek' Nk']]].
    assert (Htu : t <> u) by congruence.
    assert (k < k' \/ k = k' \/ k' < k) as [H | [H | H]] by lia.
    - assert (Hh : held_at tr k' t l m1).
      { exists k. repeat split; auto. intros r R1 R2. apply Nk; lia. }
      exact (Hc k' u l m2 Ek' t m1 Htu Hh).
    - subst k'. rewrite Ek in Ek'. inversion Ek'. congruence.
    - assert (Hh : held_at tr k u l m2).
      { exists k'. repeat split; auto. intros r R1 R2. apply Nk'; lia. }
      destruct (Hc k t l m1 Ek u m2 Hut Hh) as [A B]. auto.
  Qed.

  (* Group atomicity: between two accesses i <= j that a thread makes inside one section instance of l, any
     access w by another thread that respects the discipline of l (writes hold l in W mode, reads in R or W)
     is a read, and then the group's own section is a read section.  Hence a group in a write section is
     isolated, and a group of reads in a read section sees one snapshot of everything guarded by l. *)
  Theorem group_atomic : forall tr k t l m i j w u x wr a f,
      consistent tr ->
      in_section tr k t l m i -> in_section tr k t l m j -> i <= w -> w <= j ->
      ev tr w = Some (EAcc u x wr a f) -> u <> t ->
      holds_for tr w u l wr ->
      m = MR /\ wr = false.
  Proof.
    intros tr k t l m i j w u x wr a f Hc Si Sj Hiw Hwj Ew Hut Hh.
    assert (Hkw : k < w) by (destruct Si; lia).
    apply holds_for_mode in Hh. destruct Hh as [m2 [H2 M2]].
    destruct (section_exclusive tr k t l m j w u m2 Hc Sj Hkw Hwj Hut H2) as [A B].
    split; auto. destruct wr; auto. specialize (M2 eq_refl). congruence.
  Qed.

End DRF.

(* ---------------------------------------------------------------------- *)
(* Counters updated with atomic read-modify-write operations: no lost update *)
From Coq Require Import ZArith Permutation.

Inductive cop := CAdd (d : Z) | CLoad | CStore (v : Z).

(* value of the counter after a sequence of atomic operations (any interleaving of the threads' operations
   is such a sequence) *)
Fixpoint crun (ops : list cop) (v : Z) : Z :=
  match ops with
  | [] => v
  | CAdd d :: r => crun r (v + d)
  | CLoad :: r => crun r v
  | CStore c :: r => crun r c
  end.

Fixpoint adds (ops : list cop) : Z :=
  match ops with
  | [] => 0
  | CAdd d :: r => d + adds r
  | _ :: r => adds r
  end%Z.

Definition add_or_load (o : cop) : bool := match o with CStore _ => false | _ => true end.

Theorem counter_no_lost_update : forall ops v,
    forallb add_or_load ops = true -> crun ops v = (v + adds ops)%Z.
Proof.
  induction ops as [|o r IH]; intros v H; simpl in *.
  - lia.
  - apply andb_true_iff in H. destruct H as [Ho Hr]. destruct o; simpl in *; try discriminate.
    + rewrite IH by auto. lia.
    + apply IH; auto.
Qed.

Lemma adds_perm : forall a b, Permutation a b -> adds a = adds b.
Proof.
  induction 1; simpl; auto.
  - destruct x; simpl; lia.
  - destruct x, y; simpl; lia.
  - congruence.
Qed.

Lemma add_or_load_perm : forall a b, Permutation a b -> forallb add_or_load a = true -> forallb add_or_load b = true.
Proof.
  intros a b P H. rewrite forallb_forall in *. intros x Hx. apply H. eapply Permutation_in; [apply Permutation_sym; exact P | exact Hx].
Qed.

(* the final value does not depend on the interleaving *)
Theorem counter_interleaving_independent : forall ops ops' v,
    Permutation ops ops' -> forallb add_or_load ops = true -> crun ops v = crun ops' v.
Proof.
  intros ops ops' v P H.
  rewrite (counter_no_lost_update ops v H).
  rewrite (counter_no_lost_update ops' v (add_or_load_perm _ _ P H)).
  rewrite (adds_perm _ _ P). reflexivity.
Qed.

(* with resets to a constant: the value counts the additions since the last reset *)
Theorem counter_since_reset : forall pre post c v,
    forallb add_or_load post = true -> crun (pre ++ CStore c :: post) v = (c + adds post)%Z.
Proof.
  induction pre as [|o r IH]; intros post c v H; simpl.
  - apply counter_no_lost_update; auto.
  - destruct o; apply IH; auto.
Qed.
