(* Generic deadlock theorem: if every thread that waits for a lock only holds
   locks of strictly smaller rank (which excludes re-acquiring a lock of the same
   class, in any mode, and any cyclic acquisition order), and no thread is
   blocked in a non-lock operation while it holds a lock, then no state has a
   cycle of threads each waiting for a lock held by the next, and every waiting
   thread transitively waits for a thread that can run. *)
From Coq Require Import List Arith Lia Relations.
Import ListNotations.

Section Deadlock.
  Variables thread lock : Type.
  Variable rank : lock -> nat.

  (* a state of the system, abstractly *)
  Variable holds : thread -> lock -> Prop.        (* in some mode *)
  Variable waiting : thread -> option lock.       (* blocked in Lock()/RLock() of that lock *)
  Variable blocked : thread -> Prop.              (* blocked in a channel operation / select / cond.Wait / sleep *)

  Definition waits_for (t u : thread) : Prop := exists l, waiting t = Some l /\ holds u l.

  Hypothesis order_respected :
    forall t l l', waiting t = Some l -> holds t l' -> rank l' < rank l.
  Hypothesis blocked_holds_nothing : forall t l, blocked t -> ~ holds t l.

  Lemma chain_source_waits : forall t u, clos_trans _ waits_for t u -> exists l, waiting t = Some l.
  Proof.
    induction 1 as [t u [l [H _]] | t m u _ IH1 _ _]; eauto.
  Qed.

  Lemma chain_rank : forall t u, clos_trans _ waits_for t u ->
      forall l lu, waiting t = Some l -> waiting u = Some lu -> rank l < rank lu.
  Proof.
    induction 1 as [t u [l0 [H1 H2]] | t m u H1 IH1 H2 IH2]; intros l lu Wt Wu.
    - rewrite Wt in H1. inversion H1; subst l0. eapply order_respected; eauto.
    - destruct (chain_source_waits _ _ H2) as [lm Wm].
      specialize (IH1 l lm Wt Wm). specialize (IH2 lm lu Wm Wu). lia.
  Qed.

  Theorem no_wait_cycle : ~ exists t, clos_trans _ waits_for t t.
  Proof.
    intros [t H]. destruct (chain_source_waits _ _ H) as [l W].
    pose proof (chain_rank _ _ H l l W W). lia.
  Qed.

  (* in particular nobody waits for a lock it holds itself *)
  Corollary no_self_deadlock : forall t l, waiting t = Some l -> ~ holds t l.
  Proof.
    intros t l W H. apply no_wait_cycle. exists t. apply t_step. exists l. auto.
  Qed.

  (* progress: a waiting thread transitively waits for a thread that is neither
     waiting for a lock nor blocked *)
  Variable N : nat.
  Hypothesis rank_bounded : forall l, rank l < N.
  Hypothesis waited_lock_is_held : forall t l, waiting t = Some l -> exists u, holds u l.

  Theorem waiter_reaches_runnable : forall t l, waiting t = Some l ->
      exists u, clos_trans _ waits_for t u /\ waiting u = None /\ ~ blocked u.
  Proof.
    assert (G : forall n t l, N - rank l <= n -> waiting t = Some l ->
                exists u, clos_trans _ waits_for t u /\ waiting u = None /\ ~ blocked u).
    { induction n as [|n IH]; intros t l Hn W.
      - pose proof (rank_bounded l). lia.
      - destruct (waited_lock_is_held t l W) as [u Hu].
        destruct (waiting u) as [lu|] eqn:Wu.
        + assert (rank l < rank lu) by (eapply order_respected; eauto).
          destruct (IH u lu) as [v [C [Wv Bv]]]; auto.
          { pose proof (rank_bounded lu). lia. }
          exists v. split; auto. eapply t_trans; [apply t_step; exists l; eauto | exact C].
        + exists u. repeat split; auto.
          * apply t_step. exists l; auto.
          * intro B. exact (blocked_holds_nothing u l B Hu). }
    intros t l W. eapply (G (N - rank l)); eauto.
  Qed.

End Deadlock.

(* a relation on a finite label set that embeds into < on nat has no cycle *)
Section Acyclic.
  Variable A : Type.
  Variable R : A -> A -> Prop.
  Variable rk : A -> nat.
  Hypothesis embeds : forall a b, R a b -> rk a < rk b.

  Lemma ranked_chain : forall a b, clos_trans _ R a b -> rk a < rk b.
  Proof. induction 1; eauto. pose proof (embeds x y); lia. Qed.

  Theorem ranked_acyclic : forall a, ~ clos_trans _ R a a.
  Proof. intros a H. apply ranked_chain in H. lia. Qed.
End Acyclic.
