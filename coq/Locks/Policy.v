(* Hand-written protection policy: one entry per (struct, field) with the reason.
   Reviewed input of the C10/C06 checks; no proofs here. *)
From Coq Require Import String List Bool Arith.
From GV Require Import Locks.Tables.
Import ListNotations.
Open Scope string_scope.

Inductive policy :=
| GuardedBy (l : string)                     (* writes hold l in W mode, reads hold l in R or W mode *)
| Atomic                                     (* every access goes through sync/atomic *)
| InitOnly                                   (* written only while the object is fresh (not yet shared) *)
| PublishedBy (l : string) (fns : list string)
    (* written only in [fns] holding l in W mode; a reader either holds l or runs after the publication *)
| WriteOnce (l : string).
    (* written (once, nil -> non-nil) holding l in W mode; a reader either holds l or has passed through a
       critical section of l earlier in the same function in which it saw the final value *)

(* the serialization of balancer callbacks promised by gRPC, as a pseudo lock *)
Definition CB := "@callback".
Definition Serialized := GuardedBy CB.

Definition GB := "gcpBalancer.mu".
Definition GME := "GCPMultiEndpoint.mu".
Definition ME := "multiEndpoint.RWMutex".
Definition CS := "gcpClientStream.Mutex".
Definition GP := "gcpPicker.mu".

Definition cfg_writers := ["gcpBalancer.initializeConfig"].

Definition policy_table : list (string * string * policy) := [
  (* gcpBalancer *)
  ("gcpBalancer", "cfg", PublishedBy CB cfg_writers);
     (* set once by the first UpdateClientConnState (guard gb.cfg == nil), before any gcpPicker exists; Pick/Done run
        only on pickers handed to cc.UpdateState by a later callback (pool invariant I_cfg) *)
  ("gcpBalancer", "methodCfg", PublishedBy CB cfg_writers);          (* as cfg; the map is filled before it is stored and never mutated *)
  ("gcpBalancer", "unresponsiveDetection", PublishedBy CB cfg_writers); (* as cfg *)
  ("gcpBalancer", "addrs", GuardedBy GB);                (* written by UpdateClientConnState, read by addSubConn/refresh, all under gb.mu *)
  ("gcpBalancer", "cc", InitOnly);                       (* set in Build's composite literal *)
  ("gcpBalancer", "csEvltr", InitOnly);                  (* pointer set in Build *)
  ("gcpBalancer", "state", GuardedBy GB);                (* UpdateSubConnState/regeneratePicker under gb.mu *)
  ("gcpBalancer", "affinityMap", GuardedBy GB);
  ("gcpBalancer", "fallbackMap", GuardedBy GB);
  ("gcpBalancer", "scStates", GuardedBy GB);
  ("gcpBalancer", "scRefs", GuardedBy GB);
  ("gcpBalancer", "scRefList", GuardedBy GB);            (* appended by addSubConn under gb.mu *)
  ("gcpBalancer", "refreshingScRefs", GuardedBy GB);
  ("gcpBalancer", "picker", GuardedBy GB);               (* regeneratePicker writes, getReadySubConnRef reads, under gb.mu *)
  ("gcpBalancer", "rrRefId", Atomic);                    (* atomic.AddUint32 *)
  ("gcpBalancer", "log", InitOnly);                      (* set in Build before gb is returned *)
  (* connectivityStateEvaluator: "should only be called synchronously from the same goroutine" = balancer callbacks *)
  ("connectivityStateEvaluator", "numReady", Serialized);
  ("connectivityStateEvaluator", "numConnecting", Serialized);
  ("connectivityStateEvaluator", "numTransientFailure", Serialized);
  (* subConnRef: shared between the balancer (under gb.mu), pickers and completion callbacks *)
  ("subConnRef", "subConn", GuardedBy GB);               (* replaced by the refresh swap in UpdateSubConnState *)
  ("subConnRef", "stateSignal", GuardedBy GB);           (* closed/recreated under gb.mu, read under RLock by round-robin waiters *)
  ("subConnRef", "affinityCnt", Atomic);
  ("subConnRef", "streamsCnt", Atomic);
  ("subConnRef", "lastResp", GuardedBy GB);              (* written by the swap and by completion callbacks *)
  ("subConnRef", "deCalls", Atomic);
  ("subConnRef", "refreshing", GuardedBy GB);
  ("subConnRef", "refreshCnt", GuardedBy GB);
  (* gcpPicker: immutable snapshot *)
  ("gcpPicker", "gb", InitOnly);
  ("gcpPicker", "scRefs", InitOnly);
  ("gcpPicker", "log", InitOnly);
  (* GCPMultiEndpoint *)
  ("GCPMultiEndpoint", "defaultName", GuardedBy GME);
  ("GCPMultiEndpoint", "mes", GuardedBy GME);
  ("GCPMultiEndpoint", "pools", GuardedBy GME);
  ("GCPMultiEndpoint", "opts", InitOnly);
  ("GCPMultiEndpoint", "gcpConfig", InitOnly);
  ("GCPMultiEndpoint", "dialFunc", InitOnly);            (* defaulted in the constructor before gme escapes *)
  ("GCPMultiEndpoint", "log", InitOnly);
  ("GCPMultiEndpoint", "ClientConnInterface", InitOnly); (* never set *)
  ("monitoredConn", "endpoint", InitOnly);
  ("monitoredConn", "conn", InitOnly);
  ("monitoredConn", "gme", InitOnly);
  ("monitoredConn", "cancel", InitOnly);
  (* multiendpoint *)
  ("multiEndpoint", "endpoints", GuardedBy ME);
  ("multiEndpoint", "current", GuardedBy ME);
  ("multiEndpoint", "future", GuardedBy ME);
  ("multiEndpoint", "recoveryTimeout", InitOnly);
  ("multiEndpoint", "switchingDelay", InitOnly);
  ("endpoint", "id", InitOnly);
  ("endpoint", "priority", GuardedBy ME);                (* endpoints belong to exactly one multiEndpoint *)
  ("endpoint", "status", GuardedBy ME);
  ("endpoint", "lastChange", GuardedBy ME);
  ("endpoint", "futureChange", GuardedBy ME);
  (* stream interceptor *)
  ("gcpClientStream", "ClientStream", WriteOnce CS);
     (* set once by the first SendMsg under the mutex (guard cs.ClientStream == nil); SendMsg/RecvMsg use it after
        leaving a critical section in which they saw it non-nil (RecvMsg loops on the condition variable until then) *)
  ("gcpClientStream", "initStreamErr", GuardedBy CS);
  ("gcpClientStream", "watching", GuardedBy CS);  (* set once under the stream mutex when the ctx watcher goroutine is started (fix S2) *)
  ("gcpClientStream", "cond", InitOnly);
  ("gcpClientStream", "ctx", InitOnly);
  ("gcpClientStream", "desc", InitOnly);
  ("gcpClientStream", "cc", InitOnly);
  ("gcpClientStream", "method", InitOnly);
  ("gcpClientStream", "streamer", InitOnly);
  ("gcpClientStream", "opts", InitOnly);
  ("gcpContext", "reqMsg", InitOnly);
  ("gcpContext", "replyMsg", InitOnly)
].

Fixpoint lookup_policy (t f : string) (l : list (string * string * policy)) : option policy :=
  match l with
  | [] => None
  | (t', f', p) :: r => if String.eqb t t' && String.eqb f f' then Some p else lookup_policy t f r
  end.

Definition field_policy (t f : string) : option policy := lookup_policy t f policy_table.

(* Lock order: a thread may acquire a lock only while holding locks of strictly smaller rank.
   stream mutex < GCPMultiEndpoint.mu < multiEndpoint lock < picker mutex < balancer mutex:
   SendMsg creates the real stream (-> Pick) under the stream mutex; UpdateMultiEndpoints/notify call into
   MultiEndpoints under gme.mu and dial/close pools (-> balancer) under it; Pick calls into the balancer under p.mu. *)
Definition lock_rank (l : string) : option nat :=
  if String.eqb l CS then Some 0 else
  if String.eqb l GME then Some 1 else
  if String.eqb l ME then Some 2 else
  if String.eqb l GP then Some 3 else
  if String.eqb l GB then Some 4 else None.

(* Calls into other packages made while a lock is held that are accepted as non-blocking
   (they neither wait for another goroutine of this library nor call back into it synchronously). Prefixes. *)
Definition nonblocking_callees : list string := [
  "grpclog.";                       (* logging *)
  "fmt."; "strings."; "errors."; "time.Now"; "time.NewTicker"; "time.Ticker.Stop";
  "grpc_gcp."; "proto.Clone";       (* generated getters, clone *)
  "context.";                       (* WithValue / Background / WithCancel *)
  "balancer.ClientConn.NewSubConn"; "balancer.ClientConn.RemoveSubConn"; "balancer.ClientConn.UpdateState";
                                    (* gRPC 1.56: handled by the channel, never call back into the balancer synchronously *)
  "balancer.SubConn.Connect"; "balancer.SubConn.UpdateAddresses";   (* asynchronous *)
  "grpc.ClientConn.GetState"; "grpc.ClientConn.Close"; "grpc.Dial";
                                    (* under gme.mu only; closing/dialling a pool needs no lock of this library *)
  "funcvalue:GCPMultiEndpoint.dialFunc";   (* user DialFunc under gme.mu: must not call back into the GCPMultiEndpoint (documented limit) *)
  "funcvalue:gcpClientStream.streamer";    (* may wait for a connection, holding only the stream's own mutex; RecvMsg waits for it by design *)
  "funcvalue:monitoredConn.cancel";        (* context.CancelFunc *)
  "funcvalue:timeAfterFunc"; "funcvalue:timeNow"; "multiendpoint.timerAlike.Stop"  (* time.AfterFunc / Timer.Stop do not wait for the callback *)
].

Definition nonblocking (callee : string) : bool :=
  existsb (fun p => String.prefix p callee) nonblocking_callees.

(* unknown rows discharged by a justified annotation: (function, prefix of the message). None needed on the clean tree. *)
Definition discharged_unknowns : list (string * string) := [].

(* ---------------------------------------------------------------------- *)
(* Atomicity granularity.  The Pool / ME / GME models execute each of the operations below as ONE atomic
   segment; that is justified only while the source performs the listed accesses inside ONE critical-section
   instance of the named lock (DESIGN 2.2).  Checked on the `scoped` table (accesses per root-function execution). *)

Inductive mkind := MRead (* read or container read *) | MWrite (* write or container write *) | MAny.

Record member := mkMember {
  m_type : string; m_field : string; m_kind : mkind;
  m_unlocked_ok : bool   (* a row of this member may also run with NO section of the lock open (separate, justified path) *)
}.

Record group := mkGroup {
  g_name : string;
  g_props : list string;     (* property ids whose model segment this group backs *)
  g_fn : string;             (* root function: the group is decided per execution of it, callees included *)
  g_lock : string;
  g_all : bool;              (* every access to a lock-protected (not InitOnly, not Atomic) field within the root counts as a member *)
  g_members : list member;   (* explicit members: each must occur inside the section *)
  g_why : string
}.

Definition rd t f := mkMember t f MRead false.
Definition wr t f := mkMember t f MWrite false.

Definition groups : list group := [
  mkGroup "pool.newSubConn" ["C03"] "gcpBalancer.newSubConn" GB true
    [rd "gcpBalancer" "scRefs"; rd "gcpBalancer" "scStates"; wr "gcpBalancer" "scRefs"; wr "gcpBalancer" "scStates"; wr "gcpBalancer" "scRefList"]
    "Pool.Model new_subconn: size re-check, no-channel-connecting guard and registration of the new channel are one step (pool size <= maxSize)";
  mkGroup "pool.refresh" ["C07"] "gcpBalancer.refresh" GB true
    [rd "subConnRef" "refreshing"; wr "subConnRef" "refreshing"; wr "gcpBalancer" "refreshingScRefs"]
    "Pool.Model refresh: test-and-set of refreshing and registration of the replacement are one step (at most one replacement per channel)";
  mkGroup "pool.UpdateSubConnState" ["C01"; "C04"; "C07"; "C08"] "gcpBalancer.UpdateSubConnState" GB true
    [wr "gcpBalancer" "scStates"; wr "gcpBalancer" "picker"; wr "subConnRef" "subConn"]
    "Pool.Model sc_state: swap, state table, fallback clean-up, aggregate state and picker publication are one step";
  mkGroup "pool.UpdateClientConnState" ["C20"; "C03"] "gcpBalancer.UpdateClientConnState" GB true
    [wr "gcpBalancer" "addrs"; rd "gcpBalancer" "scRefs"]
    "Pool.Model resolver: address update, first configuration and (re)creation of an empty pool are one step";
  mkGroup "pool.bindSubConn" ["C01"; "C08"] "gcpBalancer.bindSubConn" GB true
    [rd "gcpBalancer" "scRefs"; rd "gcpBalancer" "affinityMap"; wr "gcpBalancer" "affinityMap"]
    "Pool.Model bind: membership test, first-writer-wins insertion and the affinity count are one step";
  mkGroup "pool.unbindSubConn" ["C01"; "C08"] "gcpBalancer.unbindSubConn" GB true
    [rd "gcpBalancer" "affinityMap"; wr "gcpBalancer" "affinityMap"]
    "Pool.Model unbind: lookup, count decrement and removal are one step";
  mkGroup "pool.getReadySubConnRef" ["C01"; "C08"] "gcpBalancer.getReadySubConnRef" GB true
    [rd "gcpBalancer" "affinityMap"; rd "gcpBalancer" "scStates"; rd "gcpBalancer" "fallbackMap"; wr "gcpBalancer" "fallbackMap"]
    "Pool.Model keyed lookup: home lookup, readiness test and creation of the fallback mapping are one step";
  mkGroup "pool.pick.leastBusy" ["C02"] "gcpPicker.getAndIncrementSubConnRef" GP false
    [rd "subConnRef" "streamsCnt"; mkMember "subConnRef" "streamsCnt" MWrite true]
    "Pool.Model pick: the scan for the minimum stream count and the increment of the chosen channel are one step per picker (two picks on one picker never choose the same minimum); the round-robin BIND path increments without scanning, outside p.mu, by design";
  mkGroup "pool.detectUnresponsive" ["C07"] "gcpPicker.detectUnresponsive" GB false
    [rd "subConnRef" "lastResp"; rd "subConnRef" "refreshCnt"]
    "Pool.Model done(deadline exceeded): lastResp and the back-off exponent are read as one snapshot";
  mkGroup "gme.pickConn" ["C15"; "C16"] "GCPMultiEndpoint.pickConn" GME true
    [rd "GCPMultiEndpoint" "mes"; rd "GCPMultiEndpoint" "defaultName"; rd "multiEndpoint" "current"; rd "GCPMultiEndpoint" "pools"]
    "GME.Model route: choosing the MultiEndpoint, reading its current endpoint and looking up that endpoint's pool are one step (the pool of the current endpoint exists)";
  mkGroup "gme.UpdateMultiEndpoints" ["C16"; "C15"] "GCPMultiEndpoint.UpdateMultiEndpoints" GME true
    [rd "GCPMultiEndpoint" "dialFunc"; rd "GCPMultiEndpoint" "pools"; wr "GCPMultiEndpoint" "pools"; wr "GCPMultiEndpoint" "mes"; wr "GCPMultiEndpoint" "defaultName"]
    "GME.Model update: validation against the current pools, dialling (the read of dialFunc stands for the calls), registration and removal are one step (atomic rejection, no pool dialled twice)";
  mkGroup "gme.Close" ["C16"; "C15"] "GCPMultiEndpoint.Close" GME true
    [rd "GCPMultiEndpoint" "pools"]
    "GME.Model close: every pool registered at that moment is closed";
  mkGroup "gme.notify" ["C15"] "monitoredConn.notify" GME true
    [rd "GCPMultiEndpoint" "mes"]
    "GME.Model availability report: delivered to every MultiEndpoint of one configuration";
  mkGroup "me.SetEndpoints" ["C13"; "C14"] "multiendpoint.multiEndpoint.SetEndpoints" ME true
    [rd "multiEndpoint" "endpoints"; wr "multiEndpoint" "endpoints"; mkMember "multiEndpoint" "current" MAny false]
    "ME.Model set_endpoints: list replacement, priorities and the re-evaluation of current are one step";
  mkGroup "me.SetEndpointAvailability" ["C13"; "C14"] "multiendpoint.multiEndpoint.SetEndpointAvailability" ME true
    [rd "multiEndpoint" "endpoints"; wr "endpoint" "status"; mkMember "multiEndpoint" "current" MAny false]
    "ME.Model set_avail: state change, timer bookkeeping and the re-evaluation of current are one step";
  mkGroup "me.recoveryTimer" ["C13"; "C14"] "multiendpoint.multiEndpoint.scheduleUnavailable$1" ME true
    [rd "endpoint" "lastChange"; wr "endpoint" "status"; mkMember "multiEndpoint" "current" MAny false]
    "ME.Model timer(recovery): staleness test, state change and the re-evaluation of current are one step";
  mkGroup "me.switchTimer" ["C13"; "C14"] "multiendpoint.multiEndpoint.switchFromTo$1" ME true
    [rd "multiEndpoint" "future"; rd "multiEndpoint" "endpoints"; wr "multiEndpoint" "current"]
    "ME.Model timer(switch): re-validation of the delayed switch and the assignment of current are one step"
].

(* Counters: fields updated by read-modify-write from many goroutines.  Only the listed sync/atomic
   operations are allowed anywhere (fresh objects excepted); in particular no Load..Store pair and no plain access. *)
Definition counters : list (string * string * list aop * list string * string) := [
  ("subConnRef", "streamsCnt", [OpAdd; OpLoad], ["C02"],
     "Pool.Model streams: +1 per placed pick, -1 per completion, never reset: the value is the number of calls in flight");
  ("subConnRef", "affinityCnt", [OpAdd; OpLoad], ["C01"],
     "Pool.Model affinity count: +1 per bind, -1 per unbind");
  ("subConnRef", "deCalls", [OpAdd; OpLoad; OpStore0], ["C07"],
     "Pool.Model deadline-exceeded counter: +1 per such completion, reset to 0 by a response or the refresh swap");
  ("gcpBalancer", "rrRefId", [OpAdd], ["C09"],
     "Pool.Model round-robin cursor: every BIND pick advances it by exactly one (consecutive picks get consecutive slots)")
].
