(* Hand-written protection policy: one entry per (struct, field) with the reason.
   Reviewed input of the C10/C06 checks; no proofs here. *)
From Coq Require Import String List Bool Arith.
From GV Require Import Locks.Tables.
Import ListNotations.
Open Scope string_scope.

Inductive policy :=
| GuardedBy (l : string)                     (* writes hold l in W mode, reads hold l in R or W mode *)
| Atomic                                     (* every access goes through sync/atomic *)
| InitOnly                                   (* written only while the object is fresh (not yet shared) *)
| PublishedBy (l : string) (fns : list string)
    (* written only in [fns] holding l in W mode; a reader either holds l or runs after the publication *)
| WriteOnce (l : string).
    (* written (once, nil -> non-nil) holding l in W mode; a reader either holds l or has passed through a
       critical section of l earlier in the same function in which it saw the final value *)

(* the serialization of balancer callbacks promised by gRPC, as a pseudo lock *)
Definition CB := "@callback".
Definition Serialized := GuardedBy CB.

Definition GB := "gcpBalancer.mu".
Definition GME := "GCPMultiEndpoint.mu".
Definition ME := "multiEndpoint.RWMutex".
Definition CS := "gcpClientStream.Mutex".
Definition GP := "gcpPicker.mu".

Definition cfg_writers := ["gcpBalancer.initializeConfig"].

Definition policy_table : list (string * string * policy) := [
  (* gcpBalancer *)
  ("gcpBalancer", "cfg", PublishedBy CB cfg_writers);
     (* set once by the first UpdateClientConnState (guard gb.cfg == nil), before any gcpPicker exists; Pick/Done run
        only on pickers handed to cc.UpdateState by a later callback (pool invariant I_cfg) *)
  ("gcpBalancer", "methodCfg", PublishedBy CB cfg_writers);          (* as cfg; the map is filled before it is stored and never mutated *)
  ("gcpBalancer", "unresponsiveDetection", PublishedBy CB cfg_writers); (* as cfg *)
  ("gcpBalancer", "addrs", GuardedBy GB);                (* written by UpdateClientConnState, read by addSubConn/refresh, all under gb.mu *)
  ("gcpBalancer", "cc", InitOnly);                       (* set in Build's composite literal *)
  ("gcpBalancer", "csEvltr", InitOnly);                  (* pointer set in Build *)
  ("gcpBalancer", "state", GuardedBy GB);                (* UpdateSubConnState/regeneratePicker under gb.mu *)
  ("gcpBalancer", "affinityMap", GuardedBy GB);
  ("gcpBalancer", "fallbackMap", GuardedBy GB);
  ("gcpBalancer", "scStates", GuardedBy GB);
  ("gcpBalancer", "scRefs", GuardedBy GB);
  ("gcpBalancer", "scRefList", GuardedBy GB);            (* appended by addSubConn under gb.mu *)
  ("gcpBalancer", "refreshingScRefs", GuardedBy GB);
  ("gcpBalancer", "picker", GuardedBy GB);               (* regeneratePicker writes, getReadySubConnRef reads, under gb.mu *)
  ("gcpBalancer", "rrRefId", Atomic);                    (* atomic.AddUint32 *)
  ("gcpBalancer", "log", InitOnly);                      (* set in Build before gb is returned *)
  (* connectivityStateEvaluator: "should only be called synchronously from the same goroutine" = balancer callbacks *)
  ("connectivityStateEvaluator", "numReady", Serialized);
  ("connectivityStateEvaluator", "numConnecting", Serialized);
  ("connectivityStateEvaluator", "numTransientFailure", Serialized);
  (* subConnRef: shared between the balancer (under gb.mu), pickers and completion callbacks *)
  ("subConnRef", "subConn", GuardedBy GB);               (* replaced by the refresh swap in UpdateSubConnState *)
  ("subConnRef", "stateSignal", GuardedBy GB);           (* closed/recreated under gb.mu, read under RLock by round-robin waiters *)
  ("subConnRef", "affinityCnt", Atomic);
  ("subConnRef", "streamsCnt", Atomic);
  ("subConnRef", "lastResp", GuardedBy GB);              (* written by the swap and by completion callbacks *)
  ("subConnRef", "deCalls", Atomic);
  ("subConnRef", "refreshing", GuardedBy GB);
  ("subConnRef", "refreshCnt", GuardedBy GB);
  (* gcpPicker: immutable snapshot *)
  ("gcpPicker", "gb", InitOnly);
  ("gcpPicker", "scRefs", InitOnly);
  ("gcpPicker", "log", InitOnly);
  (* GCPMultiEndpoint *)
  ("GCPMultiEndpoint", "defaultName", GuardedBy GME);
  ("GCPMultiEndpoint", "mes", GuardedBy GME);
  ("GCPMultiEndpoint", "pools", GuardedBy GME);
  ("GCPMultiEndpoint", "opts", InitOnly);
  ("GCPMultiEndpoint", "gcpConfig", InitOnly);
  ("GCPMultiEndpoint", "dialFunc", InitOnly);            (* defaulted in the constructor before gme escapes *)
  ("GCPMultiEndpoint", "log", InitOnly);
  ("GCPMultiEndpoint", "ClientConnInterface", InitOnly); (* never set *)
  ("monitoredConn", "endpoint", InitOnly);
  ("monitoredConn", "conn", InitOnly);
  ("monitoredConn", "gme", InitOnly);
  ("monitoredConn", "cancel", InitOnly);
  (* multiendpoint *)
  ("multiEndpoint", "endpoints", GuardedBy ME);
  ("multiEndpoint", "current", GuardedBy ME);
  ("multiEndpoint", "future", GuardedBy ME);
  ("multiEndpoint", "recoveryTimeout", InitOnly);
  ("multiEndpoint", "switchingDelay", InitOnly);
  ("endpoint", "id", InitOnly);
  ("endpoint", "priority", GuardedBy ME);                (* endpoints belong to exactly one multiEndpoint *)
  ("endpoint", "status", GuardedBy ME);
  ("endpoint", "lastChange", GuardedBy ME);
  ("endpoint", "futureChange", GuardedBy ME);
  (* stream interceptor *)
  ("gcpClientStream", "ClientStream", WriteOnce CS);
     (* set once by the first SendMsg under the mutex (guard cs.ClientStream == nil); SendMsg/RecvMsg use it after
        leaving a critical section in which they saw it non-nil (RecvMsg loops on the condition variable until then) *)
  ("gcpClientStream", "initStreamErr", GuardedBy CS);
  ("gcpClientStream", "watching", GuardedBy CS);  (* set once under the stream mutex when the ctx watcher goroutine is started (fix S2) *)
  ("gcpClientStream", "cond", InitOnly);
  ("gcpClientStream", "ctx", InitOnly);
  ("gcpClientStream", "desc", InitOnly);
  ("gcpClientStream", "cc", InitOnly);
  ("gcpClientStream", "method", InitOnly);
  ("gcpClientStream", "streamer", InitOnly);
  ("gcpClientStream", "opts", InitOnly);
  ("gcpContext", "reqMsg", InitOnly);
  ("gcpContext", "replyMsg", InitOnly)
].

Fixpoint lookup_policy (t f : string) (l : list (string * string * policy)) : option policy :=
  match l with
  | [] => None
  | (t', f', p) :: r => if String.eqb t t' && String.eqb f f' then Some p else lookup_policy t f r
  end.

Definition field_policy (t f : string) : option policy := lookup_policy t f policy_table.

(* Lock order: a thread may acquire a lock only while holding locks of strictly smaller rank.
   stream mutex < GCPMultiEndpoint.mu < multiEndpoint lock < picker mutex < balancer mutex:
   SendMsg creates the real stream (-> Pick) under the stream mutex; UpdateMultiEndpoints/notify call into
   MultiEndpoints under gme.mu and dial/close pools (-> balancer) under it; Pick calls into the balancer under p.mu. *)
Definition lock_rank (l : string) : option nat :=
  if String.eqb l CS then Some 0 else
  if String.eqb l GME then Some 1 else
  if String.eqb l ME then Some 2 else
  if String.eqb l GP then Some 3 else
  if String.eqb l GB then Some 4 else None.

(* Calls into other packages made while a lock is held that are accepted as non-blocking
   (they neither wait for another goroutine of this library nor call back into it synchronously). Prefixes. *)
Definition nonblocking_callees : list string := [
  "grpclog.";                       (* logging *)
  "fmt."; "strings."; "errors."; "time.Now"; "time.NewTicker"; "time.Ticker.Stop";
  "grpc_gcp."; "proto.Clone";       (* generated getters, clone *)
  "context.";                       (* WithValue / Background / WithCancel *)
  "balancer.ClientConn.NewSubConn"; "balancer.ClientConn.RemoveSubConn"; "balancer.ClientConn.UpdateState";
                                    (* gRPC 1.56: handled by the channel, never call back into the balancer synchronously *)
  "balancer.SubConn.Connect"; "balancer.SubConn.UpdateAddresses";   (* asynchronous *)
  "grpc.ClientConn.GetState"; "grpc.ClientConn.Close"; "grpc.Dial";
                                    (* under gme.mu only; closing/dialling a pool needs no lock of this library *)
  "funcvalue:GCPMultiEndpoint.dialFunc";   (* user DialFunc under gme.mu: must not call back into the GCPMultiEndpoint (documented limit) *)
  "funcvalue:gcpClientStream.streamer";    (* may wait for a connection, holding only the stream's own mutex; RecvMsg waits for it by design *)
  "funcvalue:monitoredConn.cancel";        (* context.CancelFunc *)
  "funcvalue:timeAfterFunc"; "funcvalue:timeNow"; "multiendpoint.timerAlike.Stop"  (* time.AfterFunc / Timer.Stop do not wait for the callback *)
].

Definition nonblocking (callee : string) : bool :=
  existsb (fun p => String.prefix p callee) nonblocking_callees.

(* unknown rows discharged by a justified annotation: (function, prefix of the message). None needed on the clean tree. *)
Definition discharged_unknowns : list (string * string) := [].
