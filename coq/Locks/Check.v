(* Boolean checkers over the regenerated tables and their soundness with respect
   to the hypotheses of the generic theorems (DRF.v, Deadlock.v). *)
From Coq Require Import String List Bool Arith Lia Relations.
From GV Require Import Locks.Tables Locks.Policy Locks.DRF Locks.Deadlock.
Import ListNotations.
Open Scope string_scope.

(* ---------------------------------------------------------------------- *)
(* checkers *)

Definition site_ok (s : site) : bool :=
  match field_policy (s_type s) (s_field s) with
  | None => false
  | Some (GuardedBy l) => s_fresh s || holds (s_must s) l (is_write (s_kind s))
  | Some Atomic => s_fresh s || s_atomic s
  | Some InitOnly => if is_write (s_kind s) then s_fresh s else true
  | Some (PublishedBy l fns) =>
      if is_write (s_kind s) then s_fresh s || (holds (s_must s) l true && mem_str (s_func s) fns) else true
  | Some (WriteOnce l) =>
      if is_write (s_kind s) then s_fresh s || holds (s_must s) l true
      else s_fresh s || holds (s_must s) l false || mem_str l (s_released s)
  end.

Definition rank_lt (a b : string) : bool :=
  match lock_rank a, lock_rank b with
  | Some x, Some y => Nat.ltb x y
  | _, _ => false
  end.

(* no acquisition while possibly holding a lock that is not strictly lower in the order
   (in particular: the same lock, in any mode) *)
Definition acquire_ok (a : acq) : bool :=
  match lock_rank (a_lock a) with
  | None => false
  | Some _ => forallb (fun p => rank_lt (fst p) (a_lock a)) (a_may a)
  end.

Definition is_nil {A} (l : list A) : bool := match l with [] => true | _ => false end.

(* no blocking operation while a lock may be held, except cond.Wait on its own mutex
   and the calls accepted as non-blocking by the policy *)
Definition block_ok (b : blk) : bool :=
  match b_kind b with
  | BCondWait => forallb (fun p => String.eqb (fst p) (b_lock b)) (b_may b)
  | BExtCall => nonblocking (b_what b) || is_nil (b_may b)
  | _ => is_nil (b_may b)
  end.

Definition order_edges (acqs : list acq) : list (string * string) :=
  flat_map (fun a => map (fun p => (fst p, a_lock a)) (a_may a)) acqs.

Definition order_acyclic (acqs : list acq) : bool :=
  forallb (fun e => rank_lt (fst e) (snd e)) (order_edges acqs).

Definition unknown_ok (u : unk) : bool :=
  existsb (fun d => String.eqb (fst d) (u_func u) && String.prefix (snd d) (u_what u)) discharged_unknowns.

(* ---------------------------------------------------------------------- *)
(* atomicity groups and counters (Policy.groups / Policy.counters) over the scoped table *)

Definition mkind_matches (mk : mkind) (k : akind) : bool :=
  match mk with MAny => true | MRead => negb (is_write k) | MWrite => is_write k end.

Definition member_matches (m : member) (r : srow) : bool :=
  String.eqb (m_type m) (r_type r) && String.eqb (m_field m) (r_field r) && mkind_matches (m_kind m) (r_kind r).

(* a field whose protection is a lock (or unknown): InitOnly and Atomic fields need no section *)
Definition protected_field (t f : string) : bool :=
  match field_policy t f with Some InitOnly | Some Atomic => false | _ => true end.

Definition relevant (g : group) (r : srow) : bool :=
  (g_all g && protected_field (r_type r) (r_field r)) || existsb (fun m => member_matches m r) (g_members g).

Definition unlocked_ok (g : group) (r : srow) : bool :=
  existsb (fun m => member_matches m r && m_unlocked_ok m) (g_members g).

Fixpoint strs_eqb (a b : list string) : bool :=
  match a, b with
  | [], [] => true
  | x :: a', y :: b' => String.eqb x y && strs_eqb a' b'
  | _, _ => false
  end.

(* the row certainly runs inside section instance s of lock l, and in no other *)
Definition row_in_section (l s : string) (r : srow) : bool :=
  strs_eqb (sec_of l (r_sec r)) [s] && holds (r_must r) l false.

Definition row_ok (g : group) (s : string) (r : srow) : bool :=
  row_in_section (g_lock g) s r || (unlocked_ok g r && is_nil (sec_of (g_lock g) (r_sec r))).

Definition group_rows (g : group) (tbl : list srow) : list srow :=
  filter (fun r => String.eqb (r_root r) (g_fn g) && relevant g r) tbl.

Fixpoint first_id (l : string) (rows : list srow) : option string :=
  match rows with
  | [] => None
  | r :: rest => match sec_of l (r_sec r) with [s] => Some s | _ => first_id l rest end
  end.

(* all members of the group run in ONE section instance of the group's lock, and every explicit member occurs in it *)
Definition group_ok (tbl : list srow) (g : group) : bool :=
  match first_id (g_lock g) (group_rows g tbl) with
  | None => false
  | Some s =>
      forallb (row_ok g s) (group_rows g tbl) &&
      forallb (fun m => existsb (fun r => member_matches m r && row_in_section (g_lock g) s r) (group_rows g tbl)) (g_members g)
  end.

Fixpoint lookup_counter (t f : string) (l : list (string * string * list aop * list string * string)) : option (list aop) :=
  match l with
  | [] => None
  | (t', f', ops, _, _) :: r => if String.eqb t t' && String.eqb f f' then Some ops else lookup_counter t f r
  end.

(* a counter field is only touched by its allowed sync/atomic operations (or while the object is fresh) *)
Definition counter_ok (s : site) : bool :=
  match lookup_counter (s_type s) (s_field s) counters with
  | None => true
  | Some ops => s_fresh s || (s_atomic s && existsb (aop_eqb (s_op s)) ops)
  end.

(* ---------------------------------------------------------------------- *)
(* small facts *)

Lemma mode_eqb_eq : forall a b, mode_eqb a b = true -> a = b.
Proof. destruct a, b; simpl; congruence. Qed.

Lemma holds_spec : forall h l nw, holds h l nw = true ->
    exists m, In (l, m) h /\ (nw = true -> m = MW).
Proof.
  intros h l nw H. unfold holds in H. apply existsb_exists in H.
  destruct H as [[l' m] [Hin H]]. simpl in H. apply andb_true_iff in H. destruct H as [H1 H2].
  apply String.eqb_eq in H1. subst l'. exists m. split; auto.
  intros ->. apply mode_eqb_eq in H2. auto.
Qed.

Definition rank_of (l : string) : nat := match lock_rank l with Some r => r | None => 0 end.

Lemma rank_lt_spec : forall a b, rank_lt a b = true -> rank_of a < rank_of b.
Proof.
  intros a b H. unfold rank_lt, rank_of in *.
  destruct (lock_rank a), (lock_rank b); try discriminate. apply Nat.ltb_lt; auto.
Qed.

Lemma acquire_ok_sound : forall acqs, forallb acquire_ok acqs = true ->
    forall a, In a acqs -> forall L m, In (L, m) (a_may a) -> rank_of L < rank_of (a_lock a).
Proof.
  intros acqs H a Ha L m Hin. rewrite forallb_forall in H. specialize (H a Ha).
  unfold acquire_ok in H. destruct (lock_rank (a_lock a)); try discriminate.
  rewrite forallb_forall in H. specialize (H (L, m) Hin). simpl in H. apply rank_lt_spec; auto.
Qed.

(* the acquired-while-holding relation on lock classes has no cycle *)
Definition order_rel (acqs : list acq) (a b : string) : Prop := In (a, b) (order_edges acqs).

Theorem order_acyclic_sound : forall acqs, order_acyclic acqs = true ->
    forall l, ~ clos_trans _ (order_rel acqs) l l.
Proof.
  intros acqs H. apply ranked_acyclic with (rk := rank_of).
  intros a b Hab. unfold order_acyclic in H. rewrite forallb_forall in H.
  specialize (H (a, b) Hab). simpl in H. apply rank_lt_spec; auto.
Qed.

(* ---------------------------------------------------------------------- *)
(* C10: from the table to the lockset theorem *)

Section TableDRF.
  Variables thread lockinst loc : Type.
  Variable thread_eq_dec : forall a b : thread, {a = b} + {a <> b}.
  Variable lock_eq_dec : forall a b : lockinst, {a = b} + {a <> b}.

  Variable cls : loc -> string * string.     (* (struct, field) of a memory location *)
  Variable guard : loc -> lockinst.          (* the lock instance of the object that owns the location *)
  Variable tbl : list site.

  Definition guard_class (c : string * string) : option string :=
    match field_policy (fst c) (snd c) with
    | Some (GuardedBy l) | Some (PublishedBy l _) | Some (WriteOnce l) => Some l
    | _ => None
    end.

  Definition sem_pol (x : loc) : lpol :=
    match field_policy (fst (cls x)) (snd (cls x)) with
    | Some (GuardedBy _) | None => PGuarded
    | Some Atomic => PAtomic
    | Some InitOnly => PInit
    | Some (PublishedBy _ _) | Some (WriteOnce _) => PLate
    end.

  Notation ev := (ev thread lockinst loc).
  Notation EAcc := (EAcc thread lockinst loc).

  (* What it means for an execution to be described by the table (the translator's claim,
     plus the instance assumption: a held lock class named by the policy of a field is held on the
     instance that owns the accessed object), and the publication contract for unlocked reads. *)
  Definition conforms (tr : trace thread lockinst loc) : Prop :=
    forall i t x w a f, ev tr i = Some (EAcc t x w a f) ->
      exists s, In s tbl /\ (s_type s, s_field s) = cls x /\
                w = is_write (s_kind s) /\ a = s_atomic s /\ f = s_fresh s /\
                (forall L m, In (L, m) (s_must s) -> guard_class (cls x) = Some L ->
                             held_at thread lockinst loc tr i t (guard x) m) /\
                (sem_pol x = PLate -> w = false -> f = false ->
                 (forall L, guard_class (cls x) = Some L -> holds (s_must s) L false = false) ->
                 late thread lockinst loc tr i t x).

  Lemma holds_false_or : forall h l b, holds h l b = true \/ holds h l b = false.
  Proof. intros. destruct (holds h l b); auto. Qed.

  Theorem site_ok_sound : forall tr,
      forallb site_ok tbl = true -> conforms tr ->
      forall i, access_ok thread lockinst loc sem_pol guard tr i.
  Proof.
    intros tr Hall Hc i t x w a f E.
    destruct (Hc i t x w a f E) as [s [Hin [Hcls [Hw [Ha [Hf [Hheld Hlate]]]]]]].
    rewrite forallb_forall in Hall. specialize (Hall s Hin). unfold site_ok in Hall.
    unfold sem_pol in *. unfold guard_class in *. rewrite <- Hcls in *. simpl in *.
    assert (HH : forall l nw, holds (s_must s) l nw = true ->
                 (field_policy (s_type s) (s_field s) = Some (GuardedBy l) \/
                  (exists fs, field_policy (s_type s) (s_field s) = Some (PublishedBy l fs)) \/
                  field_policy (s_type s) (s_field s) = Some (WriteOnce l)) ->
                 (nw = w) -> holds_for thread lockinst loc tr i t (guard x) w).
    { intros l nw Hh Hp Hnw. apply holds_spec in Hh. destruct Hh as [m [Hm Hmw]].
      assert (Hg : held_at thread lockinst loc tr i t (guard x) m).
      { apply (Hheld l m Hm). destruct Hp as [-> | [[fs ->] | ->]]; reflexivity. }
      unfold holds_for. destruct w.
      - assert (m = MW) by (apply Hmw; congruence). subst m. exact Hg.
      - exists m; exact Hg. }
    destruct (field_policy (s_type s) (s_field s)) as [p|] eqn:P; [|discriminate].
    destruct p as [l | | | l fs | l].
    - (* GuardedBy *)
      apply orb_true_iff in Hall. destruct Hall as [H | H].
      + left. congruence.
      + right. apply (HH l _ H); [left; reflexivity | congruence].
    - (* Atomic *)
      apply orb_true_iff in Hall. destruct Hall as [H | H]; [left | right]; congruence.
    - (* InitOnly *)
      intros Hwt. rewrite Hw in Hwt. rewrite Hwt in Hall. congruence.
    - (* PublishedBy *)
      destruct (is_write (s_kind s)) eqn:K.
      + apply orb_true_iff in Hall. destruct Hall as [H | H].
        * left. congruence.
        * apply andb_true_iff in H. destruct H as [H _]. right. left.
          apply (HH l _ H); [right; left; exists fs; reflexivity | congruence].
      + destruct (s_fresh s) eqn:Fr; [left; congruence|].
        destruct (holds_false_or (s_must s) l false) as [H | H].
        * right. left. apply (HH l _ H); [right; left; exists fs; reflexivity | congruence].
        * right. right. split; [congruence|]. apply Hlate; auto; try congruence;
            try (intros L HL; inversion HL; subst; exact H).
    - (* WriteOnce *)
      destruct (is_write (s_kind s)) eqn:K.
      + apply orb_true_iff in Hall. destruct Hall as [H | H].
        * left. congruence.
        * right. left. apply (HH l _ H); [right; right; reflexivity | congruence].
      + destruct (s_fresh s) eqn:Fr; [left; congruence|].
        destruct (holds_false_or (s_must s) l false) as [H | H].
        * right. left. apply (HH l _ H); [right; right; reflexivity | congruence].
        * right. right. split; [congruence|]. apply Hlate; auto; try congruence;
            try (intros L HL; inversion HL; subst; exact H).
  Qed.

  Theorem table_race_free : forall tr,
      forallb site_ok tbl = true ->
      consistent thread lockinst loc tr -> fresh_wf thread lockinst loc tr -> conforms tr ->
      ~ race thread lockinst loc tr.
  Proof.
    intros tr Hall Hc Hf Hcf.
    eapply lockset_race_free; eauto. apply site_ok_sound; auto.
  Qed.
End TableDRF.

(* ---------------------------------------------------------------------- *)
(* C06 (interleaving part): from the tables to the deadlock theorem *)

Section TableDeadlock.
  Variables thread lockinst : Type.
  Variable lcls : lockinst -> string.                 (* class of a lock instance *)
  Variable holds_l : thread -> lockinst -> Prop.
  Variable waiting : thread -> option lockinst.
  Variable blocked : thread -> Prop.
  Variable acqs : list acq.
  Variable blks : list blk.

  (* the translator's claim about a state: a thread waiting in Lock()/RLock() is at an acquire row whose
     may-held set covers everything it holds; a thread blocked in a blocking operation (calls accepted as
     non-blocking by the policy do not count) is at a block row likewise, and during cond.Wait the
     condition's own lock is released *)
  Definition state_conforms : Prop :=
    (forall t l, waiting t = Some l ->
       exists a, In a acqs /\ a_lock a = lcls l /\
                 forall l', holds_l t l' -> exists m, In (lcls l', m) (a_may a)) /\
    (forall t, blocked t ->
       exists b, In b blks /\
                 (b_kind b = BExtCall -> nonblocking (b_what b) = false) /\
                 forall l', holds_l t l' ->
                   (exists m, In (lcls l', m) (b_may b)) /\ (b_kind b = BCondWait -> lcls l' <> b_lock b)).

  Theorem table_no_wait_cycle :
      forallb acquire_ok acqs = true -> state_conforms ->
      ~ exists t, clos_trans _ (waits_for thread lockinst holds_l waiting) t t.
  Proof.
    intros Ha [Hw _]. apply no_wait_cycle with (rank := fun l => rank_of (lcls l)).
    intros t l l' W H. destruct (Hw t l W) as [a [Hin [Hl Hcov]]].
    destruct (Hcov l' H) as [m Hm]. rewrite <- Hl. eapply acquire_ok_sound; eauto.
  Qed.

  Theorem table_blocked_holds_nothing :
      forallb block_ok blks = true -> state_conforms ->
      forall t l, blocked t -> ~ holds_l t l.
  Proof.
    intros Hb [_ Hbl] t l B H. destruct (Hbl t B) as [b [Hin [Hext Hcov]]].
    destruct (Hcov l H) as [[m Hm] Hcw].
    rewrite forallb_forall in Hb. specialize (Hb b Hin). unfold block_ok in Hb.
    destruct (b_kind b) eqn:K;
      try (destruct (b_may b); [inversion Hm | discriminate]).
    - (* cond-wait *)
      rewrite forallb_forall in Hb. specialize (Hb _ Hm). simpl in Hb.
      apply String.eqb_eq in Hb. apply Hcw; auto.
    - (* extcall that is not accepted as non-blocking *)
      rewrite (Hext eq_refl) in Hb. simpl in Hb.
      destruct (b_may b); [inversion Hm | discriminate].
  Qed.

  Theorem table_waiter_reaches_runnable :
      forallb acquire_ok acqs = true -> forallb block_ok blks = true -> state_conforms ->
      (forall t l, waiting t = Some l -> exists u, holds_l u l) ->
      forall t l, waiting t = Some l ->
        exists u, clos_trans _ (waits_for thread lockinst holds_l waiting) t u /\ waiting u = None /\ ~ blocked u.
  Proof.
    intros Ha Hb Hs Hheld t l W.
    apply waiter_reaches_runnable with (rank := fun l => rank_of (lcls l)) (N := 5) (l := l); auto.
    - intros t0 l0 l' W0 H. destruct Hs as [Hw _]. destruct (Hw t0 l0 W0) as [a [Hin [Hl Hcov]]].
      destruct (Hcov l' H) as [m Hm]. rewrite <- Hl. eapply acquire_ok_sound; eauto.
    - apply table_blocked_holds_nothing; auto.
    - intros l0. unfold rank_of, lock_rank.
      repeat match goal with |- context [if ?c then _ else _] => destruct c end; lia.
  Qed.
End TableDeadlock.

(* ---------------------------------------------------------------------- *)
(* atomicity groups: from the scoped table to DRF.group_atomic *)

Lemma strs_eqb_eq : forall a b, strs_eqb a b = true -> a = b.
Proof.
  induction a as [|x a IH]; destruct b as [|y b]; simpl; intros H; try discriminate; auto.
  apply andb_true_iff in H. destruct H as [H1 H2]. apply String.eqb_eq in H1. f_equal; auto.
Qed.

(* what group_ok establishes about the table: one section id for every sectioned member row of the root *)
Lemma group_ok_one_section : forall tbl g, group_ok tbl g = true ->
    exists s, forall r, In r tbl -> r_root r = g_fn g -> relevant g r = true ->
                forall id, sec_of (g_lock g) (r_sec r) = [id] -> id = s.
Proof.
  intros tbl g H. unfold group_ok in H.
  destruct (first_id (g_lock g) (group_rows g tbl)) as [s|]; [|discriminate].
  apply andb_true_iff in H. destruct H as [H _]. exists s.
  intros r Hin Hroot Hrel id Hid. rewrite forallb_forall in H.
  assert (Hg : In r (group_rows g tbl)).
  { unfold group_rows. apply filter_In. split; auto. rewrite Hroot, String.eqb_refl. simpl. exact Hrel. }
  specialize (H r Hg). unfold row_ok in H. apply orb_true_iff in H. destruct H as [H | H].
  - unfold row_in_section in H. apply andb_true_iff in H. destruct H as [H _].
    apply strs_eqb_eq in H. rewrite Hid in H. inversion H. reflexivity.
  - apply andb_true_iff in H. destruct H as [_ H]. rewrite Hid in H. discriminate.
Qed.

Section TableGroup.
  Variables thread lockinst loc : Type.
  Variable tr : trace thread lockinst loc.
  Variable tbl : list srow.
  Variable g : group.
  (* one execution of the group's root function by thread t, on the objects owned by lock instance l *)
  Variable t : thread.
  Variable l : lockinst.
  Variable members : nat -> Prop.                       (* indices of its member access events *)
  Variable row_of : nat -> option srow.                 (* the scoped row describing a member event *)
  Variable opened : string -> option (nat * mode).      (* where this execution opened section instance id *)

  (* the translator's claim about this execution *)
  Definition group_conforms : Prop :=
    forall i, members i ->
      exists r, row_of i = Some r /\ In r tbl /\ r_root r = g_fn g /\ relevant g r = true /\
                forall id, sec_of (g_lock g) (r_sec r) = [id] ->
                  exists k m, opened id = Some (k, m) /\ in_section thread lockinst loc tr k t l m i.

  Definition sectioned (i : nat) : Prop :=
    exists r id, row_of i = Some r /\ sec_of (g_lock g) (r_sec r) = [id].

  (* between two member accesses of the execution, another thread that follows the lock discipline can only
     read, and only if the group itself runs in a read section *)
  Theorem table_group_atomic :
      group_ok tbl g = true -> consistent thread lockinst loc tr -> group_conforms ->
      forall i j, members i -> members j -> sectioned i -> sectioned j ->
      forall w u x wr a f, i <= w -> w <= j ->
        ev thread lockinst loc tr w = Some (EAcc thread lockinst loc u x wr a f) -> u <> t ->
        holds_for thread lockinst loc tr w u l wr ->
        wr = false /\ exists k, in_section thread lockinst loc tr k t l MR i /\ in_section thread lockinst loc tr k t l MR j.
  Proof.
    intros Hok Hc Hconf i j Mi Mj [ri [idi [Ri Si]]] [rj [idj [Rj Sj]]] w u x wr a f Hiw Hwj Ew Hut Hh.
    destruct (group_ok_one_section tbl g Hok) as [s Hs].
    destruct (Hconf i Mi) as [ri' [Ri' [Ini [Rooti [Reli Hi]]]]].
    destruct (Hconf j Mj) as [rj' [Rj' [Inj [Rootj [Relj Hj]]]]].
    rewrite Ri in Ri'. inversion Ri'; subst ri'. rewrite Rj in Rj'. inversion Rj'; subst rj'.
    assert (idi = s) by (exact (Hs ri Ini Rooti Reli idi Si)).
    assert (idj = s) by (exact (Hs rj Inj Rootj Relj idj Sj)). subst idi idj.
    destruct (Hi s Si) as [k [m [Ok Seci]]]. destruct (Hj s Sj) as [k' [m' [Ok' Secj]]].
    rewrite Ok in Ok'. inversion Ok'; subst k' m'.
    destruct (group_atomic thread lockinst loc tr k t l m i j w u x wr a f Hc Seci Secj Hiw Hwj Ew Hut Hh) as [Hm Hwr].
    subst m. split; auto. exists k. split; auto.
  Qed.
End TableGroup.

(* counters: what counter_ok establishes about the table *)
Lemma counter_ok_ops : forall tbl, forallb counter_ok tbl = true ->
    forall s ops, In s tbl -> lookup_counter (s_type s) (s_field s) counters = Some ops -> s_fresh s = false ->
      s_atomic s = true /\ existsb (aop_eqb (s_op s)) ops = true.
Proof.
  intros tbl H s ops Hin Hl Hf. rewrite forallb_forall in H. specialize (H s Hin).
  unfold counter_ok in H. rewrite Hl, Hf in H. simpl in H. apply andb_true_iff in H. exact H.
Qed.

