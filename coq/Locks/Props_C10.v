(* C10 (data-race freedom) and the interleaving half of C06: the theorems the
   check relies on, their assumptions, and non-vacuity examples.  The per-run
   instance (forallb site_ok accesses = true, ... over the table regenerated
   from the working tree) is compiled by tools/eng_locks.py. *)
From Coq Require Import String List Bool Arith Relations Lia ZArith Permutation.
From GV Require Import Locks.Tables Locks.Policy Locks.DRF Locks.Deadlock Locks.Check Locks.RefFacts.
Import ListNotations.
Open Scope string_scope.

(* every execution whose accesses follow the policy of their location is race free *)
Theorem C10_lockset_race_free :
  forall thread lockinst loc : Type,
    (forall a b : thread, {a = b} + {a <> b}) ->
    (forall a b : lockinst, {a = b} + {a <> b}) ->
    forall (pol : loc -> lpol) (guard : loc -> lockinst) (tr : trace thread lockinst loc),
      consistent thread lockinst loc tr ->
      fresh_wf thread lockinst loc tr ->
      (forall i : nat, access_ok thread lockinst loc pol guard tr i) -> ~ race thread lockinst loc tr.
Proof. exact lockset_race_free. Qed.

(* ... in particular every execution described by a table all of whose rows pass site_ok *)
Theorem C10_table_race_free :
  forall thread lockinst loc : Type,
    (forall a b : thread, {a = b} + {a <> b}) ->
    (forall a b : lockinst, {a = b} + {a <> b}) ->
    forall (cls : loc -> string * string) (guard : loc -> lockinst) (tbl : list site) (tr : trace thread lockinst loc),
      forallb site_ok tbl = true ->
      consistent thread lockinst loc tr ->
      fresh_wf thread lockinst loc tr ->
      conforms thread lockinst loc cls guard tbl tr -> ~ race thread lockinst loc tr.
Proof. exact table_race_free. Qed.

Theorem C06_table_no_wait_cycle :
  forall (thread lockinst : Type) (lcls : lockinst -> string) (holds_l : thread -> lockinst -> Prop)
         (waiting : thread -> option lockinst) (blocked : thread -> Prop) (acqs : list acq) (blks : list blk),
    forallb acquire_ok acqs = true ->
    state_conforms thread lockinst lcls holds_l waiting blocked acqs blks ->
    ~ (exists t : thread, clos_trans thread (waits_for thread lockinst holds_l waiting) t t).
Proof. exact table_no_wait_cycle. Qed.

Theorem C06_table_blocked_holds_nothing :
  forall (thread lockinst : Type) (lcls : lockinst -> string) (holds_l : thread -> lockinst -> Prop)
         (waiting : thread -> option lockinst) (blocked : thread -> Prop) (acqs : list acq) (blks : list blk),
    forallb block_ok blks = true ->
    state_conforms thread lockinst lcls holds_l waiting blocked acqs blks ->
    forall (t : thread) (l : lockinst), blocked t -> ~ holds_l t l.
Proof. exact table_blocked_holds_nothing. Qed.

Theorem C06_table_waiter_reaches_runnable :
  forall (thread lockinst : Type) (lcls : lockinst -> string) (holds_l : thread -> lockinst -> Prop)
         (waiting : thread -> option lockinst) (blocked : thread -> Prop) (acqs : list acq) (blks : list blk),
    forallb acquire_ok acqs = true ->
    forallb block_ok blks = true ->
    state_conforms thread lockinst lcls holds_l waiting blocked acqs blks ->
    (forall (t : thread) (l : lockinst), waiting t = Some l -> exists u : thread, holds_l u l) ->
    forall (t : thread) (l : lockinst),
      waiting t = Some l ->
      exists u : thread,
        clos_trans thread (waits_for thread lockinst holds_l waiting) t u /\ waiting u = None /\ ~ blocked u.
Proof. exact table_waiter_reaches_runnable. Qed.

Theorem C06_order_acyclic :
  forall acqs : list acq, order_acyclic acqs = true ->
    forall l : string, ~ clos_trans string (order_rel acqs) l l.
Proof. exact order_acyclic_sound. Qed.

Print Assumptions C10_lockset_race_free.
Print Assumptions C10_table_race_free.
Print Assumptions C06_table_no_wait_cycle.
Print Assumptions C06_table_blocked_holds_nothing.
Print Assumptions C06_table_waiter_reaches_runnable.
Print Assumptions C06_order_acyclic.

(* ---------------------------------------------------------------------- *)
(* atomicity granularity (logical races): groups of accesses inside one critical-section instance, counters *)

Theorem C10_group_atomic :
  forall (thread lockinst loc : Type) (tr : trace thread lockinst loc) (k : nat) (t : thread)
         (l : lockinst) (m : mode) (i j w : nat) (u : thread) (x : loc) (wr a f : bool),
    consistent thread lockinst loc tr ->
    in_section thread lockinst loc tr k t l m i ->
    in_section thread lockinst loc tr k t l m j ->
    i <= w -> w <= j ->
    ev thread lockinst loc tr w = Some (EAcc thread lockinst loc u x wr a f) ->
    u <> t -> holds_for thread lockinst loc tr w u l wr -> m = MR /\ wr = false.
Proof. exact group_atomic. Qed.

Theorem C10_table_group_atomic :
  forall (thread lockinst loc : Type) (tr : trace thread lockinst loc) (tbl : list srow)
         (g : group) (t : thread) (l : lockinst) (members : nat -> Prop) (row_of : nat -> option srow)
         (opened : string -> option (nat * mode)),
    group_ok tbl g = true ->
    consistent thread lockinst loc tr ->
    group_conforms thread lockinst loc tr tbl g t l members row_of opened ->
    forall i j : nat,
      members i -> members j -> sectioned g row_of i -> sectioned g row_of j ->
      forall (w : nat) (u : thread) (x : loc) (wr a f : bool),
        i <= w -> w <= j ->
        ev thread lockinst loc tr w = Some (EAcc thread lockinst loc u x wr a f) ->
        u <> t ->
        holds_for thread lockinst loc tr w u l wr ->
        wr = false /\
        (exists k : nat, in_section thread lockinst loc tr k t l MR i /\ in_section thread lockinst loc tr k t l MR j).
Proof. exact table_group_atomic. Qed.

Theorem C10_counter_no_lost_update :
  forall (ops : list cop) (v : Z), forallb add_or_load ops = true -> crun ops v = (v + adds ops)%Z.
Proof. exact counter_no_lost_update. Qed.

Theorem C10_counter_interleaving_independent :
  forall (ops ops' : list cop) (v : Z),
    Permutation ops ops' -> forallb add_or_load ops = true -> crun ops v = crun ops' v.
Proof. exact counter_interleaving_independent. Qed.

Theorem C10_counter_since_reset :
  forall (pre post : list cop) (c v : Z),
    forallb add_or_load post = true -> crun (pre ++ CStore c :: post) v = (c + adds post)%Z.
Proof. exact counter_since_reset. Qed.

Theorem C10_counter_rows :
  forall tbl : list site, forallb counter_ok tbl = true ->
    forall (s : site) (ops : list aop), In s tbl ->
      lookup_counter (s_type s) (s_field s) counters = Some ops -> s_fresh s = false ->
      s_atomic s = true /\ existsb (aop_eqb (s_op s)) ops = true.
Proof. exact counter_ok_ops. Qed.

Print Assumptions C10_group_atomic.
Print Assumptions C10_table_group_atomic.
Print Assumptions C10_counter_no_lost_update.
Print Assumptions C10_counter_interleaving_independent.
Print Assumptions C10_counter_since_reset.
Print Assumptions C10_counter_rows.

(* ---------------------------------------------------------------------- *)
(* non-vacuity: the semantics has racy executions, and the lock discipline removes them *)

Definition T := trace nat nat nat.
Notation Acq := (EAcq nat nat nat). Notation Rel := (ERel nat nat nat). Notation Acc := (EAcc nat nat nat).

(* two threads write location 7 with no synchronization *)
Definition racy : T := [Acc 1 7 true false false; Acc 2 7 true false false].

Lemma racy_no_hb : forall i j, hb nat nat nat racy i j -> False.
Proof.
  induction 1; auto;
    repeat (match goal with
            | H : ev _ _ _ racy ?i = Some _ |- _ =>
                destruct i as [|[|[|?]]]; simpl in H; try discriminate; inversion H; subst; clear H
            end); simpl in *; try discriminate; try lia.
Qed.

Example racy_has_race : race nat nat nat racy.
Proof.
  exists 0, 1, 1, 2, 7, true, false, false, true, false, false.
  repeat split; auto. intros [_ H]; discriminate. exact (racy_no_hb 0 1).
Qed.

Example racy_is_consistent : consistent nat nat nat racy.
Proof.
  intros j u l m2 H. destruct j as [|[|[|?]]]; simpl in H; discriminate.
Qed.

(* the same two writes inside critical sections of lock 3 are ordered *)
Definition locked : T :=
  [Acq 1 3 MW; Acc 1 7 true false false; Rel 1 3 MW; Acq 2 3 MW; Acc 2 7 true false false; Rel 2 3 MW].

Example locked_ordered : hb nat nat nat locked 1 4.
Proof.
  apply hb_trans with 2. { eapply hb_po; simpl; eauto. }
  apply hb_trans with 3. { eapply hb_sync; simpl; eauto. }
  eapply hb_po; simpl; eauto.
Qed.

(* the checkers do reject: rows of the unfixed tree (DR1, DR2, DR4; a self-acquisition; a receive under a lock) *)
Example bad_row_DR1 :
  site_ok (mkSite "gcp_multiendpoint.go" 140 "GCPMultiEndpoint.pickConn" "GCPMultiEndpoint" "mes" KCRead false false [] [] [] [CxApp] OpPlain) = false.
Proof. vm_compute. reflexivity. Qed.
Example bad_row_DR2 :
  site_ok (mkSite "gcp_balancer.go" 195 "subConnRef.gotResp" "subConnRef" "lastResp" KWrite false false [] [] [] [CxDone] OpPlain) = false.
Proof. vm_compute. reflexivity. Qed.
Example read_lock_does_not_allow_write :
  site_ok (mkSite "x.go" 1 "f" "gcpBalancer" "scRefs" KCWrite false false [(GB, MR)] [(GB, MR)] [] [CxPick] OpPlain) = false.
Proof. vm_compute. reflexivity. Qed.
Example good_row :
  site_ok (mkSite "gcp_balancer.go" 357 "gcpBalancer.addSubConn" "gcpBalancer" "scRefs" KCWrite false false [(GB, MW)] [(GB, MW); (GP, MW)] [] [CxCallback; CxPick] OpPlain) = true.
Proof. vm_compute. reflexivity. Qed.
Example unknown_field_is_rejected :
  site_ok (mkSite "x.go" 1 "f" "gcpBalancer" "brandNewField" KRead false false [(GB, MW)] [(GB, MW)] [] [CxPick] OpPlain) = false.
Proof. vm_compute. reflexivity. Qed.
Example self_acquire_rejected :
  acquire_ok (mkAcq "gcp_balancer.go" 327 "gcpBalancer.newSubConn" GB MW [(GB, MW)] [(GB, MW)]) = false.
Proof. vm_compute. reflexivity. Qed.
Example rlock_under_rlock_rejected :
  acquire_ok (mkAcq "x.go" 1 "f" GB MR [(GB, MR)] [(GB, MR)]) = false.
Proof. vm_compute. reflexivity. Qed.
Example inverted_order_rejected :
  acquire_ok (mkAcq "x.go" 1 "f" GP MW [] [(GB, MW)]) = false.
Proof. vm_compute. reflexivity. Qed.
Example receive_under_lock_rejected :
  block_ok (mkBlk "x.go" 1 "f" BChanRecv "ch" "" [(GB, MW)] [(GB, MW)]) = false.
Proof. vm_compute. reflexivity. Qed.
Example cond_wait_on_own_mutex_accepted :
  block_ok (mkBlk "gcp_interceptor.go" 122 "gcpClientStream.RecvMsg" BCondWait "cs.cond" CS [(CS, MW)] [(CS, MW)]) = true.
Proof. vm_compute. reflexivity. Qed.

(* lost update: two increments written as Load ... Store (both threads load 5, both store 6) add only one *)
Example load_store_loses_an_update : crun [CLoad; CLoad; CStore 6; CStore 6] 5 = 6%Z /\ crun [CAdd 1; CAdd 1] 5 = 7%Z.
Proof. split; reflexivity. Qed.

(* a foreign write between two reads of one read section contradicts the lock semantics: the trace is inconsistent *)
Definition torn : T :=
  [Acq 1 3 MR; Acc 1 7 false false false; Acq 2 3 MW; Acc 2 7 true false false; Rel 2 3 MW; Acc 1 8 false false false; Rel 1 3 MR].
Example torn_is_inconsistent : ~ consistent nat nat nat torn.
Proof.
  intros Hc. assert (H : held_at nat nat nat torn 2 1 3 MR).
  { exists 0. repeat split; simpl; auto. intros r H1 H2. assert (r = 1) by lia. subst r. simpl. discriminate. }
  assert (E : ev nat nat nat torn 2 = Some (Acq 2 3 MW)) by reflexivity.
  assert (Hne : 1 <> 2) by discriminate.
  destruct (Hc 2 2 3 MW E 1 MR Hne H) as [_ B]. discriminate.
Qed.

(* the group and counter checkers do reject: rows as produced for the seeded changes *)
Definition ex_pick_ok : list srow := [
  mkSrow "GCPMultiEndpoint.pickConn" "gcp_multiendpoint.go" 142 "GCPMultiEndpoint.pickConn" "GCPMultiEndpoint" "mes" KCRead OpPlain [(GME, MR)] [(GME, ["gcp_multiendpoint.go:140"])];
  mkSrow "GCPMultiEndpoint.pickConn" "gcp_multiendpoint.go" 144 "GCPMultiEndpoint.pickConn" "GCPMultiEndpoint" "defaultName" KRead OpPlain [(GME, MR)] [(GME, ["gcp_multiendpoint.go:140"])];
  mkSrow "GCPMultiEndpoint.pickConn" "multiendpoint.go" 140 "multiendpoint.multiEndpoint.Current" "multiEndpoint" "current" KRead OpPlain [(GME, MR); (ME, MR)] [(GME, ["gcp_multiendpoint.go:140"]); (ME, ["multiendpoint.go:138"])];
  mkSrow "GCPMultiEndpoint.pickConn" "gcp_multiendpoint.go" 146 "GCPMultiEndpoint.pickConn" "GCPMultiEndpoint" "pools" KCRead OpPlain [(GME, MR)] [(GME, ["gcp_multiendpoint.go:140"])]].
(* Current() and the pool lookup moved out of the first read section *)
Definition ex_pick_split : list srow := [
  mkSrow "GCPMultiEndpoint.pickConn" "gcp_multiendpoint.go" 142 "GCPMultiEndpoint.pickConn" "GCPMultiEndpoint" "mes" KCRead OpPlain [(GME, MR)] [(GME, ["gcp_multiendpoint.go:140"])];
  mkSrow "GCPMultiEndpoint.pickConn" "gcp_multiendpoint.go" 144 "GCPMultiEndpoint.pickConn" "GCPMultiEndpoint" "defaultName" KRead OpPlain [(GME, MR)] [(GME, ["gcp_multiendpoint.go:140"])];
  mkSrow "GCPMultiEndpoint.pickConn" "multiendpoint.go" 140 "multiendpoint.multiEndpoint.Current" "multiEndpoint" "current" KRead OpPlain [(ME, MR)] [(ME, ["multiendpoint.go:138"])];
  mkSrow "GCPMultiEndpoint.pickConn" "gcp_multiendpoint.go" 151 "GCPMultiEndpoint.pickConn" "GCPMultiEndpoint" "pools" KCRead OpPlain [(GME, MR)] [(GME, ["gcp_multiendpoint.go:149"])]].
Definition g_pick := nth 9 groups (mkGroup "" [] "" "" false [] "").
Example g_pick_is_pickConn : g_name g_pick = "gme.pickConn". Proof. reflexivity. Qed.
Example group_one_section_accepted : group_ok ex_pick_ok g_pick = true. Proof. vm_compute. reflexivity. Qed.
Example group_two_sections_rejected : group_ok ex_pick_split g_pick = false. Proof. vm_compute. reflexivity. Qed.
Example group_missing_member_rejected : group_ok (firstn 3 ex_pick_ok) g_pick = false. Proof. vm_compute. reflexivity. Qed.
Example group_loop_reentry_rejected :
  group_ok [mkSrow "GCPMultiEndpoint.Close" "x.go" 5 "GCPMultiEndpoint.Close" "GCPMultiEndpoint" "pools" KCRead OpPlain [(GME, MW)] [(GME, ["x.go:4"; "x.go:4+"])]]
           (nth 11 groups g_pick) = false.
Proof. vm_compute. reflexivity. Qed.
Example counter_add_accepted :
  counter_ok (mkSite "gcp_balancer.go" 183 "subConnRef.streamsIncr" "subConnRef" "streamsCnt" KWrite true false [] [] [] [CxPick] OpAdd) = true.
Proof. vm_compute. reflexivity. Qed.
Example counter_store_rejected :
  counter_ok (mkSite "gcp_balancer.go" 537 "gcpBalancer.UpdateSubConnState" "subConnRef" "streamsCnt" KWrite true false [(GB, MW)] [(GB, MW)] [] [CxCallback] OpStore) = false.
Proof. vm_compute. reflexivity. Qed.
Example counter_load_store_cursor_rejected :
  counter_ok (mkSite "gcp_balancer.go" 411 "gcpBalancer.getSubConnRoundRobin" "gcpBalancer" "rrRefId" KRead true false [(GB, MR)] [(GB, MR)] [] [CxPick] OpLoad) = false.
Proof. vm_compute. reflexivity. Qed.
Example counter_reset_to_zero_accepted :
  counter_ok (mkSite "gcp_balancer.go" 196 "subConnRef.gotResp" "subConnRef" "deCalls" KWrite true false [(GB, MW)] [(GB, MW)] [] [CxDone] OpStore0) = true.
Proof. vm_compute. reflexivity. Qed.
Example counter_plain_access_rejected :
  counter_ok (mkSite "gcp_picker.go" 154 "gcpPicker.detectUnresponsive" "subConnRef" "deCalls" KRead false false [(GB, MR)] [(GB, MR)] [] [CxDone] OpPlain) = false.
Proof. vm_compute. reflexivity. Qed.

(* regression: the reference table (tree with the proposed fixes) passes every check *)
Example ref_sites_ok : forallb site_ok accesses = true.
Proof. vm_compute. reflexivity. Qed.
Example ref_acquires_ok : forallb acquire_ok acquires = true.
Proof. vm_compute. reflexivity. Qed.
Example ref_blocks_ok : forallb block_ok blocks = true.
Proof. vm_compute. reflexivity. Qed.
Example ref_order_acyclic : order_acyclic acquires = true.
Proof. vm_compute. reflexivity. Qed.
Example ref_no_unknowns : unknowns = [].
Proof. reflexivity. Qed.
Example ref_groups_ok : forallb (group_ok scoped) groups = true.
Proof. vm_compute. reflexivity. Qed.
Example ref_counters_ok : forallb counter_ok accesses = true.
Proof. vm_compute. reflexivity. Qed.
