(* C10 (data-race freedom) and the interleaving half of C06: the theorems the
   check relies on, their assumptions, and non-vacuity examples.  The per-run
   instance (forallb site_ok accesses = true, ... over the table regenerated
   from the working tree) is compiled by tools/eng_locks.py. *)
From Coq Require Import String List Bool Arith Relations Lia.
From GV Require Import Locks.Tables Locks.Policy Locks.DRF Locks.Deadlock Locks.Check Locks.RefFacts.
Import ListNotations.
Open Scope string_scope.

(* every execution whose accesses follow the policy of their location is race free *)
Theorem C10_lockset_race_free :
  forall thread lockinst loc : Type,
    (forall a b : thread, {a = b} + {a <> b}) ->
    (forall a b : lockinst, {a = b} + {a <> b}) ->
    forall (pol : loc -> lpol) (guard : loc -> lockinst) (tr : trace thread lockinst loc),
      consistent thread lockinst loc tr ->
      fresh_wf thread lockinst loc tr ->
      (forall i : nat, access_ok thread lockinst loc pol guard tr i) -> ~ race thread lockinst loc tr.
Proof. exact lockset_race_free. Qed.

(* ... in particular every execution described by a table all of whose rows pass site_ok *)
Theorem C10_table_race_free :
  forall thread lockinst loc : Type,
    (forall a b : thread, {a = b} + {a <> b}) ->
    (forall a b : lockinst, {a = b} + {a <> b}) ->
    forall (cls : loc -> string * string) (guard : loc -> lockinst) (tbl : list site) (tr : trace thread lockinst loc),
      forallb site_ok tbl = true ->
      consistent thread lockinst loc tr ->
      fresh_wf thread lockinst loc tr ->
      conforms thread lockinst loc cls guard tbl tr -> ~ race thread lockinst loc tr.
Proof. exact table_race_free. Qed.

Theorem C06_table_no_wait_cycle :
  forall (thread lockinst : Type) (lcls : lockinst -> string) (holds_l : thread -> lockinst -> Prop)
         (waiting : thread -> option lockinst) (blocked : thread -> Prop) (acqs : list acq) (blks : list blk),
    forallb acquire_ok acqs = true ->
    state_conforms thread lockinst lcls holds_l waiting blocked acqs blks ->
    ~ (exists t : thread, clos_trans thread (waits_for thread lockinst holds_l waiting) t t).
Proof. exact table_no_wait_cycle. Qed.

Theorem C06_table_blocked_holds_nothing :
  forall (thread lockinst : Type) (lcls : lockinst -> string) (holds_l : thread -> lockinst -> Prop)
         (waiting : thread -> option lockinst) (blocked : thread -> Prop) (acqs : list acq) (blks : list blk),
    forallb block_ok blks = true ->
    state_conforms thread lockinst lcls holds_l waiting blocked acqs blks ->
    forall (t : thread) (l : lockinst), blocked t -> ~ holds_l t l.
Proof. exact table_blocked_holds_nothing. Qed.

Theorem C06_table_waiter_reaches_runnable :
  forall (thread lockinst : Type) (lcls : lockinst -> string) (holds_l : thread -> lockinst -> Prop)
         (waiting : thread -> option lockinst) (blocked : thread -> Prop) (acqs : list acq) (blks : list blk),
    forallb acquire_ok acqs = true ->
    forallb block_ok blks = true ->
    state_conforms thread lockinst lcls holds_l waiting blocked acqs blks ->
    (forall (t : thread) (l : lockinst), waiting t = Some l -> exists u : thread, holds_l u l) ->
    forall (t : thread) (l : lockinst),
      waiting t = Some l ->
      exists u : thread,
        clos_trans thread (waits_for thread lockinst holds_l waiting) t u /\ waiting u = None /\ ~ blocked u.
Proof. exact table_waiter_reaches_runnable. Qed.

Theorem C06_order_acyclic :
  forall acqs : list acq, order_acyclic acqs = true ->
    forall l : string, ~ clos_trans string (order_rel acqs) l l.
Proof. exact order_acyclic_sound. Qed.

Print Assumptions C10_lockset_race_free.
Print Assumptions C10_table_race_free.
Print Assumptions C06_table_no_wait_cycle.
Print Assumptions C06_table_blocked_holds_nothing.
Print Assumptions C06_table_waiter_reaches_runnable.
Print Assumptions C06_order_acyclic.

(* ---------------------------------------------------------------------- *)
(* non-vacuity: the semantics has racy executions, and the lock discipline removes them *)

Definition T := trace nat nat nat.
Notation Acq := (EAcq nat nat nat). Notation Rel := (ERel nat nat nat). Notation Acc := (EAcc nat nat nat).

(* two threads write location 7 with no synchronization *)
Definition racy : T := [Acc 1 7 true false false; Acc 2 7 true false false].

Lemma racy_no_hb : forall i j, hb nat nat nat racy i j -> False.
Proof.
  induction 1; auto;
    repeat (match goal with
            | H : ev _ _ _ racy ?i = Some _ |- _ =>
                destruct i as [|[|[|?]]]; simpl in H; try discriminate; inversion H; subst; clear H
            end); simpl in *; try discriminate; try lia.
Qed.

Example racy_has_race : race nat nat nat racy.
Proof.
  exists 0, 1, 1, 2, 7, true, false, false, true, false, false.
  repeat split; auto. intros [_ H]; discriminate. exact (racy_no_hb 0 1).
Qed.

Example racy_is_consistent : consistent nat nat nat racy.
Proof.
  intros j u l m2 H. destruct j as [|[|[|?]]]; simpl in H; discriminate.
Qed.

(* the same two writes inside critical sections of lock 3 are ordered *)
Definition locked : T :=
  [Acq 1 3 MW; Acc 1 7 true false false; Rel 1 3 MW; Acq 2 3 MW; Acc 2 7 true false false; Rel 2 3 MW].

Example locked_ordered : hb nat nat nat locked 1 4.
Proof.
  apply hb_trans with 2. { eapply hb_po; simpl; eauto. }
  apply hb_trans with 3. { eapply hb_sync; simpl; eauto. }
  eapply hb_po; simpl; eauto.
Qed.

(* the checkers do reject: rows of the unfixed tree (DR1, DR2, DR4; a self-acquisition; a receive under a lock) *)
Example bad_row_DR1 :
  site_ok (mkSite "gcp_multiendpoint.go" 140 "GCPMultiEndpoint.pickConn" "GCPMultiEndpoint" "mes" KCRead false false [] [] [] [CxApp]) = false.
Proof. vm_compute. reflexivity. Qed.
Example bad_row_DR2 :
  site_ok (mkSite "gcp_balancer.go" 195 "subConnRef.gotResp" "subConnRef" "lastResp" KWrite false false [] [] [] [CxDone]) = false.
Proof. vm_compute. reflexivity. Qed.
Example read_lock_does_not_allow_write :
  site_ok (mkSite "x.go" 1 "f" "gcpBalancer" "scRefs" KCWrite false false [(GB, MR)] [(GB, MR)] [] [CxPick]) = false.
Proof. vm_compute. reflexivity. Qed.
Example good_row :
  site_ok (mkSite "gcp_balancer.go" 357 "gcpBalancer.addSubConn" "gcpBalancer" "scRefs" KCWrite false false [(GB, MW)] [(GB, MW); (GP, MW)] [] [CxCallback; CxPick]) = true.
Proof. vm_compute. reflexivity. Qed.
Example unknown_field_is_rejected :
  site_ok (mkSite "x.go" 1 "f" "gcpBalancer" "brandNewField" KRead false false [(GB, MW)] [(GB, MW)] [] [CxPick]) = false.
Proof. vm_compute. reflexivity. Qed.
Example self_acquire_rejected :
  acquire_ok (mkAcq "gcp_balancer.go" 327 "gcpBalancer.newSubConn" GB MW [(GB, MW)] [(GB, MW)]) = false.
Proof. vm_compute. reflexivity. Qed.
Example rlock_under_rlock_rejected :
  acquire_ok (mkAcq "x.go" 1 "f" GB MR [(GB, MR)] [(GB, MR)]) = false.
Proof. vm_compute. reflexivity. Qed.
Example inverted_order_rejected :
  acquire_ok (mkAcq "x.go" 1 "f" GP MW [] [(GB, MW)]) = false.
Proof. vm_compute. reflexivity. Qed.
Example receive_under_lock_rejected :
  block_ok (mkBlk "x.go" 1 "f" BChanRecv "ch" "" [(GB, MW)] [(GB, MW)]) = false.
Proof. vm_compute. reflexivity. Qed.
Example cond_wait_on_own_mutex_accepted :
  block_ok (mkBlk "gcp_interceptor.go" 122 "gcpClientStream.RecvMsg" BCondWait "cs.cond" CS [(CS, MW)] [(CS, MW)]) = true.
Proof. vm_compute. reflexivity. Qed.

(* regression: the reference table (tree with the proposed fixes) passes every check *)
Example ref_sites_ok : forallb site_ok accesses = true.
Proof. vm_compute. reflexivity. Qed.
Example ref_acquires_ok : forallb acquire_ok acquires = true.
Proof. vm_compute. reflexivity. Qed.
Example ref_blocks_ok : forallb block_ok blocks = true.
Proof. vm_compute. reflexivity. Qed.
Example ref_order_acyclic : order_acyclic acquires = true.
Proof. vm_compute. reflexivity. Qed.
Example ref_no_unknowns : unknowns = [].
Proof. reflexivity. Qed.
