(* Property C19 as boolean functions over what the harness observes of the
   IMPLEMENTATION: the bytes (or error) the inner codec produced and the bytes
   (or error) myCodec.Marshal returned, plus two Go-side observations (was the
   very same error value returned; did decoding give back the message).
   The monitors do not call [marshal]; they restate the property. *)
From Coq Require Import NArith List Bool Strings.Byte.
From GV Require Import Codec.Model.
Import ListNotations.
Open Scope N_scope.

Fixpoint list_eqb {A} (eq : A -> A -> bool) (a b : list A) : bool :=
  match a, b with
  | [], [] => true
  | x :: a', y :: b' => eq x y && list_eqb eq a' b'
  | _, _ => false
  end.

Definition bytes_eqb : bytes -> bytes -> bool := list_eqb Byte.eqb.

Definition field_eqb (a b : field) : bool :=
  match a, b with
  | FVar n v, FVar n' v' => (n =? n') && (v =? v')
  | F64 n v, F64 n' v' => (n =? n') && (v =? v')
  | FLen n p, FLen n' p' => (n =? n') && bytes_eqb p p'
  | F32 n v, F32 n' v' => (n =? n') && (v =? v')
  | FSGroup n, FSGroup n' => n =? n'
  | FEGroup n, FEGroup n' => n =? n'
  | _, _ => false
  end.

(* the frame the property demands: tag bytes of (field 2047, wire type 5),
   CRC32C of the inner encoding in little-endian order, the inner encoding *)
Definition frame (inner : bytes) : bytes :=
  xfd :: x7f :: le32 (crc32c inner) ++ inner.

(* byte-exact clause *)
Definition C19_ok (inner out : bytes) : bool := bytes_eqb out (frame inner).

(* wire-level clause: whenever the inner encoding is well-formed protobuf, a
   conforming parser splits the output into one fixed32 field 2047 carrying
   the CRC32C, followed by exactly the fields of the inner encoding *)
Definition C19_fields_ok (inner out : bytes) : bool :=
  match fields inner with
  | None => true
  | Some fs =>
      match fields out with
      | Some (F32 n c :: fs') => (n =? 2047) && (c =? crc32c inner) && list_eqb field_eqb fs fs'
      | _ => false
      end
  end.

(* the receiver-side check the checksum is for: recompute over everything
   after the 6-byte field and compare *)
Definition verify_frame (out : bytes) : bool :=
  match out with
  | t0 :: t1 :: c0 :: c1 :: c2 :: c3 :: payload =>
      Byte.eqb t0 xfd && Byte.eqb t1 x7f && (decode_le [c0; c1; c2; c3] =? crc32c payload)
  | _ => false
  end.

(* one harness case.  [same_err]: the error returned is the inner codec's error
   value; [rt]: 0 = decoding (with the codec or with proto.Unmarshal) did not
   give back the original message / unknown fields, 1 = it did (unknown fields
   = checksum field ++ original unknown fields), 3 = it did and the codec's
   own Unmarshal stripped the checksum field, 2 = not applicable (inner bytes
   that are not an encoding of a message, or an error case). *)
Definition C19_case_ok (inner out : result) (same_err : bool) (rt : N) : bool :=
  match inner, out with
  | Ok p, Ok o => C19_ok p o && C19_fields_ok p o && verify_frame o && negb (rt =? 0)
  | Err b, Err b' => bytes_eqb b b' && same_err
  | _, _ => false
  end.

(* correspondence: does the model reproduce what the implementation returned *)
Definition result_eqb (a b : result) : bool :=
  match a, b with
  | Ok x, Ok y => bytes_eqb x y
  | Err x, Err y => bytes_eqb x y
  | _, _ => false
  end.

Definition accept (inner out : result) : bool := result_eqb (marshal inner) out.

(* order-sensitive digest of a field list, compared with the digest the harness
   computes with google.golang.org/protobuf/encoding/protowire on the same bytes *)
Definition field_digest_step (h : N) (f : field) : N :=
  let x := match f with
           | FVar n v => n * 8 + 0 + v mod 1000003
           | F64 n v => n * 8 + 1 + v mod 1000003
           | FLen n p => n * 8 + 2 + N.of_nat (length p)
           | FSGroup n => n * 8 + 3
           | FEGroup n => n * 8 + 4
           | F32 n v => n * 8 + 5 + v mod 1000003
           end in
  (h * 1000003 + x) mod 2147483647.

Definition fields_digest (fs : list field) : N := fold_left field_digest_step fs 0.

(* ------------------------------------------------------------------ *)
(* Sequences of calls (case kind A).  The property says the output IS the
   frame of the inner encoding -- a value, not a view of storage that later
   calls may reuse.  The harness keeps the very slice each call returned and
   reads it again (a) after the later calls of the sequence, (b) after
   overwriting the inner codec's returned bytes and the input message,
   (c) after overwriting the slices returned by the earlier calls; every such
   later reading must still satisfy the byte clause for ITS call. *)
Record seq_call := mkSeqCall {
  sc_inner : bytes;          (* what the inner codec returned in this call *)
  sc_out : result;           (* what Marshal returned, read at return time *)
  sc_later : list bytes      (* the same slice, read again later *)
}.

Definition C19_call_ok (c : seq_call) : bool :=
  match sc_out c with
  | Ok o => C19_ok (sc_inner c) o && C19_fields_ok (sc_inner c) o && verify_frame o
            && forallb (C19_ok (sc_inner c)) (sc_later c)
  | Err _ => false           (* kind A only uses inner codecs that succeed *)
  end.

Definition C19_seq_ok (l : list seq_call) : bool := forallb C19_call_ok l.

(* correspondence for a sequence: every call as the model computes it ... *)
Definition accept_seq_values (l : list seq_call) : bool :=
  forallb (fun c => accept (Ok (sc_inner c)) (sc_out c)) l.

(* ... and the returned values never change afterwards (the model's outputs
   are values; class "alias" when this fails) *)
Definition seq_stable (l : list seq_call) : bool :=
  forallb (fun c => match sc_out c with
                    | Ok o => forallb (bytes_eqb o) (sc_later c)
                    | Err o => forallb (bytes_eqb o) (sc_later c)
                    end) l.

(* the sequence as the model produces it: each call is [marshal] of its own
   inner encoding, and reading a value again gives the same value *)
Definition model_seq (inners : list bytes) (rereads : nat) : list seq_call :=
  map (fun p => mkSeqCall p (marshal (Ok p)) (repeat (marshal_ok p) rereads)) inners.
