(* Lemmas about the codec model (property C19).  Everything is for ALL byte
   lists; no size bound, no well-formedness side condition on bytes. *)
From Coq Require Import NArith List Bool Lia Strings.Byte.
From GV Require Import Codec.Model Codec.Monitors.
Import ListNotations.
Open Scope N_scope.

(* ------------------------------------------------------------------ *)
(* bytes *)
Lemma byte_of_N_to_N : forall n, Byte.to_N (byte_of_N n) = n mod 256.
Proof.
  intro n. unfold byte_of_N.
  destruct (Byte.of_N (n mod 256)) as [b|] eqn:E.
  - apply Byte.to_of_N in E. exact E.
  - apply Byte.of_N_None_iff in E.
    assert (n mod 256 < 256) by (apply N.mod_lt; discriminate). lia.
Qed.

Lemma to_N_lt_256 : forall b, Byte.to_N b < 256.
Proof. intro b. pose proof (Byte.to_N_bounded b). lia. Qed.

Lemma byte_of_N_of_to_N : forall b, byte_of_N (Byte.to_N b) = b.
Proof.
  intro b. unfold byte_of_N.
  rewrite N.mod_small by apply to_N_lt_256.
  rewrite Byte.of_to_N. reflexivity.
Qed.

(* ------------------------------------------------------------------ *)
(* CRC32C stays a 32-bit value *)
Lemma lxor_lt_pow2 : forall n a b, a < 2 ^ n -> b < 2 ^ n -> N.lxor a b < 2 ^ n.
Proof.
  intros n a b Ha Hb.
  destruct (N.eq_dec (N.lxor a b) 0) as [E|E].
  - rewrite E. apply N.neq_0_lt_0. apply N.pow_nonzero. discriminate.
  - apply N.log2_lt_pow2; [lia|].
    pose proof (N.log2_lxor a b) as H.
    assert (La : a = 0 \/ N.log2 a < n).
    { destruct (N.eq_dec a 0); [left; assumption|right; apply N.log2_lt_pow2; lia]. }
    assert (Lb : b = 0 \/ N.log2 b < n).
    { destruct (N.eq_dec b 0); [left; assumption|right; apply N.log2_lt_pow2; lia]. }
    destruct La as [La|La], Lb as [Lb|Lb]; subst.
    + exfalso. apply E. reflexivity.
    + rewrite N.lxor_0_l in *. assumption.
    + rewrite N.lxor_0_r in *. assumption.
    + lia.
Qed.

Lemma shiftr1_le : forall c, N.shiftr c 1 <= c.
Proof.
  intro c. rewrite N.shiftr_div_pow2. change (2 ^ 1) with 2.
  apply N.div_le_upper_bound; [discriminate|]. lia.
Qed.

Lemma crc_poly_bound : crc_poly < 2 ^ 32.
Proof. reflexivity. Qed.

Lemma crc_bit_bound : forall c, c < 2 ^ 32 -> crc_bit c < 2 ^ 32.
Proof.
  intros c H. unfold crc_bit. pose proof (shiftr1_le c).
  destruct (N.odd c).
  - apply lxor_lt_pow2; [lia|apply crc_poly_bound].
  - lia.
Qed.

Lemma iter_crc_bit_bound : forall k c, c < 2 ^ 32 -> Nat.iter k crc_bit c < 2 ^ 32.
Proof.
  induction k; intros c H; simpl; [assumption|].
  apply crc_bit_bound. apply IHk. assumption.
Qed.

Lemma crc_byte_bound : forall c b, c < 2 ^ 32 -> crc_byte c b < 2 ^ 32.
Proof.
  intros c b H. unfold crc_byte. apply iter_crc_bit_bound.
  apply lxor_lt_pow2; [assumption|].
  pose proof (to_N_lt_256 b). change (2 ^ 32) with 4294967296. lia.
Qed.

Lemma crc_update_bound : forall p c, c < 2 ^ 32 -> crc_update c p < 2 ^ 32.
Proof.
  unfold crc_update. induction p as [|b p IH]; intros c H; simpl; [assumption|].
  apply IH. apply crc_byte_bound. assumption.
Qed.

Lemma crc32c_bound : forall p, crc32c p < 2 ^ 32.
Proof.
  intro p. unfold crc32c. apply lxor_lt_pow2.
  - apply crc_update_bound. reflexivity.
  - reflexivity.
Qed.

(* incremental form (what crc32.Update does over successive chunks) *)
Lemma crc_update_app : forall p q c, crc_update c (p ++ q) = crc_update (crc_update c p) q.
Proof. intros. unfold crc_update. apply fold_left_app. Qed.

(* the standard check value of CRC-32C (RFC 3720 appendix B.4 / iSCSI) *)
Definition check_input : bytes := [x31; x32; x33; x34; x35; x36; x37; x38; x39].

Lemma crc32c_check : crc32c check_input = 0xE3069283.
Proof. vm_compute. reflexivity. Qed.

Lemma crc32c_empty : crc32c [] = 0.
Proof. vm_compute. reflexivity. Qed.

(* 32 zero bytes, RFC 3720 B.4 *)
Lemma crc32c_zeros32 : crc32c (repeat x00 32) = 0x8A9136AA.
Proof. vm_compute. reflexivity. Qed.

Lemma crc32c_ones32 : crc32c (repeat xff 32) = 0x62A8AB43.
Proof. vm_compute. reflexivity. Qed.

(* ------------------------------------------------------------------ *)
(* little-endian fixed32 *)
Lemma le32_length : forall x, length (le32 x) = 4%nat.
Proof. reflexivity. Qed.

Lemma decode_le_le32 : forall x, x < 2 ^ 32 ->
  decode_le [byte_of_N x; byte_of_N (x / 256); byte_of_N (x / 65536); byte_of_N (x / 16777216)] = x.
Proof.
  intros x H. cbn [decode_le]. rewrite !byte_of_N_to_N.
  change 65536 with (256 * 256). change 16777216 with (256 * 256 * 256).
  rewrite <- !N.div_div by discriminate.
  set (q1 := x / 256). set (q2 := q1 / 256). set (q3 := q2 / 256).
  assert (E1 : x = 256 * q1 + x mod 256) by (apply N.div_mod; discriminate).
  assert (E2 : q1 = 256 * q2 + q1 mod 256) by (apply N.div_mod; discriminate).
  assert (E3 : q2 = 256 * q3 + q2 mod 256) by (apply N.div_mod; discriminate).
  assert (B3 : q3 < 256).
  { unfold q3, q2, q1. rewrite !N.div_div by discriminate.
    apply N.div_lt_upper_bound; [discriminate|].
    change (2 ^ 32) with 4294967296 in H. lia. }
  rewrite (N.mod_small q3 256) by assumption.
  lia.
Qed.

Lemma le32_roundtrip : forall x, x < 2 ^ 32 -> decode_le32 (le32 x) = x.
Proof. intros x H. unfold decode_le32, le32. cbn [firstn]. apply decode_le_le32. assumption. Qed.

Lemma le32_roundtrip_app : forall x r, x < 2 ^ 32 -> decode_le32 (le32 x ++ r) = x.
Proof. intros x r H. unfold decode_le32, le32. cbn [firstn app]. apply decode_le_le32. assumption. Qed.

(* ------------------------------------------------------------------ *)
(* the tag *)
Lemma checksum_tag_value : checksum_tag = 16381.
Proof. reflexivity. Qed.

Lemma tag_bytes : encode_varint checksum_tag = [xfd; x7f].
Proof. vm_compute. reflexivity. Qed.

Lemma get_varint_tag : forall r, get_varint (xfd :: x7f :: r) = Some (16381, r).
Proof. intro r. reflexivity. Qed.

(* the two tag bytes decode, as a varint, to (2047 << 3) | 5: field number
   2047, wire type 5 (32-bit) -- and nothing else of the input is consumed *)
Lemma tag_is_field_2047_fixed32 : forall r,
  exists t, get_varint (encode_varint checksum_tag ++ r) = Some (t, r)
            /\ N.shiftr t 3 = 2047 /\ N.land t 7 = 5.
Proof.
  intro r. exists 16381. rewrite tag_bytes. cbn [app].
  rewrite get_varint_tag. repeat split; reflexivity.
Qed.

(* ------------------------------------------------------------------ *)
(* Marshal *)
Lemma marshal_frame : forall p,
  marshal (Ok p) = Ok ([xfd; x7f] ++ le32 (crc32c p) ++ p).
Proof.
  intro p. unfold marshal, encode_fixed32. rewrite tag_bytes.
  rewrite <- app_assoc. reflexivity.
Qed.

Lemma marshal_ok_frame : forall p, marshal_ok p = frame p.
Proof. intro p. unfold marshal_ok. rewrite marshal_frame. reflexivity. Qed.

Lemma marshal_length : forall p, length (marshal_ok p) = (6 + length p)%nat.
Proof. intro p. rewrite marshal_ok_frame. reflexivity. Qed.

Lemma marshal_error_passthrough : forall b, marshal (Err b) = Err b.
Proof. reflexivity. Qed.

Lemma marshal_ok_iff : forall inner out,
  marshal inner = Ok out <-> exists p, inner = Ok p /\ out = frame p.
Proof.
  intros inner out. split.
  - destruct inner as [p|b]; [|discriminate]. rewrite marshal_frame. intro H.
    exists p. split; [reflexivity|]. inversion H. reflexivity.
  - intros [p [-> ->]]. apply marshal_frame.
Qed.

(* the payload is carried unchanged behind the 6-byte field *)
Lemma marshal_payload : forall p, skipn 6 (marshal_ok p) = p.
Proof. intro p. rewrite marshal_ok_frame. reflexivity. Qed.

Lemma marshal_header : forall p, firstn 6 (marshal_ok p) = [xfd; x7f] ++ le32 (crc32c p).
Proof. intro p. rewrite marshal_ok_frame. reflexivity. Qed.

Lemma marshal_checksum_field : forall p, decode_le32 (skipn 2 (marshal_ok p)) = crc32c p.
Proof.
  intro p. rewrite marshal_ok_frame. unfold frame. cbn [skipn].
  apply le32_roundtrip_app. apply crc32c_bound.
Qed.

Lemma marshal_injective : forall p q, marshal_ok p = marshal_ok q -> p = q.
Proof. intros p q H. rewrite <- (marshal_payload p), <- (marshal_payload q), H. reflexivity. Qed.

Lemma unmarshal_is_inner : forall data, unmarshal_input data = data.
Proof. reflexivity. Qed.

(* ------------------------------------------------------------------ *)
(* the wire-format splitter *)
Local Opaque get_varint split_at.

Lemma parse_mono : forall n st bs fs, parse n st bs = Some fs ->
  forall m, (n <= m)%nat -> parse m st bs = Some fs.
Proof.
  induction n as [|n IH]; intros st bs fs H m Hm; [discriminate|].
  destruct m as [|m]; [lia|].
  assert (Hm' : (n <= m)%nat) by lia.
  cbn [parse] in *.
  destruct bs as [|b bs]; [assumption|].
  destruct (get_varint (b :: bs)) as [[tag r1]|]; [|discriminate].
  destruct ((N.shiftr tag 3 =? 0) || (max_field_number <? N.shiftr tag 3)); [discriminate|].
  repeat match goal with
  | H : (if ?c then _ else _) = Some _ |- _ => destruct c
  | H : match get_varint ?x with _ => _ end = Some _ |- _ => destruct (get_varint x) as [[? ?]|]; [|discriminate]
  | H : match split_at ?x ?k with _ => _ end = Some _ |- _ => destruct (split_at x k) as [[? ?]|]; [|discriminate]
  | H : match ?s with [] => None | _ :: _ => _ end = Some _ |- _ => destruct s; [discriminate|]
  | H : ocons ?f (parse n ?s ?r) = Some _ |- _ =>
      let E := fresh "E" in destruct (parse n s r) eqn:E; [|discriminate];
      rewrite (IH _ _ _ E m Hm'); assumption
  | H : None = Some _ |- _ => discriminate
  end.
Qed.

Local Transparent get_varint split_at.

(* one step of the splitter on a checksum field *)
Lemma parse_checksum_field : forall f st a b c d r,
  parse (S f) st (xfd :: x7f :: a :: b :: c :: d :: r)
  = ocons (F32 2047 (decode_le [a; b; c; d])) (parse f st r).
Proof. intros. cbn [parse]. rewrite get_varint_tag. reflexivity. Qed.

(* Any conforming parser sees the original fields preceded by exactly one
   fixed32 field number 2047 whose value is the CRC32C of the inner encoding. *)
Lemma fields_prefix : forall p fs, fields p = Some fs ->
  fields (marshal_ok p) = Some (F32 2047 (crc32c p) :: fs).
Proof.
  intros p fs H. rewrite marshal_ok_frame. unfold fields, frame, le32.
  cbn [app length]. rewrite parse_checksum_field.
  rewrite decode_le_le32 by apply crc32c_bound.
  unfold fields in H.
  rewrite (parse_mono _ _ _ _ H) by lia. reflexivity.
Qed.

(* surplus fuel is irrelevant: [fields] never fails for lack of fuel, so
   [fields p = None] means p is not a well-formed protobuf encoding *)
Lemma get_varint_aux_shorter : forall fuel sh acc bs v r,
  get_varint_aux fuel sh acc bs = Some (v, r) -> (length r < length bs)%nat.
Proof.
  induction fuel as [|f IH]; intros sh acc bs v r H; [discriminate|].
  cbn [get_varint_aux] in H. destruct bs as [|b bs]; [discriminate|].
  cbn [length]. destruct (Byte.to_N b <? 128).
  - destruct f.
    + destruct (Byte.to_N b <? 2); [|discriminate]. inversion H. subst. lia.
    + inversion H. subst. lia.
  - apply IH in H. lia.
Qed.

Lemma get_varint_shorter : forall bs v r,
  get_varint bs = Some (v, r) -> (length r < length bs)%nat.
Proof. intros bs v r. apply get_varint_aux_shorter. Qed.

Lemma split_at_length : forall bs n a r,
  split_at bs n = Some (a, r) -> (length r <= length bs)%nat.
Proof.
  induction bs as [|b bs IH]; intros n a r H; cbn [split_at] in H.
  - destruct (n =? 0); [|discriminate]. inversion H. subst. lia.
  - cbn [length]. destruct (n =? 0).
    + inversion H. subst. cbn [length]. lia.
    + destruct (n =? 1).
      * inversion H. subst. lia.
      * destruct (split_at bs (N.pred n)) as [[a' c]|] eqn:E; [|discriminate].
        inversion H. subst. apply IH in E. lia.
Qed.

Lemma parse_fuel_irrelevant : forall n m st bs,
  (length bs < n)%nat -> (length bs < m)%nat -> parse n st bs = parse m st bs.
Proof.
  induction n as [|n IH]; intros m st bs Hn Hm; [lia|].
  destruct m as [|m]; [lia|].
  cbn [parse].
  destruct bs as [|b bs]; [reflexivity|].
  destruct (get_varint (b :: bs)) as [[tag r1]|] eqn:G; [|reflexivity].
  apply get_varint_shorter in G. cbn [length] in *.
  destruct ((N.shiftr tag 3 =? 0) || (max_field_number <? N.shiftr tag 3)); [reflexivity|].
  destruct (N.land tag 7 =? 0).
  { destruct (get_varint r1) as [[v r2]|] eqn:G2; [|reflexivity].
    apply get_varint_shorter in G2. f_equal. apply IH; lia. }
  destruct (N.land tag 7 =? 1).
  { destruct (split_at r1 8) as [[a r2]|] eqn:S2; [|reflexivity].
    apply split_at_length in S2. f_equal. apply IH; lia. }
  destruct (N.land tag 7 =? 2).
  { destruct (get_varint r1) as [[len r2]|] eqn:G2; [|reflexivity].
    apply get_varint_shorter in G2.
    destruct (split_at r2 len) as [[a r3]|] eqn:S3; [|reflexivity].
    apply split_at_length in S3. f_equal. apply IH; lia. }
  destruct (N.land tag 7 =? 5).
  { destruct (split_at r1 4) as [[a r2]|] eqn:S2; [|reflexivity].
    apply split_at_length in S2. f_equal. apply IH; lia. }
  destruct (N.land tag 7 =? 3).
  { f_equal. apply IH; lia. }
  destruct (N.land tag 7 =? 4); [|reflexivity].
  destruct st as [|g st]; [reflexivity|].
  destruct (g =? N.shiftr tag 3); [|reflexivity].
  f_equal. apply IH; lia.
Qed.

Lemma fields_any_fuel : forall n bs, (length bs < n)%nat -> parse n [] bs = fields bs.
Proof. intros n bs H. unfold fields. apply parse_fuel_irrelevant; lia. Qed.

(* exact description of what a conforming parser makes of the output, both
   directions: the output is well-formed iff the inner encoding is, and its
   field list is the checksum field followed by the inner field list *)
Lemma fields_marshal : forall p,
  fields (marshal_ok p) = ocons (F32 2047 (crc32c p)) (fields p).
Proof.
  intro p. rewrite marshal_ok_frame. unfold fields at 1. unfold frame, le32.
  cbn [app length]. rewrite parse_checksum_field.
  rewrite decode_le_le32 by apply crc32c_bound.
  rewrite fields_any_fuel by lia. reflexivity.
Qed.

Lemma fields_prefix_inv : forall p fs', fields (marshal_ok p) = Some fs' ->
  exists fs, fields p = Some fs /\ fs' = F32 2047 (crc32c p) :: fs.
Proof.
  intros p fs' H. rewrite fields_marshal in H.
  destruct (fields p) as [fs|]; [|discriminate].
  exists fs. split; [reflexivity|]. inversion H. reflexivity.
Qed.

(* known fields (any number other than 2047) are unchanged and in order *)
Lemma known_fields_unchanged : forall p fs fs' k, fields p = Some fs ->
  fields (marshal_ok p) = Some fs' -> k <> 2047 ->
  filter (fun f => field_num f =? k) fs' = filter (fun f => field_num f =? k) fs.
Proof.
  intros p fs fs' k H H' Hk. rewrite (fields_prefix _ _ H) in H'. inversion H'. subst fs'.
  cbn [filter field_num]. destruct (N.eqb_spec 2047 k); [congruence|reflexivity].
Qed.

(* every field of the output except the first is a field of the input, same order *)
Lemma fields_tail : forall p fs, fields p = Some fs ->
  option_map (@tl field) (fields (marshal_ok p)) = Some fs.
Proof. intros p fs H. rewrite (fields_prefix _ _ H). reflexivity. Qed.

(* ------------------------------------------------------------------ *)
(* the comparison functions decide equality *)
Lemma list_eqb_refl : forall A (eq : A -> A -> bool), (forall x, eq x x = true) ->
  forall l, list_eqb eq l l = true.
Proof. intros A eq H. induction l as [|x l IH]; cbn [list_eqb]; [reflexivity|]. rewrite H, IH. reflexivity. Qed.

Lemma list_eqb_eq : forall A (eq : A -> A -> bool), (forall x y, eq x y = true -> x = y) ->
  forall a b, list_eqb eq a b = true -> a = b.
Proof.
  intros A eq H. induction a as [|x a IH]; intros [|y b] E; cbn [list_eqb] in E; try discriminate; [reflexivity|].
  apply andb_true_iff in E. destruct E as [E1 E2]. rewrite (H _ _ E1), (IH _ E2). reflexivity.
Qed.

Lemma bytes_eqb_refl : forall b, bytes_eqb b b = true.
Proof. apply list_eqb_refl. intro x. apply Byte.byte_dec_lb. reflexivity. Qed.

Lemma bytes_eqb_eq : forall a b, bytes_eqb a b = true -> a = b.
Proof. apply list_eqb_eq. apply Byte.byte_dec_bl. Qed.

Lemma field_eqb_refl : forall f, field_eqb f f = true.
Proof. destruct f; cbn [field_eqb]; rewrite ?N.eqb_refl, ?bytes_eqb_refl; reflexivity. Qed.

Lemma field_eqb_eq : forall f g, field_eqb f g = true -> f = g.
Proof.
  destruct f, g; cbn [field_eqb]; intro H; try discriminate;
    try (apply andb_true_iff in H; destruct H as [H1 H2]);
    repeat match goal with
           | H : (_ =? _) = true |- _ => apply N.eqb_eq in H; subst
           | H : bytes_eqb _ _ = true |- _ => apply bytes_eqb_eq in H; subst
           end; reflexivity.
Qed.

(* ------------------------------------------------------------------ *)
(* what the monitors mean, and that the model satisfies them *)
Lemma C19_ok_iff : forall inner out, C19_ok inner out = true <-> out = frame inner.
Proof.
  intros inner out. unfold C19_ok. split.
  - apply bytes_eqb_eq.
  - intros ->. apply bytes_eqb_refl.
Qed.

Lemma C19_ok_marshal : forall p, C19_ok p (marshal_ok p) = true.
Proof. intro p. apply C19_ok_iff. apply marshal_ok_frame. Qed.

(* an implementation output that passes the byte clause has all wire-level
   consequences: payload intact, parser view, receiver check *)
Lemma C19_ok_consequences : forall inner out, C19_ok inner out = true ->
  skipn 6 out = inner
  /\ length out = (6 + length inner)%nat
  /\ decode_le32 (skipn 2 out) = crc32c inner
  /\ fields out = ocons (F32 2047 (crc32c inner)) (fields inner).
Proof.
  intros inner out H. apply C19_ok_iff in H. rewrite <- marshal_ok_frame in H. subst out.
  split; [apply marshal_payload|].
  split; [apply marshal_length|].
  split; [apply marshal_checksum_field|apply fields_marshal].
Qed.

Lemma C19_fields_ok_marshal : forall p, C19_fields_ok p (marshal_ok p) = true.
Proof.
  intro p. unfold C19_fields_ok. rewrite fields_marshal.
  destruct (fields p) as [fs|]; [|reflexivity]. cbn [ocons].
  rewrite !N.eqb_refl. cbn [andb]. apply list_eqb_refl. apply field_eqb_refl.
Qed.

Lemma verify_frame_marshal : forall p, verify_frame (marshal_ok p) = true.
Proof.
  intro p. rewrite marshal_ok_frame. unfold frame, le32, verify_frame. cbn [app].
  rewrite decode_le_le32 by apply crc32c_bound. rewrite N.eqb_refl. reflexivity.
Qed.

Lemma C19_case_ok_marshal : forall inner rt, rt <> 0 ->
  C19_case_ok inner (marshal inner) true rt = true.
Proof.
  intros [p|b] rt Hrt; unfold C19_case_ok.
  - rewrite marshal_frame. change ([xfd; x7f] ++ le32 (crc32c p) ++ p) with (frame p).
    rewrite <- marshal_ok_frame.
    rewrite C19_ok_marshal, C19_fields_ok_marshal, verify_frame_marshal.
    destruct (N.eqb_spec rt 0); [contradiction|reflexivity].
  - cbn [marshal]. rewrite bytes_eqb_refl. reflexivity.
Qed.

Lemma accept_marshal : forall inner, accept inner (marshal inner) = true.
Proof.
  intro inner. unfold accept, result_eqb. destruct (marshal inner); apply bytes_eqb_refl.
Qed.

Lemma accept_iff : forall inner out, accept inner out = true <-> marshal inner = out.
Proof.
  intros inner out. unfold accept, result_eqb. split.
  - destruct (marshal inner), out; intro H; try discriminate; apply bytes_eqb_eq in H; subst; reflexivity.
  - intros <-. destruct (marshal inner); apply bytes_eqb_refl.
Qed.

(* ------------------------------------------------------------------ *)
(* sequences of calls: [marshal] is a function of the inner result alone (no
   state), so the n-th output of a sequence is the frame of the n-th inner
   encoding whatever was marshalled before or after, and stays so *)
Lemma marshal_functional : forall a b, a = b -> marshal a = marshal b.
Proof. intros a b ->. reflexivity. Qed.

Lemma forallb_repeat : forall A (f : A -> bool) x n, f x = true -> forallb f (repeat x n) = true.
Proof. intros A f x n H. induction n; cbn [repeat forallb]; [reflexivity|]. rewrite H, IHn. reflexivity. Qed.

Lemma forallb_map_true : forall A B (g : A -> B) (f : B -> bool) l,
  (forall x, f (g x) = true) -> forallb f (map g l) = true.
Proof. intros A B g f l H. induction l; cbn [map forallb]; [reflexivity|]. rewrite H, IHl. reflexivity. Qed.

Lemma C19_seq_ok_model : forall inners k, C19_seq_ok (model_seq inners k) = true.
Proof.
  intros inners k. unfold C19_seq_ok, model_seq. apply forallb_map_true. intro p.
  unfold C19_call_ok. cbn [sc_out sc_inner sc_later]. rewrite marshal_frame.
  change ([xfd; x7f] ++ le32 (crc32c p) ++ p) with (frame p). rewrite <- marshal_ok_frame.
  rewrite C19_ok_marshal, C19_fields_ok_marshal, verify_frame_marshal. cbn [andb].
  apply forallb_repeat. apply C19_ok_marshal.
Qed.

Lemma accept_seq_model : forall inners k,
  accept_seq_values (model_seq inners k) = true /\ seq_stable (model_seq inners k) = true.
Proof.
  intros inners k. unfold accept_seq_values, seq_stable, model_seq. split.
  - apply forallb_map_true. intro p. cbn [sc_out sc_inner]. apply accept_marshal.
  - apply forallb_map_true. intro p. cbn [sc_out sc_later]. rewrite marshal_frame.
    change ([xfd; x7f] ++ le32 (crc32c p) ++ p) with (frame p). rewrite <- marshal_ok_frame.
    apply forallb_repeat. apply bytes_eqb_refl.
Qed.

(* a later reading that passes the monitor is byte-for-byte the value returned *)
Lemma C19_call_ok_stable : forall c, C19_call_ok c = true ->
  forall o, sc_out c = Ok o -> forall l, In l (sc_later c) -> l = o.
Proof.
  intros c H o Ho l Hl. unfold C19_call_ok in H. rewrite Ho in H.
  repeat (apply andb_true_iff in H; destruct H as [H ?]).
  apply C19_ok_iff in H.
  match goal with F : forallb _ _ = true |- _ => rewrite forallb_forall in F; apply F in Hl end.
  apply C19_ok_iff in Hl. congruence.
Qed.
