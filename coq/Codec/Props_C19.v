(* C19 -- Checksum codec: payload unchanged, CRC32C field prepended, still
   decodable.  Statements only; proofs are in Codec/Proofs.v.  All theorems are
   for every byte list (no size bound). *)
From Coq Require Import NArith List Bool Strings.Byte.
From GV Require Import Codec.Model Codec.Monitors Codec.Proofs.
Import ListNotations.
Open Scope N_scope.

(* output = tag bytes of (field 2047, wire type 5) ++ little-endian CRC32C ++ inner encoding *)
Theorem marshal_frame : forall p,
  marshal (Ok p) = Ok ([xfd; x7f] ++ le32 (crc32c p) ++ p).
Proof. exact Proofs.marshal_frame. Qed.
Print Assumptions marshal_frame.

Theorem marshal_length : forall p, length (marshal_ok p) = (6 + length p)%nat.
Proof. exact Proofs.marshal_length. Qed.
Print Assumptions marshal_length.

Theorem tag_is_field_2047_fixed32 : forall r,
  exists t, get_varint (encode_varint checksum_tag ++ r) = Some (t, r)
            /\ N.shiftr t 3 = 2047 /\ N.land t 7 = 5.
Proof. exact Proofs.tag_is_field_2047_fixed32. Qed.
Print Assumptions tag_is_field_2047_fixed32.

(* any conforming parser sees the original fields preceded by one fixed32 field 2047 = CRC32C *)
Theorem fields_prefix : forall p fs, fields p = Some fs ->
  fields (marshal_ok p) = Some (F32 2047 (crc32c p) :: fs).
Proof. exact Proofs.fields_prefix. Qed.
Print Assumptions fields_prefix.

(* both directions, including ill-formed inner encodings *)
Theorem fields_marshal : forall p,
  fields (marshal_ok p) = ocons (F32 2047 (crc32c p)) (fields p).
Proof. exact Proofs.fields_marshal. Qed.
Print Assumptions fields_marshal.

(* [fields] never fails for lack of fuel *)
Theorem fields_any_fuel : forall n bs, (length bs < n)%nat -> parse n [] bs = fields bs.
Proof. exact Proofs.fields_any_fuel. Qed.
Print Assumptions fields_any_fuel.

Theorem known_fields_unchanged : forall p fs fs' k, fields p = Some fs ->
  fields (marshal_ok p) = Some fs' -> k <> 2047 ->
  filter (fun f => field_num f =? k) fs' = filter (fun f => field_num f =? k) fs.
Proof. exact Proofs.known_fields_unchanged. Qed.
Print Assumptions known_fields_unchanged.

Theorem marshal_payload : forall p, skipn 6 (marshal_ok p) = p.
Proof. exact Proofs.marshal_payload. Qed.
Print Assumptions marshal_payload.

Theorem marshal_checksum_field : forall p, decode_le32 (skipn 2 (marshal_ok p)) = crc32c p.
Proof. exact Proofs.marshal_checksum_field. Qed.
Print Assumptions marshal_checksum_field.

Theorem marshal_injective : forall p q, marshal_ok p = marshal_ok q -> p = q.
Proof. exact Proofs.marshal_injective. Qed.
Print Assumptions marshal_injective.

Theorem marshal_error_passthrough : forall b, marshal (Err b) = Err b.
Proof. exact Proofs.marshal_error_passthrough. Qed.
Print Assumptions marshal_error_passthrough.

Theorem marshal_ok_iff : forall inner out,
  marshal inner = Ok out <-> exists p, inner = Ok p /\ out = frame p.
Proof. exact Proofs.marshal_ok_iff. Qed.
Print Assumptions marshal_ok_iff.

Theorem crc32c_check : crc32c [x31; x32; x33; x34; x35; x36; x37; x38; x39] = 0xE3069283.
Proof. exact Proofs.crc32c_check. Qed.
Print Assumptions crc32c_check.

Theorem crc32c_bound : forall p, crc32c p < 2 ^ 32.
Proof. exact Proofs.crc32c_bound. Qed.
Print Assumptions crc32c_bound.

Theorem le32_roundtrip : forall x, x < 2 ^ 32 -> decode_le32 (le32 x) = x.
Proof. exact Proofs.le32_roundtrip. Qed.
Print Assumptions le32_roundtrip.

(* the monitor evaluated on implementation outputs says exactly "out is the frame" ... *)
Theorem C19_ok_iff : forall inner out, C19_ok inner out = true <-> out = frame inner.
Proof. exact Proofs.C19_ok_iff. Qed.
Print Assumptions C19_ok_iff.

(* ... from which the wire-level facts follow for that implementation output ... *)
Theorem C19_ok_consequences : forall inner out, C19_ok inner out = true ->
  skipn 6 out = inner
  /\ length out = (6 + length inner)%nat
  /\ decode_le32 (skipn 2 out) = crc32c inner
  /\ fields out = ocons (F32 2047 (crc32c inner)) (fields inner).
Proof. exact Proofs.C19_ok_consequences. Qed.
Print Assumptions C19_ok_consequences.

(* ... and the model satisfies every clause *)
Theorem C19_holds : forall p, C19_ok p (marshal_ok p) = true.
Proof. exact Proofs.C19_ok_marshal. Qed.
Print Assumptions C19_holds.

Theorem C19_case_holds : forall inner rt, rt <> 0 ->
  C19_case_ok inner (marshal inner) true rt = true.
Proof. exact Proofs.C19_case_ok_marshal. Qed.
Print Assumptions C19_case_holds.

Theorem accept_iff : forall inner out, accept inner out = true <-> marshal inner = out.
Proof. exact Proofs.accept_iff. Qed.
Print Assumptions accept_iff.

(* sequences of calls (kind A): outputs are values.  In the model the i-th
   output depends on the i-th inner encoding only and every later reading of
   it is the same frame. *)
Theorem C19_seq_holds : forall inners k, C19_seq_ok (model_seq inners k) = true.
Proof. exact Proofs.C19_seq_ok_model. Qed.
Print Assumptions C19_seq_holds.

Theorem accept_seq_model : forall inners k,
  accept_seq_values (model_seq inners k) = true /\ seq_stable (model_seq inners k) = true.
Proof. exact Proofs.accept_seq_model. Qed.
Print Assumptions accept_seq_model.

Theorem C19_call_ok_stable : forall c, C19_call_ok c = true ->
  forall o, sc_out c = Ok o -> forall l, In l (sc_later c) -> l = o.
Proof. exact Proofs.C19_call_ok_stable. Qed.
Print Assumptions C19_call_ok_stable.

(* ---- non-vacuity and sensitivity of the monitors, by computation ---- *)
(* wrapperspb.StringValue{"123456789"}: field 1, length-delimited *)
Definition ex_msg : bytes := x0a :: x09 :: check_input.

Example ex_fields : fields ex_msg = Some [FLen 1 check_input].
Proof. vm_compute. reflexivity. Qed.

Example ex_marshal :
  marshal (Ok ex_msg) = Ok ([xfd; x7f; xcc; x20; x8f; xf8] ++ ex_msg).
Proof. vm_compute. reflexivity. Qed.

Example ex_fields_out :
  fields (marshal_ok ex_msg) = Some [F32 2047 0xF88F20CC; FLen 1 check_input].
Proof. vm_compute. reflexivity. Qed.

Example ex_empty : marshal (Ok []) = Ok [xfd; x7f; x00; x00; x00; x00].
Proof. vm_compute. reflexivity. Qed.

(* groups are handled, unmatched group ends and field number 0 are rejected *)
Example ex_group : fields [x0b; x08; x01; x0c] = Some [FSGroup 1; FVar 1 1; FEGroup 1].
Proof. vm_compute. reflexivity. Qed.
Example ex_bad_group : fields [x0b; x08; x01; x14] = None.
Proof. vm_compute. reflexivity. Qed.
Example ex_bad_zero : fields [x00; x00] = None.
Proof. vm_compute. reflexivity. Qed.
Example ex_truncated : fields [x0a; x05; x41] = None.
Proof. vm_compute. reflexivity. Qed.

(* the monitor is not constantly true: each planted defect is rejected *)
Example C19_ok_rejects_ieee :       (* CRC-32 (IEEE) of ex_msg instead of CRC-32C *)
  C19_ok check_input ([xfd; x7f; x26; x39; xf4; xcb] ++ check_input) = false.
Proof. vm_compute. reflexivity. Qed.
Example C19_ok_rejects_append :
  C19_ok ex_msg (ex_msg ++ [xfd; x7f; xcc; x20; x8f; xf8]) = false.
Proof. vm_compute. reflexivity. Qed.
Example C19_ok_rejects_field_2046 :
  C19_ok ex_msg ([xf5; x7f; xcc; x20; x8f; xf8] ++ ex_msg) = false.
Proof. vm_compute. reflexivity. Qed.
Example C19_ok_rejects_wiretype_1 :
  C19_ok ex_msg ([xf9; x7f; xcc; x20; x8f; xf8] ++ ex_msg) = false.
Proof. vm_compute. reflexivity. Qed.
Example C19_ok_rejects_changed_payload :
  C19_ok ex_msg ([xfd; x7f; xcc; x20; x8f; xf8] ++ [x0a; x09] ++ [x31; x32; x33; x34; x35; x36; x37; x38; x38]) = false.
Proof. vm_compute. reflexivity. Qed.
Example C19_case_rejects_failed_roundtrip :
  C19_case_ok (Ok ex_msg) (marshal (Ok ex_msg)) true 0 = false.
Proof. vm_compute. reflexivity. Qed.
Example C19_case_rejects_swallowed_error :
  C19_case_ok (Err []) (Ok [xfd; x7f; x00; x00; x00; x00]) true 2 = false.
Proof. vm_compute. reflexivity. Qed.
Example C19_case_rejects_other_error :
  C19_case_ok (Err [x01]) (Err [x01]) false 2 = false.
Proof. vm_compute. reflexivity. Qed.
Example verify_detects_bit_flip :
  verify_frame ([xfd; x7f; xcc; x20; x8f; xf8] ++ [x0a; x09] ++ [x31; x32; x33; x34; x35; x36; x37; x38; x38]) = false.
Proof. vm_compute. reflexivity. Qed.

(* an output that was right when returned but reads differently after the next
   call (storage shared between calls) is rejected *)
Example C19_seq_rejects_overwritten_output :
  C19_seq_ok [mkSeqCall ex_msg (marshal (Ok ex_msg)) [marshal_ok [x0a; x01; x41]];
              mkSeqCall [x0a; x01; x41] (marshal (Ok [x0a; x01; x41])) [marshal_ok [x0a; x01; x41]]] = false.
Proof. vm_compute. reflexivity. Qed.
Example C19_seq_accepts_model_run :
  C19_seq_ok (model_seq [ex_msg; []; [x0a; x01; x41]] 3) = true.
Proof. vm_compute. reflexivity. Qed.
