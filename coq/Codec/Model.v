(* Engine "codec" (property C19): executable model of myCodec.Marshal /
   myCodec.Unmarshal of /repo/e2e-checksum/main.go, as the code is.

   No proofs in this file (models stay extractable when a proof breaks).

   Bytes are Coq's [Byte.byte] (an inductive with exactly 256 constructors), so
   "for every byte list" needs no side condition "each element < 256".
   Machine integers (uint32 checksum, uint64 varint argument) are [N] with the
   wrap-around written out where the Go code has it. *)
From Coq Require Import NArith List Bool Strings.Byte.
Import ListNotations.
Open Scope N_scope.

Definition bytes := list byte.

(* byte(x): truncation of an unsigned integer to its low 8 bits *)
Definition byte_of_N (n : N) : byte :=
  match Byte.of_N (n mod 256) with Some b => b | None => x00 end.

(* ------------------------------------------------------------------ *)
(* hash/crc32, Castagnoli polynomial, re-specified bit by bit.
   crc32.Checksum(data, tab) = ^update(^0, tab, data); the table entry for
   index i is i pushed through 8 rounds of "shift right, xor the reflected
   polynomial if the bit shifted out was 1", which is what [crc_byte] does to
   the low byte of crc^b while the high 24 bits are shifted along. *)
Definition crc_poly : N := 0x82F63B78.

Definition crc_bit (c : N) : N :=
  if N.odd c then N.lxor (N.shiftr c 1) crc_poly else N.shiftr c 1.

Definition crc_byte (c : N) (b : byte) : N :=
  Nat.iter 8 crc_bit (N.lxor c (Byte.to_N b)).

Definition crc_update (c : N) (p : bytes) : N := fold_left crc_byte p c.

Definition crc32c (p : bytes) : N :=
  N.lxor (crc_update 0xFFFFFFFF p) 0xFFFFFFFF.

(* ------------------------------------------------------------------ *)
(* proto.Buffer.EncodeVarint(x uint64): for x >= 1<<7 { append(byte(x&0x7f|0x80)); x >>= 7 }
   append(byte(x)).  A uint64 needs at most 9 continuation bytes. *)
Fixpoint encode_varint_fuel (fuel : nat) (x : N) : bytes :=
  match fuel with
  | O => [byte_of_N x]
  | S f => if x <? 128 then [byte_of_N x]
           else byte_of_N (N.lor (N.land x 127) 128) :: encode_varint_fuel f (N.shiftr x 7)
  end.

Definition encode_varint (x : N) : bytes := encode_varint_fuel 9 (x mod 2 ^ 64).

(* proto.Buffer.EncodeFixed32(x uint64): append(uint8(x), uint8(x>>8), uint8(x>>16), uint8(x>>24)) *)
Definition le32 (x : N) : bytes :=
  [byte_of_N x; byte_of_N (x / 256); byte_of_N (x / 65536); byte_of_N (x / 16777216)].

Definition encode_fixed32 (x : N) : bytes := le32 x.

(* little-endian decoding of a byte string (any length) *)
Fixpoint decode_le (bs : bytes) : N :=
  match bs with
  | [] => 0
  | b :: r => Byte.to_N b + 256 * decode_le r
  end.

Definition decode_le32 (bs : bytes) : N := decode_le (firstn 4 bs).

(* ------------------------------------------------------------------ *)
(* myCodec.Marshal.  The inner codec's result is the input: [Ok p] = (p, nil),
   [Err b] = (b, err) with err != nil (the error value itself is opaque; the
   harness checks that the very same error value comes back).

     bytes, err := c.protoCodec.Marshal(v)
     if err != nil { return bytes, err }
     checksum := crc32.Checksum(bytes, crc32.MakeTable(crc32.Castagnoli))
     buffer := proto.NewBuffer([]byte{})
     tag := (checksumField << 3) | checksumWireType
     buffer.EncodeVarint(uint64(tag))        // never fails (golang/protobuf 1.5.3)
     buffer.EncodeFixed32(uint64(checksum))  // never fails
     newBytes := append(buffer.Bytes(), bytes...)
     return newBytes, err                    // err == nil here                    *)
Definition checksumField : N := 2047.
Definition checksumWireType : N := 5.
Definition checksum_tag : N := N.lor (N.shiftl checksumField 3) checksumWireType.

Inductive result := Ok (b : bytes) | Err (b : bytes).

Definition marshal (inner : result) : result :=
  match inner with
  | Err b => Err b
  | Ok p =>
      let checksum := crc32c p in
      let buffer := encode_varint checksum_tag ++ encode_fixed32 checksum in
      Ok (buffer ++ p)
  end.

Definition marshal_ok (p : bytes) : bytes :=
  match marshal (Ok p) with Ok b => b | Err b => b end.

(* myCodec.Unmarshal(data, v) = c.protoCodec.Unmarshal(data, v): the data go to
   the inner codec unchanged, the checksum is neither verified nor stripped. *)
Definition unmarshal_input (data : bytes) : bytes := data.

(* ------------------------------------------------------------------ *)
(* Protobuf wire format, as a conforming parser reads it: a message is a
   sequence of fields, each a varint tag (field number << 3 | wire type)
   followed by a wire-type dependent value.  [fields] splits a byte string
   into the flat sequence of fields; groups (wire types 3/4, deprecated but
   still legal) are HANDLED: they show up as [FSGroup n] ... [FEGroup n]
   tokens, which must be properly nested and matched.  Rejected ([None]):
   truncated input, varints longer than 10 bytes or overflowing 64 bits, field
   number 0 or > 2^29-1, wire types 6 and 7, unmatched group delimiters. *)
Inductive field :=
| FVar (num v : N)                    (* wire type 0: varint *)
| F64 (num v : N)                     (* wire type 1: 64-bit little endian *)
| FLen (num : N) (payload : bytes)    (* wire type 2: length-delimited *)
| F32 (num v : N)                     (* wire type 5: 32-bit little endian *)
| FSGroup (num : N)                   (* wire type 3 *)
| FEGroup (num : N).                  (* wire type 4 *)

Definition field_num (f : field) : N :=
  match f with
  | FVar n _ | F64 n _ | FLen n _ | F32 n _ | FSGroup n | FEGroup n => n
  end.

(* base-128 varint, at most 10 bytes, the 10th may only contribute bit 63
   (this is protowire.ConsumeVarint's rule; non-minimal encodings are accepted) *)
Fixpoint get_varint_aux (fuel : nat) (shift acc : N) (bs : bytes) : option (N * bytes) :=
  match fuel with
  | O => None
  | S f =>
      match bs with
      | [] => None
      | b :: r =>
          let v := Byte.to_N b in
          if v <? 128 then
            (match f with
             | O => if v <? 2 then Some (acc + N.shiftl v shift, r) else None
             | S _ => Some (acc + N.shiftl v shift, r)
             end)
          else get_varint_aux f (shift + 7) (acc + N.shiftl (v - 128) shift) r
      end
  end.

Definition get_varint (bs : bytes) : option (N * bytes) := get_varint_aux 10 0 0 bs.

(* first n bytes and the rest; None if fewer than n bytes are left *)
Fixpoint split_at (bs : bytes) (n : N) : option (bytes * bytes) :=
  match bs with
  | [] => if n =? 0 then Some ([], []) else None
  | b :: r =>
      if n =? 0 then Some ([], bs)
      else if n =? 1 then Some ([b], r)
      else match split_at r (N.pred n) with
           | Some (a, c) => Some (b :: a, c)
           | None => None
           end
  end.

Definition max_field_number : N := 536870911.   (* 2^29 - 1 *)

Definition ocons (f : field) (o : option (list field)) : option (list field) :=
  match o with Some fs => Some (f :: fs) | None => None end.

(* [stack]: numbers of the groups currently open, innermost first *)
Fixpoint parse (fuel : nat) (stack : list N) (bs : bytes) : option (list field) :=
  match fuel with
  | O => None
  | S f =>
      match bs with
      | [] => match stack with [] => Some [] | _ :: _ => None end
      | _ :: _ =>
          match get_varint bs with
          | None => None
          | Some (tag, r1) =>
              let num := N.shiftr tag 3 in
              let wt := N.land tag 7 in
              if (num =? 0) || (max_field_number <? num) then None
              else if wt =? 0 then
                match get_varint r1 with
                | Some (v, r2) => ocons (FVar num v) (parse f stack r2)
                | None => None
                end
              else if wt =? 1 then
                match split_at r1 8 with
                | Some (a, r2) => ocons (F64 num (decode_le a)) (parse f stack r2)
                | None => None
                end
              else if wt =? 2 then
                match get_varint r1 with
                | Some (len, r2) =>
                    match split_at r2 len with
                    | Some (a, r3) => ocons (FLen num a) (parse f stack r3)
                    | None => None
                    end
                | None => None
                end
              else if wt =? 5 then
                match split_at r1 4 with
                | Some (a, r2) => ocons (F32 num (decode_le a)) (parse f stack r2)
                | None => None
                end
              else if wt =? 3 then ocons (FSGroup num) (parse f (num :: stack) r1)
              else if wt =? 4 then
                match stack with
                | g :: st => if g =? num then ocons (FEGroup num) (parse f st r1) else None
                | [] => None
                end
              else None
          end
      end
  end.

(* every field consumes at least one byte, so length+1 steps always suffice
   (proved: Proofs.parse_fuel_irrelevant) *)
Definition fields (bs : bytes) : option (list field) := parse (S (length bs)) [] bs.
