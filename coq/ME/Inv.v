(* Engine B proofs, part 2: state invariants of the multiendpoint model and
   their preservation by every model function. *)
From GV Require Import ME.Model ME.Monitors ME.Lists.
From Coq Require Import Permutation ZifyBool.
Open Scope Z_scope.

(* ------------------------------------------------------------------------ *)
(* Small helpers                                                            *)
(* ------------------------------------------------------------------------ *)
Definition is_err (o : out) : bool := match o with OErr => true | _ => false end.
Definition noerr (o : list out) : Prop := existsb is_err o = false.

Lemma noerr_nil : noerr []. Proof. reflexivity. Qed.
Lemma noerr_app a b : noerr a -> noerr b -> noerr (a ++ b).
Proof. unfold noerr. intros Ha Hb. rewrite existsb_app, Ha, Hb. reflexivity. Qed.

Definition active (t : timer) : Prop := t_st t = Pending \/ t_st t = Firing.

Definition is_pending (st : tstate) : bool := match st with Pending => true | _ => false end.

Definition keys (s : me) : list N := map fst (emap s).

Definition Mapped (s : me) (k : N) (e : ep) : Prop :=
  exists c, In (k, c) (emap s) /\ nth_error (heap s) c = Some e.

(* ------------------------------------------------------------------------ *)
(* stop_timer / setState / scheduleUnavailable as explicit equations        *)
(* ------------------------------------------------------------------------ *)
Definition stops (ok : option nat) (j : nat) (t : timer) : bool :=
  match ok with Some k => Nat.eqb k j && is_pending (t_st t) | None => false end.

Definition stopped_timers (ts : list timer) (k : nat) : list timer :=
  match nth_error ts k with
  | Some t => match t_st t with
              | Pending => upd_nth k (fun t => with_tst t Stopped) ts
              | _ => ts
              end
  | None => ts
  end.

Definition stop_opt (ts : list timer) (ok : option nat) : list timer :=
  match ok with Some k => stopped_timers ts k | None => ts end.

Lemma stop_opt_nth ts ok j :
  nth_error (stop_opt ts ok) j =
  option_map (fun t => if stops ok j t then with_tst t Stopped else t) (nth_error ts j).
Proof.
  destruct ok as [k|]; cbn.
  - unfold stopped_timers. destruct (nth_error ts k) as [t|] eqn:E.
    + destruct (t_st t) eqn:St.
      * rewrite nth_error_upd_nth. destruct (Nat.eqb_spec k j) as [->|Hne].
        { rewrite E. cbn. rewrite St. reflexivity. }
        { destruct (nth_error ts j); reflexivity. }
      * destruct (Nat.eqb_spec k j) as [->|Hne]; [rewrite E; cbn; rewrite St|]; cbn;
          destruct (nth_error ts j); reflexivity.
      * destruct (Nat.eqb_spec k j) as [->|Hne]; [rewrite E; cbn; rewrite St|]; cbn;
          destruct (nth_error ts j); reflexivity.
      * destruct (Nat.eqb_spec k j) as [->|Hne]; [rewrite E; cbn; rewrite St|]; cbn;
          destruct (nth_error ts j); reflexivity.
    + destruct (Nat.eqb_spec k j) as [->|Hne]; [rewrite E; reflexivity|].
      destruct (nth_error ts j); reflexivity.
  - destruct (nth_error ts j); reflexivity.
Qed.

Lemma stop_opt_length ts ok : length (stop_opt ts ok) = length ts.
Proof.
  destruct ok as [k|]; cbn; auto. unfold stopped_timers.
  destruct (nth_error ts k) as [t|]; auto. destruct (t_st t); auto using upd_nth_length.
Qed.

Lemma stop_timer_eq s k :
  exists b, stop_timer s k = (set_timers s (stopped_timers (timers s) k), [OStop k b]).
Proof.
  unfold stop_timer, stopped_timers. destruct s as [h m r d c f ts n]; cbn.
  destruct (nth_error ts k) as [t|]; [destruct (t_st t)|]; eexists; reflexivity.
Qed.

Ltac inv H := inversion H; subst; clear H.
Ltac sim := cbn [heap timers now recov emap cur fut delay set_heap set_timers set_now set_cur set_fut set_emap] in *.

Definition setState_res (s : me) (c : nat) (e : ep) (st : status) : me :=
  mkMe (upd_nth c (fun e => with_st e st (now s)) (heap s)) (emap s) (recov s) (delay s)
       (cur s) (fut s) (stop_opt (timers s) (e_tmr e)) (now s).

Lemma setState_eq s c e st :
  get_ep s c = Some e ->
  exists o, setState s c st = (setState_res s c e st, o) /\ noerr o.
Proof.
  intros H. unfold setState, setState_res. rewrite H.
  destruct (e_tmr e) as [k|]; cbn.
  - destruct (stop_timer_eq s k) as [b Hb]. rewrite Hb. cbn. eexists; split; reflexivity.
  - destruct s; cbn. eexists; split; reflexivity.
Qed.

Lemma setState_none s c st : get_ep s c = None -> setState s c st = (s, []).
Proof. intros H. unfold setState. rewrite H. reflexivity. Qed.

Definition sched_res (s : me) (c : nat) (e : ep) : me :=
  mkMe (upd_nth c (fun e => with_tmr e (length (timers s))) (heap s)) (emap s) (recov s) (delay s)
       (cur s) (fut s)
       (timers s ++ [mkTimer (now s + recov s) (TRec c (e_last e)) Pending]) (now s).

Lemma sched_eq s c e :
  get_ep s c = Some e -> scheduleUnavailable s c = (sched_res s c e, [ONewTimer (recov s)]).
Proof.
  intros H. unfold scheduleUnavailable, sched_res. rewrite H. reflexivity.
Qed.

(* ------------------------------------------------------------------------ *)
(* TH: the invariant tying heap cells and timers together (emap-free)       *)
(* ------------------------------------------------------------------------ *)
Definition Tcell (s : me) (c : nat) (e : ep) : Prop :=
  forall k, e_tmr e = Some k ->
  exists t stamp, nth_error (timers s) k = Some t /\ t_kind t = TRec c stamp.

(* a recovering cell has a live recovery timer of its own, with the right stamp *)
Definition Rcell (s : me) (c : nat) (e : ep) : Prop :=
  e_st e = Recovering ->
  exists k t, e_tmr e = Some k /\ nth_error (timers s) k = Some t /\
              t_kind t = TRec c (e_last e) /\ active t.

Definition Ktimer (s : me) (k : nat) (t : timer) : Prop :=
  forall c stamp, t_kind t = TRec c stamp -> active t ->
  exists e, nth_error (heap s) c = Some e /\
            (t_st t = Pending -> e_tmr e = Some k) /\
            (0 <= recov s ->
               stamp < t_due t /\
               (t_st t = Firing -> t_due t <= now s) /\
               (e_last e = stamp -> e_st e = Recovering /\ e_tmr e = Some k)).

Record TH (s : me) (skip : option nat) : Prop := mkTH {
  th_T : forall c e, nth_error (heap s) c = Some e -> Tcell s c e;
  th_R : forall c e, nth_error (heap s) c = Some e -> skip <> Some c -> Rcell s c e;
  th_L : forall c e, nth_error (heap s) c = Some e -> e_last e <= now s;
  th_now : 0 <= now s;
  th_K : forall k t, nth_error (timers s) k = Some t -> Ktimer s k t
}.

Lemma TH_weaken s c : TH s None -> TH s (Some c).
Proof. intros [HT HR HL HN HK]. constructor; auto. intros c' e' H _. apply HR; auto. discriminate. Qed.


Lemma option_map_Some {A B} (f : A -> B) o y :
  option_map f o = Some y -> exists x, o = Some x /\ y = f x.
Proof. destruct o; cbn; intros H; inv H; eauto. Qed.

(* setState *)
Lemma TH_setState s skip c e st :
  TH s skip -> (skip = None \/ skip = Some c) ->
  get_ep s c = Some e ->
  TH (setState_res s c e st) (match st with Recovering => Some c | _ => None end).
Proof.
  intros [HT HR HL HN HK] Hskip He. unfold get_ep in He.
  constructor; unfold Tcell, Rcell, Ktimer, setState_res, sched_res; sim.
  - (* T *)
    intros c' e' H k Hk. rewrite nth_error_upd_nth in H.
    assert (exists e0, nth_error (heap s) c' = Some e0 /\ e_tmr e0 = Some k) as [e0 [H0 H0k]].
    { destruct (Nat.eqb c c'); [apply option_map_Some in H; destruct H as [x [Hx ->]]|]; eauto. }
    destruct (HT _ _ H0 k H0k) as [t [stamp [Ht Hkind]]].
    rewrite stop_opt_nth, Ht. cbn.
    destruct (stops (e_tmr e) k t); eexists; eexists; split; eauto.
  - (* R *)
    intros c' e' H Hsk Hrec. rewrite nth_error_upd_nth in H.
    destruct (Nat.eqb_spec c c') as [<-|Hne].
    + rewrite He in H. cbn in H. inv H. cbn in Hrec. subst st. congruence.
    + assert (Hsk' : skip <> Some c') by (destruct Hskip; congruence).
      destruct (HR _ _ H Hsk' Hrec) as [k [t [H1 [H2 [H3 H4]]]]].
      exists k, t. split; [exact H1|]. split; [|auto].
      rewrite stop_opt_nth, H2. cbn.
      destruct (stops (e_tmr e) k t) eqn:Es; [|reflexivity].
      exfalso. unfold stops in Es. destruct (e_tmr e) as [k0|] eqn:Ek; [|discriminate].
      apply andb_true_iff in Es. destruct Es as [Es _]. apply Nat.eqb_eq in Es. subst k0.
      destruct (HT _ _ He k Ek) as [t0 [stamp0 [Ht0 Hk0]]]. congruence.
  - (* L *)
    intros c' e' H. rewrite nth_error_upd_nth in H.
    destruct (Nat.eqb c c'); [apply option_map_Some in H; destruct H as [x [Hx ->]]; cbn; lia|].
    eauto.
  - exact HN.
  - (* K *)
    intros k t' H c0 stamp Hkind Hact. rewrite stop_opt_nth in H.
    apply option_map_Some in H. destruct H as [t [Ht ->]].
    destruct (stops (e_tmr e) k t) eqn:Es.
    { exfalso. destruct Hact as [Ha|Ha]; cbn in Ha; discriminate. }
    destruct (HK _ _ Ht c0 stamp Hkind Hact) as [e0 [H0 [K1 K2]]].
    rewrite nth_error_upd_nth. destruct (Nat.eqb_spec c c0) as [<-|Hne].
    + rewrite H0. cbn. eexists; split; [reflexivity|]. cbn.
      assert (e0 = e) by congruence. subst e0.
      split; [exact K1|]. intros Hr. destruct (K2 Hr) as [K2a [K2b K2c]].
      split; [exact K2a|]. split; [exact K2b|].
      intros Hnow. exfalso. destruct Hact as [Ha|Ha].
      * specialize (K1 Ha). unfold stops in Es. rewrite K1, Nat.eqb_refl, Ha in Es. discriminate.
      * specialize (K2b Ha). lia.
    + exists e0. auto.
Qed.

(* scheduleUnavailable *)
Lemma TH_sched s skip c e :
  TH s skip -> (skip = None \/ skip = Some c) ->
  get_ep s c = Some e ->
  e_st e = Recovering ->
  (forall k t, e_tmr e = Some k -> nth_error (timers s) k = Some t -> t_st t <> Pending) ->
  recov s <> 0 ->
  (0 <= recov s -> forall k t stamp, nth_error (timers s) k = Some t ->
     t_kind t = TRec c stamp -> t_st t = Firing -> e_last e <> stamp) ->
  TH (sched_res s c e) None.
Proof.
  intros [HT HR HL HN HK] Hskip He Hrec Hnp Hr0 Hnf. unfold get_ep in He.
  constructor; unfold Tcell, Rcell, Ktimer, setState_res, sched_res; sim.
  - (* T *)
    intros c' e' H k Hk. rewrite nth_error_upd_nth in H. rewrite nth_error_snoc.
    destruct (Nat.eqb_spec c c') as [<-|Hne].
    + rewrite He in H. cbn in H. inv H. cbn in Hk. inv Hk. rewrite Nat.eqb_refl.
      eexists; eexists; split; reflexivity.
    + destruct (HT _ _ H k Hk) as [t [stamp [Ht Hkind]]].
      pose proof (nth_error_Some_lt _ _ _ Ht) as Hlt.
      destruct (Nat.eqb_spec k (length (timers s))); [lia|]. eauto.
  - (* R *)
    intros c' e' H _ Hrec'. rewrite nth_error_upd_nth in H.
    destruct (Nat.eqb_spec c c') as [<-|Hne].
    + rewrite He in H. cbn in H. inv H. cbn.
      eexists; eexists. split; [reflexivity|]. rewrite nth_error_snoc, Nat.eqb_refl.
      split; [reflexivity|]. cbn. split; [reflexivity|]. left; reflexivity.
    + assert (Hsk' : skip <> Some c') by (destruct Hskip; congruence).
      destruct (HR _ _ H Hsk' Hrec') as [k [t [H1 [H2 [H3 H4]]]]].
      exists k, t. split; [exact H1|]. split; [|auto].
      pose proof (nth_error_Some_lt _ _ _ H2) as Hlt.
      rewrite nth_error_snoc. destruct (Nat.eqb_spec k (length (timers s))); [lia|]. exact H2.
  - (* L *)
    intros c' e' H. rewrite nth_error_upd_nth in H.
    destruct (Nat.eqb c c'); [apply option_map_Some in H; destruct H as [x [Hx ->]]; cbn|]; eauto.
  - exact HN.
  - (* K *)
    intros k t H c0 stamp Hkind Hact. rewrite nth_error_snoc in H.
    destruct (Nat.eqb_spec k (length (timers s))) as [->|Hne].
    + inv H. cbn in Hkind. inv Hkind. cbn.
      rewrite nth_error_upd_nth, Nat.eqb_refl, He. cbn.
      eexists; split; [reflexivity|]. cbn. split; [reflexivity|].
      intros Hr. pose proof (HL _ _ He). split; [lia|]. split; [discriminate|].
      intros _. split; [exact Hrec|reflexivity].
    + destruct (HK _ _ H c0 stamp Hkind Hact) as [e0 [H0 [K1 K2]]].
      rewrite nth_error_upd_nth. destruct (Nat.eqb_spec c c0) as [<-|Hne'].
      * rewrite H0. cbn. eexists; split; [reflexivity|]. cbn.
        assert (e0 = e) by congruence. subst e0.
        split.
        { intros Hp. exfalso. specialize (K1 Hp). exact (Hnp _ _ K1 H Hp). }
        intros Hr. destruct (K2 Hr) as [A [B C]]. split; [exact A|]. split; [exact B|].
        intros Hl. exfalso. destruct Hact as [Ha|Ha].
        { exact (Hnp _ _ (K1 Ha) H Ha). }
        { exact (Hnf Hr _ _ _ H Hkind Ha Hl). }
      * exists e0. auto.
Qed.

(* appending a fresh cell that carries no timer and is not recovering, or is skipped *)
Lemma TH_new_cell s e0 :
  TH s None -> e_tmr e0 = None -> e_last e0 <= now s ->
  TH (set_heap s (heap s ++ [e0])) (Some (length (heap s))).
Proof.
  intros [HT HR HL HN HK] Htm Hl.
  constructor; unfold Tcell, Rcell, Ktimer, setState_res, sched_res; sim.
  - intros c e H k Hk. rewrite nth_error_snoc in H.
    destruct (Nat.eqb_spec c (length (heap s))); [inv H; congruence|]. exact (HT _ _ H k Hk).
  - intros c e H Hsk Hrec. rewrite nth_error_snoc in H.
    destruct (Nat.eqb_spec c (length (heap s))); [congruence|].
    apply (HR _ _ H); [discriminate|exact Hrec].
  - intros c e H. rewrite nth_error_snoc in H.
    destruct (Nat.eqb_spec c (length (heap s))); [inv H; exact Hl|]. eauto.
  - exact HN.
  - intros k t H c stamp Hkind Hact.
    destruct (HK _ _ H c stamp Hkind Hact) as [e1 [H1 K]].
    exists e1. split; [|exact K].
    rewrite nth_error_app1; [exact H1|]. eapply nth_error_Some_lt; eauto.
Qed.

Lemma TH_unskip s c e :
  TH s (Some c) -> nth_error (heap s) c = Some e -> e_st e <> Recovering -> TH s None.
Proof.
  intros [HT HR HL HN HK] He Hst. constructor; auto.
  intros c' e' H _. destruct (Nat.eq_dec c c') as [<-|Hne].
  - intros Hrec. congruence.
  - apply HR; auto. congruence.
Qed.

(* appending a switch timer *)
Lemma TH_new_switch s skip due :
  TH s skip -> TH (set_timers s (timers s ++ [mkTimer due TSwitch Pending])) skip.
Proof.
  intros [HT HR HL HN HK].
  constructor; unfold Tcell, Rcell, Ktimer, setState_res, sched_res; sim; auto.
  - intros c e H k Hk. destruct (HT _ _ H k Hk) as [t [stamp [Ht Hkind]]].
    exists t, stamp. split; [|exact Hkind]. rewrite nth_error_app1; [exact Ht|].
    eapply nth_error_Some_lt; eauto.
  - intros c e H Hsk Hrec. destruct (HR _ _ H Hsk Hrec) as [k [t [H1 [H2 H3]]]].
    exists k, t. split; [exact H1|]. split; [|exact H3].
    rewrite nth_error_app1; [exact H2|]. eapply nth_error_Some_lt; eauto.
  - intros k t H c stamp Hkind Hact. rewrite nth_error_snoc in H.
    destruct (Nat.eqb_spec k (length (timers s))); [inv H; discriminate|].
    exact (HK _ _ H c stamp Hkind Hact).
Qed.

(* fields TH does not read *)
Lemma TH_irrel s s' skip :
  heap s' = heap s -> timers s' = timers s -> now s' = now s -> recov s' = recov s ->
  TH s skip -> TH s' skip.
Proof.
  intros Hh Ht Hn Hr [HT HR HL HN HK].
  constructor; unfold Tcell, Rcell, Ktimer in *; rewrite ?Hh, ?Ht, ?Hn, ?Hr; auto.
Qed.

(* changing a priority *)
Lemma TH_with_prio s c p :
  TH s None -> TH (set_heap s (upd_nth c (fun e => with_prio e p) (heap s))) None.
Proof.
  intros [HT HR HL HN HK].
  constructor; unfold Tcell, Rcell, Ktimer, setState_res, sched_res; sim; auto.
  - intros c' e' H k Hk. rewrite nth_error_upd_nth in H.
    destruct (Nat.eqb c c'); [apply option_map_Some in H; destruct H as [x [Hx ->]]|];
      eapply HT; eauto.
  - intros c' e' H Hsk Hrec. rewrite nth_error_upd_nth in H.
    destruct (Nat.eqb c c'); [apply option_map_Some in H; destruct H as [x [Hx ->]]|].
    + exact (HR _ _ Hx Hsk Hrec).
    + exact (HR _ _ H Hsk Hrec).
  - intros c' e' H. rewrite nth_error_upd_nth in H.
    destruct (Nat.eqb c c'); [apply option_map_Some in H; destruct H as [x [Hx ->]]; cbn|]; eauto.
  - intros k t H c0 stamp Hkind Hact.
    destruct (HK _ _ H c0 stamp Hkind Hact) as [e0 [H0 K]].
    rewrite nth_error_upd_nth. destruct (Nat.eqb c c0).
    + rewrite H0. cbn. eexists; split; [reflexivity|]. exact K.
    + eauto.
Qed.

(* the clock advances *)
Lemma TH_advance s dt : 0 <= dt -> TH s None -> TH (set_now s (now s + dt)) None.
Proof.
  intros Hdt [HT HR HL HN HK].
  constructor; unfold Tcell, Rcell, Ktimer, setState_res, sched_res; sim; auto; try lia.
  - intros c e H. specialize (HL _ _ H). lia.
  - intros k t H c stamp Hkind Hact.
    destruct (HK _ _ H c stamp Hkind Hact) as [e0 [H0 [K1 K2]]].
    exists e0. split; [exact H0|]. split; [exact K1|].
    intros Hr. destruct (K2 Hr) as [A [B C]]. split; [exact A|]. split; [|exact C].
    intros F. specialize (B F). lia.
Qed.

(* a pending timer whose time has come starts firing *)
Lemma TH_begin s k :
  can_begin s k = true -> TH s None ->
  TH (set_timers s (upd_nth k (fun t => with_tst t Firing) (timers s))) None.
Proof.
  unfold can_begin. intros Hcb [HT HR HL HN HK].
  destruct (nth_error (timers s) k) as [tk|] eqn:Ek; [|discriminate].
  destruct (t_st tk) eqn:Stk; try discriminate.
  constructor; unfold Tcell, Rcell, Ktimer, setState_res, sched_res; sim; auto.
  - intros c e H j Hj. destruct (HT _ _ H j Hj) as [t [stamp [Ht Hkind]]].
    rewrite nth_error_upd_nth, Ht. destruct (Nat.eqb k j); cbn; eauto.
  - intros c e H Hsk Hrec. destruct (HR _ _ H Hsk Hrec) as [j [t [H1 [H2 [H3 H4]]]]].
    destruct (Nat.eqb k j) eqn:Ekj; [exists j, (with_tst t Firing)|exists j, t];
      rewrite nth_error_upd_nth, H2, Ekj; cbn.
    + split; [exact H1|]. split; [reflexivity|]. split; [exact H3|].
      right; reflexivity.
    + auto.
  - intros j t' H c stamp Hkind Hact. rewrite nth_error_upd_nth in H.
    destruct (Nat.eqb_spec k j) as [<-|Hne].
    + rewrite Ek in H. cbn in H. inv H. cbn in *.
      destruct (HK _ _ Ek c stamp Hkind (or_introl Stk)) as [e0 [H0 [K1 K2]]].
      exists e0. split; [exact H0|]. split; [discriminate|].
      intros Hr. destruct (K2 Hr) as [A [B C]]. split; [exact A|]. split; [lia|exact C].
    + exact (HK _ _ H c stamp Hkind Hact).
Qed.

(* a firing timer is marked done: only the cell it belongs to may lose its R *)
Lemma TH_end s k tk :
  nth_error (timers s) k = Some tk -> t_st tk = Firing -> TH s None ->
  let s1 := set_timers s (upd_nth k (fun t => with_tst t Done) (timers s)) in
  match t_kind tk with
  | TSwitch => TH s1 None
  | TRec c stamp =>
      TH s1 (Some c) /\
      (forall e, nth_error (heap s) c = Some e -> e_last e <> stamp -> TH s1 None)
  end.
Proof.
  intros Ek Stk [HT HR HL HN HK]. cbn zeta.
  assert (Core : forall skip,
    (forall c e, nth_error (heap s) c = Some e -> skip <> Some c -> e_st e = Recovering ->
                 e_tmr e <> Some k) ->
    TH (set_timers s (upd_nth k (fun t => with_tst t Done) (timers s))) skip).
  { intros skip Hk. constructor; unfold Tcell, Rcell, Ktimer, setState_res, sched_res; sim; auto.
    - intros c e H j Hj. destruct (HT _ _ H j Hj) as [t [stamp [Ht Hkind]]].
      rewrite nth_error_upd_nth, Ht. destruct (Nat.eqb k j); cbn; eauto.
    - intros c e H Hsk Hrec.
      assert (Hsk0 : @None nat <> Some c) by discriminate.
      destruct (HR _ _ H Hsk0 Hrec) as [j [t [H1 [H2 [H3 H4]]]]].
      destruct (Nat.eqb_spec k j) as [<-|Hne].
      + exfalso. exact (Hk _ _ H Hsk Hrec H1).
      + exists j, t. rewrite nth_error_upd_nth_neq by exact Hne. auto.
    - intros j t' H c stamp Hkind Hact. rewrite nth_error_upd_nth in H.
      destruct (Nat.eqb_spec k j) as [<-|Hne].
      + rewrite Ek in H. cbn in H. inv H. destruct Hact as [A|A]; cbn in A; discriminate.
      + exact (HK _ _ H c stamp Hkind Hact). }
  destruct (t_kind tk) as [c stamp|] eqn:Kd.
  - split.
    + apply Core. intros c' e' H Hsk Hrec Hk.
      assert (Hsk0 : @None nat <> Some c') by discriminate.
      destruct (HR _ _ H Hsk0 Hrec) as [j [t [H1 [H2 [H3 H4]]]]].
      assert (j = k) by congruence. subst j. assert (t = tk) by congruence. subst t.
      rewrite Kd in H3. inv H3. congruence.
    + intros e He Hne. apply Core. intros c' e' H Hsk Hrec Hk.
      assert (Hsk0 : @None nat <> Some c') by discriminate.
      destruct (HR _ _ H Hsk0 Hrec) as [j [t [H1 [H2 [H3 H4]]]]].
      assert (j = k) by congruence. subst j. assert (t = tk) by congruence. subst t.
      rewrite Kd in H3. inv H3. congruence.
  - apply Core. intros c' e' H Hsk Hrec Hk.
    assert (Hsk0 : @None nat <> Some c') by discriminate.
    destruct (HR _ _ H Hsk0 Hrec) as [j [t [H1 [H2 [H3 H4]]]]].
    assert (j = k) by congruence. subst j. assert (t = tk) by congruence. subst t.
    rewrite Kd in H3. discriminate.
Qed.

(* ------------------------------------------------------------------------ *)
(* Structure: emap vs heap                                                  *)
(* ------------------------------------------------------------------------ *)
Record WFs (s : me) : Prop := mkWFs {
  wf_keys : NoDup (keys s);
  wf_cells : forall k c, In (k, c) (emap s) ->
             exists e, nth_error (heap s) c = Some e /\ e_id e = k
}.

Definition PrioInj (s : me) : Prop :=
  forall k1 e1 k2 e2, Mapped s k1 e1 -> Mapped s k2 e2 -> e_prio e1 = e_prio e2 -> k1 = k2.

Lemma status_eqb_eq a b : status_eqb a b = true <-> a = b.
Proof. destruct a, b; cbn; split; intros H; try reflexivity; discriminate. Qed.

Lemma status_eqb_neq a b : status_eqb a b = false <-> a <> b.
Proof. destruct a, b; cbn; split; intros H; try reflexivity; try discriminate; congruence. Qed.

Lemma ep_of_id_Mapped s k e : WFs s -> (ep_of_id s k = Some e <-> Mapped s k e).
Proof.
  intros [Hk Hc]. unfold ep_of_id, Mapped, get_ep. split.
  - destruct (lookup (emap s) k) as [c|] eqn:E; [|discriminate].
    intros H. exists c. split; [apply lookup_In; exact E|exact H].
  - intros [c [Hin H]]. rewrite (In_lookup _ _ _ Hk Hin). exact H.
Qed.

Lemma Mapped_id s k e : WFs s -> Mapped s k e -> e_id e = k.
Proof.
  intros [Hk Hc] [c [Hin H]]. destruct (Hc _ _ Hin) as [e' [H1 H2]]. congruence.
Qed.

Lemma Mapped_fun s k e1 e2 : WFs s -> Mapped s k e1 -> Mapped s k e2 -> e1 = e2.
Proof.
  intros W H1 H2. apply ep_of_id_Mapped in H1, H2; auto. congruence.
Qed.

Lemma Mapped_key s k e : Mapped s k e -> In k (keys s).
Proof.
  intros [c [Hin _]]. unfold keys. change k with (fst (k, c)). apply in_map; exact Hin.
Qed.

Lemma key_Mapped s k : WFs s -> In k (keys s) -> exists e, Mapped s k e.
Proof.
  intros [Hk Hc] Hin. unfold keys in Hin. apply in_map_iff in Hin.
  destruct Hin as [[k' c] [Heq Hin]]. cbn in Heq. subst k'.
  destruct (Hc _ _ Hin) as [e [H1 H2]]. exists e, c. auto.
Qed.

Lemma ep_of_id_None s k : WFs s -> (ep_of_id s k = None <-> ~ In k (keys s)).
Proof.
  intros W. split.
  - intros H Hin. destruct (key_Mapped _ _ W Hin) as [e He].
    apply ep_of_id_Mapped in He; auto. congruence.
  - intros H. destruct (ep_of_id s k) as [e|] eqn:E; auto.
    apply ep_of_id_Mapped in E; auto. apply Mapped_key in E. contradiction.
Qed.

Lemma In_mapped_eps s e : In e (mapped_eps s) <-> exists k, Mapped s k e.
Proof.
  unfold mapped_eps, Mapped, get_ep. rewrite in_flat_map. split.
  - intros [[k c] [Hin H]]. cbn in H. destruct (nth_error (heap s) c) as [e'|] eqn:E; [|destruct H].
    destruct H as [->|[]]. eauto.
  - intros [k [c [Hin H]]]. exists (k, c). split; auto. cbn. rewrite H. left; reflexivity.
Qed.

Lemma mapped_ids s : WFs s -> map e_id (mapped_eps s) = keys s.
Proof.
  intros [_ Hc]. unfold mapped_eps, keys, get_ep.
  induction (emap s) as [|[k c] r IH]; cbn; auto.
  destruct (Hc k c (or_introl eq_refl)) as [e [H1 H2]]. rewrite H1. cbn.
  rewrite H2. f_equal. apply IH. intros k' c' Hin. apply Hc. right; exact Hin.
Qed.

Lemma prio_inj_mapped s : WFs s -> PrioInj s -> prio_inj e_prio (mapped_eps s).
Proof.
  intros W P x y Hx Hy Hp. apply In_mapped_eps in Hx, Hy.
  destruct Hx as [k1 H1], Hy as [k2 H2].
  assert (k1 = k2) by (eapply P; eauto). subst k2. eapply Mapped_fun; eauto.
Qed.

Definition availb (e : ep) : bool := status_eqb (e_st e) Available.

Lemma topAvail_top s : topAvail s = top e_prio availb (mapped_eps s).
Proof. reflexivity. Qed.

Lemma topAny_top s : topAny s = top e_prio (fun _ => true) (mapped_eps s).
Proof. reflexivity. Qed.

Lemma topAvail_Some s ta :
  topAvail s = Some ta ->
  (exists k, Mapped s k ta) /\ e_st ta = Available /\
  forall k e, Mapped s k e -> e_st e = Available -> e_prio ta <= e_prio e.
Proof.
  rewrite topAvail_top. intros H. apply top_Some in H. destruct H as [H1 [H2 H3]].
  split; [apply In_mapped_eps; exact H1|]. split; [apply status_eqb_eq; exact H2|].
  intros k e Hm Hst. apply H3.
  - apply In_mapped_eps; eauto.
  - apply status_eqb_eq; exact Hst.
Qed.

Lemma topAvail_None s :
  topAvail s = None -> forall k e, Mapped s k e -> e_st e <> Available.
Proof.
  rewrite topAvail_top. intros H k e Hm. apply status_eqb_neq.
  apply (top_None _ _ _ H). apply In_mapped_eps; eauto.
Qed.

Lemma topAny_Some s t : topAny s = Some t ->
  (exists k, Mapped s k t) /\ forall k e, Mapped s k e -> e_prio t <= e_prio e.
Proof.
  rewrite topAny_top. intros H. apply top_Some in H. destruct H as [H1 [H2 H3]].
  split; [apply In_mapped_eps; exact H1|].
  intros k e Hm. apply H3; auto. apply In_mapped_eps; eauto.
Qed.

Lemma topAny_None s : WFs s -> topAny s = None -> emap s = [].
Proof.
  rewrite topAny_top. intros W H. pose proof (top_None _ _ _ H) as Hn. cbn beta in Hn.
  destruct (emap s) as [|[k c] r] eqn:E; auto. exfalso.
  assert (Hin : In k (keys s)) by (unfold keys; rewrite E; left; reflexivity).
  destruct (key_Mapped _ _ W Hin) as [e He].
  assert (true = false); [|discriminate]. apply (Hn e). apply In_mapped_eps. eauto.
Qed.

(* fields the scans do not read *)
Lemma same_eps s s' :
  heap s' = heap s -> emap s' = emap s ->
  mapped_eps s' = mapped_eps s /\ topAvail s' = topAvail s /\ topAny s' = topAny s /\
  (forall id, ep_of_id s' id = ep_of_id s id) /\
  (forall k e, Mapped s' k e <-> Mapped s k e).
Proof.
  intros Hh Hm.
  assert (M : mapped_eps s' = mapped_eps s).
  { unfold mapped_eps, get_ep. rewrite Hh, Hm. reflexivity. }
  split; [exact M|]. unfold topAvail, topAny. rewrite M.
  split; [reflexivity|]. split; [reflexivity|].
  unfold ep_of_id, Mapped, get_ep. rewrite Hh, Hm. split; [reflexivity|]. tauto.
Qed.

Lemma WFs_same s s' : heap s' = heap s -> emap s' = emap s -> WFs s -> WFs s'.
Proof.
  intros Hh Hm [A B]. constructor; unfold keys; rewrite ?Hh, ?Hm; auto.
Qed.

Lemma PrioInj_same s s' : heap s' = heap s -> emap s' = emap s -> PrioInj s -> PrioInj s'.
Proof.
  intros Hh Hm P k1 e1 k2 e2 H1 H2. destruct (same_eps s s' Hh Hm) as [_ [_ [_ [_ E]]]].
  apply E in H1, H2. eauto.
Qed.

(* heap changes that keep ids and priorities of existing cells *)
Definition heap_le (h h' : list ep) : Prop :=
  forall c e, nth_error h c = Some e ->
  exists e', nth_error h' c = Some e' /\ e_id e' = e_id e /\ e_prio e' = e_prio e.

Lemma heap_le_refl h : heap_le h h.
Proof. intros c e H. eauto. Qed.

Lemma heap_le_trans a b c : heap_le a b -> heap_le b c -> heap_le a c.
Proof.
  intros H1 H2 i e H. destruct (H1 _ _ H) as [e' [A [B C]]].
  destruct (H2 _ _ A) as [e'' [A' [B' C']]]. exists e''. split; [auto|]. split; congruence.
Qed.

Lemma heap_le_upd h c f :
  (forall e, e_id (f e) = e_id e /\ e_prio (f e) = e_prio e) -> heap_le h (upd_nth c f h).
Proof.
  intros Hf i e H. rewrite nth_error_upd_nth, H. destruct (Nat.eqb c i); cbn; eauto.
Qed.

Lemma heap_le_app h x : heap_le h (h ++ [x]).
Proof.
  intros i e H. exists e. split; auto. rewrite nth_error_app1; auto.
  eapply nth_error_Some_lt; eauto.
Qed.

Lemma WFs_heap_le s s' : emap s' = emap s -> heap_le (heap s) (heap s') -> WFs s -> WFs s'.
Proof.
  intros Hm Hle [A B]. constructor; unfold keys; rewrite ?Hm; auto.
  intros k c Hin. destruct (B _ _ Hin) as [e [H1 H2]].
  destruct (Hle _ _ H1) as [e' [H1' [H2' _]]]. exists e'. split; congruence.
Qed.

Lemma PrioInj_heap_le s s' :
  emap s' = emap s -> heap_le (heap s) (heap s') -> WFs s -> PrioInj s -> PrioInj s'.
Proof.
  intros Hm Hle [A B] P k1 e1 k2 e2 [c1 [I1 H1]] [c2 [I2 H2]] Hp. rewrite Hm in I1, I2.
  destruct (B _ _ I1) as [x1 [X1 _]]. destruct (B _ _ I2) as [x2 [X2 _]].
  destruct (Hle _ _ X1) as [y1 [Y1 [_ Z1]]]. destruct (Hle _ _ X2) as [y2 [Y2 [_ Z2]]].
  apply (P k1 x1 k2 x2); [exists c1; auto|exists c2; auto|]. congruence.
Qed.

(* ------------------------------------------------------------------------ *)
(* Observation vs state                                                     *)
(* ------------------------------------------------------------------------ *)
Definition L (s : me) : list oep := o_eps (observe s).

Lemma L_perm s : Permutation (L s) (map oep_of (mapped_eps s)).
Proof. unfold L, observe. cbn. apply sort_perm. Qed.

Lemma ids_of_map_oep l : ids_of (map oep_of l) = map e_id l.
Proof. unfold ids_of. rewrite map_map. reflexivity. Qed.

Lemma L_ids_perm s : WFs s -> Permutation (ids_of (L s)) (keys s).
Proof.
  intros W. rewrite <- (mapped_ids s W), <- ids_of_map_oep.
  unfold ids_of. apply Permutation_map. apply L_perm.
Qed.

Lemma L_ids_In s x : WFs s -> (In x (ids_of (L s)) <-> In x (keys s)).
Proof.
  intros W. pose proof (L_ids_perm s W) as P. split; intros H.
  - exact (Permutation_in _ P H).
  - exact (Permutation_in _ (Permutation_sym P) H).
Qed.

Lemma obs_find s id : WFs s -> find_oep id (L s) = option_map oep_of (ep_of_id s id).
Proof.
  intros W.
  assert (Hnd : NoDup (ids_of (map oep_of (mapped_eps s)))).
  { rewrite ids_of_map_oep, mapped_ids by exact W. apply W. }
  rewrite <- (find_oep_perm id _ _ (Permutation_sym (L_perm s)) Hnd).
  destruct (ep_of_id s id) as [e|] eqn:E; cbn.
  - apply ep_of_id_Mapped in E; auto.
    assert (e_id e = id) by (eapply Mapped_id; eauto). subst id.
    change (e_id e) with (oe_id (oep_of e)). apply find_oep_In; auto.
    apply in_map. apply In_mapped_eps. eauto.
  - destruct (find_oep id (map oep_of (mapped_eps s))) as [x|] eqn:F; auto.
    apply find_oep_Some in F. destruct F as [F1 F2].
    apply ep_of_id_None in E; auto. exfalso. apply E.
    rewrite <- mapped_ids, <- ids_of_map_oep by exact W. subst id. unfold ids_of. apply in_map; exact F1.
Qed.

Lemma obs_top s p : WFs s -> PrioInj s ->
  o_top p (L s) = option_map oep_of (top e_prio (fun e => p (oep_of e)) (mapped_eps s)).
Proof.
  intros W P. rewrite o_top_is_top.
  rewrite <- (top_perm oe_prio p _ _ (Permutation_sym (L_perm s))).
  - apply (top_map oep_of oe_prio p).
  - intros x y Hx Hy Hp. apply in_map_iff in Hx, Hy.
    destruct Hx as [e1 [<- H1]], Hy as [e2 [<- H2]]. f_equal.
    apply (prio_inj_mapped s W P); auto.
Qed.

Lemma o_avail_oep e : o_avail (oep_of e) = availb e.
Proof. unfold o_avail, availb, oep_of. cbn. destruct (e_st e); reflexivity. Qed.

Lemma obs_top_avail s : WFs s -> PrioInj s ->
  o_top_avail (L s) = option_map oep_of (topAvail s).
Proof.
  intros W P. unfold o_top_avail. rewrite obs_top by assumption. rewrite topAvail_top.
  f_equal. apply top_ext. intros x _. apply o_avail_oep.
Qed.

Lemma obs_top_any s : WFs s -> PrioInj s ->
  o_top_any (L s) = option_map oep_of (topAny s).
Proof.
  intros W P. unfold o_top_any. rewrite obs_top by assumption. rewrite topAny_top. reflexivity.
Qed.

Lemma obs_mem s x : WFs s -> memN x (ids_of (L s)) = memN x (keys s).
Proof.
  intros W. destruct (memN x (keys s)) eqn:E.
  - apply memN_In. apply L_ids_In; auto. apply memN_In; exact E.
  - apply memN_false. rewrite L_ids_In by exact W. apply memN_false; exact E.
Qed.

Lemma obs_same_set s lst : WFs s ->
  (forall x, In x (keys s) <-> In x lst) -> same_set (ids_of (L s)) lst = true.
Proof.
  intros W H. apply same_set_spec. intros x. rewrite L_ids_In by exact W. apply H.
Qed.

(* ------------------------------------------------------------------------ *)
(* maybeUpdateCurrent                                                       *)
(* ------------------------------------------------------------------------ *)
Definition hold_at (s : me) (id : N) : bool :=
  match ep_of_id s id with
  | Some ce => status_eqb (e_st ce) Recovering &&
               match topAvail s with None => true | Some ta => e_prio ce <? e_prio ta end
  | None => false
  end.

Lemma hold_current_at s : hold_current s = hold_at s (cur s).
Proof. reflexivity. Qed.

Definition sw_res (s : me) (ta : ep) : me :=
  set_timers (set_fut s (e_id ta)) (timers s ++ [mkTimer (now s + delay s) TSwitch Pending]).

Inductive MUC (s : me) : me -> list out -> Prop :=
| MUC_hold : hold_current s = true -> MUC s s []
| MUC_same ta : hold_current s = false -> topAvail s = Some ta -> cur s = e_id ta -> MUC s s []
| MUC_now ta : hold_current s = false -> topAvail s = Some ta -> cur s <> e_id ta ->
    (delay s = 0 \/ ep_of_id s (cur s) = None \/
     exists fe, ep_of_id s (cur s) = Some fe /\ e_st fe = Unavailable) ->
    MUC s (set_cur s (e_id ta)) []
| MUC_later ta fe : hold_current s = false -> topAvail s = Some ta -> cur s <> e_id ta ->
    delay s <> 0 -> ep_of_id s (cur s) = Some fe -> e_st fe <> Unavailable ->
    MUC s (sw_res s ta) [ONewTimer (delay s)]
| MUC_keep fe : hold_current s = false -> topAvail s = None -> ep_of_id s (cur s) = Some fe ->
    MUC s s []
| MUC_any t : hold_current s = false -> topAvail s = None -> ep_of_id s (cur s) = None ->
    topAny s = Some t -> MUC s (set_cur s (e_id t)) []
| MUC_empty : hold_current s = false -> topAvail s = None -> ep_of_id s (cur s) = None ->
    topAny s = None -> MUC s s [].

Lemma mUC_cases s s' o : maybeUpdateCurrent s = (s', o) -> MUC s s' o.
Proof.
  unfold maybeUpdateCurrent. destruct (hold_current s) eqn:H.
  { intros E; inv E. apply MUC_hold; auto. }
  destruct (topAvail s) as [ta|] eqn:T.
  - unfold switchFromTo. destruct (N.eqb_spec (cur s) (e_id ta)) as [Hc|Hc].
    { intros E; inv E. eapply MUC_same; eauto. }
    destruct (Z.eqb_spec (delay s) 0) as [D|D]; cbn [orb].
    { intros E; inv E. eapply MUC_now; eauto. }
    destruct (ep_of_id s (cur s)) as [fe|] eqn:F.
    + destruct (status_eqb (e_st fe) Unavailable) eqn:U.
      * intros E; inv E. eapply MUC_now; eauto. right; right. exists fe.
        split; auto. apply status_eqb_eq; auto.
      * cbn. intros E; inv E. eapply MUC_later; eauto. apply status_eqb_neq; auto.
    + intros E; inv E. eapply MUC_now; eauto.
  - destruct (ep_of_id s (cur s)) as [fe|] eqn:F.
    { intros E; inv E. eapply MUC_keep; eauto. }
    destruct (topAny s) as [t|] eqn:A; intros E; inv E.
    + eapply MUC_any; eauto.
    + eapply MUC_empty; eauto.
Qed.

Definition CurMapped (s : me) : Prop := exists ce, ep_of_id s (cur s) = Some ce.

Definition Uinv (s : me) : Prop :=
  forall ce, ep_of_id s (cur s) = Some ce -> e_st ce = Unavailable -> topAvail s = None.

Definition has_switch (s : me) : Prop :=
  exists k t, nth_error (timers s) k = Some t /\ t_kind t = TSwitch /\ active t.

Definition Jinv (s : me) : Prop :=
  forall ta, topAvail s = Some ta ->
  hold_current s = true \/ cur s = e_id ta \/
  (delay s <> 0 /\ fut s = e_id ta /\ has_switch s).

(* what cur would be after maybeUpdateCurrent with no switching delay *)
Definition decide_st (s : me) (c0 : N) : N :=
  match ep_of_id s c0 with
  | Some c =>
      if status_eqb (e_st c) Recovering &&
         match topAvail s with None => true | Some ta => e_prio c <? e_prio ta end
      then c0
      else match topAvail s with Some ta => e_id ta | None => c0 end
  | None =>
      match topAvail s with
      | Some ta => e_id ta
      | None => match topAny s with Some t => e_id t | None => c0 end
      end
  end.

Lemma decide_st_eq s c0 :
  decide_st s c0 =
  if hold_at s c0 then c0
  else match topAvail s with
       | Some ta => e_id ta
       | None => match ep_of_id s c0 with
                 | Some _ => c0
                 | None => match topAny s with Some t => e_id t | None => c0 end
                 end
       end.
Proof.
  unfold decide_st, hold_at. destruct (ep_of_id s c0) as [c|]; [|reflexivity].
  destruct (status_eqb (e_st c) Recovering && _); [reflexivity|].
  destruct (topAvail s); reflexivity.
Qed.

Record CurTrans (inp : bool) (c0 : N) (s' : me) : Prop := mkCT {
  ct_hold : hold_at s' c0 = true -> cur s' = c0;
  ct_none : topAvail s' = None ->
            cur s' = c0 \/ (ep_of_id s' c0 = None /\ exists t, topAny s' = Some t /\ cur s' = e_id t);
  ct_some : forall ta, topAvail s' = Some ta -> cur s' = c0 \/ cur s' = e_id ta;
  ct_d0 : delay s' = 0 -> cur s' = decide_st s' c0;
  ct_delay : inp = true -> delay s' <> 0 ->
             forall c, ep_of_id s' c0 = Some c -> e_st c <> Unavailable -> cur s' = c0
}.

Lemma hold_at_Some s id : hold_at s id = true ->
  exists ce, ep_of_id s id = Some ce /\ e_st ce = Recovering.
Proof.
  unfold hold_at. destruct (ep_of_id s id) as [ce|]; [|discriminate].
  intros H. apply andb_true_iff in H. destruct H as [H _]. apply status_eqb_eq in H. eauto.
Qed.

Lemma topAvail_ep s ta : WFs s -> topAvail s = Some ta ->
  ep_of_id s (e_id ta) = Some ta /\ e_st ta = Available.
Proof.
  intros W H. apply topAvail_Some in H. destruct H as [[k Hm] [Hst _]].
  split; auto. apply ep_of_id_Mapped; auto.
  rewrite (Mapped_id _ _ _ W Hm). exact Hm.
Qed.

Lemma topAny_ep s t : WFs s -> topAny s = Some t -> ep_of_id s (e_id t) = Some t.
Proof.
  intros W H. apply topAny_Some in H. destruct H as [[k Hm] _].
  apply ep_of_id_Mapped; auto. rewrite (Mapped_id _ _ _ W Hm). exact Hm.
Qed.

Lemma mUC_post s s' o :
  WFs s -> emap s <> [] -> MUC s s' o ->
  heap s' = heap s /\ emap s' = emap s /\ recov s' = recov s /\ delay s' = delay s /\
  now s' = now s /\ noerr o /\
  (timers s' = timers s \/ timers s' = timers s ++ [mkTimer (now s + delay s) TSwitch Pending]) /\
  CurMapped s' /\ Uinv s' /\ Jinv s' /\ CurTrans true (cur s) s'.
Proof.
  intros W Hne M.
  assert (Dec := decide_st_eq s (cur s)). rewrite <- hold_current_at in Dec.
  destruct M as [H|ta H T C|ta H T C D|ta fe H T C D F U|fe H T F|t H T F A|H T F A];
    (split; [reflexivity|]); (split; [reflexivity|]); (split; [reflexivity|]);
    (split; [reflexivity|]); (split; [reflexivity|]); (split; [reflexivity|]);
    (split; [try (left; reflexivity); try (right; reflexivity)|]).
  - (* hold *)
    pose proof H as H'. rewrite hold_current_at in H'. apply hold_at_Some in H'.
    destruct H' as [ce [E R]].
    split; [exists ce; exact E|]. split; [intros ce' E' U'; congruence|].
    split; [intros ta' _; left; exact H|].
    constructor; [auto|auto|auto| |auto]. intros _. rewrite Dec, H. reflexivity.
  - (* same *)
    destruct (topAvail_ep _ _ W T) as [E A].
    split; [exists ta; rewrite C; exact E|].
    split; [intros ce' E' U'; rewrite C in E'; congruence|].
    split; [intros ta' T'; right; left; congruence|].
    constructor; [auto|auto|auto| |auto].
    intros _. rewrite Dec, H, T. exact C.
  - (* now *)
    destruct (topAvail_ep _ _ W T) as [E A].
    split; [exists ta; exact E|].
    split; [intros ce' E' U'; cbn in E'; change (ep_of_id s (e_id ta) = Some ce') in E'; congruence|].
    split; [intros ta' T'; right; left; change (topAvail s = Some ta') in T'; cbn; congruence|].
    constructor; cbn [cur set_cur].
    + intros H'. change (hold_current s = true) in H'. congruence.
    + intros T'. change (topAvail s = None) in T'. congruence.
    + intros ta' T'. change (topAvail s = Some ta') in T'. right. congruence.
    + intros _. change (decide_st (set_cur s (e_id ta)) (cur s)) with (decide_st s (cur s)).
      rewrite Dec, H, T. reflexivity.
    + intros _ D' c Ec Uc. change (ep_of_id s (cur s) = Some c) in Ec.
      change (delay s <> 0) in D'.
      destruct D as [D|[D|[fe [D1 D2]]]]; try contradiction; congruence.
  - (* later *)
    destruct (topAvail_ep _ _ W T) as [E A].
    split; [exists fe; exact F|].
    split; [intros ce' E' U'; change (ep_of_id s (cur s) = Some ce') in E'; congruence|].
    split.
    { intros ta' T'. change (topAvail s = Some ta') in T'. right; right.
      split; [exact D|]. split; [cbn; congruence|].
      exists (length (timers s)), (mkTimer (now s + delay s) TSwitch Pending).
      split; [|split; [reflexivity|left; reflexivity]].
      unfold sw_res. cbn. rewrite nth_error_snoc, Nat.eqb_refl. reflexivity. }
    constructor; [intros; reflexivity|intros _; left; reflexivity|intros ta' _; left; reflexivity| |intros; reflexivity].
    intros D'. change (delay s = 0) in D'. contradiction.
  - (* keep *)
    split; [exists fe; exact F|]. split; [intros ce' E' U'; exact T|].
    split; [intros ta' T'; congruence|].
    constructor; [auto|auto|auto| |auto]. intros _. rewrite Dec, H, T, F. reflexivity.
  - (* any *)
    pose proof (topAny_ep _ _ W A) as E.
    split; [exists t; exact E|]. split; [intros ce' E' U'; exact T|].
    split; [intros ta' T'; change (topAvail s = Some ta') in T'; congruence|].
    constructor; cbn [cur set_cur].
    + intros H'. change (hold_current s = true) in H'. congruence.
    + intros _. right. split; [exact F|]. exists t. split; [exact A|reflexivity].
    + intros ta' T'. change (topAvail s = Some ta') in T'. congruence.
    + intros _. change (decide_st (set_cur s (e_id t)) (cur s)) with (decide_st s (cur s)).
      rewrite Dec, H, T, F, A. reflexivity.
    + intros _ _ c Ec. change (ep_of_id s (cur s) = Some c) in Ec. congruence.
  - (* empty *)
    exfalso. apply Hne. apply topAny_None; auto.
Qed.

Lemma CurTrans_stutter inp s : CurMapped s -> Jinv s -> CurTrans inp (cur s) s.
Proof.
  intros [ce E] J. constructor; [auto|auto|auto| |auto].
  intros D. rewrite decide_st_eq, <- hold_current_at.
  destruct (hold_current s) eqn:H; [reflexivity|].
  destruct (topAvail s) as [ta|] eqn:T.
  - destruct (J ta T) as [X|[X|[X _]]]; congruence.
  - rewrite E. reflexivity.
Qed.

(* the part of CurTrans / invariants that only reads heap, emap, cur, delay *)
Lemma CurTrans_same inp c0 s s' :
  heap s' = heap s -> emap s' = emap s -> cur s' = cur s -> delay s' = delay s ->
  CurTrans inp c0 s -> CurTrans inp c0 s'.
Proof.
  intros Hh Hm Hc Hd [A B C D E].
  destruct (same_eps s s' Hh Hm) as [_ [TA [TN [EP _]]]].
  assert (HA : forall id, hold_at s' id = hold_at s id).
  { intros id. unfold hold_at. rewrite EP, TA. reflexivity. }
  assert (DS : decide_st s' c0 = decide_st s c0).
  { unfold decide_st. rewrite EP, TA, TN. reflexivity. }
  constructor; rewrite ?HA, ?TA, ?TN, ?EP, ?Hc, ?Hd, ?DS; auto.
Qed.

Lemma CurMapped_same s s' :
  heap s' = heap s -> emap s' = emap s -> cur s' = cur s -> CurMapped s -> CurMapped s'.
Proof.
  intros Hh Hm Hc [ce E]. destruct (same_eps s s' Hh Hm) as [_ [_ [_ [EP _]]]].
  exists ce. rewrite EP, Hc. exact E.
Qed.

Lemma Uinv_same s s' :
  heap s' = heap s -> emap s' = emap s -> cur s' = cur s -> Uinv s -> Uinv s'.
Proof.
  intros Hh Hm Hc U. destruct (same_eps s s' Hh Hm) as [_ [TA [_ [EP _]]]].
  intros ce. rewrite EP, Hc, TA. apply U.
Qed.

Lemma hold_current_same s s' :
  heap s' = heap s -> emap s' = emap s -> cur s' = cur s -> hold_current s' = hold_current s.
Proof.
  intros Hh Hm Hc. destruct (same_eps s s' Hh Hm) as [_ [TA [_ [EP _]]]].
  unfold hold_current. rewrite EP, Hc, TA. reflexivity.
Qed.

(* ------------------------------------------------------------------------ *)
(* run_switch                                                               *)
(* ------------------------------------------------------------------------ *)
Inductive RSW (s : me) : me -> Prop :=
| RSW_hold : hold_current s = true -> RSW s s
| RSW_none : hold_current s = false -> topAvail s = None -> RSW s s
| RSW_other ta : hold_current s = false -> topAvail s = Some ta -> e_id ta <> fut s -> RSW s s
| RSW_move ta : hold_current s = false -> topAvail s = Some ta -> e_id ta = fut s ->
    RSW s (set_cur s (e_id ta)).

Lemma run_switch_cases s s' o : run_switch s = (s', o) -> RSW s s' /\ o = [].
Proof.
  unfold run_switch, switchTarget. destruct (hold_current s) eqn:H.
  { intros E; inv E. split; auto. apply RSW_hold; auto. }
  destruct (topAvail s) as [ta|] eqn:T.
  - destruct (N.eqb_spec (e_id ta) (fut s)) as [F|F]; intros E; inv E; split; auto.
    + eapply RSW_move; eauto.
    + eapply RSW_other; eauto.
  - intros E; inv E. split; auto. apply RSW_none; auto.
Qed.

(* ------------------------------------------------------------------------ *)
(* The invariant that holds between operations                              *)
(* ------------------------------------------------------------------------ *)
Record Inv (s : me) : Prop := mkInv {
  inv_wf : WFs s;
  inv_prio : PrioInj s;
  inv_th : TH s None;
  inv_cur : CurMapped s;
  inv_U : Uinv s;
  inv_J : Jinv s
}.

Definition no_active_timer (s : me) : Prop :=
  forall k t, nth_error (timers s) k = Some t -> ~ active t.

Lemma Inv_convergence s ta :
  Inv s -> no_active_timer s -> topAvail s = Some ta -> cur s = e_id ta.
Proof.
  intros [W P T C U J] NA TA. destruct (J ta TA) as [H|[H|[_ [_ H]]]]; auto.
  - exfalso. rewrite hold_current_at in H. apply hold_at_Some in H. destruct H as [ce [E R]].
    apply ep_of_id_Mapped in E; auto. destruct E as [c [_ Hc]].
    assert (Hs : @None nat <> Some c) by discriminate.
    destruct (th_R _ _ T c ce Hc Hs R) as [k [t [_ [Ht [_ Ha]]]]]. exact (NA _ _ Ht Ha).
  - exfalso. destruct H as [k [t [Ht [_ Ha]]]]. exact (NA _ _ Ht Ha).
Qed.

Lemma Inv_cur_member s : Inv s -> In (cur s) (keys s).
Proof.
  intros [W _ _ [ce E] _ _]. apply ep_of_id_Mapped in E; auto. eapply Mapped_key; eauto.
Qed.

Lemma emap_nonempty_of_key s k : In k (keys s) -> emap s <> [].
Proof. unfold keys. intros H E. rewrite E in H. exact H. Qed.

(* ------------------------------------------------------------------------ *)
(* setEndpointAvailability                                                  *)
(* ------------------------------------------------------------------------ *)
Definition is_new_timer (r : Z) (o : out) : bool :=
  match o with ONewTimer dd => dd =? r | _ => false end.

Definition AvailFacts (s : me) (id : N) (b : bool) (s' : me) (outs : list out) : Prop :=
  if b then
    forall ea, ep_of_id s' id = Some ea ->
      e_st ea = Available /\
      forall k, e_tmr ea = Some k ->
        exists t, nth_error (timers s') k = Some t /\ t_st t <> Pending
  else
    match ep_of_id s id with
    | None => ep_of_id s' id = None
    | Some eb =>
        exists ea, ep_of_id s' id = Some ea /\
        if availb eb then
          if recov s =? 0 then e_st ea = Unavailable
          else e_st ea = Recovering /\
               exists k t, e_tmr ea = Some k /\ nth_error (timers s') k = Some t /\
                 t_due t = now s' + recov s /\ t_st t = Pending /\
                 (length (timers s) <= k)%nat /\
                 existsb (is_new_timer (recov s)) outs = true
        else ea = eb /\
             forall k, e_tmr eb = Some k ->
               exists t, nth_error (timers s) k = Some t /\ nth_error (timers s') k = Some t
    end.

Lemma stopped_not_pending ts k t' :
  nth_error (stop_opt ts (Some k)) k = Some t' -> t_st t' <> Pending.
Proof.
  rewrite stop_opt_nth. intros H. apply option_map_Some in H. destruct H as [t [Ht ->]].
  unfold stops. rewrite Nat.eqb_refl. cbn. destruct (t_st t) eqn:St; cbn; congruence.
Qed.

Lemma seA_spec s id avail s1 o1 :
  WFs s -> TH s None ->
  setEndpointAvailability s id avail = (s1, o1) ->
  emap s1 = emap s /\ cur s1 = cur s /\ fut s1 = fut s /\ recov s1 = recov s /\
  delay s1 = delay s /\ now s1 = now s /\ heap_le (heap s) (heap s1) /\ TH s1 None /\
  noerr o1 /\ AvailFacts s id avail s1 o1.
Proof.
  intros W T. unfold setEndpointAvailability.
  assert (Same : forall o, noerr o ->
            AvailFacts s id avail s o ->
            emap s = emap s /\ cur s = cur s /\ fut s = fut s /\ recov s = recov s /\
            delay s = delay s /\ now s = now s /\ heap_le (heap s) (heap s) /\ TH s None /\
            noerr o /\ AvailFacts s id avail s o).
  { intros o Ho Ha. repeat (split; [reflexivity|]). split; [apply heap_le_refl|]. auto. }
  assert (NoneCase : ep_of_id s id = None -> AvailFacts s id avail s []).
  { intros E. unfold AvailFacts. destruct avail.
    - intros ea Ea. congruence.
    - rewrite E. reflexivity. }
  destruct (lookup (emap s) id) as [c|] eqn:Lk.
  2:{ intros E; inv E. apply Same; [apply noerr_nil|]. apply NoneCase.
      unfold ep_of_id. rewrite Lk. reflexivity. }
  destruct (get_ep s c) as [ee|] eqn:G.
  2:{ intros E; inv E. apply Same; [apply noerr_nil|]. apply NoneCase.
      unfold ep_of_id. rewrite Lk. exact G. }
  assert (Eid : ep_of_id s id = Some ee) by (unfold ep_of_id; rewrite Lk; exact G).
  assert (Tee : forall k, e_tmr ee = Some k -> exists t, nth_error (timers s) k = Some t).
  { intros k Hk. destruct (th_T _ _ T c ee G k Hk) as [t [st [Ht _]]]. eauto. }
  (* ep_of_id after an update of cell c *)
  assert (EpUpd : forall (s' : me) f, emap s' = emap s -> heap s' = upd_nth c f (heap s) ->
                    ep_of_id s' id = Some (f ee)).
  { intros s' f Hm Hh. unfold ep_of_id, get_ep. rewrite Hm, Lk, Hh.
    apply nth_error_upd_nth_eq. exact G. }
  destruct avail.
  - (* available *)
    destruct (setState_eq s c ee Available G) as [o [Eq No]]. rewrite Eq. intros E; inv E.
    repeat (split; [reflexivity|]).
    split; [apply heap_le_upd; intros; split; reflexivity|].
    split; [exact (TH_setState s None c ee Available T (or_introl eq_refl) G)|].
    split; [exact No|].
    unfold AvailFacts. intros ea Ea.
    rewrite (EpUpd (setState_res s c ee Available) (fun e => with_st e Available (now s)) eq_refl eq_refl) in Ea.
    inv Ea. split; [reflexivity|]. cbn [e_tmr with_st]. intros k Hk.
    destruct (Tee k Hk) as [t Ht]. unfold setState_res; sim. rewrite Hk.
    destruct (nth_error (stop_opt (timers s) (Some k)) k) as [t'|] eqn:E'.
    + exists t'. split; auto. eapply stopped_not_pending; eauto.
    + rewrite stop_opt_nth, Ht in E'. discriminate.
  - destruct (status_eqb (e_st ee) Available) eqn:Av; cbn [negb].
    2:{ (* not available: nothing happens *)
      intros E; inv E. apply Same; [apply noerr_nil|].
      unfold AvailFacts. rewrite Eid. exists ee. split; [reflexivity|].
      unfold availb. rewrite Av. split; [reflexivity|].
      intros k Hk. destruct (Tee k Hk) as [t Ht]. eauto. }
    destruct (Z.eqb_spec (recov s) 0) as [R0|R0].
    + (* no recovery timeout *)
      destruct (setState_eq s c ee Unavailable G) as [o [Eq No]]. rewrite Eq. intros E; inv E.
      repeat (split; [reflexivity|]).
      split; [apply heap_le_upd; intros; split; reflexivity|].
      split; [exact (TH_setState s None c ee Unavailable T (or_introl eq_refl) G)|].
      split; [exact No|].
      unfold AvailFacts. rewrite Eid. eexists. split; [apply (EpUpd (setState_res s c ee Unavailable) (fun e => with_st e Unavailable (now s))); reflexivity|].
      unfold availb. rewrite Av. rewrite R0. reflexivity.
    + (* recovery window *)
      destruct (setState_eq s c ee Recovering G) as [o [Eq No]]. rewrite Eq.
      set (sa := setState_res s c ee Recovering).
      set (e1 := with_st ee Recovering (now s)).
      assert (G1 : get_ep sa c = Some e1).
      { exact (nth_error_upd_nth_eq c (fun e => with_st e Recovering (now s)) (heap s) ee G). }
      rewrite (sched_eq sa c e1 G1). intros E; inv E.
      repeat (split; [reflexivity|]).
      split.
      { eapply heap_le_trans; apply heap_le_upd; intros; split; reflexivity. }
      assert (Tsa : TH sa (Some c)) by exact (TH_setState s None c ee Recovering T (or_introl eq_refl) G).
      split.
      { apply (TH_sched sa (Some c) c e1 Tsa (or_intror eq_refl) G1 eq_refl); [|exact R0|].
        - intros k t Hk Ht. cbn in Hk. unfold sa, setState_res in Ht; sim. rewrite Hk in Ht.
          eapply stopped_not_pending; eauto.
        - intros Hr k t stamp Ht Hkind Hf. unfold sa, setState_res in Ht; sim.
          rewrite stop_opt_nth in Ht. apply option_map_Some in Ht. destruct Ht as [t0 [Ht0 ->]].
          destruct (stops (e_tmr ee) k t0); [cbn in Hf; discriminate|].
          destruct (th_K _ _ T k t0 Ht0 c stamp Hkind (or_intror Hf)) as [x [_ [_ K2]]].
          destruct (K2 Hr) as [A [B _]]. specialize (B Hf). cbn. lia. }
      split; [apply noerr_app; [exact No|reflexivity]|].
      unfold AvailFacts. rewrite Eid.
      exists (with_tmr e1 (length (timers sa))). split.
      { unfold ep_of_id, get_ep, sched_res; sim. change (emap sa) with (emap s). rewrite Lk.
        exact (nth_error_upd_nth_eq c (fun e => with_tmr e (length (timers sa))) (heap sa) e1 G1). }
      unfold availb. rewrite Av. destruct (Z.eqb_spec (recov s) 0); [contradiction|].
      split; [reflexivity|].
      exists (length (timers sa)), (mkTimer (now sa + recov sa) (TRec c (e_last e1)) Pending).
      split; [reflexivity|]. split.
      { unfold sched_res; sim. rewrite nth_error_snoc, Nat.eqb_refl. reflexivity. }
      split; [reflexivity|]. split; [reflexivity|]. split.
      { unfold sa, setState_res; sim. rewrite stop_opt_length. lia. }
      rewrite existsb_app. cbn. rewrite Z.eqb_refl. apply orb_true_r.
Qed.

(* ------------------------------------------------------------------------ *)
(* newEndpoint                                                              *)
(* ------------------------------------------------------------------------ *)
Lemma upd_nth_snoc {A} (l : list A) f x : upd_nth (length l) f (l ++ [x]) = l ++ [f x].
Proof. induction l; cbn; auto. f_equal. exact IHl. Qed.

Lemma newEndpoint_spec s id p s' c o :
  newEndpoint s id p = (s', c, o) ->
  c = length (heap s) /\
  (exists e0, heap s' = heap s ++ [e0] /\ e_id e0 = id /\ e_prio e0 = p /\ e_st e0 <> Available) /\
  emap s' = emap s /\ cur s' = cur s /\ fut s' = fut s /\ recov s' = recov s /\
  delay s' = delay s /\ now s' = now s /\ noerr o /\ (TH s None -> TH s' None).
Proof.
  unfold newEndpoint. destruct (0 <? recov s) eqn:R; cbv beta iota zeta.
  - set (e0 := mkEp id p Recovering zero_time None).
    set (s1 := set_heap s (heap s ++ [e0])).
    assert (G1 : get_ep s1 (length (heap s)) = Some e0).
    { unfold get_ep, s1; sim. rewrite nth_error_snoc, Nat.eqb_refl. reflexivity. }
    rewrite (sched_eq s1 _ e0 G1). intros E; inv E.
    split; [reflexivity|]. split.
    { exists (with_tmr e0 (length (timers s))). split; [|cbn; split; [reflexivity|split; [reflexivity|discriminate]]].
      exact (upd_nth_snoc (heap s) (fun e => with_tmr e (length (timers s))) e0). }
    repeat (split; [reflexivity|]).
    intros T.
    assert (T1 : TH s1 (Some (length (heap s)))).
    { apply TH_new_cell; auto. cbn. pose proof (th_now _ _ T). unfold zero_time. lia. }
    apply (TH_sched s1 (Some (length (heap s))) _ e0 T1 (or_intror eq_refl) G1 eq_refl).
    + intros k t Hk. discriminate.
    + change (recov s1) with (recov s). lia.
    + intros Hr k t stamp Ht Hkind Hf. exfalso. change (timers s1) with (timers s) in Ht.
      destruct (th_K _ _ T k t Ht _ stamp Hkind (or_intror Hf)) as [x [Hx _]].
      apply nth_error_Some_lt in Hx. lia.
  - set (e0 := mkEp id p Unavailable zero_time None). intros E; inv E.
    split; [reflexivity|]. split.
    { exists e0. split; [reflexivity|]. cbn. split; [reflexivity|split; [reflexivity|discriminate]]. }
    repeat (split; [reflexivity|]).
    intros T.
    assert (T1 : TH (set_heap s (heap s ++ [e0])) (Some (length (heap s)))).
    { apply TH_new_cell; auto. cbn. pose proof (th_now _ _ T). unfold zero_time. lia. }
    apply (TH_unskip _ _ e0 T1).
    + sim. rewrite nth_error_snoc, Nat.eqb_refl. reflexivity.
    + discriminate.
Qed.

(* ------------------------------------------------------------------------ *)
(* The loops of SetEndpoints and NewMultiEndpoint                           *)
(* ------------------------------------------------------------------------ *)
Definition Q (s : me) (rest : list N) (i : Z) : Prop :=
  (forall k e, Mapped s k e -> ~ In k rest -> e_prio e < i) /\
  (forall k1 e1 k2 e2, Mapped s k1 e1 -> Mapped s k2 e2 -> ~ In k1 rest -> ~ In k2 rest ->
                       e_prio e1 = e_prio e2 -> k1 = k2).

Record LoopStep (s : me) (id : N) (i : Z) (s1 : me) (o : list out) : Prop := mkLS {
  ls_wf : WFs s1;
  ls_th : TH s1 None;
  ls_mapped : forall k e', Mapped s1 k e' -> (k = id /\ e_prio e' = i) \/ (k <> id /\ Mapped s k e');
  ls_keys : forall k, In k (keys s1) <-> In k (keys s) \/ k = id;
  ls_cur : cur s1 = cur s;
  ls_recov : recov s1 = recov s;
  ls_delay : delay s1 = delay s;
  ls_now : now s1 = now s;
  ls_noerr : noerr o
}.

Lemma Q_step s id rest i s1 o :
  LoopStep s id i s1 o -> Q s (id :: rest) i -> Q s1 rest (i + 1).
Proof.
  intros LS [Q1 Q2]. split.
  - intros k e M Hn. destruct (ls_mapped _ _ _ _ _ LS _ _ M) as [[-> Hp]|[Hne M']]; [lia|].
    assert (e_prio e < i); [|lia]. apply (Q1 k e M'). intros [H|H]; [congruence|contradiction].
  - intros k1 e1 k2 e2 M1 M2 N1 N2 Hp.
    destruct (ls_mapped _ _ _ _ _ LS _ _ M1) as [[-> Hp1]|[Hne1 M1']];
    destruct (ls_mapped _ _ _ _ _ LS _ _ M2) as [[-> Hp2]|[Hne2 M2']]; auto.
    + exfalso. assert (e_prio e2 < i); [|lia].
      apply (Q1 k2 e2 M2'). intros [H|H]; [congruence|contradiction].
    + exfalso. assert (e_prio e1 < i); [|lia].
      apply (Q1 k1 e1 M1'). intros [H|H]; [congruence|contradiction].
    + apply (Q2 k1 e1 k2 e2 M1' M2'); auto.
      * intros [H|H]; [congruence|contradiction].
      * intros [H|H]; [congruence|contradiction].
Qed.

Definition na_step (s : me) (id : N) (i : Z) : me * list out :=
  let '(s', c, o) := newEndpoint s id i in (set_emap s' (insert (emap s') id c), o).

Lemma na_step_ok s id i s1 o :
  WFs s -> TH s None -> na_step s id i = (s1, o) -> LoopStep s id i s1 o.
Proof.
  intros W T. unfold na_step. destruct (newEndpoint s id i) as [[s' c] o'] eqn:NE.
  intros E; inv E.
  destruct (newEndpoint_spec _ _ _ _ _ _ NE) as
    [-> [[e0 [Hh [Hid [Hp Hst]]]] [Hm [Hc [Hf [Hr [Hd [Hn [No HT]]]]]]]]].
  assert (Old : forall k c', In (k, c') (emap s) -> forall e, nth_error (heap s') c' = Some e <->
                 nth_error (heap s) c' = Some e).
  { intros k c' Hin e. destruct (wf_cells _ W _ _ Hin) as [x [Hx _]].
    rewrite Hh, nth_error_app1 by (eapply nth_error_Some_lt; eauto). tauto. }
  constructor; sim; auto.
  - constructor; unfold keys; sim.
    + rewrite Hm. apply insert_keys_NoDup. apply W.
    + intros k c' Hin. rewrite Hm in Hin. apply insert_In in Hin.
      destruct Hin as [[-> [-> _]]|[Hne Hin]].
      * exists e0. rewrite Hh, nth_error_snoc, Nat.eqb_refl. auto.
      * destruct (wf_cells _ W _ _ Hin) as [x [Hx Hxid]]. exists x. split; auto.
        apply (Old _ _ Hin). exact Hx.
  - apply (TH_irrel s'); auto.
  - intros k e' [c' [Hin He]]. sim. rewrite Hm in Hin. apply insert_In in Hin.
    destruct Hin as [[-> [-> _]]|[Hne Hin]].
    + left. split; auto. rewrite Hh, nth_error_snoc, Nat.eqb_refl in He. inv He. auto.
    + right. split; auto. exists c'. split; auto. apply (Old _ _ Hin). exact He.
  - intros k. unfold keys; sim. rewrite Hm, insert_keys.
    destruct (lookup (emap s) id) as [c0|] eqn:Lk.
    + split; [auto|]. intros [H| ->]; auto. eapply lookup_Some_key; eauto.
    + rewrite in_app_iff. cbn. split; intros [H|H]; auto.
      * destruct H as [H|[]]. auto.
Qed.

Definition au_step (s : me) (id : N) (i : Z) : me * list out :=
  match lookup (emap s) id with
  | None => na_step s id i
  | Some c => (set_heap s (upd_nth c (fun e => with_prio e i) (heap s)), [])
  end.

Lemma au_step_ok s id i s1 o :
  WFs s -> TH s None -> au_step s id i = (s1, o) -> LoopStep s id i s1 o.
Proof.
  intros W T. unfold au_step. destruct (lookup (emap s) id) as [c|] eqn:Lk.
  2:{ apply na_step_ok; auto. }
  intros E; inv E. pose proof (lookup_In _ _ _ Lk) as Hin.
  constructor; sim; auto.
  - constructor; unfold keys; sim; [apply W|].
    intros k c' Hin'. destruct (wf_cells _ W _ _ Hin') as [x [Hx Hxid]].
    rewrite nth_error_upd_nth, Hx. destruct (Nat.eqb c c'); cbn; eauto.
  - apply TH_with_prio; auto.
  - intros k e' [c' [Hin' He]]. sim. rewrite nth_error_upd_nth in He.
    destruct (Nat.eqb_spec c c') as [<-|Hne].
    + apply option_map_Some in He. destruct He as [x [Hx ->]]. left. split; [|reflexivity].
      destruct (wf_cells _ W _ _ Hin) as [y [Hy Hyid]].
      destruct (wf_cells _ W _ _ Hin') as [z [Hz Hzid]]. congruence.
    + right. split; [|exists c'; auto]. intros ->.
      pose proof (In_lookup _ _ _ (wf_keys _ W) Hin'). congruence.
  - intros k. unfold keys; sim. split; [auto|]. intros [H| ->]; auto.
    eapply lookup_Some_key; eauto.
  - apply noerr_nil.
Qed.

Lemma add_or_update_unfold s id r i :
  add_or_update s (id :: r) i =
  let '(s1, o1) := au_step s id i in
  let '(s2, o2) := add_or_update s1 r (i + 1) in (s2, o1 ++ o2).
Proof.
  cbn [add_or_update]. unfold au_step, na_step.
  destruct (lookup (emap s) id); [reflexivity|].
  destruct (newEndpoint s id i) as [[s' c] o]. reflexivity.
Qed.

Lemma new_all_unfold s id r i :
  new_all s (id :: r) i =
  let '(s1, o1) := na_step s id i in
  let '(s2, o2) := new_all s1 r (i + 1) in (s2, o1 ++ o2).
Proof.
  cbn [new_all]. unfold na_step.
  destruct (newEndpoint s id i) as [[s' c] o]. reflexivity.
Qed.

Record LoopRes (s : me) (ids : list N) (s' : me) (o : list out) : Prop := mkLR {
  lr_wf : WFs s';
  lr_th : TH s' None;
  lr_prio : PrioInj s';
  lr_keys : forall k, In k (keys s') <-> In k (keys s) \/ In k ids;
  lr_cur : cur s' = cur s;
  lr_recov : recov s' = recov s;
  lr_delay : delay s' = delay s;
  lr_now : now s' = now s;
  lr_noerr : noerr o
}.

Lemma Q_nil_PrioInj s i : Q s [] i -> PrioInj s.
Proof. intros [_ Q2] k1 e1 k2 e2 M1 M2 Hp. apply (Q2 k1 e1 k2 e2); auto. Qed.

Lemma loop_ok (stepf : me -> N -> Z -> me * list out) (loop : me -> list N -> Z -> me * list out) :
  (forall s i, loop s [] i = (s, [])) ->
  (forall s id r i, loop s (id :: r) i =
     let '(s1, o1) := stepf s id i in
     let '(s2, o2) := loop s1 r (i + 1) in (s2, o1 ++ o2)) ->
  (forall s id i s1 o, WFs s -> TH s None -> stepf s id i = (s1, o) -> LoopStep s id i s1 o) ->
  forall ids s i s' o,
    WFs s -> TH s None -> Q s ids i -> loop s ids i = (s', o) -> LoopRes s ids s' o.
Proof.
  intros Hnil Hcons Hstep. induction ids as [|id r IH]; intros s i s' o W T HQ E.
  - rewrite Hnil in E. inv E. constructor; auto.
    + eapply Q_nil_PrioInj; eauto.
    + intros k. cbn. tauto.
    + apply noerr_nil.
  - rewrite Hcons in E. destruct (stepf s id i) as [s1 o1] eqn:E1.
    destruct (loop s1 r (i + 1)) as [s2 o2] eqn:E2. inv E.
    pose proof (Hstep _ _ _ _ _ W T E1) as LS.
    pose proof (Q_step _ _ _ _ _ _ LS HQ) as HQ1.
    pose proof (IH _ _ _ _ (ls_wf _ _ _ _ _ LS) (ls_th _ _ _ _ _ LS) HQ1 E2) as LR.
    destruct LS, LR. constructor; auto; try congruence.
    + intros k. rewrite lr_keys0, ls_keys0. cbn. intuition.
    + apply noerr_app; auto.
Qed.

Lemma add_or_update_ok ids s i s' o :
  WFs s -> TH s None -> Q s ids i -> add_or_update s ids i = (s', o) -> LoopRes s ids s' o.
Proof.
  apply (loop_ok au_step add_or_update).
  - reflexivity.
  - apply add_or_update_unfold.
  - apply au_step_ok.
Qed.

Lemma new_all_ok ids s i s' o :
  WFs s -> TH s None -> Q s ids i -> new_all s ids i = (s', o) -> LoopRes s ids s' o.
Proof.
  apply (loop_ok na_step new_all).
  - reflexivity.
  - apply new_all_unfold.
  - apply na_step_ok.
Qed.

Definition NoAvailHeap (s : me) : Prop :=
  forall c e, nth_error (heap s) c = Some e -> e_st e <> Available.

Lemma new_all_noavail ids : forall s i s' o,
  NoAvailHeap s -> new_all s ids i = (s', o) -> NoAvailHeap s'.
Proof.
  induction ids as [|id r IH]; intros s i s' o NA E.
  - cbn in E. inv E. exact NA.
  - rewrite new_all_unfold in E. unfold na_step in E.
    destruct (newEndpoint s id i) as [[sa c] oa] eqn:NE.
    destruct (new_all _ r (i + 1)) as [s2 o2] eqn:E2. inv E.
    refine (IH _ _ _ _ _ E2).
    destruct (newEndpoint_spec _ _ _ _ _ _ NE) as [_ [[e0 [Hh [_ [_ Hst]]]] _]].
    unfold NoAvailHeap. sim. rewrite Hh. intros c1 e Hc. rewrite nth_error_snoc in Hc.
    destruct (Nat.eqb c1 (length (heap s))); [inv Hc; exact Hst|]. eauto.
Qed.

(* ------------------------------------------------------------------------ *)
(* One operation                                                            *)
(* ------------------------------------------------------------------------ *)
Definition TimerKeeps (s s' : me) : Prop :=
  0 <= recov s -> forall k e, Mapped s k e -> e_st e = Available ->
  exists e', Mapped s' k e' /\ e_st e' = Available.

(* a recovery window is ended only by the endpoint's own, latest recovery timer, when it is due *)
Definition RecKeeps (s : me) (o : op) (s' : me) : Prop :=
  0 <= recov s -> forall key e e', Mapped s key e -> e_st e = Recovering -> Mapped s' key e' ->
  e_st e' = Recovering \/
  exists k tk, o = OpEnd k /\ e_tmr e = Some k /\ nth_error (timers s) k = Some tk /\
               t_due tk <= now s.

Record StepOK (s : me) (o : op) (s' : me) (outs : list out) : Prop := mkSO {
  so_inv : Inv s';
  so_recov : recov s' = recov s;
  so_delay : delay s' = delay s;
  so_ct : CurTrans (is_input o) (cur s) s';
  so_keys : match o with
            | OpSet (x :: r) => forall k, In k (keys s') <-> In k (x :: r)
            | _ => keys s' = keys s
            end;
  so_out : match o with
           | OpSet [] => outs = [OErr] /\ s' = s
           | OpSet _ => noerr outs
           | _ => True
           end;
  so_avail : match o with OpAvail id b => AvailFacts s id b s' outs | _ => True end;
  so_timer : match o with
             | OpBegin _ | OpEnd _ | OpAdvance _ => TimerKeeps s s'
             | _ => True
             end;
  so_rec : match o with
           | OpBegin _ | OpEnd _ | OpAdvance _ => RecKeeps s o s'
           | _ => True
           end
}.

Lemma CurTrans_weaken inp c0 s : CurTrans true c0 s -> CurTrans inp c0 s.
Proof. intros [A B C D E]. constructor; auto. intros _. apply E. reflexivity. Qed.

Lemma has_switch_app s s' extra :
  timers s' = timers s ++ extra -> has_switch s -> has_switch s'.
Proof.
  intros Ht [k [t [H1 H2]]]. exists k, t. split; auto. rewrite Ht.
  rewrite nth_error_app1; auto. eapply nth_error_Some_lt; eauto.
Qed.

Lemma Jinv_same s s' :
  heap s' = heap s -> emap s' = emap s -> cur s' = cur s -> fut s' = fut s -> delay s' = delay s ->
  (has_switch s -> has_switch s') -> Jinv s -> Jinv s'.
Proof.
  intros Hh Hm Hc Hf Hd Hs J ta. destruct (same_eps s s' Hh Hm) as [_ [TA _]].
  rewrite TA, (hold_current_same s s' Hh Hm Hc), Hc, Hf, Hd. intros T.
  destruct (J ta T) as [X|[X|[X [Y Z]]]]; auto.
  right; right. auto.
Qed.

Lemma Inv_same s s' :
  heap s' = heap s -> emap s' = emap s -> cur s' = cur s -> fut s' = fut s -> delay s' = delay s ->
  TH s' None -> (has_switch s -> has_switch s') -> Inv s -> Inv s'.
Proof.
  intros Hh Hm Hc Hf Hd T Hs [W P _ C U J]. constructor; auto.
  - eapply WFs_same; eauto.
  - eapply PrioInj_same; eauto.
  - eapply CurMapped_same; eauto.
  - eapply Uinv_same; eauto.
  - eapply Jinv_same; eauto.
Qed.

Lemma TimerKeeps_same s s' : heap s' = heap s -> emap s' = emap s -> TimerKeeps s s'.
Proof.
  intros Hh Hm _ k e M A. destruct (same_eps s s' Hh Hm) as [_ [_ [_ [_ E]]]].
  exists e. split; auto. apply E. exact M.
Qed.

Lemma RecKeeps_same s o s' : heap s' = heap s -> emap s' = emap s -> WFs s -> RecKeeps s o s'.
Proof.
  intros Hh Hm W _ key e e' M R M'. destruct (same_eps s s' Hh Hm) as [_ [_ [_ [_ E]]]].
  apply E in M'. left. rewrite (Mapped_fun _ _ _ _ W M' M). exact R.
Qed.

Lemma finish_mUC s1 s' o2 :
  WFs s1 -> PrioInj s1 -> TH s1 None -> emap s1 <> [] ->
  maybeUpdateCurrent s1 = (s', o2) ->
  Inv s' /\ CurTrans true (cur s1) s' /\ heap s' = heap s1 /\ emap s' = emap s1 /\
  recov s' = recov s1 /\ delay s' = delay s1 /\ now s' = now s1 /\ noerr o2 /\
  exists extra, timers s' = timers s1 ++ extra.
Proof.
  intros W P T Hne E. apply mUC_cases in E.
  destruct (mUC_post _ _ _ W Hne E) as [Hh [Hm [Hr [Hd [Hn [No [Ht [C [U [J CT]]]]]]]]]].
  split.
  { constructor; auto.
    - eapply WFs_same; eauto.
    - eapply PrioInj_same; eauto.
    - destruct Ht as [Ht|Ht].
      + apply (TH_irrel s1); auto.
      + apply (TH_irrel (set_timers s1 (timers s1 ++ [mkTimer (now s1 + delay s1) TSwitch Pending]))); auto.
        apply TH_new_switch; auto. }
  repeat (split; [assumption|]).
  destruct Ht as [Ht|Ht]; [exists []; rewrite app_nil_r|eexists]; exact Ht.
Qed.

Lemma AvailFacts_transfer s id b s1 o1 s' o2 extra :
  AvailFacts s id b s1 o1 ->
  heap s' = heap s1 -> emap s' = emap s1 -> now s' = now s1 -> timers s' = timers s1 ++ extra ->
  AvailFacts s id b s' (o1 ++ o2).
Proof.
  intros A Hh Hm Hn Ht. destruct (same_eps s1 s' Hh Hm) as [_ [_ [_ [EP _]]]].
  assert (App : forall k t, nth_error (timers s1) k = Some t -> nth_error (timers s') k = Some t).
  { intros k t H. rewrite Ht, nth_error_app1; auto. eapply nth_error_Some_lt; eauto. }
  unfold AvailFacts in *. rewrite EP. destruct b.
  - intros ea Ea. destruct (A ea Ea) as [A1 A2]. split; auto.
    intros k Hk. destruct (A2 k Hk) as [t [H1 H2]]. exists t. auto.
  - destruct (ep_of_id s id) as [eb|]; auto.
    destruct A as [ea [Ea A]]. exists ea. split; auto.
    destruct (availb eb).
    + destruct (recov s =? 0); auto.
      destruct A as [A1 [k [t [B1 [B2 [B3 [B4 [B5 B6]]]]]]]]. split; auto.
      exists k, t. rewrite Hn. repeat (split; auto).
      rewrite existsb_app, B6. reflexivity.
    + destruct A as [A1 A2]. split; auto.
      intros k Hk. destruct (A2 k Hk) as [t [H1 H2]]. exists t. auto.
Qed.

Lemma StepOK_stutter s o s' outs :
  Inv s -> Inv s' -> heap s' = heap s -> emap s' = emap s -> cur s' = cur s ->
  recov s' = recov s -> delay s' = delay s ->
  match o with
  | OpSet [] => outs = [OErr] /\ s' = s
  | OpSet _ | OpAvail _ _ => False
  | _ => True
  end ->
  StepOK s o s' outs.
Proof.
  intros I I' Hh Hm Hc Hr Hd Ho. constructor; auto.
  - rewrite <- Hc. apply CurTrans_stutter; apply I'.
  - unfold keys. destruct o as [| [|x r] | | |]; try rewrite Hm; try reflexivity. destruct Ho.
  - destruct o as [| [|x r] | | |]; auto. destruct Ho.
  - destruct o; auto. destruct Ho.
  - destruct o; auto; apply TimerKeeps_same; auto.
  - destruct o; auto; apply RecKeeps_same; auto; apply I.
Qed.

Lemma can_end_Some s k : can_end s k = true ->
  exists tk, nth_error (timers s) k = Some tk /\ t_st tk = Firing.
Proof.
  unfold can_end. destruct (nth_error (timers s) k) as [tk|]; [|discriminate].
  destruct (t_st tk) eqn:St; try discriminate. eauto.
Qed.

Lemma has_switch_upd s k st :
  (forall tk, nth_error (timers s) k = Some tk -> t_kind tk = TSwitch -> st = Pending \/ st = Firing) ->
  has_switch s ->
  has_switch (set_timers s (upd_nth k (fun t => with_tst t st) (timers s))).
Proof.
  intros Hk [j [t [H1 [H2 H3]]]]. unfold has_switch; sim.
  destruct (Nat.eqb_spec k j) as [<-|Hne].
  - exists k, (with_tst t st). rewrite nth_error_upd_nth, Nat.eqb_refl, H1. cbn.
    split; [reflexivity|]. split; [exact H2|]. exact (Hk t H1 H2).
  - exists j, t. rewrite nth_error_upd_nth_neq by exact Hne. auto.
Qed.

Lemma step_ok s o s' outs : Inv s -> step s o = (s', outs) -> StepOK s o s' outs.
Proof.
  intros I. pose proof I as [W P T C U J].
  assert (Hne : emap s <> []) by (eapply emap_nonempty_of_key; apply Inv_cur_member; exact I).
  destruct o as [id b|ids|dt|k|k]; cbn [step].
  - (* OpAvail *)
    unfold SetEndpointAvailability.
    destruct (setEndpointAvailability s id b) as [s1 o1] eqn:E1.
    destruct (maybeUpdateCurrent s1) as [s2 o2] eqn:E2. intros E; inv E.
    destruct (seA_spec _ _ _ _ _ W T E1) as [Hm [Hc [Hf [Hr [Hd [Hn [Hle [T1 [No1 AF]]]]]]]]].
    assert (W1 : WFs s1) by (eapply WFs_heap_le; eauto).
    assert (P1 : PrioInj s1) by (eapply PrioInj_heap_le; eauto).
    assert (Hne1 : emap s1 <> []) by (rewrite Hm; exact Hne).
    destruct (finish_mUC _ _ _ W1 P1 T1 Hne1 E2) as
      [I' [CT [Hh2 [Hm2 [Hr2 [Hd2 [Hn2 [No2 [extra Ht2]]]]]]]]].
    constructor; auto; try congruence.
    + rewrite <- Hc. exact CT.
    + unfold keys. congruence.
    + eapply AvailFacts_transfer; eauto.
  - (* OpSet *)
    unfold SetEndpoints. destruct ids as [|x r].
    { intros E; inv E. apply StepOK_stutter; auto. }
    set (ids := x :: r).
    set (s0 := set_emap s (filter (fun kc => memN (fst kc) ids) (emap s))).
    destruct (add_or_update s0 ids 0) as [s2 o2] eqn:E2.
    destruct (maybeUpdateCurrent s2) as [s3 o3] eqn:E3. intros E; inv E.
    assert (K0 : forall k, In k (keys s0) -> In k ids).
    { intros k Hk. unfold keys, s0 in Hk; sim. apply in_map_iff in Hk.
      destruct Hk as [[k' c] [<- Hin]]. apply filter_In in Hin. destruct Hin as [_ Hin].
      apply memN_In. exact Hin. }
    assert (W0 : WFs s0).
    { constructor; unfold keys, s0; sim.
      - apply filter_keys_NoDup. apply W.
      - intros k c Hin. apply filter_In in Hin. destruct Hin as [Hin _]. apply (wf_cells _ W); auto. }
    assert (T0 : TH s0 None) by (apply (TH_irrel s); auto).
    assert (Q0 : Q s0 ids 0).
    { split.
      - intros k e M Hn. exfalso. apply Hn, K0. eapply Mapped_key; eauto.
      - intros k1 e1 k2 e2 M1 _ Hn. exfalso. apply Hn, K0. eapply Mapped_key; eauto. }
    destruct (add_or_update_ok _ _ _ _ _ W0 T0 Q0 E2) as [W2 T2 P2 K2 C2 R2 D2 N2 No2].
    assert (Hne2 : emap s2 <> []).
    { apply (emap_nonempty_of_key s2 x). apply K2. right. left; reflexivity. }
    destruct (finish_mUC _ _ _ W2 P2 T2 Hne2 E3) as
      [I' [CT [Hh3 [Hm3 [Hr3 [Hd3 [Hn3 [No3 [extra Ht3]]]]]]]]].
    constructor; auto; try (unfold s0 in *; sim; congruence).
    + replace (cur s) with (cur s2) by (rewrite C2; reflexivity). exact CT.
    + intros k. unfold keys. rewrite Hm3. fold (keys s2). rewrite K2. fold ids.
      split; [intros [H|H]; auto|auto].
    + apply noerr_app; auto.
  - (* OpAdvance *)
    destruct (Z.leb_spec 0 dt) as [Hdt|Hdt]; intros E; inv E.
    + apply StepOK_stutter; auto.
      apply (Inv_same s); auto. apply TH_advance; auto.
    + apply StepOK_stutter; auto.
  - (* OpBegin *)
    destruct (can_begin s k) eqn:CB; intros E; inv E.
    + apply StepOK_stutter; auto.
      apply (Inv_same s); auto.
      * apply TH_begin; auto.
      * apply has_switch_upd. auto.
    + apply StepOK_stutter; auto.
  - (* OpEnd *)
    destruct (can_end s k) eqn:CE.
    2:{ intros E; inv E. apply StepOK_stutter; auto. }
    destruct (can_end_Some _ _ CE) as [tk [Ek Stk]]. rewrite Ek.
    set (s1 := set_timers s (upd_nth k (fun t => with_tst t Done) (timers s))).
    pose proof (TH_end s k tk Ek Stk T) as TE. cbn zeta in TE. fold s1 in TE.
    destruct (t_kind tk) as [c stamp|] eqn:Kd.
    + (* recovery timer *)
      destruct TE as [T1 T1'].
      assert (Hsw : has_switch s -> has_switch s1).
      { intros [j [t [H1 [H2 H3]]]]. exists j, t. unfold s1; sim.
        rewrite nth_error_upd_nth_neq; auto. intros <-. congruence. }
      assert (I1 : TH s1 None -> Inv s1).
      { intros T1n. apply (Inv_same s); auto. }
      unfold run_recovery. change (get_ep s1 c) with (get_ep s c).
      destruct (get_ep s c) as [e|] eqn:G.
      2:{ exfalso. destruct (th_K _ _ T k tk Ek c stamp Kd (or_intror Stk)) as [e [He _]].
          unfold get_ep in G. congruence. }
      destruct (Z.eqb_spec (e_last e) stamp) as [Hst|Hst]; cbn [negb].
      2:{ intros E; inv E. apply StepOK_stutter; auto. apply I1. exact (T1' e G Hst). }
      destruct (setState_eq s1 c e Unavailable G) as [o1 [Eq No1]]. rewrite Eq.
      set (s2 := setState_res s1 c e Unavailable).
      destruct (maybeUpdateCurrent s2) as [s3 o3] eqn:E3. intros E; injection E as <- <-.
      assert (T2 : TH s2 None) by exact (TH_setState s1 (Some c) c e Unavailable T1 (or_intror eq_refl) G).
      assert (Hle : heap_le (heap s) (heap s2)).
      { unfold s2, setState_res, s1; sim. apply heap_le_upd. intros; split; reflexivity. }
      assert (W2 : WFs s2) by (apply (WFs_heap_le s); auto).
      assert (P2 : PrioInj s2) by (apply (PrioInj_heap_le s); auto).
      destruct (finish_mUC _ _ _ W2 P2 T2 Hne E3) as
        [I' [CT [Hh3 [Hm3 [Hr3 [Hd3 [Hn3 [No3 [extra Ht3]]]]]]]]].
      constructor; auto.
      * apply CurTrans_weaken. exact CT.
      * unfold keys. rewrite Hm3. reflexivity.
      * intros Hr key x [cx [Hin Hx]] Av.
        destruct (th_K _ _ T k tk Ek c stamp Kd (or_intror Stk)) as [e' [He' [_ K2]]].
        destruct (K2 Hr) as [_ [_ K3]]. unfold get_ep in G.
        assert (e' = e) by congruence. subst e'. destruct (K3 Hst) as [K3r K3t].
        exists x. split; auto. exists cx. rewrite Hm3, Hh3. split; auto.
        unfold s2, setState_res, s1; sim. rewrite nth_error_upd_nth_neq; auto.
        intros <-. congruence.
      * intros Hr key x x' [cx [Hin Hx]] Rx M'.
        destruct (th_K _ _ T k tk Ek c stamp Kd (or_intror Stk)) as [e' [He' [_ K2]]].
        destruct (K2 Hr) as [_ [K2b K3]]. unfold get_ep in G.
        assert (e' = e) by congruence. subst e'. destruct (K3 Hst) as [K3r K3t].
        destruct (Nat.eq_dec c cx) as [<-|Hne'].
        { right. exists k, tk. assert (x = e) by congruence. subst x.
          split; [reflexivity|]. split; [exact K3t|]. split; [exact Ek|]. exact (K2b Stk). }
        { left. assert (M3 : Mapped s3 key x).
          { exists cx. rewrite Hm3, Hh3. split; auto.
            unfold s2, setState_res, s1; sim. rewrite nth_error_upd_nth_neq; auto. }
          rewrite (Mapped_fun _ _ _ _ (inv_wf _ I') M' M3). exact Rx. }
    + (* switch timer *)
      destruct (run_switch s1) as [s2 o2] eqn:E2. intros E; inv E.
      destruct (run_switch_cases _ _ _ E2) as [RS ->].
      assert (Base : Jinv s1 -> StepOK s (OpEnd k) s1 []).
      { intros J1. apply StepOK_stutter; auto.
        constructor; [apply (WFs_same s); auto|apply (PrioInj_same s); auto|exact TE|
                      apply (CurMapped_same s); auto|apply (Uinv_same s); auto|exact J1]. }
      inversion RS as [H|H TA|ta H TA F|ta H TA F]; subst.
      * apply Base. intros ta' _. left. exact H.
      * apply Base. intros ta' TA'. congruence.
      * apply Base. intros ta' TA'. assert (ta' = ta) by congruence. subst ta'.
        destruct (J ta TA) as [X|[X|[_ [X _]]]].
        { left. exact X. }
        { right; left. exact X. }
        { exfalso. apply F. symmetry. exact X. }
      * change (topAvail s = Some ta) in TA. change (hold_current s = false) in H.
        destruct (topAvail_ep s ta W TA) as [Eta Ata].
        assert (I' : Inv (set_cur s1 (e_id ta))).
        { constructor; [apply (WFs_same s); auto|apply (PrioInj_same s); auto|
                        apply (TH_irrel s1); auto| | | ].
          - exists ta. exact Eta.
          - intros ce Ece Uce. change (ep_of_id s (e_id ta) = Some ce) in Ece. congruence.
          - intros ta' TA'. right; left. change (topAvail s = Some ta') in TA'.
            change (topAvail s = Some ta) in TA. cbn. congruence. }
        constructor; auto.
        { constructor; cbn [cur set_cur].
          - intros H'. change (hold_current s = true) in H'. congruence.
          - intros T'. change (topAvail s = None) in T'. congruence.
          - intros ta' T'. change (topAvail s = Some ta') in T'. right. congruence.
          - intros _. change (decide_st (set_cur s1 (e_id ta)) (cur s)) with (decide_st s (cur s)).
            rewrite decide_st_eq, <- hold_current_at. rewrite H, TA. reflexivity.
          - discriminate. }
        { apply TimerKeeps_same; reflexivity. }
        { apply RecKeeps_same; auto; reflexivity. }
Qed.

(* ------------------------------------------------------------------------ *)
(* The state right after construction                                       *)
(* ------------------------------------------------------------------------ *)
Lemma New_Inv ids r d s0 outs0 :
  NewMultiEndpoint ids r d = Some (s0, outs0) ->
  Inv s0 /\ recov s0 = r /\ delay s0 = d /\ (forall k, In k (keys s0) <-> In k ids) /\
  match ids with first :: _ => cur s0 = first | [] => False end.
Proof.
  unfold NewMultiEndpoint. destruct ids as [|first rest]; [discriminate|].
  set (ids := first :: rest). set (si := mkMe [] [] r d first 0%N [] 0).
  intros E. assert (E' : new_all si ids 0 = (s0, outs0)) by (injection E as E; exact E).
  clear E. rename E' into E.
  assert (Wi : WFs si).
  { constructor; cbn; [constructor|]. intros k c []. }
  assert (Ti : TH si None).
  { constructor; cbn; try lia; intros c e H; destruct c; discriminate. }
  assert (Qi : Q si ids 0).
  { split.
    - intros k e [c [[] _]].
    - intros k1 e1 k2 e2 [c [[] _]]. }
  assert (NAi : NoAvailHeap si) by (intros c e H; destruct c; discriminate).
  destruct (new_all_ok ids si 0 s0 outs0 Wi Ti Qi E) as [W T P K C R D N No].
  pose proof (new_all_noavail ids si 0 s0 outs0 NAi E) as NA.
  assert (K' : forall k, In k (keys s0) <-> In k ids).
  { intros k. rewrite K. cbn. tauto. }
  assert (TA : topAvail s0 = None).
  { rewrite topAvail_top. apply none_top. intros y Hy. apply In_mapped_eps in Hy.
    destruct Hy as [k [c [_ Hc]]]. apply status_eqb_neq. exact (NA _ _ Hc). }
  split; [|split; [exact R|split; [exact D|split; [exact K'|exact C]]]].
  constructor; auto.
  - assert (Hin : In (cur s0) (keys s0)) by (rewrite C; apply K'; left; reflexivity).
    destruct (key_Mapped _ _ W Hin) as [e He]. exists e. apply ep_of_id_Mapped; auto.
  - intros ce _ _. exact TA.
  - intros ta H. congruence.
Qed.
