(* Engine B proofs, part 4: every trace of the model satisfies the C14 monitor. *)
From GV Require Import ME.Model ME.Monitors ME.Lists ME.Inv ME.InvC13.
From Coq Require Import Permutation ZifyBool.
Open Scope Z_scope.

Definition tpair (t : timer) : Z * Z := (t_due t, tst_code (t_st t)).

Lemma obs_tmrs s : o_tmrs (observe s) = map tpair (timers s).
Proof. reflexivity. Qed.

Lemma obs_nth_pair s e :
  nth_pair (o_tmrs (observe s)) (oe_tmr (oep_of e)) =
  match e_tmr e with
  | Some k => option_map tpair (nth_error (timers s) k)
  | None => None
  end.
Proof.
  rewrite obs_tmrs. unfold nth_pair, oep_of. cbn [oe_tmr].
  destruct (e_tmr e) as [k|].
  - destruct (Z.ltb_spec (Z.of_nat k) 0) as [H|H]; [lia|].
    rewrite Nat2Z.id. apply nth_error_map.
  - reflexivity.
Qed.

Lemma existsb_false {A} (f : A -> bool) l : existsb f l = false -> forall x, In x l -> f x = false.
Proof.
  induction l as [|y r IH]; cbn; [intros _ x []|].
  intros H x [->|Hx]; apply orb_false_iff in H; destruct H; auto.
Qed.

Lemma no_active_of_obs s :
  existsb timer_active (o_tmrs (observe s)) = false -> no_active_timer s.
Proof.
  rewrite obs_tmrs. intros H k t Hk Ha.
  assert (Hin : In (tpair t) (map tpair (timers s))).
  { apply in_map. eapply nth_error_In; eauto. }
  pose proof (existsb_false _ _ H _ Hin) as F. unfold timer_active, tpair in F. cbn in F.
  destruct Ha as [Ha|Ha]; rewrite Ha in F; discriminate.
Qed.

Lemma no_lower inp s c0 c n :
  Inv s -> CurTrans inp c0 s ->
  ep_of_id s c0 = Some c -> ep_of_id s (cur s) = Some n ->
  e_st c = Available -> cur s <> c0 -> e_prio n < e_prio c.
Proof.
  intros [W P _ _ _ _] CT Ec En Av Hne.
  apply ep_of_id_Mapped in Ec; auto.
  destruct (topAvail s) as [ta|] eqn:TA.
  - destruct (ct_some _ _ _ CT ta TA) as [H|H]; [contradiction|].
    destruct (topAvail_ep _ _ W TA) as [Eta _]. rewrite H in En.
    assert (n = ta) by congruence. subst n.
    apply topAvail_Some in TA. destruct TA as [_ [_ Min]].
    pose proof (Min _ _ Ec Av) as Hle.
    assert (e_prio ta <> e_prio c); [|lia].
    intros Heq. apply Hne. rewrite H.
    apply ep_of_id_Mapped in Eta; auto. exact (P _ _ _ _ Eta Ec Heq).
  - exfalso. exact (topAvail_None _ TA _ _ Ec Av).
Qed.

(* "a timer never takes an endpoint out of the available state" *)
Lemma timer_clause_ok r s s' :
  Inv s -> WFs s' -> recov s = r -> TimerKeeps s s' ->
  (r <? 0) || forallb (fun b => if o_avail b then
                          match find_oep (oe_id b) (L s') with Some a => o_avail a | None => false end
                        else true) (L s) = true.
Proof.
  intros I W' Hr ST. pose proof (inv_wf _ I) as W.
  destruct (Z.ltb_spec r 0) as [Hneg|Hpos]; [reflexivity|]. cbn [orb].
  apply forallb_forall. intros b Hb.
  pose proof (Permutation_in _ (L_perm s) Hb) as Hb'. apply in_map_iff in Hb'.
  destruct Hb' as [e [<- He]]. apply In_mapped_eps in He. destruct He as [key M].
  rewrite o_avail_oep. unfold availb. destruct (status_eqb (e_st e) Available) eqn:Av; [|reflexivity].
  apply status_eqb_eq in Av. rewrite <- Hr in Hpos. destruct (ST Hpos _ _ M Av) as [e' [M' Av']].
  cbn [oe_id oep_of]. rewrite (Mapped_id _ _ _ W M). rewrite (obs_find s') by assumption.
  apply ep_of_id_Mapped in M'; auto. rewrite M'. cbn [option_map].
  rewrite o_avail_oep. unfold availb. rewrite Av'. reflexivity.
Qed.

Lemma c14_event_ok r d s o s' outs :
  Inv s -> StepOK s o s' outs -> recov s = r -> delay s = d ->
  c14_event r d (observe s) (mkEvent o outs (observe s')) = true.
Proof.
  intros I SO Hr Hd. destruct SO as [I' Hr' Hd' CT _ _ SA ST _].
  pose proof I as [W P T C U J]. pose proof I' as [W' P' T' C' U' J'].
  unfold c14_event. cbn [ev_obs ev_op ev_out].
  change (o_eps (observe s')) with (L s'). change (o_eps (observe s)) with (L s).
  change (o_cur (observe s')) with (cur s'). change (o_cur (observe s)) with (cur s).
  change (o_now (observe s')) with (now s').
  rewrite !(obs_find s') by assumption.
  repeat (apply andb_true_intro; split).
  - (* recovery window *)
    destruct (ep_of_id s' (cur s)) as [c|] eqn:Ec; [|reflexivity]. cbn [option_map].
    rewrite o_recovering_oep, obs_no_higher by assumption.
    destruct (status_eqb (e_st c) Recovering && _) eqn:Hh; [|reflexivity].
    rewrite (ct_hold _ _ _ CT); [apply N.eqb_refl|]. unfold hold_at. rewrite Ec. exact Hh.
  - (* per-operation clauses *)
    destruct o as [id b|ids|dt|k|k]; try reflexivity.
    + (* OpAvail *)
      unfold AvailFacts in SA. rewrite ?(obs_find s') by assumption. destruct b.
      * destruct (ep_of_id s' id) as [ea|] eqn:Ea; [|reflexivity]. cbn [option_map].
        destruct (SA ea eq_refl) as [A1 A2]. rewrite o_avail_oep. unfold availb.
        rewrite A1. cbn [status_eqb andb]. rewrite obs_nth_pair.
        destruct (e_tmr ea) as [k|]; [|reflexivity].
        destruct (A2 k eq_refl) as [t [H1 H2]]. rewrite H1. cbn.
        destruct (t_st t); try reflexivity. congruence.
      * rewrite (obs_find s) by assumption.
        destruct (ep_of_id s id) as [eb|] eqn:Eb.
        2:{ rewrite SA. reflexivity. }
        destruct SA as [ea [Ea SA]]. rewrite Ea. cbn [option_map].
        rewrite o_avail_oep. destruct (availb eb).
        { rewrite Hr in SA. destruct (r =? 0).
          - rewrite o_unavail_oep. apply status_eqb_eq. exact SA.
          - destruct SA as [A1 [k [t [B1 [B2 [B3 [B4 [B5 B6]]]]]]]].
            rewrite o_recovering_oep, A1. cbn [status_eqb andb].
            rewrite obs_nth_pair, B1, B2. cbn [option_map tpair fst snd].
            rewrite B3, B4. cbn [tst_code]. rewrite !Z.eqb_refl. cbn [andb].
            rewrite obs_tmrs, map_length. unfold oep_of; cbn [oe_tmr]. rewrite B1.
            apply andb_true_intro. split; [lia|]. exact B6. }
        { destruct SA as [-> A2]. rewrite oep_eqb_refl. cbn [andb].
          rewrite !obs_nth_pair. destruct (e_tmr eb) as [k|]; [|reflexivity].
          destruct (A2 k eq_refl) as [t [H1 H2]]. rewrite H1, H2. cbn. apply pair_eqb_refl. }
    + exact (timer_clause_ok r s s' I W' Hr ST).
    + exact (timer_clause_ok r s s' I W' Hr ST).
    + exact (timer_clause_ok r s s' I W' Hr ST).
  - (* switching delay *)
    destruct (negb (d =? 0) && is_input o) eqn:G; [|reflexivity].
    apply andb_true_iff in G. destruct G as [G1 G2]. apply negb_true_iff in G1.
    apply Z.eqb_neq in G1.
    destruct (ep_of_id s' (cur s)) as [c|] eqn:Ec; [|reflexivity]. cbn [option_map].
    rewrite o_avail_oep, o_recovering_oep. unfold availb.
    destruct (status_eqb (e_st c) Available || status_eqb (e_st c) Recovering) eqn:Hs; [|reflexivity].
    rewrite (ct_delay _ _ _ CT G2) with (c := c); auto; [apply N.eqb_refl|congruence|].
    intros Hu. rewrite Hu in Hs. discriminate.
  - (* never to a lower priority from an available endpoint *)
    destruct (ep_of_id s' (cur s)) as [c|] eqn:Ec; [|reflexivity].
    destruct (ep_of_id s' (cur s')) as [n|] eqn:En; [|reflexivity]. cbn [option_map].
    rewrite o_avail_oep. unfold availb.
    destruct (status_eqb (e_st c) Available) eqn:Av; [|reflexivity].
    destruct (N.eqb_spec (cur s') (cur s)) as [Heq|Hne]; [reflexivity|]. cbn [negb andb].
    apply status_eqb_eq in Av. cbn [oe_prio oep_of].
    pose proof (no_lower _ _ _ _ _ I' CT Ec En Av Hne). lia.
  - (* convergence *)
    destruct (existsb timer_active (o_tmrs (observe s'))) eqn:Ex; [reflexivity|].
    apply no_active_of_obs in Ex. rewrite obs_top_avail by assumption.
    destruct (topAvail s') as [ta|] eqn:TA; [|reflexivity]. cbn [option_map oe_id oep_of].
    rewrite (Inv_convergence _ _ I' Ex TA). apply N.eqb_refl.
Qed.

Lemma c14_from_ok r d : forall ops s,
  Inv s -> recov s = r -> delay s = d ->
  c14_from r d (observe s) (run s ops) = true.
Proof.
  induction ops as [|o rest IH]; intros s I Hr Hd; cbn [run]; [reflexivity|].
  destruct (step s o) as [s' outs] eqn:E. cbn [c14_from ev_obs].
  pose proof (step_ok _ _ _ _ I E) as SO.
  rewrite (c14_event_ok r d s o s' outs I SO Hr Hd). cbn [andb].
  apply IH.
  - apply SO.
  - rewrite (so_recov _ _ _ _ SO). exact Hr.
  - rewrite (so_delay _ _ _ _ SO). exact Hd.
Qed.

Theorem C14_holds_proof : forall ids r d s0 outs0 ops,
  NewMultiEndpoint ids r d = Some (s0, outs0) ->
  C14_ok r d (observe s0) (run s0 ops) = true.
Proof.
  intros ids r d s0 outs0 ops E.
  destruct (New_Inv _ _ _ _ _ E) as [I [Hr [Hd _]]].
  unfold C14_ok. apply c14_from_ok; auto.
Qed.

(* State-level facts *)
Lemma Inv_run_state ops : forall s, Inv s -> Inv (run_state s ops).
Proof.
  induction ops as [|o rest IH]; intros s I; cbn [run_state]; [exact I|].
  apply IH. destruct (step s o) as [s' outs] eqn:Es. cbn [fst].
  apply (so_inv _ _ _ _ (step_ok _ _ _ _ I Es)).
Qed.

Theorem convergence_proof : forall ids r d s0 outs0 ops ta,
  NewMultiEndpoint ids r d = Some (s0, outs0) ->
  let s := run_state s0 ops in
  (forall k t, nth_error (timers s) k = Some t -> t_st t <> Pending /\ t_st t <> Firing) ->
  topAvail s = Some ta ->
  cur s = e_id ta.
Proof.
  intros ids r d s0 outs0 ops ta E s NA TA.
  destruct (New_Inv _ _ _ _ _ E) as [I _].
  apply Inv_convergence; auto.
  - apply Inv_run_state. exact I.
  - intros k t Hk [Ha|Ha]; destruct (NA k t Hk); contradiction.
Qed.

Theorem invariant_proof : forall ids r d s0 outs0 ops,
  NewMultiEndpoint ids r d = Some (s0, outs0) -> Inv (run_state s0 ops).
Proof.
  intros ids r d s0 outs0 ops E. destruct (New_Inv _ _ _ _ _ E) as [I _].
  apply Inv_run_state. exact I.
Qed.

(* Why the timer clause of C14 is guarded by [r <? 0]: with a negative recovery
   timeout a recovery timer is fireable at once; an "available" report that
   arrives between its firing and its callback cannot stop it and leaves
   lastChange equal to the timer's stamp, so the callback takes the (available)
   endpoint down.  The invariant [Ktimer] is accordingly stated under 0 <= recov. *)
Example negative_timeout_timer_unavails :
  match NewMultiEndpoint [1%N] (-1) 0 with
  | Some (s0, _) =>
      map (fun ev => map oe_st (o_eps (ev_obs ev)))
          (run s0 [OpAvail 1 true; OpAvail 1 false; OpBegin 0; OpAvail 1 true; OpEnd 0])
      = [[1]; [2]; [2]; [1]; [0]]
  | None => False
  end.
Proof. vm_compute. reflexivity. Qed.
