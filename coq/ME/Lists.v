(* Engine B proofs, part 1: generic list / association-list facts used by the
   invariants of the multiendpoint model. *)
From GV Require Import ME.Model ME.Monitors.
From Coq Require Import Permutation ZifyBool.
Open Scope Z_scope.

(* ------------------------------ upd_nth --------------------------------- *)
Lemma upd_nth_length {A} n f (l : list A) : length (upd_nth n f l) = length l.
Proof.
  revert n; induction l as [|x r IH]; intros [|n]; cbn; auto.
Qed.

Lemma nth_error_upd_nth {A} n m f (l : list A) :
  nth_error (upd_nth n f l) m =
  if Nat.eqb n m then option_map f (nth_error l m) else nth_error l m.
Proof.
  revert n m; induction l as [|x r IH]; intros [|n] [|m]; cbn; auto;
    try (destruct (Nat.eqb _ _); reflexivity).
Qed.

Lemma nth_error_upd_nth_eq {A} n f (l : list A) x :
  nth_error l n = Some x -> nth_error (upd_nth n f l) n = Some (f x).
Proof.
  intros H. rewrite nth_error_upd_nth, Nat.eqb_refl, H. reflexivity.
Qed.

Lemma nth_error_upd_nth_neq {A} n m f (l : list A) :
  n <> m -> nth_error (upd_nth n f l) m = nth_error l m.
Proof.
  intros H. rewrite nth_error_upd_nth.
  destruct (Nat.eqb_spec n m); [contradiction|reflexivity].
Qed.

Lemma upd_nth_none {A} n f (l : list A) :
  nth_error l n = None -> upd_nth n f l = l.
Proof.
  revert n; induction l as [|x r IH]; intros [|n]; cbn; auto; try discriminate.
  intros H. f_equal. auto.
Qed.

Lemma nth_error_snoc {A} (l : list A) x m :
  nth_error (l ++ [x]) m =
  if Nat.eqb m (length l) then Some x else nth_error l m.
Proof.
  destruct (Nat.eqb_spec m (length l)) as [->|Hne].
  - rewrite nth_error_app2, Nat.sub_diag by lia. reflexivity.
  - destruct (Nat.lt_ge_cases m (length l)) as [Hlt|Hge].
    + apply nth_error_app1; exact Hlt.
    + rewrite nth_error_app2 by lia.
      assert (nth_error l m = None) as -> by (apply nth_error_None; lia).
      destruct (m - length l)%nat as [|k] eqn:E; [lia|]. destruct k; reflexivity.
Qed.

Lemma nth_error_Some_lt {A} (l : list A) n x : nth_error l n = Some x -> (n < length l)%nat.
Proof. intros H. apply nth_error_Some. congruence. Qed.

Lemma NoDup_snoc {A} (l : list A) x : NoDup l -> ~ In x l -> NoDup (l ++ [x]).
Proof.
  intros H1 H2. eapply Permutation_NoDup; [apply Permutation_cons_append|].
  constructor; assumption.
Qed.

(* ------------------------------ lookup ---------------------------------- *)
Lemma lookup_In m id c : lookup m id = Some c -> In (id, c) m.
Proof.
  induction m as [|[k c'] r IH]; cbn; [discriminate|].
  destruct (N.eqb_spec k id) as [->|Hne]; intros H.
  - inversion H; subst; auto.
  - auto.
Qed.

Lemma lookup_None m id : lookup m id = None <-> ~ In id (map fst m).
Proof.
  induction m as [|[k c'] r IH]; cbn.
  - tauto.
  - destruct (N.eqb_spec k id) as [->|Hne].
    + split; [discriminate|]. intros H; exfalso; apply H; auto.
    + rewrite IH. tauto.
Qed.

Lemma In_lookup m id c : NoDup (map fst m) -> In (id, c) m -> lookup m id = Some c.
Proof.
  induction m as [|[k c'] r IH]; cbn; [tauto|].
  intros Hnd [Heq|Hin].
  - inversion Heq; subst. rewrite N.eqb_refl. reflexivity.
  - inversion Hnd as [|? ? Hnot Hnd']; subst.
    destruct (N.eqb_spec k id) as [->|Hne].
    + exfalso. apply Hnot. change id with (fst (id, c)). apply in_map; exact Hin.
    + auto.
Qed.

Lemma lookup_Some_key m id c : lookup m id = Some c -> In id (map fst m).
Proof.
  intros H. apply lookup_In in H. change id with (fst (id, c)). apply in_map; exact H.
Qed.

Lemma In_key_lookup m id : In id (map fst m) -> exists c, lookup m id = Some c.
Proof.
  intros H. destruct (lookup m id) as [c|] eqn:E; [eauto|].
  apply lookup_None in E. contradiction.
Qed.

(* ------------------------------ insert ---------------------------------- *)
Lemma insert_In m id c k c' :
  In (k, c') (insert m id c) <-> (k = id /\ c' = c /\ True) \/ (k <> id /\ In (k, c') m).
Proof.
  unfold insert. destruct (lookup m id) as [c0|] eqn:E.
  - rewrite in_map_iff. split.
    + intros [[k0 c1] [Heq Hin]]. cbn in Heq.
      destruct (N.eqb_spec k0 id) as [->|Hne]; inversion Heq; subst; auto.
    + intros [[-> [-> _]]|[Hne Hin]].
      * exists (id, c0). cbn. rewrite N.eqb_refl. split; auto. apply lookup_In; exact E.
      * exists (k, c'). cbn. destruct (N.eqb_spec k id); [contradiction|]. auto.
  - rewrite in_app_iff. cbn. split.
    + intros [Hin|[Heq|[]]].
      * right. split; auto. intros ->. apply lookup_None in E. apply E.
        change id with (fst (id, c')). apply in_map; exact Hin.
      * inversion Heq; subst; auto.
    + intros [[-> [-> _]]|[Hne Hin]]; auto.
Qed.

Lemma insert_keys m id c :
  map fst (insert m id c) =
  match lookup m id with Some _ => map fst m | None => map fst m ++ [id] end.
Proof.
  unfold insert. destruct (lookup m id) as [c0|] eqn:E.
  - rewrite map_map. apply map_ext. intros [k c1]. cbn.
    destruct (N.eqb_spec k id); subst; reflexivity.
  - rewrite map_app. reflexivity.
Qed.

Lemma insert_keys_NoDup m id c : NoDup (map fst m) -> NoDup (map fst (insert m id c)).
Proof.
  intros H. rewrite insert_keys. destruct (lookup m id) eqn:E; auto.
  apply lookup_None in E.
  apply NoDup_snoc; auto.
Qed.

Lemma filter_keys_NoDup (f : N * nat -> bool) m : NoDup (map fst m) -> NoDup (map fst (filter f m)).
Proof.
  induction m as [|[k c] r IH]; cbn; auto.
  intros H. inversion H as [|? ? Hnot Hnd]; subst.
  destruct (f (k, c)); cbn; auto.
  constructor; auto. intros Hin. apply Hnot.
  apply in_map_iff in Hin. destruct Hin as [[k' c'] [Heq Hin]]. cbn in Heq; subst.
  apply filter_In in Hin. destruct Hin as [Hin _].
  change k with (fst (k, c')). apply in_map; exact Hin.
Qed.

(* ------------------------------ memN / same_set -------------------------- *)
Lemma memN_In x l : memN x l = true <-> In x l.
Proof.
  unfold memN. rewrite existsb_exists. split.
  - intros [y [Hin Heq]]. apply N.eqb_eq in Heq. subst; auto.
  - intros H. exists x. split; auto. apply N.eqb_refl.
Qed.

Lemma memN_false x l : memN x l = false <-> ~ In x l.
Proof.
  rewrite <- memN_In. destruct (memN x l); split; intros; congruence.
Qed.

Lemma subsetN_spec a b : subsetN a b = true <-> (forall x, In x a -> In x b).
Proof.
  unfold subsetN. rewrite forallb_forall. split; intros H x Hx.
  - apply memN_In. auto.
  - apply memN_In. auto.
Qed.

Lemma same_set_spec a b : same_set a b = true <-> (forall x, In x a <-> In x b).
Proof.
  unfold same_set. rewrite andb_true_iff, !subsetN_spec. split.
  - intros [H1 H2] x. split; auto.
  - intros H. split; intros x; apply H.
Qed.

(* ------------------------------ top -------------------------------------- *)
Section Top.
  Context {A : Type} (prio : A -> Z) (p : A -> bool).

  Definition top_step (acc : option A) (e : A) : option A :=
    if p e then match acc with
                | None => Some e
                | Some t => if prio e <? prio t then Some e else Some t
                end
    else acc.

  Definition top (l : list A) : option A := fold_left top_step l None.

  Definition is_min (l : list A) (x : A) : Prop :=
    In x l /\ p x = true /\ forall y, In y l -> p y = true -> prio x <= prio y.

  Lemma top_from_some l a :
    p a = true ->
    exists x, fold_left top_step l (Some a) = Some x /\ (x = a \/ In x l) /\ p x = true /\
              prio x <= prio a /\ forall y, In y l -> p y = true -> prio x <= prio y.
  Proof.
    revert a. induction l as [|e r IH]; intros a Ha; cbn.
    - exists a. split; [reflexivity|]. split; [auto|]. split; [auto|]. split; [lia|]. intros y [].
    - unfold top_step at 2. destruct (p e) eqn:Pe.
      + destruct (prio e <? prio a) eqn:Hlt.
        * destruct (IH e Pe) as [x [H1 [H2 [H3 [H4 H5]]]]].
          exists x. split; [exact H1|]. split; [destruct H2; subst; auto|].
          split; [auto|]. split; [lia|].
          intros y [->|Hy] Hp; auto.
        * destruct (IH a Ha) as [x [H1 [H2 [H3 [H4 H5]]]]].
          exists x. split; [exact H1|]. split; [destruct H2; subst; auto|].
          split; [auto|]. split; [lia|].
          intros y [->|Hy] Hp; auto. lia.
      + destruct (IH a Ha) as [x [H1 [H2 [H3 [H4 H5]]]]].
        exists x. split; [exact H1|]. split; [destruct H2; subst; auto|].
        split; [auto|]. split; [lia|].
        intros y [->|Hy] Hp; auto. congruence.
  Qed.

  Lemma top_spec l :
    match top l with
    | Some x => is_min l x
    | None => forall y, In y l -> p y = false
    end.
  Proof.
    unfold top. induction l as [|e r IH]; cbn.
    - intros y [].
    - unfold top_step at 2. destruct (p e) eqn:Pe.
      + destruct (top_from_some r e Pe) as [x [H1 [H2 [H3 [H4 H5]]]]].
        rewrite H1. split; [|split]; auto.
        * destruct H2 as [->|H2]; [left; reflexivity|right; exact H2].
        * intros y [<-|Hy] Hp; auto.
      + destruct (fold_left top_step r None) as [x|].
        * destruct IH as [H1 [H2 H3]]. split; [|split]; auto.
          { right; exact H1. }
          intros y [<-|Hy] Hp; auto. congruence.
        * intros y [<-|Hy]; auto.
  Qed.

  Lemma top_Some l x : top l = Some x -> is_min l x.
  Proof. intros H. pose proof (top_spec l) as S. rewrite H in S. exact S. Qed.

  Lemma top_None l : top l = None -> forall y, In y l -> p y = false.
  Proof. intros H. pose proof (top_spec l) as S. rewrite H in S. exact S. Qed.

  Definition prio_inj (l : list A) : Prop :=
    forall x y, In x l -> In y l -> prio x = prio y -> x = y.

  Lemma is_min_unique l x y : prio_inj l -> is_min l x -> is_min l y -> x = y.
  Proof.
    intros Hinj [Hx1 [Hx2 Hx3]] [Hy1 [Hy2 Hy3]].
    apply Hinj; auto. specialize (Hx3 y Hy1 Hy2). specialize (Hy3 x Hx1 Hx2). lia.
  Qed.

  Lemma is_min_top l x : prio_inj l -> is_min l x -> top l = Some x.
  Proof.
    intros Hinj Hx. pose proof (top_spec l) as S. destruct (top l) as [y|].
    - f_equal. eapply is_min_unique; eauto.
    - destruct Hx as [H1 [H2 _]]. rewrite (S x H1) in H2. discriminate.
  Qed.

  Lemma none_top l : (forall y, In y l -> p y = false) -> top l = None.
  Proof.
    intros H. pose proof (top_spec l) as S. destruct (top l) as [y|]; auto.
    destruct S as [H1 [H2 _]]. rewrite (H y H1) in H2. discriminate.
  Qed.

  Lemma top_perm l l' : Permutation l l' -> prio_inj l -> top l = top l'.
  Proof.
    intros HP Hinj. pose proof (Permutation_sym HP) as HP'.
    pose proof (top_spec l) as S. destruct (top l) as [x|].
    - symmetry. apply is_min_top.
      + intros a b Ha Hb. apply Hinj.
        * exact (Permutation_in _ HP' Ha).
        * exact (Permutation_in _ HP' Hb).
      + destruct S as [H1 [H2 H3]]. split; [|split]; auto.
        * exact (Permutation_in _ HP H1).
        * intros y Hy. apply H3. exact (Permutation_in _ HP' Hy).
    - symmetry. apply none_top. intros y Hy. apply S.
      exact (Permutation_in _ HP' Hy).
  Qed.
End Top.

Lemma top_map {A B} (f : A -> B) (prio : B -> Z) (p : B -> bool) (l : list A) :
  top prio p (map f l) = option_map f (top (fun a => prio (f a)) (fun a => p (f a)) l).
Proof.
  unfold top.
  assert (G : forall acc, fold_left (top_step prio p) (map f l) (option_map f acc) =
              option_map f (fold_left (top_step (fun a => prio (f a)) (fun a => p (f a))) l acc)).
  { induction l as [|e r IH]; intros acc; cbn; auto.
    rewrite <- IH. f_equal. unfold top_step.
    destruct (p (f e)); auto. destruct acc as [t|]; cbn; auto.
    destruct (prio (f e) <? prio (f t)); reflexivity. }
  apply (G None).
Qed.

Lemma top_ext {A} (prio : A -> Z) (p q : A -> bool) l :
  (forall x, In x l -> p x = q x) -> top prio p l = top prio q l.
Proof.
  unfold top. generalize (@None A).
  induction l as [|e r IH]; intros acc H; cbn; auto.
  unfold top_step at 2 4. rewrite (H e) by (left; auto).
  apply IH. intros x Hx. apply H. right; auto.
Qed.

(* the monitors' and the model's folds are instances of [top] *)
Lemma o_top_is_top p l : o_top p l = top oe_prio p l.
Proof. reflexivity. Qed.

(* ------------------------------ find_oep --------------------------------- *)
Lemma find_oep_Some id l x : find_oep id l = Some x -> In x l /\ oe_id x = id.
Proof.
  unfold find_oep. intros H. apply find_some in H. destruct H as [H1 H2].
  apply N.eqb_eq in H2. auto.
Qed.

Lemma find_oep_None id l : find_oep id l = None -> ~ In id (ids_of l).
Proof.
  unfold find_oep, ids_of. intros H Hin. apply in_map_iff in Hin.
  destruct Hin as [x [Hx Hin]]. pose proof (find_none _ _ H x Hin) as Hn.
  cbn in Hn. rewrite Hx, N.eqb_refl in Hn. discriminate.
Qed.

Lemma find_oep_In l x : NoDup (ids_of l) -> In x l -> find_oep (oe_id x) l = Some x.
Proof.
  unfold find_oep, ids_of. induction l as [|y r IH]; cbn; [tauto|].
  intros Hnd [->|Hin].
  - rewrite N.eqb_refl. reflexivity.
  - inversion Hnd as [|? ? Hnot Hnd']; subst.
    destruct (N.eqb_spec (oe_id y) (oe_id x)) as [Heq|Hne].
    + exfalso. apply Hnot. rewrite Heq. apply in_map; exact Hin.
    + auto.
Qed.

Lemma find_oep_perm id l l' : Permutation l l' -> NoDup (ids_of l) -> find_oep id l = find_oep id l'.
Proof.
  intros HP Hnd. pose proof (Permutation_sym HP) as HP'.
  assert (Hnd' : NoDup (ids_of l')).
  { eapply Permutation_NoDup; [|exact Hnd]. apply Permutation_map; exact HP. }
  destruct (find_oep id l) as [x|] eqn:E.
  - apply find_oep_Some in E. destruct E as [E1 E2]. subst id.
    symmetry. apply find_oep_In; auto. exact (Permutation_in _ HP E1).
  - destruct (find_oep id l') as [y|] eqn:E'; auto.
    apply find_oep_Some in E'. destruct E' as [E1 E2]. subst id.
    apply find_oep_None in E. exfalso. apply E. unfold ids_of. apply in_map.
    exact (Permutation_in _ HP' E1).
Qed.

(* ------------------------------ insert_sorted ---------------------------- *)
Lemma insert_sorted_perm x l : Permutation (insert_sorted x l) (x :: l).
Proof.
  induction l as [|y r IH]; cbn; auto.
  destruct (N.leb (oe_id x) (oe_id y)); auto.
  eapply perm_trans; [apply perm_skip; exact IH|]. apply perm_swap.
Qed.

Lemma sort_perm l : Permutation (fold_right insert_sorted [] l) l.
Proof.
  induction l as [|y r IH]; cbn; auto.
  eapply perm_trans; [apply insert_sorted_perm|]. apply perm_skip; exact IH.
Qed.

(* ------------------------------ boolean equalities ----------------------- *)
Lemma oep_eqb_refl a : oep_eqb a a = true.
Proof. unfold oep_eqb. rewrite N.eqb_refl, !Z.eqb_refl. reflexivity. Qed.

Lemma pair_eqb_refl a : pair_eqb a a = true.
Proof. unfold pair_eqb. rewrite !Z.eqb_refl. reflexivity. Qed.

Lemma list_eqb_refl {A} (eqb : A -> A -> bool) l :
  (forall a, eqb a a = true) -> list_eqb eqb l l = true.
Proof. intros H. induction l; cbn; auto. rewrite H, IHl. reflexivity. Qed.

Lemma obs_eqb_refl o : obs_eqb o o = true.
Proof.
  unfold obs_eqb. rewrite N.eqb_refl, Z.eqb_refl.
  rewrite !list_eqb_refl; auto using oep_eqb_refl, pair_eqb_refl.
Qed.
