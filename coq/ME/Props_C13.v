From GV Require Import ME.Model ME.Monitors.
