From GV Require Import ME.Model ME.Monitors ME.Lists ME.Inv ME.InvC13.

(* C13: every trace of the model, for every history (legal or not), satisfies the monitor. *)
Theorem C13_holds : forall ids r d s0 outs0 ops,
  NewMultiEndpoint ids r d = Some (s0, outs0) ->
  C13_ok d ids (observe s0) (run s0 ops) = true.
Proof. exact C13_holds_proof. Qed.
Print Assumptions C13_holds.

(* State-level: Current() always names a mapped endpoint. *)
Theorem cur_member : forall ids r d s0 outs0 ops,
  NewMultiEndpoint ids r d = Some (s0, outs0) ->
  In (cur (run_state s0 ops)) (keys (run_state s0 ops)).
Proof. exact cur_member_proof. Qed.
Print Assumptions cur_member.

(* Non-vacuity (a): a concrete history with recovery timers firing, a delayed
   switch, a SetEndpoints that drops an endpoint and a rejected empty list.
   The constructor succeeds, the run has 15 events and current moves 1 -> 2 -> 1. *)
Example c13_history :
  let ops := [OpAvail 2 true; OpAdvance 5; OpBegin 0; OpEnd 0; OpAvail 1 true; OpAdvance 3;
              OpBegin 3; OpEnd 3; OpSet [3%N; 1%N]; OpAvail 1 false; OpBegin 7; OpSet [];
              OpAdvance 5; OpBegin 4; OpEnd 4] in
  match NewMultiEndpoint [1%N; 2%N; 3%N] 5 3 with
  | Some (s0, outs0) =>
      outs0 = [ONewTimer 5; ONewTimer 5; ONewTimer 5] /\
      map (fun ev => o_cur (ev_obs ev)) (run s0 ops) =
        [1; 1; 1; 2; 2; 2; 2; 1; 1; 1; 1; 1; 1; 1; 1]%N /\
      map (fun ev => length (o_tmrs (ev_obs ev))) (run s0 ops) =
        [3; 3; 3; 3; 4; 4; 4; 4; 4; 5; 5; 5; 5; 5; 5]%nat /\
      map (fun ev => map oe_st (o_eps (ev_obs ev))) (run s0 ops) =
        [[2; 1; 2]; [2; 1; 2]; [2; 1; 2]; [0; 1; 2]; [1; 1; 2]; [1; 1; 2]; [1; 1; 2]; [1; 1; 2];
         [1; 2]; [2; 2]; [2; 2]; [2; 2]; [2; 2]; [2; 2]; [0; 2]]%Z /\
      C13_ok 3 [1%N; 2%N; 3%N] (observe s0) (run s0 ops) = true
  | None => False
  end.
Proof. vm_compute. repeat split; reflexivity. Qed.

(* Non-vacuity (b): the monitor rejects hand-made bad traces. *)
(* (the initial observation used below: current = 1, endpoints 1 and 2 unavailable) *)
(* sanity: the initial observation and a correct reaction are accepted *)
Example c13_good_trace :
  C13_ok 0 [1%N; 2%N] (mkObs 1 [mkOep 1 0 0 (-1); mkOep 2 1 0 (-1)] [] 0)
    [mkEvent (OpAvail 2 true) [] (mkObs 2 [mkOep 1 0 0 (-1); mkOep 2 1 1 (-1)] [] 0)] = true.
Proof. vm_compute; reflexivity. Qed.

(* current stays on a known-unavailable endpoint although endpoint 2 became available *)
Example c13_bad_stays_on_unavailable :
  C13_ok 0 [1%N; 2%N] (mkObs 1 [mkOep 1 0 0 (-1); mkOep 2 1 0 (-1)] [] 0)
    [mkEvent (OpAvail 2 true) [] (mkObs 1 [mkOep 1 0 0 (-1); mkOep 2 1 1 (-1)] [] 0)] = false.
Proof. vm_compute; reflexivity. Qed.

(* current names an endpoint that is not in the list *)
Example c13_bad_not_member :
  C13_ok 0 [1%N; 2%N] (mkObs 1 [mkOep 1 0 0 (-1); mkOep 2 1 0 (-1)] [] 0)
    [mkEvent (OpAdvance 1) [] (mkObs 9 [mkOep 1 0 0 (-1); mkOep 2 1 0 (-1)] [] 1)] = false.
Proof. vm_compute; reflexivity. Qed.

(* an empty endpoint list is accepted silently *)
Example c13_bad_empty_list_accepted :
  C13_ok 0 [1%N; 2%N] (mkObs 1 [mkOep 1 0 0 (-1); mkOep 2 1 0 (-1)] [] 0) [mkEvent (OpSet []) [] (mkObs 1 [mkOep 1 0 0 (-1); mkOep 2 1 0 (-1)] [] 0)] = false.
Proof. vm_compute; reflexivity. Qed.

(* nobody available, yet current moves to another mapped endpoint *)
Example c13_bad_moves_with_nobody_available :
  C13_ok 3 [1%N; 2%N] (mkObs 1 [mkOep 1 0 0 (-1); mkOep 2 1 0 (-1)] [] 0)
    [mkEvent (OpAdvance 1) [] (mkObs 2 [mkOep 1 0 0 (-1); mkOep 2 1 0 (-1)] [] 1)] = false.
Proof. vm_compute; reflexivity. Qed.
