(* Engine B: the properties C13 and C14 as boolean monitors over traces.
   A monitor sees only what the harness sees: the operation, the library's
   calls on the fake clock/timer factory, and the observation read back
   afterwards (current, endpoint table, timer table).  The same functions are
   extracted and run on traces recorded from the Go implementation. *)
From GV Require Import ME.Model.
Open Scope Z_scope.

Definition find_oep (id : N) (l : list oep) : option oep :=
  find (fun e => N.eqb (oe_id e) id) l.

Definition o_avail (e : oep) : bool := oe_st e =? 1.
Definition o_unavail (e : oep) : bool := oe_st e =? 0.
Definition o_recovering (e : oep) : bool := oe_st e =? 2.

(* highest-priority (lowest number) endpoint satisfying p *)
Definition o_top (p : oep -> bool) (l : list oep) : option oep :=
  fold_left (fun acc e =>
    if p e then match acc with
                | None => Some e
                | Some t => if oe_prio e <? oe_prio t then Some e else Some t
                end
    else acc) l None.

Definition o_top_avail := o_top o_avail.
Definition o_top_any := o_top (fun _ => true).

Definition oep_eqb (a b : oep) : bool :=
  N.eqb (oe_id a) (oe_id b) && (oe_prio a =? oe_prio b) && (oe_st a =? oe_st b) && (oe_tmr a =? oe_tmr b).

Fixpoint list_eqb {A} (eqb : A -> A -> bool) (l1 l2 : list A) : bool :=
  match l1, l2 with
  | [], [] => true
  | x :: r1, y :: r2 => eqb x y && list_eqb eqb r1 r2
  | _, _ => false
  end.

Definition pair_eqb (a b : Z * Z) : bool := (fst a =? fst b) && (snd a =? snd b).

Definition obs_eqb (a b : obs) : bool :=
  N.eqb (o_cur a) (o_cur b) && list_eqb oep_eqb (o_eps a) (o_eps b) && list_eqb pair_eqb (o_tmrs a) (o_tmrs b) && (o_now a =? o_now b).

Definition no_higher_avail (c : oep) (l : list oep) : bool :=
  match o_top_avail l with
  | None => true
  | Some ta => oe_prio c <? oe_prio ta
  end.

(* The three-way rule of C13 ("with no switching delay ..."). *)
Definition decide (prev_cur : N) (l : list oep) : N :=
  match find_oep prev_cur l with
  | Some c =>
      if o_recovering c && no_higher_avail c l then prev_cur
      else match o_top_avail l with Some ta => oe_id ta | None => prev_cur end
  | None =>
      match o_top_avail l with
      | Some ta => oe_id ta
      | None => match o_top_any l with Some t => oe_id t | None => prev_cur end
      end
  end.

Definition ids_of (l : list oep) : list N := map oe_id l.

Definition subsetN (a b : list N) : bool := forallb (fun x => memN x b) a.
Definition same_set (a b : list N) : bool := subsetN a b && subsetN b a.

Definition timer_active (t : Z * Z) : bool := (snd t =? 0) || (snd t =? 2).   (* pending or firing *)

(* --------------------------- C13 --------------------------------------- *)
(* [lst] is the most recently accepted endpoint list (tracked from the ops). *)
Definition c13_event (d : Z) (lst : list N) (before : obs) (ev : event) : bool :=
  let after := ev_obs ev in
  let l := o_eps after in
  (* Current() names a member of the most recently accepted list *)
  memN (o_cur after) (ids_of l) && same_set (ids_of l) lst &&
  (* known-unavailable current => nobody is available *)
  match find_oep (o_cur after) l with
  | Some c => if o_unavail c then match o_top_avail l with None => true | Some _ => false end else true
  | None => false
  end &&
  (* nobody available => unchanged, or removed and now the top-priority endpoint *)
  match o_top_avail l with
  | Some _ => true
  | None => N.eqb (o_cur after) (o_cur before) ||
            (negb (memN (o_cur before) (ids_of l)) &&
             match o_top_any l with Some t => N.eqb (o_cur after) (oe_id t) | None => false end)
  end &&
  (* no switching delay: the three-way rule *)
  (if d =? 0 then N.eqb (o_cur after) (decide (o_cur before) l) else true) &&
  (* an empty list is rejected and changes nothing *)
  match ev_op ev with
  | OpSet [] => list_eqb (fun a b => match a, b with OErr, OErr => true | _, _ => false end) (ev_out ev) [OErr]
                && obs_eqb before after
  | OpSet _ => negb (existsb (fun o => match o with OErr => true | _ => false end) (ev_out ev))
  | _ => true
  end.

Definition next_list (lst : list N) (o : op) : list N :=
  match o with
  | OpSet [] => lst
  | OpSet ids => ids
  | _ => lst
  end.

Fixpoint c13_from (d : Z) (lst : list N) (before : obs) (tr : list event) : bool :=
  match tr with
  | [] => true
  | ev :: r => let lst' := next_list lst (ev_op ev) in
               c13_event d lst' before ev && c13_from d lst' (ev_obs ev) r
  end.

(* the state right after construction *)
Definition c13_init (lst : list N) (o0 : obs) : bool :=
  memN (o_cur o0) (ids_of (o_eps o0)) && same_set (ids_of (o_eps o0)) lst &&
  match lst with first :: _ => N.eqb (o_cur o0) first | [] => false end.

Definition C13_ok (d : Z) (lst : list N) (o0 : obs) (tr : list event) : bool :=
  c13_init lst o0 && c13_from d lst o0 tr.

(* --------------------------- C14 --------------------------------------- *)
Definition is_input (o : op) : bool :=
  match o with OpAvail _ _ | OpSet _ => true | _ => false end.

Definition nth_pair (l : list (Z * Z)) (k : Z) : option (Z * Z) :=
  if k <? 0 then None else nth_error l (Z.to_nat k).

Definition c14_event (r d : Z) (before : obs) (ev : event) : bool :=
  let after := ev_obs ev in
  let l := o_eps after in
  (* recovery window: a recovering current endpoint with no higher-priority
     available endpoint stays current *)
  match find_oep (o_cur before) l with
  | Some c => if o_recovering c && no_higher_avail c l then N.eqb (o_cur after) (o_cur before) else true
  | None => true
  end &&
  (* an unavailable report for an available endpoint opens a window of exactly r;
     a repeated one changes neither the endpoint nor its timer; an available
     report leaves no active window behind *)
  match ev_op ev with
  | OpAvail id false =>
      match find_oep id (o_eps before), find_oep id l with
      | Some b, Some a =>
          if o_avail b then
            if r =? 0 then o_unavail a
            else o_recovering a &&
                 match nth_pair (o_tmrs after) (oe_tmr a) with
                 | Some t => (fst t =? o_now after + r) && (snd t =? 0) &&
                             (Z.of_nat (length (o_tmrs before)) <=? oe_tmr a)
                 | None => false
                 end &&
                 existsb (fun o => match o with ONewTimer dd => dd =? r | _ => false end) (ev_out ev)
          else oep_eqb a b &&
               match nth_pair (o_tmrs before) (oe_tmr b), nth_pair (o_tmrs after) (oe_tmr a) with
               | Some tb, Some ta => pair_eqb tb ta
               | None, None => true
               | _, _ => false
               end
      | None, None => true
      | _, _ => false
      end
  | OpAvail id true =>
      match find_oep id l with
      | Some a => o_avail a &&
                  match nth_pair (o_tmrs after) (oe_tmr a) with
                  | Some t => negb (snd t =? 0)
                  | None => true
                  end
      | None => true
      end
  | OpBegin _ | OpEnd _ | OpAdvance _ =>
      (* a timer never takes an endpoint out of the available state (for a
         non-negative recovery timeout; see DESIGN.md, C14 guards) *)
      (r <? 0) || forallb (fun b => if o_avail b then
                          match find_oep (oe_id b) l with Some a => o_avail a | None => false end
                        else true) (o_eps before)
  | _ => true
  end &&
  (* switching delay: no move inside the very call that made a better endpoint available *)
  (if negb (d =? 0) && is_input (ev_op ev) then
     match find_oep (o_cur before) l with
     | Some c => if o_avail c || o_recovering c then N.eqb (o_cur after) (o_cur before) else true
     | None => true
     end
   else true) &&
  (* never from an available endpoint to a lower-priority one *)
  match find_oep (o_cur before) l, find_oep (o_cur after) l with
  | Some c, Some n => if o_avail c && negb (N.eqb (o_cur after) (o_cur before))
                      then oe_prio n <? oe_prio c else true
  | _, _ => true
  end &&
  (* convergence: nothing pending and somebody available => current is the top available *)
  (if existsb timer_active (o_tmrs after) then true
   else match o_top_avail l with
        | Some ta => N.eqb (o_cur after) (oe_id ta)
        | None => true
        end).

Fixpoint c14_from (r d : Z) (before : obs) (tr : list event) : bool :=
  match tr with
  | [] => true
  | ev :: rest => c14_event r d before ev && c14_from r d (ev_obs ev) rest
  end.

Definition C14_ok (r d : Z) (o0 : obs) (tr : list event) : bool := c14_from r d o0 tr.

(* C14, additional clause (added after seeded change C14-a showed that a stale
   recovery timer cutting a NEW recovery window short was only visible as a
   divergence): the recovery window of an endpoint is ended only by its own,
   latest recovery timer (not by a stale one, not by the clock alone), and not
   before that timer is due.  Guard: recovery timeout >= 0, as above. *)
Definition c14t_event (r : Z) (before : obs) (ev : event) : bool :=
  let l := o_eps (ev_obs ev) in
  match ev_op ev with
  | OpBegin _ | OpEnd _ | OpAdvance _ =>
      (r <? 0) ||
      forallb (fun b => if o_recovering b then
                          match find_oep (oe_id b) l with
                          | Some a => if o_recovering a then true
                                      else match ev_op ev with
                                           | OpEnd k => (oe_tmr b =? Z.of_nat k) &&
                                                        match nth_pair (o_tmrs before) (oe_tmr b) with
                                                        | Some t => fst t <=? o_now before
                                                        | None => false
                                                        end
                                           | _ => false
                                           end
                          | None => true
                          end
                        else true) (o_eps before)
  | _ => true
  end.

Fixpoint c14t_from (r : Z) (before : obs) (tr : list event) : bool :=
  match tr with
  | [] => true
  | ev :: rest => c14t_event r before ev && c14t_from r (ev_obs ev) rest
  end.

Definition C14T_ok (r : Z) (o0 : obs) (tr : list event) : bool := c14t_from r o0 tr.

(* ------------------ correspondence: model vs recorded trace ------------- *)
Definition out_eqb (a b : out) : bool :=
  match a, b with
  | ONewTimer x, ONewTimer y => x =? y
  | OStop k b1, OStop k' b2 => Nat.eqb k k' && Bool.eqb b1 b2
  | OErr, OErr => true
  | _, _ => false
  end.

(* divergence classes *)
Inductive dclass := DCurrent | DEndpoints | DTimers | DOutputs | DIllegal.

Definition diff_class (mo : obs) (mout : list out) (io : obs) (iout : list out) : option dclass :=
  if negb (N.eqb (o_cur mo) (o_cur io)) then Some DCurrent
  else if negb (list_eqb oep_eqb (o_eps mo) (o_eps io)) then Some DEndpoints
  else if negb (list_eqb pair_eqb (o_tmrs mo) (o_tmrs io)) then Some DTimers
  else if negb (o_now mo =? o_now io) then Some DTimers
  else if negb (list_eqb out_eqb mout iout) then Some DOutputs
  else None.

(* accept s tr: index and class of the first event at which the implementation
   trace differs from the model, or None. *)
Fixpoint accept (s : me) (i : nat) (tr : list event) : option (nat * dclass) :=
  match tr with
  | [] => None
  | ev :: r =>
      if negb (legal s (ev_op ev)) then Some (i, DIllegal)
      else let '(s', outs) := step s (ev_op ev) in
           match diff_class (observe s') outs (ev_obs ev) (ev_out ev) with
           | Some c => Some (i, c)
           | None => accept s' (S i) r
           end
  end.
