(* Engine B proofs, part 5: every trace of the model satisfies the C14T monitor
   ("a recovery window is ended only by the endpoint's own, latest recovery
   timer, and not before that timer is due"). *)
From GV Require Import ME.Model ME.Monitors ME.Lists ME.Inv ME.InvC13 ME.InvC14.
From Coq Require Import Permutation ZifyBool.
Open Scope Z_scope.

Lemma rec_clause_ok r s o s' :
  Inv s -> WFs s' -> recov s = r -> RecKeeps s o s' ->
  (r <? 0) ||
  forallb (fun b => if o_recovering b then
                      match find_oep (oe_id b) (L s') with
                      | Some a => if o_recovering a then true
                                  else match o with
                                       | OpEnd k => (oe_tmr b =? Z.of_nat k) &&
                                                    match nth_pair (o_tmrs (observe s)) (oe_tmr b) with
                                                    | Some t => fst t <=? o_now (observe s)
                                                    | None => false
                                                    end
                                       | _ => false
                                       end
                      | None => true
                      end
                    else true) (L s) = true.
Proof.
  intros I W' Hr RK. pose proof (inv_wf _ I) as W.
  destruct (Z.ltb_spec r 0) as [Hneg|Hpos]; [reflexivity|]. cbn [orb].
  apply forallb_forall. intros b Hb.
  pose proof (Permutation_in _ (L_perm s) Hb) as Hb'. apply in_map_iff in Hb'.
  destruct Hb' as [e [<- He]]. apply In_mapped_eps in He. destruct He as [key M].
  rewrite o_recovering_oep.
  destruct (status_eqb (e_st e) Recovering) eqn:Rc; [|reflexivity].
  apply status_eqb_eq in Rc. rewrite <- Hr in Hpos.
  change (oe_id (oep_of e)) with (e_id e). rewrite (Mapped_id _ _ _ W M).
  rewrite (obs_find s') by assumption.
  destruct (ep_of_id s' key) as [e'|] eqn:E'; [|reflexivity]. cbn [option_map].
  apply ep_of_id_Mapped in E'; auto. rewrite o_recovering_oep.
  destruct (RK Hpos _ _ _ M Rc E') as [R'|[k [tk [-> [Hk [Htk Hdue]]]]]].
  - rewrite R'. reflexivity.
  - destruct (status_eqb (e_st e') Recovering); [reflexivity|].
    rewrite obs_nth_pair. unfold oep_of; cbn [oe_tmr]. rewrite Hk, Htk.
    cbn [option_map tpair fst]. change (o_now (observe s)) with (now s).
    rewrite Z.eqb_refl. cbn [andb]. apply Z.leb_le. exact Hdue.
Qed.

Lemma c14t_event_ok r s o s' outs :
  Inv s -> StepOK s o s' outs -> recov s = r ->
  c14t_event r (observe s) (mkEvent o outs (observe s')) = true.
Proof.
  intros I SO Hr. pose proof (inv_wf _ (so_inv _ _ _ _ SO)) as W'.
  pose proof (so_rec _ _ _ _ SO) as RK.
  unfold c14t_event. cbn [ev_obs ev_op].
  change (o_eps (observe s')) with (L s'). change (o_eps (observe s)) with (L s).
  destruct o as [id b|ids|dt|k|k]; try reflexivity.
  - exact (rec_clause_ok r s (OpAdvance dt) s' I W' Hr RK).
  - exact (rec_clause_ok r s (OpBegin k) s' I W' Hr RK).
  - exact (rec_clause_ok r s (OpEnd k) s' I W' Hr RK).
Qed.

Lemma c14t_from_ok r : forall ops s,
  Inv s -> recov s = r -> c14t_from r (observe s) (run s ops) = true.
Proof.
  induction ops as [|o rest IH]; intros s I Hr; cbn [run]; [reflexivity|].
  destruct (step s o) as [s' outs] eqn:E. cbn [c14t_from ev_obs].
  pose proof (step_ok _ _ _ _ I E) as SO.
  rewrite (c14t_event_ok r s o s' outs I SO Hr). cbn [andb].
  apply IH.
  - apply SO.
  - rewrite (so_recov _ _ _ _ SO). exact Hr.
Qed.

Theorem C14T_holds_proof : forall ids r d s0 outs0 ops,
  NewMultiEndpoint ids r d = Some (s0, outs0) ->
  C14T_ok r (observe s0) (run s0 ops) = true.
Proof.
  intros ids r d s0 outs0 ops E.
  destruct (New_Inv _ _ _ _ _ E) as [I [Hr _]].
  unfold C14T_ok. apply c14t_from_ok; auto.
Qed.

(* Why C14T is guarded by [r <? 0]: with a negative timeout the stale timer of
   an earlier window (already firing, so it cannot be stopped) carries the same
   stamp as the new window opened at the same clock reading, and ends it. *)
Example negative_timeout_stale_timer_ends_new_window :
  match NewMultiEndpoint [1%N] (-1) 0 with
  | Some (s0, _) =>
      let ops := [OpAvail 1 true; OpAvail 1 false; OpBegin 0; OpAvail 1 true; OpAvail 1 false; OpEnd 0] in
      map (fun ev => map (fun e => (oe_st e, oe_tmr e)) (o_eps (ev_obs ev))) (run s0 ops)
        = [[(1, -1)]; [(2, 0)]; [(2, 0)]; [(1, 0)]; [(2, 1)]; [(0, 1)]] /\
      C14T_ok 0 (observe s0) (run s0 ops) = false
  | None => False
  end.
Proof. vm_compute. split; reflexivity. Qed.
