From GV Require Import ME.Model ME.Monitors.
Open Scope Z_scope.

Definition alphabet : list op :=
  [OpAvail 1 true; OpAvail 1 false; OpAvail 2 true; OpAvail 2 false; OpAvail 3 true; OpAvail 3 false;
   OpSet []; OpSet [1%N]; OpSet [2%N;1%N]; OpSet [1%N;2%N;3%N]; OpSet [3%N;3%N]; OpSet [2%N;3%N;2%N];
   OpAdvance 1; OpAdvance 0; OpAdvance (-1);
   OpBegin 0; OpBegin 1; OpBegin 2; OpBegin 3; OpBegin 4;
   OpEnd 0; OpEnd 1; OpEnd 2; OpEnd 3; OpEnd 4].

Definition state_changed (s : me) (o : op) : bool :=
  match o with OpAdvance dt => 0 <? dt | OpSet [] => false | _ => legal s o end.

(* returns the first failing history (reversed) *)
Fixpoint dfs (r d : Z) (fuel : nat) (s : me) (lst : list N) (hist : list op) : option (list op * bool) :=
  match fuel with
  | O => None
  | S f =>
    fold_left (fun acc o =>
      match acc with Some _ => acc | None =>
        let '(s', outs) := step s o in
        let ev := mkEvent o outs (observe s') in
        let lst' := next_list lst o in
        if negb (c13_event d lst' (observe s) ev) then Some (o :: hist, true)
        else if negb (c14_event r d (observe s) ev) then Some (o :: hist, false)
        else if state_changed s o then dfs r d f s' lst' (o :: hist) else None
      end) alphabet None
  end.

Definition test (ids : list N) (r d : Z) (fuel : nat) :=
  match NewMultiEndpoint ids r d with
  | Some (s0, _) => if c13_init ids (observe s0) then dfs r d fuel s0 ids [] else Some ([], true)
  | None => None
  end.

Time Eval vm_compute in test [1%N;2%N] 1 1 4.
Time Eval vm_compute in test [1%N;2%N] 0 0 4.
Time Eval vm_compute in test [2%N;1%N;2%N] 1 0 4.
Time Eval vm_compute in test [1%N;2%N] 0 1 4.
Time Eval vm_compute in test [1%N;2%N] (-1) 1 4.
Time Eval vm_compute in test [1%N;2%N] 1 (-1) 4.
Time Eval vm_compute in test [1%N;1%N] (-1) (-1) 4.
