(* Engine B proofs, part 3: every trace of the model satisfies the C13 monitor. *)
From GV Require Import ME.Model ME.Monitors ME.Lists ME.Inv.
From Coq Require Import Permutation ZifyBool.
Open Scope Z_scope.

Lemma o_recovering_oep e : o_recovering (oep_of e) = status_eqb (e_st e) Recovering.
Proof. unfold o_recovering, oep_of. cbn. destruct (e_st e); reflexivity. Qed.

Lemma o_unavail_oep e : o_unavail (oep_of e) = status_eqb (e_st e) Unavailable.
Proof. unfold o_unavail, oep_of. cbn. destruct (e_st e); reflexivity. Qed.

Lemma obs_no_higher s c : WFs s -> PrioInj s ->
  no_higher_avail (oep_of c) (L s) =
  match topAvail s with None => true | Some ta => e_prio c <? e_prio ta end.
Proof.
  intros W P. unfold no_higher_avail. rewrite obs_top_avail by assumption.
  destruct (topAvail s); reflexivity.
Qed.

Lemma obs_decide s c0 : WFs s -> PrioInj s -> decide c0 (L s) = decide_st s c0.
Proof.
  intros W P. unfold decide, decide_st.
  rewrite obs_find, obs_top_avail, obs_top_any by assumption.
  destruct (ep_of_id s c0) as [c|]; cbn [option_map].
  - rewrite o_recovering_oep, obs_no_higher by assumption.
    destruct (status_eqb (e_st c) Recovering && _); [reflexivity|].
    destruct (topAvail s); reflexivity.
  - destruct (topAvail s); [reflexivity|]. destruct (topAny s); reflexivity.
Qed.

Definition KeysAre (s : me) (lst : list N) : Prop := forall k, In k (keys s) <-> In k lst.

Lemma c13_event_ok d lst s o s' outs :
  Inv s -> StepOK s o s' outs -> delay s = d -> KeysAre s lst ->
  c13_event d (next_list lst o) (observe s) (mkEvent o outs (observe s')) = true /\
  KeysAre s' (next_list lst o).
Proof.
  intros I SO Hd HK. destruct SO as [I' Hr' Hd' CT SK SOut _ _ _].
  pose proof I' as [W' P' T' C' U' J'].
  assert (K' : KeysAre s' (next_list lst o)).
  { destruct o as [id b|[|x r]|dt|k|k]; cbn [next_list]; try exact SK;
      unfold KeysAre; rewrite SK; exact HK. }
  split; [|exact K'].
  unfold c13_event. cbn [ev_obs ev_op ev_out].
  change (o_eps (observe s')) with (L s').
  change (o_cur (observe s')) with (cur s'). change (o_cur (observe s)) with (cur s).
  rewrite !obs_mem, obs_find, obs_top_avail, obs_top_any, obs_decide by assumption.
  rewrite (obs_same_set s' _ W' K').
  destruct C' as [ce Ece]. rewrite Ece. cbn [option_map].
  assert (M1 : memN (cur s') (keys s') = true).
  { apply memN_In. apply Inv_cur_member. exact I'. }
  rewrite M1. cbn [andb].
  repeat (apply andb_true_intro; split).
  - (* unavailable current => nobody available *)
    rewrite o_unavail_oep. destruct (status_eqb (e_st ce) Unavailable) eqn:Eu; [|reflexivity].
    apply status_eqb_eq in Eu. rewrite (U' ce Ece Eu). reflexivity.
  - (* nobody available *)
    destruct (topAvail s') as [ta|] eqn:TA; [reflexivity|]. cbn [option_map].
    destruct (ct_none _ _ _ CT TA) as [Hc|[Hn [t [Ht Hc]]]].
    + rewrite Hc, N.eqb_refl. reflexivity.
    + apply orb_true_iff. right. rewrite Ht. cbn [option_map].
      apply ep_of_id_None in Hn; auto. apply memN_false in Hn. rewrite Hn.
      cbn. rewrite Hc. apply N.eqb_refl.
  - (* no switching delay *)
    destruct (Z.eqb_spec d 0) as [D0|D0]; [|reflexivity].
    rewrite <- (ct_d0 _ _ _ CT) by congruence. apply N.eqb_refl.
  - (* the empty list *)
    destruct o as [id b|[|x r]|dt|k|k]; try reflexivity.
    + destruct SOut as [-> ->]. cbn. apply obs_eqb_refl.
    + unfold noerr in SOut. unfold is_err in SOut. rewrite SOut. reflexivity.
Qed.

Lemma c13_from_ok d : forall ops s lst,
  Inv s -> delay s = d -> KeysAre s lst ->
  c13_from d lst (observe s) (run s ops) = true.
Proof.
  induction ops as [|o r IH]; intros s lst I Hd HK; cbn [run]; [reflexivity|].
  destruct (step s o) as [s' outs] eqn:E. cbn [c13_from ev_op ev_obs].
  pose proof (step_ok _ _ _ _ I E) as SO.
  destruct (c13_event_ok d lst s o s' outs I SO Hd HK) as [Ev K'].
  rewrite Ev. cbn [andb]. apply IH; auto.
  - apply SO.
  - rewrite (so_delay _ _ _ _ SO). exact Hd.
Qed.

Theorem C13_holds_proof : forall ids r d s0 outs0 ops,
  NewMultiEndpoint ids r d = Some (s0, outs0) ->
  C13_ok d ids (observe s0) (run s0 ops) = true.
Proof.
  intros ids r d s0 outs0 ops E.
  destruct (New_Inv _ _ _ _ _ E) as [I [Hr [Hd [K C]]]].
  unfold C13_ok. apply andb_true_intro. split.
  - unfold c13_init. change (o_eps (observe s0)) with (L s0).
    change (o_cur (observe s0)) with (cur s0).
    pose proof (inv_wf _ I) as W.
    rewrite obs_mem, (obs_same_set s0 ids W K) by assumption.
    assert (M1 : memN (cur s0) (keys s0) = true).
    { apply memN_In. apply Inv_cur_member. exact I. }
    rewrite M1. destruct ids as [|first rest]; [destruct C|]. rewrite C. cbn. apply N.eqb_refl.
  - apply c13_from_ok; auto.
Qed.

(* State-level facts *)
Theorem cur_member_proof : forall ids r d s0 outs0 ops,
  NewMultiEndpoint ids r d = Some (s0, outs0) ->
  In (cur (run_state s0 ops)) (keys (run_state s0 ops)).
Proof.
  intros ids r d s0 outs0 ops E. destruct (New_Inv _ _ _ _ _ E) as [I _].
  apply Inv_cur_member. clear E. revert s0 I.
  induction ops as [|o rest IH]; intros s I; cbn [run_state]; [exact I|].
  apply IH. destruct (step s o) as [s' outs] eqn:Es. cbn [fst].
  apply (so_inv _ _ _ _ (step_ok _ _ _ _ I Es)).
Qed.
