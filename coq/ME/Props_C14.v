From GV Require Import ME.Model ME.Monitors ME.Lists ME.Inv ME.InvC13 ME.InvC14 ME.InvC14T.

(* C14: every trace of the model, for every history (legal or not), satisfies the monitor. *)
Theorem C14_holds : forall ids r d s0 outs0 ops,
  NewMultiEndpoint ids r d = Some (s0, outs0) ->
  C14_ok r d (observe s0) (run s0 ops) = true.
Proof. exact C14_holds_proof. Qed.
Print Assumptions C14_holds.

(* C14T: a recovery window is ended only by the endpoint's own, latest recovery
   timer, and not before that timer is due. *)
Theorem C14T_holds : forall ids r d s0 outs0 ops,
  NewMultiEndpoint ids r d = Some (s0, outs0) ->
  C14T_ok r (observe s0) (run s0 ops) = true.
Proof. exact C14T_holds_proof. Qed.
Print Assumptions C14T_holds.

(* State-level: the full invariant holds in every reachable state. *)
Theorem invariant : forall ids r d s0 outs0 ops,
  NewMultiEndpoint ids r d = Some (s0, outs0) -> Inv (run_state s0 ops).
Proof. exact invariant_proof. Qed.
Print Assumptions invariant.

(* State-level convergence: no pending or firing timer and somebody available
   => current is the highest-priority available endpoint. *)
Theorem convergence : forall ids r d s0 outs0 ops ta,
  NewMultiEndpoint ids r d = Some (s0, outs0) ->
  let s := run_state s0 ops in
  (forall k t, nth_error (timers s) k = Some t -> t_st t <> Pending /\ t_st t <> Firing) ->
  topAvail s = Some ta ->
  cur s = e_id ta.
Proof. exact convergence_proof. Qed.
Print Assumptions convergence.

(* Non-vacuity (a): the same concrete history as in Props_C13 (recovery timers
   firing, a delayed switch completing, an endpoint dropped, a new recovery window). *)
Example c14_history :
  let ops := [OpAvail 2 true; OpAdvance 5; OpBegin 0; OpEnd 0; OpAvail 1 true; OpAdvance 3;
              OpBegin 3; OpEnd 3; OpSet [3%N; 1%N]; OpAvail 1 false; OpBegin 7; OpSet [];
              OpAdvance 5; OpBegin 4; OpEnd 4] in
  match NewMultiEndpoint [1%N; 2%N; 3%N] 5 3 with
  | Some (s0, outs0) =>
      length (run s0 ops) = 15%nat /\
      map (fun ev => o_cur (ev_obs ev)) (run s0 ops) =
        [1; 1; 1; 2; 2; 2; 2; 1; 1; 1; 1; 1; 1; 1; 1]%N /\
      map (fun ev => ev_out ev) (run s0 ops) =
        [[OStop 1 true]; []; []; [OStop 0 false]; [OStop 0 false; ONewTimer 3]; []; []; []; [];
         [OStop 0 false; ONewTimer 5]; []; [OErr]; []; []; [OStop 4 false]] /\
      o_tmrs (observe (run_state s0 ops)) = [(5, 3); (5, 1); (5, 0); (8, 3); (13, 3)]%Z /\
      C14_ok 5 3 (observe s0) (run s0 ops) = true
  | None => False
  end.
Proof. vm_compute. repeat split; reflexivity. Qed.

(* Non-vacuity (b): the monitor rejects hand-made bad traces.
   Initial observation below: current = 1 (available), endpoint 2 unavailable. *)

(* sanity: a correct reaction is accepted (r = 5: endpoint 1 enters a recovery window) *)
Example c14_good_trace :
  C14_ok 5 0 (mkObs 1 [mkOep 1 0 1 (-1); mkOep 2 1 0 (-1)] [] 0)
    [mkEvent (OpAvail 1 false) [ONewTimer 5]
       (mkObs 1 [mkOep 1 0 2 0; mkOep 2 1 0 (-1)] [(5, 0)] 0)] = true.
Proof. vm_compute; reflexivity. Qed.

(* the recovery window has the wrong length *)
Example c14_bad_wrong_window :
  C14_ok 5 0 (mkObs 1 [mkOep 1 0 1 (-1); mkOep 2 1 0 (-1)] [] 0)
    [mkEvent (OpAvail 1 false) [ONewTimer 4]
       (mkObs 1 [mkOep 1 0 2 0; mkOep 2 1 0 (-1)] [(4, 0)] 0)] = false.
Proof. vm_compute; reflexivity. Qed.

(* a clock tick takes an endpoint out of the available state *)
Example c14_bad_timer_unavails :
  C14_ok 5 0 (mkObs 1 [mkOep 1 0 1 (-1); mkOep 2 1 0 (-1)] [] 0)
    [mkEvent (OpAdvance 1) [] (mkObs 1 [mkOep 1 0 0 (-1); mkOep 2 1 0 (-1)] [] 1)] = false.
Proof. vm_compute; reflexivity. Qed.

(* no timer is active, endpoint 1 (priority 0) is available, but current is 2 *)
Example c14_bad_no_convergence :
  C14_ok 0 3 (mkObs 2 [mkOep 1 0 0 (-1); mkOep 2 1 1 (-1)] [] 0)
    [mkEvent (OpAvail 1 true) [] (mkObs 2 [mkOep 1 0 1 (-1); mkOep 2 1 1 (-1)] [] 0)] = false.
Proof. vm_compute; reflexivity. Qed.

(* with a switching delay, current moves inside the very call that made a better endpoint available *)
Example c14_bad_immediate_switch :
  C14_ok 0 3 (mkObs 2 [mkOep 1 0 0 (-1); mkOep 2 1 1 (-1)] [] 0)
    [mkEvent (OpAvail 1 true) [] (mkObs 1 [mkOep 1 0 1 (-1); mkOep 2 1 1 (-1)] [] 0)] = false.
Proof. vm_compute; reflexivity. Qed.

(* current leaves a recovering endpoint although nothing better is available *)
Example c14_bad_leaves_recovery_window :
  C14_ok 5 0 (mkObs 1 [mkOep 1 0 2 0; mkOep 2 1 0 (-1)] [(5, 0)] 0)
    [mkEvent (OpAdvance 1) [] (mkObs 2 [mkOep 1 0 2 0; mkOep 2 1 0 (-1)] [(5, 0)] 1)] = false.
Proof. vm_compute; reflexivity. Qed.

(* C14T non-vacuity.  Before: endpoint 1 is recovering, its latest timer is #1
   (due 13); timer #0 (due 5) is a stale timer of an earlier window, already firing. *)

(* sanity: the endpoint's own timer, due, ends the window *)
Example c14t_good_trace :
  C14T_ok 5 (mkObs 1 [mkOep 1 0 2 1] [(5, 3); (13, 2)] 13)
    [mkEvent (OpEnd 1) [OStop 1 false] (mkObs 1 [mkOep 1 0 0 1] [(5, 3); (13, 3)] 13)] = true.
Proof. vm_compute; reflexivity. Qed.

(* the seeded bug: the stale timer #0 runs late and ends the NEW window *)
Example c14t_bad_stale_timer_ends_window :
  C14T_ok 5 (mkObs 1 [mkOep 1 0 2 1] [(5, 2); (13, 0)] 8)
    [mkEvent (OpEnd 0) [OStop 1 true] (mkObs 1 [mkOep 1 0 0 1] [(5, 3); (13, 1)] 8)] = false.
Proof. vm_compute; reflexivity. Qed.

(* the own timer ends the window before it is due *)
Example c14t_bad_window_cut_short :
  C14T_ok 5 (mkObs 1 [mkOep 1 0 2 1] [(5, 3); (13, 2)] 8)
    [mkEvent (OpEnd 1) [OStop 1 false] (mkObs 1 [mkOep 1 0 0 1] [(5, 3); (13, 3)] 8)] = false.
Proof. vm_compute; reflexivity. Qed.

(* a clock tick ends the window *)
Example c14t_bad_tick_ends_window :
  C14T_ok 5 (mkObs 1 [mkOep 1 0 2 1] [(5, 3); (13, 0)] 8)
    [mkEvent (OpAdvance 5) [] (mkObs 1 [mkOep 1 0 0 1] [(5, 3); (13, 0)] 13)] = false.
Proof. vm_compute; reflexivity. Qed.

(* the concrete model history of c14_history also satisfies C14T (its last
   event is a recovery window ended by its own timer #4 when due) *)
Example c14t_history :
  let ops := [OpAvail 2 true; OpAdvance 5; OpBegin 0; OpEnd 0; OpAvail 1 true; OpAdvance 3;
              OpBegin 3; OpEnd 3; OpSet [3%N; 1%N]; OpAvail 1 false; OpBegin 7; OpSet [];
              OpAdvance 5; OpBegin 4; OpEnd 4] in
  match NewMultiEndpoint [1%N; 2%N; 3%N] 5 3 with
  | Some (s0, _) => C14T_ok 5 (observe s0) (run s0 ops) = true
  | None => False
  end.
Proof. vm_compute; reflexivity. Qed.
