(* Engine B: executable model of grpcgcp/multiendpoint (multiendpoint.go, endpoint.go).
   Function-for-function after the Go source.  No proofs in this file.

   Strings are numbered (N); 0 is the empty string (the initial value of
   [future]).  Times are Z nanoseconds on the harness' virtual clock; the zero
   time.Time of a freshly created endpoint is [zero_time] = -1, which no clock
   reading equals (the clock starts at 0 and never goes back).
   Endpoint objects live on a heap (list, append-only) so that a timer closure
   that captured a since-removed endpoint behaves as in Go. *)
From Coq Require Export List ZArith NArith Bool Lia.
Export ListNotations.
Open Scope Z_scope.

Inductive status := Unavailable | Available | Recovering.

Definition status_eqb (a b : status) : bool :=
  match a, b with
  | Unavailable, Unavailable | Available, Available | Recovering, Recovering => true
  | _, _ => false
  end.

Record ep := mkEp {
  e_id : N;
  e_prio : Z;
  e_st : status;
  e_last : Z;             (* lastChange *)
  e_tmr : option nat      (* futureChange: index into the timer table *)
}.

Inductive tkind :=
| TRec (cell : nat) (stamp : Z)   (* closure of scheduleUnavailable: captured e, stateChange *)
| TSwitch.                        (* closure of switchFromTo: reads me.future when it runs *)

Inductive tstate := Pending | Stopped | Firing | Done.

Record timer := mkTimer { t_due : Z; t_kind : tkind; t_st : tstate }.

Record me := mkMe {
  heap : list ep;
  emap : list (N * nat);   (* me.endpoints : id -> heap cell *)
  recov : Z;
  delay : Z;
  cur : N;
  fut : N;
  timers : list timer;
  now : Z
}.

Definition zero_time : Z := -1.

(* What the fake clock/timer factory sees the library do. *)
Inductive out :=
| ONewTimer (d : Z)
| OStop (k : nat) (was_pending : bool)
| OErr.

Definition set_heap (s : me) h := mkMe h (emap s) (recov s) (delay s) (cur s) (fut s) (timers s) (now s).
Definition set_emap (s : me) m := mkMe (heap s) m (recov s) (delay s) (cur s) (fut s) (timers s) (now s).
Definition set_cur (s : me) c := mkMe (heap s) (emap s) (recov s) (delay s) c (fut s) (timers s) (now s).
Definition set_fut (s : me) f := mkMe (heap s) (emap s) (recov s) (delay s) (cur s) f (timers s) (now s).
Definition set_timers (s : me) t := mkMe (heap s) (emap s) (recov s) (delay s) (cur s) (fut s) t (now s).
Definition set_now (s : me) t := mkMe (heap s) (emap s) (recov s) (delay s) (cur s) (fut s) (timers s) t.

Fixpoint upd_nth {A} (n : nat) (f : A -> A) (l : list A) : list A :=
  match l, n with
  | [], _ => []
  | x :: r, O => f x :: r
  | x :: r, S n' => x :: upd_nth n' f r
  end.

Fixpoint lookup (m : list (N * nat)) (id : N) : option nat :=
  match m with
  | [] => None
  | (k, c) :: r => if N.eqb k id then Some c else lookup r id
  end.

Definition remove_key (m : list (N * nat)) (id : N) : list (N * nat) :=
  filter (fun kc => negb (N.eqb (fst kc) id)) m.

(* m[id] = c *)
Definition insert (m : list (N * nat)) (id : N) (c : nat) : list (N * nat) :=
  match lookup m id with
  | Some _ => map (fun kc => if N.eqb (fst kc) id then (id, c) else kc) m
  | None => m ++ [(id, c)]
  end.

Definition get_ep (s : me) (c : nat) : option ep := nth_error (heap s) c.

Definition ep_of_id (s : me) (id : N) : option ep :=
  match lookup (emap s) id with
  | Some c => get_ep s c
  | None => None
  end.

Definition with_st (e : ep) st t := mkEp (e_id e) (e_prio e) st t (e_tmr e).
Definition with_tmr (e : ep) k := mkEp (e_id e) (e_prio e) (e_st e) (e_last e) (Some k).
Definition with_prio (e : ep) p := mkEp (e_id e) p (e_st e) (e_last e) (e_tmr e).
Definition with_tst (t : timer) st := mkTimer (t_due t) (t_kind t) st.

(* timerAlike.Stop(): effective only on a pending timer. *)
Definition stop_timer (s : me) (k : nat) : me * list out :=
  match nth_error (timers s) k with
  | Some t =>
      match t_st t with
      | Pending => (set_timers s (upd_nth k (fun t => with_tst t Stopped) (timers s)), [OStop k true])
      | _ => (s, [OStop k false])
      end
  | None => (s, [OStop k false])
  end.

(* func setState(e *endpoint, s status) *)
Definition setState (s : me) (c : nat) (st : status) : me * list out :=
  match get_ep s c with
  | Some e =>
      let '(s1, o1) := match e_tmr e with Some k => stop_timer s k | None => (s, []) end in
      (set_heap s1 (upd_nth c (fun e => with_st e st (now s1)) (heap s1)), o1)
  | None => (s, [])
  end.

(* timeAfterFunc(d, f) *)
Definition new_timer (s : me) (d : Z) (k : tkind) : me * nat * list out :=
  let idx := length (timers s) in
  (set_timers s (timers s ++ [mkTimer (now s + d) k Pending]), idx, [ONewTimer d]).

(* func (me *multiEndpoint) scheduleUnavailable(e *endpoint) *)
Definition scheduleUnavailable (s : me) (c : nat) : me * list out :=
  match get_ep s c with
  | Some e =>
      let '(s1, k, o) := new_timer s (recov s) (TRec c (e_last e)) in
      (set_heap s1 (upd_nth c (fun e => with_tmr e k) (heap s1)), o)
  | None => (s, [])
  end.

(* func (me *multiEndpoint) newEndpoint(id string, priority int) *endpoint
   returns the new heap cell. *)
Definition newEndpoint (s : me) (id : N) (prio : Z) : me * nat * list out :=
  let st := if 0 <? recov s then Recovering else Unavailable in
  let c := length (heap s) in
  let s1 := set_heap s (heap s ++ [mkEp id prio st zero_time None]) in
  match st with
  | Recovering => let '(s2, o) := scheduleUnavailable s1 c in (s2, c, o)
  | _ => (s1, c, [])
  end.

(* The two scans of maybeUpdateCurrent.  Priorities of mapped endpoints are
   pairwise distinct (an invariant proved in Inv.v), so Go's map iteration
   order does not matter; the model folds in emap order. *)
Definition better (cand : option ep) (e : ep) : option ep :=
  match cand with
  | None => Some e
  | Some t => if e_prio e <? e_prio t then Some e else Some t
  end.

Definition mapped_eps (s : me) : list ep :=
  flat_map (fun kc => match get_ep s (snd kc) with Some e => [e] | None => [] end) (emap s).

Definition topAvail (s : me) : option ep :=
  fold_left (fun acc e => if status_eqb (e_st e) Available then better acc e else acc) (mapped_eps s) None.

Definition topAny (s : me) : option ep :=
  fold_left better (mapped_eps s) None.

(* func (me *multiEndpoint) switchFromTo(f, t *endpoint) *)
Definition switchFromTo (s : me) (f : option ep) (t : ep) : me * list out :=
  if N.eqb (cur s) (e_id t) then (s, [])
  else if (delay s =? 0) || match f with None => true | Some fe => status_eqb (e_st fe) Unavailable end
  then (set_cur s (e_id t), [])
  else
    let s1 := set_fut s (e_id t) in
    let '(s2, _, o) := new_timer s1 (delay s1) TSwitch in (s2, o).

(* the first half of maybeUpdateCurrent: is the current endpoint recovering
   with no higher-priority endpoint available? *)
Definition hold_current (s : me) : bool :=
  match ep_of_id s (cur s) with
  | Some ce => status_eqb (e_st ce) Recovering &&
               match topAvail s with None => true | Some ta => e_prio ce <? e_prio ta end
  | None => false
  end.

(* func (me *multiEndpoint) maybeUpdateCurrent() *)
Definition maybeUpdateCurrent (s : me) : me * list out :=
  let c := ep_of_id s (cur s) in
  if hold_current s then (s, [])
  else match topAvail s with
       | Some ta => switchFromTo s c ta
       | None =>
           match c with
           | Some _ => (s, [])
           | None => match topAny s with
                     | Some t => (set_cur s (e_id t), [])
                     | None => (s, [])    (* unreachable: the map is never empty *)
                     end
           end
       end.

(* func (me *multiEndpoint) setEndpointAvailability(e string, avail bool) *)
Definition setEndpointAvailability (s : me) (id : N) (avail : bool) : me * list out :=
  match lookup (emap s) id with
  | None => (s, [])
  | Some c =>
      match get_ep s c with
      | None => (s, [])
      | Some ee =>
          if avail then setState s c Available
          else if negb (status_eqb (e_st ee) Available) then (s, [])
          else if recov s =? 0 then setState s c Unavailable
          else let '(s1, o1) := setState s c Recovering in
               let '(s2, o2) := scheduleUnavailable s1 c in (s2, o1 ++ o2)
      end
  end.

(* func (me *multiEndpoint) SetEndpointAvailability(e string, avail bool) *)
Definition SetEndpointAvailability (s : me) (id : N) (avail : bool) : me * list out :=
  let '(s1, o1) := setEndpointAvailability s id avail in
  let '(s2, o2) := maybeUpdateCurrent s1 in (s2, o1 ++ o2).

Definition memN (x : N) (l : list N) : bool := existsb (N.eqb x) l.

(* the "add new endpoints and update priority" loop *)
Fixpoint add_or_update (s : me) (ids : list N) (i : Z) : me * list out :=
  match ids with
  | [] => (s, [])
  | id :: r =>
      let '(s1, o1) :=
        match lookup (emap s) id with
        | None => let '(s', c, o) := newEndpoint s id i in (set_emap s' (insert (emap s') id c), o)
        | Some c => (set_heap s (upd_nth c (fun e => with_prio e i) (heap s)), [])
        end in
      let '(s2, o2) := add_or_update s1 r (i + 1) in (s2, o1 ++ o2)
  end.

(* func (me *multiEndpoint) SetEndpoints(endpoints []string) error *)
Definition SetEndpoints (s : me) (ids : list N) : me * list out :=
  match ids with
  | [] => (s, [OErr])
  | _ =>
      let s1 := set_emap s (filter (fun kc => memN (fst kc) ids) (emap s)) in
      let '(s2, o2) := add_or_update s1 ids 0 in
      let '(s3, o3) := maybeUpdateCurrent s2 in (s3, o2 ++ o3)
  end.

(* the loop of NewMultiEndpoint: eMap[e] = me.newEndpoint(e, i) *)
Fixpoint new_all (s : me) (ids : list N) (i : Z) : me * list out :=
  match ids with
  | [] => (s, [])
  | id :: r =>
      let '(s', c, o1) := newEndpoint s id i in
      let s1 := set_emap s' (insert (emap s') id c) in
      let '(s2, o2) := new_all s1 r (i + 1) in (s2, o1 ++ o2)
  end.

(* func NewMultiEndpoint(b *MultiEndpointOptions) (MultiEndpoint, error) *)
Definition NewMultiEndpoint (ids : list N) (r d : Z) : option (me * list out) :=
  match ids with
  | [] => None
  | first :: _ => Some (new_all (mkMe [] [] r d first 0%N [] 0) ids 0)
  end.

(* the closure scheduled by switchFromTo (after the fix of finding M1: the
   scheduled switch is re-validated when the timer fires) *)
Definition switchTarget (s : me) : option ep :=
  if hold_current s then None else topAvail s.

Definition run_switch (s : me) : me * list out :=
  match switchTarget s with
  | Some e => if N.eqb (e_id e) (fut s) then (set_cur s (e_id e), []) else (s, [])
  | None => (s, [])
  end.

(* the closure scheduled by scheduleUnavailable *)
Definition run_recovery (s : me) (c : nat) (stamp : Z) : me * list out :=
  match get_ep s c with
  | Some e =>
      if negb (e_last e =? stamp) then (s, [])
      else let '(s1, o1) := setState s c Unavailable in
           let '(s2, o2) := maybeUpdateCurrent s1 in (s2, o1 ++ o2)
  | None => (s, [])
  end.

Inductive op :=
| OpAvail (id : N) (b : bool)
| OpSet (ids : list N)
| OpAdvance (dt : Z)
| OpBegin (k : nat)    (* the runtime fires timer k: from now on Stop() returns false *)
| OpEnd (k : nat).     (* ... and its callback gets the lock and runs *)

Definition can_begin (s : me) (k : nat) : bool :=
  match nth_error (timers s) k with
  | Some t => match t_st t with Pending => t_due t <=? now s | _ => false end
  | None => false
  end.

Definition can_end (s : me) (k : nat) : bool :=
  match nth_error (timers s) k with
  | Some t => match t_st t with Firing => true | _ => false end
  | None => false
  end.

Definition legal (s : me) (o : op) : bool :=
  match o with
  | OpAdvance dt => 0 <=? dt
  | OpBegin k => can_begin s k
  | OpEnd k => can_end s k
  | _ => true
  end.

Definition step (s : me) (o : op) : me * list out :=
  match o with
  | OpAvail id b => SetEndpointAvailability s id b
  | OpSet ids => SetEndpoints s ids
  | OpAdvance dt => if 0 <=? dt then (set_now s (now s + dt), []) else (s, [])
  | OpBegin k =>
      if can_begin s k then (set_timers s (upd_nth k (fun t => with_tst t Firing) (timers s)), [])
      else (s, [])
  | OpEnd k =>
      if can_end s k then
        let s1 := set_timers s (upd_nth k (fun t => with_tst t Done) (timers s)) in
        match nth_error (timers s) k with
        | Some t => match t_kind t with
                    | TRec c stamp => run_recovery s1 c stamp
                    | TSwitch => run_switch s1
                    end
        | None => (s, [])
        end
      else (s, [])
  end.

(* ---- observation: what the harness reads back after every operation ---- *)
Definition st_code (st : status) : Z :=
  match st with Unavailable => 0 | Available => 1 | Recovering => 2 end.

Definition tst_code (st : tstate) : Z :=
  match st with Pending => 0 | Stopped => 1 | Firing => 2 | Done => 3 end.

Record oep := mkOep { oe_id : N; oe_prio : Z; oe_st : Z; oe_tmr : Z (* timer index or -1 *) }.

Record obs := mkObs {
  o_cur : N;
  o_eps : list oep;             (* the mapped endpoints, sorted by id *)
  o_tmrs : list (Z * Z);        (* (due, state code) per timer, creation order *)
  o_now : Z                     (* the virtual clock *)
}.

Fixpoint insert_sorted (x : oep) (l : list oep) :=
  match l with
  | [] => [x]
  | y :: r => if N.leb (oe_id x) (oe_id y) then x :: l else y :: insert_sorted x r
  end.

Definition oep_of (e : ep) : oep :=
  mkOep (e_id e) (e_prio e) (st_code (e_st e))
        (match e_tmr e with Some k => Z.of_nat k | None => -1 end).

Definition observe (s : me) : obs :=
  mkObs (cur s)
        (fold_right insert_sorted [] (map oep_of (mapped_eps s)))
        (map (fun t => (t_due t, tst_code (t_st t))) (timers s))
        (now s).

(* An event of a trace: operation, outputs, observation afterwards. *)
Record event := mkEvent { ev_op : op; ev_out : list out; ev_obs : obs }.

Fixpoint run (s : me) (ops : list op) : list event :=
  match ops with
  | [] => []
  | o :: r => let '(s', outs) := step s o in mkEvent o outs (observe s') :: run s' r
  end.

Fixpoint run_state (s : me) (ops : list op) : me :=
  match ops with
  | [] => s
  | o :: r => run_state (fst (step s o)) r
  end.
