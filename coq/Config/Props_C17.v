(* Property C17 - configuration: defaults, fidelity and immutability of the pool config.

   What is proved, and about what:
   * about the MODEL of protojson (third-party; modelled, not verified; tied to
     the real decoder by the differential run): round trip, soundness,
     acceptance rules, for the library as it is ([of_json]) and for the
     documented mapping ([of_json_strict]);
   * about the repo's own logic: initializeConfig, the method table, "the
     configuration is fixed by the first resolver update";
   * the tie between the model and the monitors run on the implementation:
     a case the model reproduces satisfies the monitor.
   Immutability / non-aliasing have no content in a functional model and are
   checked on the implementation only (monitors [bal_ok], [gcp_ok]). *)
From GV Require Import Config.Model Config.Monitors Config.NumProofs Config.Proofs.
Open Scope Z_scope.

(* ---------------------------------------------------------- protojson model *)
Theorem parse_render_roundtrip : forall c, wf c -> of_json (to_json c) = Some c.
Proof. exact parse_render_roundtrip_l. Qed.
Print Assumptions parse_render_roundtrip.

Theorem parse_render_roundtrip_strict : forall c, wf c -> of_json_strict (to_json c) = Some c.
Proof. exact parse_render_roundtrip_strict_l. Qed.
Print Assumptions parse_render_roundtrip_strict.

(* whatever is accepted is a value of the Go types and is the value its own
   canonical rendering denotes: j and to_json c are renderings of the same c *)
Theorem of_json_sound : forall j c, of_json j = Some c -> wf c /\ of_json (to_json c) = Some c.
Proof. exact of_json_sound_l. Qed.
Print Assumptions of_json_sound.

Theorem of_json_strict_sound : forall j c, of_json_strict j = Some c -> wf c /\ of_json_strict (to_json c) = Some c.
Proof. exact of_json_strict_sound_l. Qed.
Print Assumptions of_json_strict_sound.

Theorem lax_strict_agree_on_renderings : forall c, wf c -> of_json (to_json c) = of_json_strict (to_json c).
Proof. exact lax_strict_agree_on_renderings_l. Qed.
Print Assumptions lax_strict_agree_on_renderings.

Theorem rule_top_level_object : forall d j, (forall l, j <> JObj l) -> of_json_with d j = None.
Proof. exact rule_top_level_object_l. Qed.
Print Assumptions rule_top_level_object.

Theorem rule_unknown_member : forall d l k v, In (k, v) l -> cfg_fid k = None -> of_json_with d (JObj l) = None.
Proof. exact rule_unknown_member_l. Qed.
Print Assumptions rule_unknown_member.

Theorem rule_duplicate_member : forall d l1 k v l2 k' v' l3, cfg_fid k = cfg_fid k' ->
  of_json_with d (JObj (l1 ++ (k, v) :: l2 ++ (k', v') :: l3)) = None.
Proof. exact rule_duplicate_member_l. Qed.
Print Assumptions rule_duplicate_member.

Theorem rule_pool_unknown_member : forall d l k v, In (k, v) l -> pool_fid k = None -> of_pool d (JObj l) = None.
Proof. exact rule_pool_unknown_member_l. Qed.
Print Assumptions rule_pool_unknown_member.

Theorem rule_pool_duplicate_member : forall d l1 k v l2 k' v' l3, pool_fid k = pool_fid k' ->
  of_pool d (JObj (l1 ++ (k, v) :: l2 ++ (k', v') :: l3)) = None.
Proof. exact rule_pool_duplicate_member_l. Qed.
Print Assumptions rule_pool_duplicate_member.

(* ------------------------------------------------------------- repo logic *)
Theorem effective_spec : forall i,
  let src := match i with Some c => c | None => empty_cfg end in
  let sp := pool_of src in
  effective i =
  mkCfg (Some (mkPool (default_of (max_size sp) 4) (idle_timeout sp) (default_of (low_watermark sp) 100)
                      (default_of (min_size sp) 1) (fallback_to_ready sp) (unresp_ms sp) (unresp_calls sp)
                      (bind_strategy sp)))
        (methods src).
Proof. exact effective_spec_l. Qed.
Print Assumptions effective_spec.

Theorem effective_monitor : forall i e, effective_ok i e = true <-> e = effective i.
Proof. exact effective_monitor_l. Qed.
Print Assumptions effective_monitor.

Theorem effective_idempotent : forall i, effective (Some (effective i)) = effective i.
Proof. exact effective_idempotent_l. Qed.
Print Assumptions effective_idempotent.

Theorem effective_untouched : forall c p, channel_pool c = Some p ->
  min_size p <> 0 -> max_size p <> 0 -> low_watermark p <> 0 -> effective (Some c) = c.
Proof. exact effective_untouched_l. Qed.
Print Assumptions effective_untouched.

(* the Go map filled in entry order = the last entry that lists the name wins *)
Theorem method_table_spec : forall c m, lookup (method_table c) m = spec_lookup (methods c) m.
Proof. exact method_table_spec_l. Qed.
Print Assumptions method_table_spec.

Theorem method_table_unique : forall c m a, NoDup (all_names (methods c)) ->
  (lookup (method_table c) m = Some a <->
   exists e, In e (methods c) /\ In m (names e) /\ affinity e = Some a).
Proof. exact method_table_unique_l. Qed.
Print Assumptions method_table_unique.

Theorem method_table_none : forall c m, ~ In m (all_names (methods c)) -> lookup (method_table c) m = None.
Proof. exact method_table_none_l. Qed.
Print Assumptions method_table_none.

(* over every sequence of environment steps: foreign-type configs and
   connections shutting down before the first accepted update; after it any
   update (any config, nil, wrong type, SubConn creation refused or not) and
   any number of connections shutting down - an emptied pool included *)
Theorem config_fixed_once : forall l1 i r l2,
  Forall no_config_step l1 -> i <> InForeign ->
  b_cfg (run_steps init_state (l1 ++ SUpdate i r :: l2)) = Some (effective (incoming_cfg i)).
Proof. exact config_fixed_once_l. Qed.
Print Assumptions config_fixed_once.

Theorem config_never_changes : forall l s e c, b_cfg (step s e) = Some c -> b_cfg (run_steps s (e :: l)) = Some c.
Proof. exact config_never_changes_l. Qed.
Print Assumptions config_never_changes.

(* ------------------------------------------------- model <-> monitors *)
Theorem accepted_c17core : forall c, case_wf c -> accept_case c = None -> c17core c = true.
Proof. exact accepted_c17core_l. Qed.
Print Assumptions accepted_c17core.

Theorem accepted_c17 : forall c, case_wf c -> accept_case c = None ->
  (forall j res, c = CParse j res -> of_json j = of_json_strict j) -> c17 c = true.
Proof. exact accepted_c17_l. Qed.
Print Assumptions accepted_c17.

(* ------------------------------------------------------------ examples *)
Definition s (l : list Z) : str := map Z.to_N l.

Definition ex_cfg : ApiConfig :=
  mkCfg (Some (mkPool 0 18446744073709551615 0 2 true 0 6 7))
        [mkMethod [s [97]; s [98]] (Some (mkAff 1 (s [107]))); mkMethod [] None;
         mkMethod [s [98]; s [99]] (Some (mkAff 2 [])); mkMethod [s [97]] None].

(* non-vacuity: a config with extreme values, an unknown enum number and overlapping names round-trips *)
Example ex_roundtrip : of_json (to_json ex_cfg) = Some ex_cfg /\ of_json_strict (to_json ex_cfg) = Some ex_cfg.
Proof. vm_compute. auto. Qed.

Example ex_effective :
  effective (Some ex_cfg) = mkCfg (Some (mkPool 4 18446744073709551615 100 2 true 0 6 7)) (methods ex_cfg) /\
  effective None = mkCfg (Some (mkPool 4 0 100 1 false 0 0 0)) [] /\
  effective (Some empty_cfg) = effective None.
Proof. vm_compute. auto. Qed.

(* last entry wins for "b"; "a" keeps the first entry because the last one has no affinity section *)
Example ex_table :
  lookup (method_table ex_cfg) (s [98]) = Some (mkAff 2 []) /\
  lookup (method_table ex_cfg) (s [97]) = Some (mkAff 1 (s [107])) /\
  lookup (method_table ex_cfg) (s [100]) = None.
Proof. vm_compute. auto. Qed.

(* the monitor is not trivially true: a balancer that applied the default 5 instead of 4 fails it ... *)
Definition ex_obs (mx : Z) : uobs :=
  mkUobs (Some (mkCfg (Some (mkPool mx 0 100 1 false 0 0 0)) [])) [] false 1.
Example ex_monitor_false :
  c17 (CBalancer 1 4 100 [EvUpdate (InNil 0) false (mkOut false 1 1 1) true (ex_obs 5)]) = false /\
  c17 (CBalancer 1 4 100 [EvUpdate (InNil 0) false (mkOut false 1 1 1) true (ex_obs 4)]) = true.
Proof. vm_compute. auto. Qed.

(* ... so does one that re-reads the configuration on the second update, and one whose
   state follows the caller's message when that is overwritten *)
Definition cfg9 : ApiConfig := mkCfg (Some (mkPool 9 0 0 0 false 0 0 0)) [].
Example ex_fixed_once_false :
  c17 (CBalancer 1 4 100 [EvUpdate (InNil 0) false (mkOut false 1 1 1) true (ex_obs 4);
                          EvUpdate (InCfg cfg9) false (mkOut false 0 0 1) true (ex_obs 9)]) = false /\
  c17 (CBalancer 1 4 100 [EvUpdate (InNil 0) false (mkOut false 1 1 1) true (ex_obs 4); EvMutate (ex_obs 11)]) = false.
Proof. vm_compute. auto. Qed.

(* the pool is emptied between two updates (every connection reports Shutdown), or no
   connection could be created during the first one: the second update's config must
   still be ignored.  The model keeps the first config; a trace in which the balancer
   took the second one fails the monitor and is rejected by the model. *)
Definition ex_obs_p (mx pool : Z) : uobs :=
  mkUobs (Some (mkCfg (Some (mkPool mx 0 100 1 false 0 0 0)) [])) [] false pool.
Example ex_emptied_pool :
  b_cfg (run_steps init_state [SUpdate (InNil 0) false; SShutdown 1000; SUpdate (InCfg cfg9) false]) = Some (effective None) /\
  b_cfg (run_steps init_state [SUpdate (InNil 0) true; SUpdate (InCfg cfg9) false]) = Some (effective None) /\
  (let good := [EvUpdate (InNil 0) false (mkOut false 1 1 1) true (ex_obs_p 4 1); EvShutdown 1000 (ex_obs_p 4 0);
                EvUpdate (InCfg cfg9) false (mkOut false 1 1 0) true (ex_obs_p 4 1)] in
   c17 (CBalancer 1 4 100 good) = true /\ accept_case (CBalancer 1 4 100 good) = None) /\
  (let bad := [EvUpdate (InNil 0) false (mkOut false 1 1 1) true (ex_obs_p 4 1); EvShutdown 1000 (ex_obs_p 4 0);
               EvUpdate (InCfg cfg9) false (mkOut false 1 1 1) true (ex_obs_p 9 1)] in
   c17 (CBalancer 1 4 100 bad) = false /\ accept_case (CBalancer 1 4 100 bad) <> None) /\
  (let bad2 := [EvUpdate (InNil 0) true (mkOut false 2 0 0) true (ex_obs_p 4 0);
                EvUpdate (InCfg cfg9) false (mkOut false 1 1 1) true (ex_obs_p 9 1)] in
   c17 (CBalancer 1 4 100 bad2) = false).
Proof. vm_compute. repeat split; auto; discriminate. Qed.

(* known findings: the inputs, what the library does, what the documented mapping says *)
Definition pool_with (k : str) (v : json) : json := JObj [(n_channelPool, JObj [(k, v)])].
Definition max1 : option ApiConfig := Some (mkCfg (Some (mkPool 1 0 0 0 false 0 0 0)) []).
Definition max10 : option ApiConfig := Some (mkCfg (Some (mkPool 10 0 0 0 false 0 0 0)) []).

(* PJ1  {"channelPool":{"maxSize":"1 2"}} *)
Example ex_PJ1 :
  let j := pool_with n_maxSize (JStr (s [49; 32; 50])) in
  of_json j = max1 /\ of_json_strict j = None /\
  k_PJ1 (CParse j max1) = true /\ k_PJ2 (CParse j max1) = false /\ k_PJ3 (CParse j max1) = false /\ c17 (CParse j max1) = false.
Proof. vm_compute. auto 10. Qed.

(* PJ2  {"channelPool":{"maxSize":1e}} *)
Example ex_PJ2 :
  let j := pool_with n_maxSize (JNum (s [49; 101])) in
  of_json j = max1 /\ of_json_strict j = None /\
  k_PJ2 (CParse j max1) = true /\ k_PJ1 (CParse j max1) = false /\ k_PJ3 (CParse j max1) = false.
Proof. vm_compute. auto 10. Qed.

(* PJ3  {"channelPool":{"maxSize":0.00000000000000000001e21}}  (= 10) *)
Example ex_PJ3 :
  let j := pool_with n_maxSize (JNum (s ([48; 46] ++ repeat 48 19 ++ [49; 101; 50; 49]))) in
  of_json j = None /\ of_json_strict j = max10 /\
  k_PJ3 (CParse j None) = true /\ k_PJ1 (CParse j None) = false /\ k_PJ2 (CParse j None) = false.
Proof. vm_compute. auto 10. Qed.

(* a different deviation matches no trigger: accepting an unknown member *)
Example ex_other_deviation_not_known :
  let j := JObj [(n_channelPool, JObj [(s [98; 111; 103; 117; 115], JNum (s [49]))])] in
  let res := Some (mkCfg (Some empty_pool) []) in
  c17 (CParse j res) = false /\ k_PJ1 (CParse j res) = false /\ k_PJ2 (CParse j res) = false /\ k_PJ3 (CParse j res) = false.
Proof. vm_compute. auto. Qed.
